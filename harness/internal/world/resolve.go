package world

import (
	"fmt"
	"math/rand"
	"strings"
	"sync/atomic"
	"time"

	"github.com/trustbloc/sidetree-core-go/pkg/api/operation"
	"github.com/trustbloc/sidetree-core-go/pkg/api/protocol"
	"github.com/trustbloc/sidetree-core-go/pkg/document"
	"github.com/trustbloc/sidetree-core-go/pkg/processor"

	"verif/harness/internal/emit"
)

// Table maps implementation strings to the model's numeric identifiers.
type Table struct {
	Commit map[string]int64
	next   int64
}

// NewTable creates a table; "" maps to 0.
func NewTable() *Table { return &Table{Commit: map[string]int64{"": 0}, next: 1} }

// ID returns the identifier of a commitment string (allocating on first sight).
func (t *Table) ID(s string) int64 {
	if v, ok := t.Commit[s]; ok {
		return v
	}
	v := t.next
	t.next++
	t.Commit[s] = v
	return v
}

// Placed is an operation with anchoring coordinates.
type Placed struct {
	Op   *Op
	OID  int64
	Time uint64
	Num  uint64
	CRef int64  // 0 = unpublished
	PVer uint64 // protocol version (= transaction time the protocol client is asked for)
}

// CRefString renders a canonical reference id.
func CRefString(id int64) string {
	if id == 0 {
		return ""
	}
	return fmt.Sprintf("ref%d", id)
}

func crefID(s string) int64 {
	if s == "" {
		return 0
	}
	var v int64
	fmt.Sscanf(s, "ref%d", &v)
	return v
}

// OriginValue renders an anchor origin id.
func OriginValue(id int64) interface{} {
	if id == 0 {
		return nil
	}
	return fmt.Sprintf("origin%d", id)
}

func originID(v interface{}) int64 {
	s, ok := v.(string)
	if !ok {
		return 0
	}
	var x int64
	fmt.Sscanf(s, "origin%d", &x)
	return x
}

// Anchored converts to the library type (fresh value each call: the processor sorts in place).
func (p Placed) Anchored() *operation.AnchoredOperation {
	return &operation.AnchoredOperation{
		Type:                 p.Op.Spec.Type,
		OperationRequest:     p.Op.Request,
		UniqueSuffix:         p.Op.UniqueSuffix,
		TransactionTime:      p.Time,
		TransactionNumber:    p.Num,
		ProtocolVersion:      p.PVer,
		CanonicalReference:   CRefString(p.CRef),
		AnchorOrigin:         p.Op.Spec.Origin,
		EquivalentReferences: []string{fmt.Sprintf("oid:%d", p.OID)},
	}
}

// History is one resolution case.
type History struct {
	Level      int
	Pub        []Placed
	Unpub      []Placed
	Additional []Placed
	VersionID  int64
	// VersionIDRaw, when set, is the version id string handed to the processor; VersionID must then be an
	// identifier that no operation carries (the model sees an unknown id)
	VersionIDRaw string
	VersionTime  *int64
	// VersionTimeOffset (seconds east of UTC) only changes how the same instant is written
	VersionTimeOffset int
	// VersionTimeFrac is a fractional-second suffix (".5", ".999999999"): the instant lies inside the second
	// VersionTime, and "anchored at or before T" is decided by whole seconds
	VersionTimeFrac string
	Note            string
}

type sliceStore struct {
	ops []Placed
}

func (s *sliceStore) Get(string) ([]*operation.AnchoredOperation, error) {
	if len(s.ops) == 0 {
		return nil, fmt.Errorf("uniqueSuffix not found in the store")
	}
	out := make([]*operation.AnchoredOperation, len(s.ops))
	for i, p := range s.ops {
		out[i] = p.Anchored()
	}
	return out, nil
}

// ViaOption moves a random part of the stored history into the resolution option WithAdditionalOperations, in
// shuffled order (one published operation stays in the store so that the store knows the suffix).  What a resolution
// returns must not depend on which way an operation reaches the processor.
func (h *History) ViaOption(rng *rand.Rand) int {
	moved := 0
	var keepP, keepU []Placed
	for i, p := range h.Pub {
		if i > 0 && rng.Intn(2) == 0 {
			h.Additional = append(h.Additional, p)
			moved++
		} else {
			keepP = append(keepP, p)
		}
	}
	for _, p := range h.Unpub {
		if rng.Intn(2) == 0 {
			h.Additional = append(h.Additional, p)
			moved++
		} else {
			keepU = append(keepU, p)
		}
	}
	h.Pub, h.Unpub = keepP, keepU
	rng.Shuffle(len(h.Additional), func(i, j int) { h.Additional[i], h.Additional[j] = h.Additional[j], h.Additional[i] })
	return moved
}

// VersionTimeText renders the version time as RFC 3339, in UTC or with the configured zone offset.
func (h *History) VersionTimeText() string {
	t := time.Unix(*h.VersionTime, 0).UTC()
	if h.VersionTimeOffset != 0 {
		t = t.In(time.FixedZone("", h.VersionTimeOffset))
	}
	if h.VersionTimeFrac != "" {
		return t.Format("2006-01-02T15:04:05") + h.VersionTimeFrac + t.Format("Z07:00")
	}
	return t.Format(time.RFC3339)
}

// Outcome is the projected implementation result.
type Outcome struct {
	Err     string // "" or class
	ErrText string
	Panic   string
	HasDoc  bool
	Doc     []int64
	Upd     int64
	Rec     int64
	Deact   bool
	LastT   uint64
	LastN   uint64
	Created uint64
	Updated uint64
	VID     int64
	Canon   int64
	Origin  int64
	Pub     []int64
	Unpub   []int64
}

// DocIDs projects a document to the content ids of its public keys.
func DocIDs(d document.Document) []int64 {
	var ids []int64
	pks, _ := d["publicKey"].([]interface{})
	for _, e := range pks {
		var id string
		switch m := e.(type) {
		case map[string]interface{}:
			id, _ = m["id"].(string)
		case document.PublicKey:
			id, _ = m["id"].(string)
		}
		var v int64
		fmt.Sscanf(id, "k%d", &v)
		ids = append(ids, v)
	}
	return ids
}

func classify(err error) string {
	s := err.Error()
	switch {
	case strings.Contains(s, "valid create operation not found"):
		return "ENoValidCreate"
	case strings.Contains(s, "create operation not found"):
		return "ENoCreate"
	case strings.Contains(s, "is not a valid versionId"):
		return "EBadVersionId"
	case strings.Contains(s, "no operations found for version time"):
		return "ENoOpsForTime"
	}
	return "EOther"
}

// ResolutionTimeouts counts resolutions that did not terminate within the bound; after a few of them the
// remaining histories of the run are not started any more (their goroutines would spin forever).
var ResolutionTimeouts int32

// ResolutionBound is the wall-clock bound for one resolution.
var ResolutionBound = 15 * time.Second

// Run resolves the history on the real processor, bounded in time: non-termination is an observed outcome.
func (h *History) Run(pc protocol.Client, tb *Table, oidOf func(*operation.AnchoredOperation) int64) Outcome {
	if atomic.LoadInt32(&ResolutionTimeouts) >= 3 {
		return Outcome{Panic: "timeout: not started, earlier resolutions of this run did not terminate"}
	}
	ch := make(chan Outcome, 1)
	go func() { ch <- h.run(pc, tb, oidOf) }()
	select {
	case o := <-ch:
		return o
	case <-time.After(ResolutionBound):
		atomic.AddInt32(&ResolutionTimeouts, 1)
		return Outcome{Panic: fmt.Sprintf("timeout: resolution did not terminate within %s", ResolutionBound)}
	}
}

func (h *History) run(pc protocol.Client, tb *Table, oidOf func(*operation.AnchoredOperation) int64) (out Outcome) {
	defer func() {
		if r := recover(); r != nil {
			out = Outcome{Panic: fmt.Sprint(r)}
		}
	}()
	var popts []processor.Option
	if len(h.Unpub) > 0 {
		popts = append(popts, processor.WithUnpublishedOperationStore(&sliceStore{ops: h.Unpub}))
	}
	proc := processor.New("verif", &sliceStore{ops: h.Pub}, pc, popts...)
	var ropts []document.ResolutionOption
	if (len(h.Pub)+2*len(h.Unpub))%3 == 1 {
		ropts = append(ropts, nil) // a nil option is skipped, wherever it stands in the list
	}
	var addOpt document.ResolutionOption
	if len(h.Additional) > 0 {
		var add []*operation.AnchoredOperation
		for _, p := range h.Additional {
			add = append(add, p.Anchored())
		}
		addOpt = document.WithAdditionalOperations(add)
	}
	// options are independent of each other: the additional operations come first or last in the option list
	addFirst := (len(h.Pub)+len(h.Unpub)+len(h.Additional))%2 == 0
	if addOpt != nil && addFirst {
		ropts = append(ropts, addOpt)
	}
	if h.VersionIDRaw != "" {
		ropts = append(ropts, document.WithVersionID(h.VersionIDRaw))
	} else if h.VersionID != 0 {
		ropts = append(ropts, document.WithVersionID(CRefString(h.VersionID)))
	}
	if h.VersionTime != nil {
		ropts = append(ropts, document.WithVersionTime(h.VersionTimeText()))
	}
	if addOpt != nil && !addFirst {
		ropts = append(ropts, addOpt)
	}
	suffix := "unknown"
	if len(h.Pub) > 0 {
		suffix = h.Pub[0].Op.UniqueSuffix
	} else if len(h.Unpub) > 0 {
		suffix = h.Unpub[0].Op.UniqueSuffix
	}
	rm, err := proc.Resolve(suffix, ropts...)
	if err != nil {
		return Outcome{Err: classify(err), ErrText: err.Error()}
	}
	out.HasDoc = rm.Doc != nil
	out.Doc = DocIDs(rm.Doc)
	out.Upd = tb.ID(rm.UpdateCommitment)
	out.Rec = tb.ID(rm.RecoveryCommitment)
	out.Deact = rm.Deactivated
	out.LastT, out.LastN = rm.LastOperationTransactionTime, rm.LastOperationTransactionNumber
	out.Created, out.Updated = rm.CreatedTime, rm.UpdatedTime
	out.VID = crefID(rm.VersionID)
	out.Canon = crefID(rm.CanonicalReference)
	out.Origin = originID(rm.AnchorOrigin)
	for _, o := range rm.PublishedOperations {
		out.Pub = append(out.Pub, oidOf(o))
	}
	for _, o := range rm.UnpublishedOperations {
		out.Unpub = append(out.Unpub, oidOf(o))
	}
	return out
}

func zlist(v []int64) string {
	items := make([]string, len(v))
	for i, x := range v {
		items[i] = emit.Z(x)
	}
	return emit.List(items)
}

// Gallina renders the outcome as a Process.outcome term.
func (o Outcome) Gallina() string {
	if o.Panic != "" {
		return "OFuel" // never equal to a model result that terminates: reported as mismatch
	}
	if o.Err == "EOther" {
		// an error whose wording is not one of the four known ones: still an error (the comparison is on
		// error-ness only; the class is kept in the case descriptor)
		return "(OErr ENoCreate)"
	}
	if o.Err != "" {
		return "(OErr " + o.Err + ")"
	}
	doc := "None"
	if o.HasDoc {
		doc = "(Some " + zlist(o.Doc) + ")"
	}
	st := emit.App("mk_state", doc, emit.Z(o.Upd), emit.Z(o.Rec), emit.Bool(o.Deact),
		emit.Z(int64(o.LastT)), emit.Z(int64(o.LastN)), emit.Z(int64(o.Created)), emit.Z(int64(o.Updated)),
		emit.Z(o.VID), emit.Z(o.Canon), emit.Z(o.Origin))
	return emit.App("ok", st, zlist(o.Pub), zlist(o.Unpub))
}

func tyName(t operation.Type) string {
	switch t {
	case operation.TypeCreate:
		return "Create"
	case operation.TypeUpdate:
		return "Update"
	case operation.TypeRecover:
		return "Recover"
	}
	return "Deactivate"
}

// MDelta tells the model which MaxOperationTimeDelta the operation is applied under.
type MDelta func(pver uint64) (int64, bool)

// Gallina renders a placed operation as an aop term.
func (p Placed) Gallina(tb *Table, md MDelta) string {
	o := p.Op
	d, ok := md(p.PVer)
	return emit.App("mk_aop", emit.Z(p.OID), tyName(o.Spec.Type), emit.Z(int64(p.Time)), emit.Z(int64(p.Num)), emit.Z(p.CRef),
		emit.Opt(ok, emit.Z(d)),
		emit.Bool(o.ParseOK), emit.Z(tb.ID(o.RevealC)),
		emit.Bool(o.SigOK), emit.Bool(o.SfxOK), emit.Bool(o.DHashOK), emit.Bool(o.DValid), emit.Bool(o.PatchOK),
		emit.Z(o.Spec.From), emit.Z(o.Spec.Until),
		emit.Z(o.Spec.DeltaID), emit.Z(tb.ID(o.UpdC)), emit.Z(tb.ID(o.RecC)), emit.Z(o.Spec.OriginID))
}

// CaseGallina renders the whole case.
func (h *History) CaseGallina(tb *Table, md MDelta, out Outcome) string {
	ls := func(ps []Placed) string {
		items := make([]string, len(ps))
		for i, p := range ps {
			items[i] = p.Gallina(tb, md)
		}
		return emit.List(items)
	}
	vt := "None"
	if h.VersionTime != nil {
		vt = "(Some " + emit.Z(*h.VersionTime) + ")"
	}
	opts := emit.App("Build_ropts", emit.Z(h.VersionID), vt, ls(h.Additional))
	return emit.App("Build_rcase", emit.Nat(h.Level), ls(h.Pub), ls(h.Unpub), opts, out.Gallina())
}
