package world

import (
	"fmt"

	"github.com/trustbloc/sidetree-core-go/pkg/api/cas"
	"github.com/trustbloc/sidetree-core-go/pkg/api/protocol"
	"github.com/trustbloc/sidetree-core-go/pkg/compression"
	"github.com/trustbloc/sidetree-core-go/pkg/versions/1_0/doccomposer"
	"github.com/trustbloc/sidetree-core-go/pkg/versions/1_0/doctransformer/didtransformer"
	"github.com/trustbloc/sidetree-core-go/pkg/versions/1_0/docvalidator/didvalidator"
	"github.com/trustbloc/sidetree-core-go/pkg/versions/1_0/operationapplier"
	"github.com/trustbloc/sidetree-core-go/pkg/versions/1_0/operationparser"
	"github.com/trustbloc/sidetree-core-go/pkg/versions/1_0/txnprocessor"
	"github.com/trustbloc/sidetree-core-go/pkg/versions/1_0/txnprovider"
)

// SHA256 and SHA512 multihash codes.
const (
	SHA256 = 18
	SHA512 = 19
)

// DefaultProtocol returns protocol parameters in which every numeric limit has a different value,
// so that a wrong-parameter bug cannot hide behind equal values.
func DefaultProtocol() protocol.Protocol {
	return protocol.Protocol{
		GenesisTime:                  0,
		MultihashAlgorithms:          []uint{SHA256, SHA512},
		MaxOperationCount:            4,
		MaxOperationSize:             6000,
		MaxOperationHashLength:       100,
		MaxDeltaSize:                 3000,
		MaxCasURILength:              120,
		CompressionAlgorithm:         "GZIP",
		MaxChunkFileSize:             60000,
		MaxProvisionalIndexFileSize:  50000,
		MaxCoreIndexFileSize:         40000,
		MaxProofFileSize:             45000,
		SignatureAlgorithms:          append([]string{}, AllAlgs...),
		KeyAlgorithms:                append([]string{}, AllCrvs...),
		Patches:                      []string{"replace", "add-public-keys", "remove-public-keys", "add-services", "remove-services", "ietf-json-patch", "add-also-known-as", "remove-also-known-as"},
		MaxOperationTimeDelta:        7200,
		NonceSize:                    16,
		MaxMemoryDecompressionFactor: 3,
	}
}

type metricsNoop struct{}

func (metricsNoop) CASWriteSize(string, int) {}

// Version is a protocol.Version built from the real 1.0 components.
type Version struct {
	Name      string
	P         protocol.Protocol
	Parser    *operationparser.Parser
	Applier   *operationapplier.Applier
	Composer  *doccomposer.DocumentComposer
	Handler   *txnprovider.OperationHandler
	Provider  *txnprovider.OperationProvider
	TxnProc   protocol.TxnProcessor
	Validator *didvalidator.Validator
	Transf    *didtransformer.Transformer
	// HandlerOverride, when set, is returned by OperationHandler() (instrumentation)
	HandlerOverride protocol.OperationHandler
}

// DCAS is what the operation provider needs.
type DCAS interface {
	cas.Client
}

// VersionOpts are the pluggable parts.
type VersionOpts struct {
	CAS         cas.Client
	OpStore     txnprocessor.OperationStore
	ParserOpts  []operationparser.Option
	TxnProcOpts []txnprocessor.Option
	TransfOpts  []didtransformer.Option
}

// NewVersion wires a version.
func NewVersion(name string, p protocol.Protocol, o VersionOpts) *Version {
	v := &Version{Name: name, P: p}
	v.Parser = operationparser.New(p, o.ParserOpts...)
	v.Composer = doccomposer.New()
	v.Applier = operationapplier.New(p, v.Parser, v.Composer)
	cp := compression.New(compression.WithDefaultAlgorithms())
	if o.CAS != nil {
		v.Handler = txnprovider.NewOperationHandler(p, o.CAS, cp, v.Parser, metricsNoop{})
		v.Provider = txnprovider.NewOperationProvider(p, v.Parser, o.CAS, cp)
	}
	if o.OpStore != nil && v.Provider != nil {
		v.TxnProc = txnprocessor.New(&txnprocessor.Providers{OpStore: o.OpStore, OperationProtocolProvider: v.Provider}, o.TxnProcOpts...)
	}
	v.Validator = didvalidator.New()
	v.Transf = didtransformer.New(o.TransfOpts...)
	return v
}

// Version implements protocol.Version.
func (v *Version) Version() string { return v.Name }

// Protocol implements protocol.Version.
func (v *Version) Protocol() protocol.Protocol { return v.P }

// TransactionProcessor implements protocol.Version.
func (v *Version) TransactionProcessor() protocol.TxnProcessor { return v.TxnProc }

// OperationParser implements protocol.Version.
func (v *Version) OperationParser() protocol.OperationParser { return v.Parser }

// OperationApplier implements protocol.Version.
func (v *Version) OperationApplier() protocol.OperationApplier { return v.Applier }

// OperationHandler implements protocol.Version.
func (v *Version) OperationHandler() protocol.OperationHandler {
	if v.HandlerOverride != nil {
		return v.HandlerOverride
	}
	return v.Handler
}

// OperationProvider implements protocol.Version.
func (v *Version) OperationProvider() protocol.OperationProvider { return v.Provider }

// DocumentComposer implements protocol.Version.
func (v *Version) DocumentComposer() protocol.DocumentComposer { return v.Composer }

// DocumentValidator implements protocol.Version.
func (v *Version) DocumentValidator() protocol.DocumentValidator { return v.Validator }

// DocumentTransformer implements protocol.Version.
func (v *Version) DocumentTransformer() protocol.DocumentTransformer { return v.Transf }

// Client is a protocol.Client over versions sorted by genesis time.
type Client struct {
	Versions []*Version
}

// Current implements protocol.Client.
func (c *Client) Current() (protocol.Version, error) {
	if len(c.Versions) == 0 {
		return nil, fmt.Errorf("no versions")
	}
	return c.Versions[len(c.Versions)-1], nil
}

// Get implements protocol.Client.
func (c *Client) Get(t uint64) (protocol.Version, error) {
	for i := len(c.Versions) - 1; i >= 0; i-- {
		if t >= c.Versions[i].P.GenesisTime {
			return c.Versions[i], nil
		}
	}
	return nil, fmt.Errorf("protocol parameters are not defined for anchoring time: %d", t)
}
