package world

import (
	"crypto"
	"crypto/ecdsa"
	"crypto/ed25519"
	"crypto/rand"
	"encoding/base64"
	"encoding/json"
	"fmt"
	"github.com/trustbloc/sidetree-core-go/pkg/commitment"
	"github.com/trustbloc/sidetree-core-go/pkg/jws"

	"github.com/trustbloc/sidetree-core-go/pkg/api/operation"
	"github.com/trustbloc/sidetree-core-go/pkg/canonicalizer"
	"github.com/trustbloc/sidetree-core-go/pkg/hashing"
	"github.com/trustbloc/sidetree-core-go/pkg/patch"
)

var b64 = base64.RawURLEncoding

// RawSign signs msg with the private key in the fixed-size r||s / ed25519 format, independently
// of the library's signers.
func (k *Key) RawSign(msg []byte) []byte {
	switch p := k.Priv.(type) {
	case ed25519.PrivateKey:
		return ed25519.Sign(p, msg)
	case *ecdsa.PrivateKey:
		var h crypto.Hash
		switch k.Type {
		case P384:
			h = crypto.SHA384
		case P521:
			h = crypto.SHA512
		default:
			h = crypto.SHA256
		}
		hh := h.New()
		hh.Write(msg)
		r, s, err := ecdsa.Sign(rand.Reader, p, hh.Sum(nil))
		must(err)
		n := (p.Curve.Params().BitSize + 7) / 8
		out := make([]byte, 2*n)
		rb, sb := r.Bytes(), s.Bytes()
		copy(out[n-len(rb):n], rb)
		copy(out[2*n-len(sb):], sb)
		return out
	}
	panic("unknown key")
}

// CompactJWS builds header.payload.signature with the header serialised compactly with sorted
// member names (what the library's signing utilities produce).
func CompactJWS(headerJSON string, payload []byte, signer *Key) string {
	h := b64.EncodeToString([]byte(headerJSON))
	p := b64.EncodeToString(payload)
	sig := signer.RawSign([]byte(h + "." + p))
	return h + "." + p + "." + b64.EncodeToString(sig)
}

// Tamper kinds applied after signing.
type Tamper int

// Tamper kinds.
const (
	TNone      Tamper = iota
	TSigFlip          // one bit of the signature flipped
	TPayload          // signed payload re-encoded with a changed member, signature kept
	TSwapDelta        // request delta replaced by another (valid) delta after hashing/signing
	TNoDelta          // request without delta member
	TSigExtend        // bytes appended to a genuine signature (a signature has exactly one size per key type)
)

// Spec describes one request to build; facts follow from the construction.
type Spec struct {
	Label     string
	Type      operation.Type
	Suffix    string // did suffix (non-create)
	RevealKey *Key   // whose reveal value goes into revealValue
	SignedKey *Key   // JWK placed inside signed data
	SignWith  *Key   // private key that signs
	NextUpd   string // delta.updateCommitment
	NextRec   string // recover: signed recoveryCommitment; create: suffix-data recovery commitment
	DeltaID   int64  // content id; the delta adds public key "k<DeltaID>"
	Patches   []patch.Patch
	PatchOK   bool // stated by the builder of Patches (default deltas: true)
	DValid    bool
	From      int64
	Until     int64
	Origin    interface{}
	OriginID  int64
	Code      uint
	Tamper    Tamper
	SignedSfx string // deactivate: suffix inside signed data ("" = Suffix)
	// SignedReveal, when set, is the key whose reveal value is written INSIDE the deactivate's signed data (the
	// request-level reveal value stays RevealKey's): an attacker's self-consistent signed part
	SignedReveal *Key
	// SfxType is the optional "type" member of a create's suffix data
	SfxType   string
	Nonce     string
	HeaderAlg string // overrides the "alg" protected header ("" = the signing key's algorithm)
	CrvSpell  string // overrides the spelling of "crv" inside the signed JWK ("" = as is)
}

// Op is a built request with its fact vector.
type Op struct {
	Spec    Spec
	Request []byte
	// facts
	ParseOK      bool
	RevealC      string // commitment string recomputed from reveal ("" if n/a)
	NextC        string
	SigOK        bool
	SfxOK        bool
	DHashOK      bool
	DValid       bool
	PatchOK      bool
	UpdC         string
	RecC         string
	UniqueSuffix string
}

const pubKeyTemplate = `[{"id":"k%d","type":"JsonWebKey2020","purposes":["authentication"],"publicKeyJwk":{"kty":"EC","crv":"P-256","x":"PUymIqdtF_qxaAqPABSw-C-owT1KYYQbsMKFM-L9fJA","y":"nM84jDHCMOTGTh_ZdHq4dBBdo4Z5PkEOW9jA8z8IsGc"}}]`

// DefaultPatches returns the delta content "add public key k<id>".
func DefaultPatches(id int64) []patch.Patch {
	p, err := patch.NewAddPublicKeysPatch(fmt.Sprintf(pubKeyTemplate, id))
	must(err)
	return []patch.Patch{p}
}

// FailingPatches returns a delta that validates but whose application fails on every document.
func FailingPatches() []patch.Patch {
	p, err := patch.NewJSONPatch(`[{"op":"remove","path":"/absentmember"}]`)
	must(err)
	return []patch.Patch{p}
}

// DisabledPatches returns a delta using an action the harness protocols do not enable.
func DisabledPatches() []patch.Patch {
	p, err := patch.NewAddAlsoKnownAs(`["https://also.example.com"]`)
	must(err)
	return []patch.Patch{p}
}

func canon(v interface{}) []byte {
	b, err := canonicalizer.MarshalCanonical(v)
	must(err)
	return b
}

func mhash(v interface{}, code uint) string {
	h, err := hashing.CalculateModelMultihash(v, code)
	must(err)
	return h
}

// revealOf is the reveal value of the revealed key as it appears in the signed data (a nonce is part of the JWK).
func revealOf(s Spec) string {
	if (s.Nonce != "" || s.CrvSpell != "") && s.RevealKey == s.SignedKey {
		return mhash(signedJWK(s, s.RevealKey), s.Code)
	}
	return s.RevealKey.Reveal(s.Code)
}

// signedJWK is the JWK as placed inside the signed data (nonce and crv spelling applied).
func signedJWK(s Spec, k *Key) interface{} {
	j := jwkWithNonce(k, s.Nonce)
	if s.CrvSpell == "" || k == nil {
		return j
	}
	c := *(j.(*jws.JWK))
	c.Crv = s.CrvSpell
	return &c
}

func jwkWithNonce(k *Key, nonce string) interface{} {
	if nonce == "" {
		return k.JWK
	}
	c := *k.JWK
	c.Nonce = nonce
	return &c
}

// Build constructs the request for a spec.
func Build(s Spec) *Op {
	if s.Code == 0 {
		s.Code = SHA256
	}
	if s.Patches == nil {
		s.Patches = DefaultPatches(s.DeltaID)
		s.PatchOK = true
		s.DValid = true
	}
	op := &Op{Spec: s, SigOK: true, SfxOK: true, DHashOK: true, ParseOK: true, DValid: s.DValid, PatchOK: s.PatchOK}
	// every structure that goes on the wire is written by hand with the member names of the Sidetree specification
	// (not through the library's model structs: a wrong JSON tag there would otherwise cancel out on both sides)
	delta := wireDelta(s.NextUpd, s.Patches)
	deltaHash := mhash(delta, s.Code)
	header := fmt.Sprintf(`{"alg":"%s"}`, "")
	if s.SignWith != nil {
		header = fmt.Sprintf(`{"alg":"%s"}`, s.SignedKeyAlg())
		if s.HeaderAlg != "" {
			header = fmt.Sprintf(`{"alg":"%s"}`, s.HeaderAlg)
		}
	}
	req := map[string]interface{}{}
	switch s.Type {
	case operation.TypeCreate:
		sd := wireObject("deltaHash", deltaHash, "recoveryCommitment", s.NextRec, "anchorOrigin", s.Origin, "type", s.SfxType)
		req["type"] = "create"
		req["suffixData"] = sd
		req["delta"] = delta
		op.UniqueSuffix = mhash(sd, s.Code)
		op.UpdC, op.RecC = s.NextUpd, s.NextRec
	case operation.TypeUpdate:
		signed := wireObject("anchorFrom", s.From, "anchorUntil", s.Until)
		signed["deltaHash"] = deltaHash
		payload := canon(signed)
		payload = injectKey(payload, "updateKey", signedJWK(s, s.SignedKey))
		req["type"] = "update"
		req["didSuffix"] = s.Suffix
		req["revealValue"] = revealOf(s)
		req["delta"] = delta
		req["signedData"] = CompactJWS(header, payload, s.SignWith)
		op.UniqueSuffix = s.Suffix
		op.UpdC = s.NextUpd
		op.NextC = s.NextUpd
	case operation.TypeRecover:
		signed := wireObject("anchorOrigin", s.Origin, "anchorFrom", s.From, "anchorUntil", s.Until)
		signed["deltaHash"], signed["recoveryCommitment"] = deltaHash, s.NextRec
		payload := canon(signed)
		payload = injectKey(payload, "recoveryKey", signedJWK(s, s.SignedKey))
		req["type"] = "recover"
		req["didSuffix"] = s.Suffix
		req["revealValue"] = revealOf(s)
		req["delta"] = delta
		req["signedData"] = CompactJWS(header, payload, s.SignWith)
		op.UniqueSuffix = s.Suffix
		op.UpdC, op.RecC = s.NextUpd, s.NextRec
		op.NextC = s.NextRec
		if s.SignedKey != nil && s.NextRec == s.SignedKey.Commitment(s.Code) {
			op.ParseOK = false // validateSignedDataForRecovery refuses re-use of the revealed key
		}
	case operation.TypeDeactivate:
		ss := s.SignedSfx
		if ss == "" {
			ss = s.Suffix
		}
		signedReveal := s.RevealKey.Reveal(s.Code)
		if s.SignedReveal != nil {
			signedReveal = s.SignedReveal.Reveal(s.Code)
		}
		signed := wireObject("anchorFrom", s.From, "anchorUntil", s.Until)
		signed["didSuffix"], signed["revealValue"] = ss, signedReveal
		payload := canon(signed)
		payload = injectKey(payload, "recoveryKey", signedJWK(s, s.SignedKey))
		req["type"] = "deactivate"
		req["didSuffix"] = s.Suffix
		req["revealValue"] = revealOf(s)
		req["signedData"] = CompactJWS(header, payload, s.SignWith)
		op.UniqueSuffix = s.Suffix
		if ss != s.Suffix {
			op.SfxOK = false
			op.ParseOK = false // ParseDeactivateOperation compares the two suffixes
		}
	}
	if s.Type != operation.TypeCreate {
		op.RevealC = s.RevealKey.Commitment(s.Code)
		if (s.Nonce != "" || s.CrvSpell != "") && s.RevealKey == s.SignedKey {
			if j, ok := signedJWK(s, s.RevealKey).(*jws.JWK); ok {
				c, err := commitment.GetCommitment(j, s.Code)
				must(err)
				op.RevealC = c
			}
		}
		if s.RevealKey != s.SignedKey {
			op.ParseOK = false // reveal value is not the hash of the key inside signed data
		}
		if s.SignWith != s.SignedKey {
			op.SigOK = false
		}
	}
	switch s.Tamper {
	case TSigFlip:
		req["signedData"] = flipSig(req["signedData"].(string))
		op.SigOK = false
	case TPayload:
		req["signedData"] = tamperPayload(req["signedData"].(string))
		op.SigOK = false
	case TSigExtend:
		req["signedData"] = extendSig(req["signedData"].(string))
		op.SigOK = false
	case TSwapDelta:
		req["delta"] = wireDelta(s.NextUpd, DefaultPatches(s.DeltaID+500))
		op.DHashOK = false
	case TNoDelta:
		delete(req, "delta")
		op.DHashOK = false
		op.UpdC = "" // no delta: nothing commits to a next update key
	}
	b, err := json.Marshal(req)
	must(err)
	op.Request = b
	return op
}

// wireObject builds a JSON object from name / value pairs, leaving out members whose value is the zero value of an
// optional member ("" , 0, nil) - the omitempty members of the specification's structures.
func wireObject(kv ...interface{}) map[string]interface{} {
	m := map[string]interface{}{}
	for i := 0; i+1 < len(kv); i += 2 {
		switch v := kv[i+1].(type) {
		case nil:
		case string:
			if v != "" {
				m[kv[i].(string)] = v
			}
		case int64:
			if v != 0 {
				m[kv[i].(string)] = v
			}
		default:
			m[kv[i].(string)] = v
		}
	}
	return m
}

// wireDelta is the delta object {"updateCommitment", "patches"} (both optional on the wire).
func wireDelta(updateCommitment string, patches []patch.Patch) map[string]interface{} {
	m := wireObject("updateCommitment", updateCommitment)
	if len(patches) > 0 {
		m["patches"] = patches
	}
	return m
}

// SignedKeyAlg is the alg header matching the key that signs.
func (s Spec) SignedKeyAlg() string { return s.SignWith.Type.Alg() }

// injectKey adds a JWK member to a canonical JSON object payload (payload stays canonical only if
// it is re-canonicalised, which is done here).
func injectKey(payload []byte, member string, jwk interface{}) []byte {
	var m map[string]interface{}
	must(json.Unmarshal(payload, &m))
	jb, err := json.Marshal(jwk)
	must(err)
	var jm map[string]interface{}
	must(json.Unmarshal(jb, &jm))
	m[member] = jm
	// numbers in the payload (anchorFrom/anchorUntil) are small integers; float64 round trip is exact
	return canon(m)
}

func extendSig(jws string) string {
	parts := splitDots(jws)
	sig, err := b64.DecodeString(parts[2])
	must(err)
	sig = append(sig, 0x00, 0x2a, sig[0])
	return parts[0] + "." + parts[1] + "." + b64.EncodeToString(sig)
}

func flipSig(jws string) string {
	parts := splitDots(jws)
	sig, err := b64.DecodeString(parts[2])
	must(err)
	sig[len(sig)/2] ^= 0x04
	return parts[0] + "." + parts[1] + "." + b64.EncodeToString(sig)
}

func tamperPayload(jws string) string {
	parts := splitDots(jws)
	pl, err := b64.DecodeString(parts[1])
	must(err)
	var m map[string]interface{}
	must(json.Unmarshal(pl, &m))
	m["anchorFrom"] = 1 // signed window changed after signing
	m["anchorUntil"] = 4000000000
	return parts[0] + "." + b64.EncodeToString(canon(m)) + "." + parts[2]
}

func splitDots(s string) []string {
	var out []string
	cur := ""
	for _, c := range s {
		if c == '.' {
			out = append(out, cur)
			cur = ""
		} else {
			cur += string(c)
		}
	}
	return append(out, cur)
}
