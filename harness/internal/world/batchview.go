package world

import (
	"encoding/json"
	"fmt"
	"regexp"
	"strconv"
	"strings"

	"github.com/trustbloc/sidetree-core-go/pkg/api/operation"
	"github.com/trustbloc/sidetree-core-go/pkg/api/protocol"
	"github.com/trustbloc/sidetree-core-go/pkg/canonicalizer"
	"github.com/trustbloc/sidetree-core-go/pkg/compression"
	"github.com/trustbloc/sidetree-core-go/pkg/versions/1_0/model"
	"github.com/trustbloc/sidetree-core-go/pkg/versions/1_0/operationparser"
	"github.com/trustbloc/sidetree-core-go/pkg/versions/1_0/txnprovider/models"

	"verif/harness/internal/emit"
)

// MapCAS is a CAS that serves whatever bytes were put under a key (an adversary controls it).
type MapCAS struct {
	M       map[string][]byte
	FailKey map[string]bool
	n       int
}

// NewMapCAS creates an empty CAS.
func NewMapCAS() *MapCAS { return &MapCAS{M: map[string][]byte{}, FailKey: map[string]bool{}} }

// Write stores content under a fresh short address.
func (c *MapCAS) Write(b []byte) (string, error) {
	c.n++
	k := fmt.Sprintf("cas%04d", c.n)
	c.M[k] = append([]byte{}, b...)
	return k, nil
}

// Put stores content under a chosen key.
func (c *MapCAS) Put(k string, b []byte) { c.M[k] = b }

// Read serves content.
func (c *MapCAS) Read(k string) ([]byte, error) {
	if c.FailKey[k] {
		return nil, fmt.Errorf("injected CAS read failure")
	}
	b, ok := c.M[k]
	if !ok {
		return nil, fmt.Errorf("not found")
	}
	return b, nil
}

// IDs interns strings as numeric identifiers for the model ("" is 0).
type IDs struct {
	m map[string]int64
}

// NewIDs creates an interning table.
func NewIDs() *IDs { return &IDs{m: map[string]int64{"": 0}} }

// Of returns the id of a string.
func (t *IDs) Of(s string) int64 {
	if v, ok := t.m[s]; ok {
		return v
	}
	v := int64(len(t.m))
	t.m[s] = v
	return v
}

// OfJSON interns the canonical JSON of a value (nil -> 0).
func (t *IDs) OfJSON(v interface{}) int64 {
	if v == nil {
		return 0
	}
	b, err := canonicalizer.MarshalCanonical(v)
	if err != nil {
		b, _ = json.Marshal(v)
	}
	if string(b) == "null" {
		return 0
	}
	return t.Of(string(b))
}

// ViewBuilder turns the content of a CAS into the nested view the Coq model works on. It decodes
// files with the library's own decoders (lower-layer facts) but none of the provider's logic.
type ViewBuilder struct {
	CAS    *MapCAS
	P      protocol.Protocol
	Parser *operationparser.Parser
	IDs    *IDs
	cp     *compression.Registry
}

// NewViewBuilder creates a builder.
func NewViewBuilder(cas *MapCAS, p protocol.Protocol, parser *operationparser.Parser, ids *IDs) *ViewBuilder {
	return &ViewBuilder{CAS: cas, P: p, Parser: parser, IDs: ids, cp: compression.New(compression.WithDefaultAlgorithms())}
}

var anchorInt = regexp.MustCompile(`^[1-9][0-9]*$`)

func (v *ViewBuilder) raw(uri string, parse func([]byte) (string, bool)) string {
	b, err := v.CAS.Read(uri)
	if err != nil {
		return emit.App("Build_raw _", "false", "0%Z", "false", "0%Z", "None")
	}
	content, derr := v.cp.Decompress(v.P.CompressionAlgorithm, b)
	if derr != nil {
		return emit.App("Build_raw _", "true", emit.Z(int64(len(b))), "false", "0%Z", "None")
	}
	parsed := "None"
	if s, ok := parse(content); ok {
		parsed = "(Some " + s + ")"
	}
	return emit.App("Build_raw _", "true", emit.Z(int64(len(b))), "true", emit.Z(int64(len(content))), parsed)
}

func (v *ViewBuilder) ref(uri string, parse func([]byte) (string, bool)) string {
	if uri == "" {
		return emit.App("Build_ref _", "0%Z", "None")
	}
	return emit.App("Build_ref _", emit.Z(int64(len(uri))), "(Some "+v.raw(uri, parse)+")")
}

func (v *ViewBuilder) opRefs(rs []models.OperationReference) string {
	var out []string
	for _, r := range rs {
		out = append(out, emit.App("Build_op_ref", emit.Z(v.IDs.Of(r.DidSuffix)), emit.Z(int64(len(r.DidSuffix))),
			emit.Z(v.IDs.Of(r.RevealValue)), emit.Z(int64(len(r.RevealValue)))))
	}
	return emit.List(out)
}

func (v *ViewBuilder) proofs(ss []string, ty operation.Type) string {
	var out []string
	for _, s := range ss {
		ok := false
		var origin int64
		func() {
			defer func() { recover() }() //nolint:errcheck
			switch ty {
			case operation.TypeRecover:
				m, err := v.Parser.ParseSignedDataForRecover(s)
				ok = err == nil
				if ok {
					origin = v.IDs.OfJSON(m.AnchorOrigin)
				}
			case operation.TypeDeactivate:
				_, err := v.Parser.ParseSignedDataForDeactivate(s)
				ok = err == nil
			case operation.TypeUpdate:
				_, err := v.Parser.ParseSignedDataForUpdate(s)
				ok = err == nil
			}
		}()
		out = append(out, emit.App("Build_proof_entry", emit.Z(v.IDs.Of(s)), emit.Bool(ok), emit.Z(origin)))
	}
	return emit.List(out)
}

func (v *ViewBuilder) chunk(content []byte) (string, bool) {
	cf, err := models.ParseChunkFile(content)
	if err != nil {
		return "", false
	}
	var ds []string
	for _, d := range cf.Deltas {
		valid := false
		func() {
			defer func() { recover() }() //nolint:errcheck
			valid = v.Parser.ValidateDelta(d) == nil
		}()
		var id int64
		if d != nil {
			id = v.IDs.OfJSON(d)
		}
		ds = append(ds, emit.App("Build_delta_entry", emit.Z(id), emit.Bool(valid)))
	}
	return emit.App("Build_chunk_file", emit.List(ds)), true
}

func (v *ViewBuilder) provProof(content []byte) (string, bool) {
	f, err := models.ParseProvisionalProofFile(content)
	if err != nil {
		return "", false
	}
	return emit.App("Build_prov_proof_file", v.proofs(f.Operations.Update, operation.TypeUpdate)), true
}

func (v *ViewBuilder) coreProof(content []byte) (string, bool) {
	f, err := models.ParseCoreProofFile(content)
	if err != nil {
		return "", false
	}
	return emit.App("Build_core_proof_file", v.proofs(f.Operations.Recover, operation.TypeRecover),
		v.proofs(f.Operations.Deactivate, operation.TypeDeactivate)), true
}

func (v *ViewBuilder) provIndex(content []byte) (string, bool) {
	f, err := models.ParseProvisionalIndexFile(content)
	if err != nil {
		return "", false
	}
	var chunks []string
	for _, c := range f.Chunks {
		chunks = append(chunks, v.ref(c.ChunkFileURI, v.chunk))
		break // only the first chunk reference is ever followed
	}
	// further chunk references are inert but present: keep their count
	for i := 1; i < len(f.Chunks); i++ {
		chunks = append(chunks, emit.App("Build_ref _", emit.Z(int64(len(f.Chunks[i].ChunkFileURI))), "None"))
	}
	var ups []models.OperationReference
	if f.Operations != nil {
		ups = f.Operations.Update
	}
	return emit.App("Build_prov_index_file", v.ref(f.ProvisionalProofFileURI, v.provProof), emit.List(chunks), v.opRefs(ups)), true
}

func (v *ViewBuilder) coreIndex(content []byte) (string, bool) {
	f, err := models.ParseCoreIndexFile(content)
	if err != nil {
		return "", false
	}
	var creates []string
	var recs, deacts []models.OperationReference
	if f.Operations != nil {
		for _, c := range f.Operations.Create {
			present := c.SuffixData != nil
			valid := false
			var sfx, sd, origin int64
			if present {
				valid = v.Parser.ValidateSuffixData(c.SuffixData) == nil
				s, err := model.GetUniqueSuffix(c.SuffixData, v.P.MultihashAlgorithms)
				if err == nil {
					sfx = v.IDs.Of(s)
				}
				sd = v.IDs.OfJSON(c.SuffixData)
				origin = v.IDs.OfJSON(c.SuffixData.AnchorOrigin)
			}
			creates = append(creates, emit.App("Build_create_ref", emit.Bool(present), emit.Bool(valid), emit.Z(sfx), emit.Z(sd), emit.Z(origin)))
		}
		recs, deacts = f.Operations.Recover, f.Operations.Deactivate
	}
	return emit.App("Build_core_index_file", v.ref(f.CoreProofFileURI, v.coreProof), v.ref(f.ProvisionalIndexFileURI, v.provIndex),
		emit.List(creates), v.opRefs(recs), v.opRefs(deacts)), true
}

// Anchor renders the view of an anchor string over the CAS.
func (v *ViewBuilder) Anchor(anchorString string) string {
	parts := strings.Split(anchorString, ".")
	ok := len(parts) == 2 && anchorInt.MatchString(parts[0])
	var n int64
	uri := ""
	if ok {
		x, err := strconv.Atoi(parts[0])
		if err != nil {
			ok = false
		}
		n = int64(x)
		uri = parts[1]
	}
	core := emit.App("Build_raw _", "false", "0%Z", "false", "0%Z", "None")
	if ok {
		core = v.raw(uri, v.coreIndex)
	}
	return emit.App("Build_anchor", emit.Bool(ok), emit.Z(n), core)
}

// Limits renders the protocol limits.
func Limits(p protocol.Protocol) string {
	return emit.App("Build_limits", emit.Z(int64(p.MaxOperationHashLength)), emit.Z(int64(p.MaxCasURILength)),
		emit.Z(int64(p.MaxCoreIndexFileSize)), emit.Z(int64(p.MaxProofFileSize)), emit.Z(int64(p.MaxProvisionalIndexFileSize)),
		emit.Z(int64(p.MaxChunkFileSize)), emit.Z(int64(p.MaxMemoryDecompressionFactor)))
}

// ReadBack projects anchored operations returned by the provider to the model's rop records.
func ReadBack(ids *IDs, ops []*operation.AnchoredOperation) string {
	var out []string
	for _, o := range ops {
		var req map[string]interface{}
		_ = json.Unmarshal(o.OperationRequest, &req)
		str := func(k string) string { s, _ := req[k].(string); return s }
		var delta, sdata int64
		if d, ok := req["delta"]; ok && d != nil {
			delta = ids.OfJSON(d)
		}
		if d, ok := req["suffixData"]; ok && d != nil {
			sdata = ids.OfJSON(d)
		}
		out = append(out, emit.App("Build_rop", tyName(o.Type), emit.Z(ids.Of(o.UniqueSuffix)), emit.Z(ids.Of(str("revealValue"))),
			emit.Z(ids.Of(str("signedData"))), emit.Z(delta), emit.Z(sdata), emit.Z(ids.OfJSON(o.AnchorOrigin))))
	}
	return emit.List(out)
}
