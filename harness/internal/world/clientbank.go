package world

import (
	"encoding/json"
	"fmt"
	"math/rand"

	"github.com/trustbloc/sidetree-core-go/pkg/api/operation"
	"github.com/trustbloc/sidetree-core-go/pkg/patch"
	"github.com/trustbloc/sidetree-core-go/pkg/versions/1_0/client"
	"github.com/trustbloc/sidetree-core-go/pkg/versions/1_0/model"
)

// ClientOp is a request produced by the client library's builders.
type ClientOp struct {
	Type    operation.Type
	Suffix  string
	Request []byte
	Origin  interface{}
	Expired bool // carries the "expired" marker window (see ExpiryMarker)
	DID     int
	Label   string
}

// ExpiryMarker is the anchorFrom value the harness' time validator treats as expired.
const ExpiryMarker = 424242

// ClientDID holds the keys of one DID used to build client requests.
type ClientDID struct {
	Index   int
	Rec     *Key
	Upd     *Key
	Next    []*Key
	Suffix  string
	Create  ClientOp
	Code    uint
	DeltaID int64
}

func patchesFor(id int64, services bool) []patch.Patch {
	p := DefaultPatches(id)
	if services {
		sp, err := patch.NewAddServiceEndpointsPatch(fmt.Sprintf(`[{"id":"svc%d","type":"LinkedDomains","serviceEndpoint":"https://example%d.com"}]`, id, id))
		must(err)
		p = append(p, sp)
	}
	return p
}

// NewClientDID builds a DID (create request through client.NewCreateRequest).
func NewClientDID(kp *KeyPool, idx int, rng *rand.Rand, origin interface{}) *ClientDID {
	n := len(kp.Keys)
	d := &ClientDID{Index: idx, Rec: kp.Keys[(5*idx)%n], Upd: kp.Keys[(5*idx+1)%n], Code: SHA256, DeltaID: int64(1000 + 10*idx)}
	d.Next = []*Key{kp.Keys[(5*idx+2)%n], kp.Keys[(5*idx+3)%n], kp.Keys[(5*idx+4)%n]}
	req, err := client.NewCreateRequest(&client.CreateRequestInfo{
		Patches:            patchesFor(d.DeltaID, rng.Intn(2) == 0),
		RecoveryCommitment: d.Rec.Commitment(d.Code),
		UpdateCommitment:   d.Upd.Commitment(d.Code),
		AnchorOrigin:       origin,
		MultihashCode:      d.Code,
		Type:               []string{"", "org", ""}[idx%3], // the optional suffix-data type is part of the suffix
	})
	must(err)
	sfx := suffixOfCreate(req, d.Code)
	d.Suffix = sfx
	d.Create = ClientOp{Type: operation.TypeCreate, Suffix: sfx, Request: req, Origin: origin, DID: idx, Label: "create"}
	return d
}

func suffixOfCreate(req []byte, code uint) string {
	var cr model.CreateRequest
	must(json.Unmarshal(req, &cr))
	s, err := model.GetUniqueSuffix(cr.SuffixData, []uint{code})
	must(err)
	return s
}

// Update builds an update through client.NewUpdateRequest.
func (d *ClientDID) Update(seq int, expired bool) ClientOp {
	from, until := int64(0), int64(0)
	if expired {
		from, until = ExpiryMarker, ExpiryMarker+1
	}
	req, err := client.NewUpdateRequest(&client.UpdateRequestInfo{
		DidSuffix: d.Suffix, Patches: patchesFor(d.DeltaID+int64(seq)+1, false), UpdateCommitment: d.Next[seq%3].Commitment(d.Code),
		UpdateKey: d.Upd.JWK, MultihashCode: d.Code, Signer: d.Upd.Signer, RevealValue: d.Upd.Reveal(d.Code),
		AnchorFrom: from, AnchorUntil: until,
	})
	must(err)
	return ClientOp{Type: operation.TypeUpdate, Suffix: d.Suffix, Request: req, Expired: expired, DID: d.Index, Label: fmt.Sprintf("update%d", seq)}
}

// Recover builds a recover through client.NewRecoverRequest.
func (d *ClientDID) Recover(seq int, origin interface{}) ClientOp {
	req, err := client.NewRecoverRequest(&client.RecoverRequestInfo{
		DidSuffix: d.Suffix, RecoveryKey: d.Rec.JWK, Patches: patchesFor(d.DeltaID+int64(seq)+5, true),
		RecoveryCommitment: d.Next[(seq+1)%3].Commitment(d.Code), UpdateCommitment: d.Next[(seq+2)%3].Commitment(d.Code),
		AnchorOrigin: origin, MultihashCode: d.Code, Signer: d.Rec.Signer, RevealValue: d.Rec.Reveal(d.Code),
	})
	must(err)
	return ClientOp{Type: operation.TypeRecover, Suffix: d.Suffix, Request: req, Origin: origin, DID: d.Index, Label: fmt.Sprintf("recover%d", seq)}
}

// Deactivate builds a deactivate through client.NewDeactivateRequest.
func (d *ClientDID) Deactivate() ClientOp {
	req, err := client.NewDeactivateRequest(&client.DeactivateRequestInfo{
		DidSuffix: d.Suffix, RecoveryKey: d.Rec.JWK, Signer: d.Rec.Signer, RevealValue: d.Rec.Reveal(d.Code),
	})
	must(err)
	return ClientOp{Type: operation.TypeDeactivate, Suffix: d.Suffix, Request: req, DID: d.Index, Label: "deactivate"}
}

// Origins is a set of anchor origins of every JSON kind.
var Origins = []interface{}{nil, "origin-string", float64(42), true, map[string]interface{}{"a": "b", "n": float64(1)}, []interface{}{"x", float64(2)}}

// SuffixOfCreate derives the unique suffix of a create request.
func SuffixOfCreate(req []byte, code uint) string { return suffixOfCreate(req, code) }
