package world

import (
	"math/rand"

	"github.com/trustbloc/sidetree-core-go/pkg/api/operation"
)

// GenOpts selects which letters of the operation alphabet a history may contain.
type GenOpts struct {
	MinLen, MaxLen int
	Forged         bool // unauthorised update/recover/deactivate
	DupCreates     bool // further creates (same suffix data, other/no delta; same request)
	Forks          bool // second valid operation for an already targeted commitment
	BadDeltas      bool // patch fails / delta invalid / delta does not match hash
	Windows        bool // anchoring windows in and out
	Cycles         bool // next commitment = current or earlier commitment
	Replays        bool // the same request anchored again
	Unpublished    int  // up to this many trailing operations go to the unpublished store
	NonMonotone    bool // transaction numbers not co-monotone with times (C02)
	EndDeactivate  int  // percent chance to finish with a valid deactivate
	TimeDelta      int64
	SharedTime     bool // several operations may share a transaction time (distinct numbers)
	RecoverOldUpd  bool // a recover may re-commit to an update key that an earlier update already revealed
}

// Event is one generated operation with a label and whether it is legitimate.
type Event struct {
	Op    *Op
	Legit bool
	Label string
}

// GenEvents generates the events of a history in anchoring order (create first).
func (d *DID) GenEvents(o GenOpts) []Event {
	r := d.rng
	n := o.MinLen
	if o.MaxLen > o.MinLen {
		n += r.Intn(o.MaxLen - o.MinLen + 1)
	}
	evs := []Event{{Op: d.Create, Legit: true, Label: "create"}}
	if o.DupCreates && r.Intn(6) == 0 {
		// the FIRST anchored create carries a delta that cannot be used (other delta than the one hashed / no delta): the DID
		// is created with an empty document and no update commitment, and the same create with its proper delta anchored
		// LATER changes nothing
		sp := d.Create.Spec
		sp.Tamper = []Tamper{TSwapDelta, TNoDelta}[r.Intn(2)]
		sp.Label = "C.first-unusable-delta"
		evs = []Event{{Op: Build(sp), Legit: true, Label: "create:unusable-delta"}, {Op: d.Create, Label: "dupcreate:proper-delta-later"}}
		d.CurUpd = nil
	}
	var past []*Op
	forgeN := 0
	for i := 0; i < n && d.Remaining() > 3; i++ {
		if d.Deact {
			// after deactivation only noise is possible
			if !(o.Forged || o.Replays) {
				break
			}
		}
		roll := r.Intn(100)
		switch {
		case o.Forged && roll < 25:
			ty := []operation.Type{operation.TypeUpdate, operation.TypeRecover, operation.TypeDeactivate}[r.Intn(3)]
			kind := ForgedKinds[r.Intn(len(ForgedKinds))]
			forgeN++
			evs = append(evs, Event{Op: Build(d.Forge(ty, kind, forgeN)), Label: "forged:" + string(ty) + ":" + kind})
			continue
		case o.DupCreates && roll < 32:
			var op *Op
			switch r.Intn(3) {
			case 0:
				op = d.Create
			case 1:
				s := d.Create.Spec
				s.Tamper = TSwapDelta
				s.Label = "C.dupdelta"
				op = Build(s)
			default:
				s := d.Create.Spec
				s.Tamper = TNoDelta
				s.Label = "C.nodelta"
				op = Build(s)
			}
			evs = append(evs, Event{Op: op, Label: "dupcreate"})
			continue
		case o.Replays && roll < 38 && len(past) > 0:
			evs = append(evs, Event{Op: past[r.Intn(len(past))], Label: "replay"})
			continue
		case o.Forks && roll < 46 && len(past) > 0 && (!d.Deact || past[len(past)-1].Spec.Type == operation.TypeDeactivate):
			// a competing valid operation for the commitment that the previous legit op consumed; for the two kinds
			// of full operation also of the OTHER kind (a recover signed with the key a deactivate has spent, and the
			// reverse), anchored later
			prev := past[len(past)-1]
			s := prev.Spec
			if s.Type != operation.TypeCreate && s.Tamper == TNone {
				s.DeltaID = d.newID()
				s.Patches = nil
				s.Label = "fork"
				s.From, s.Until = 0, 0
				lbl := "fork:"
				switch {
				case s.Type == operation.TypeRecover && r.Intn(2) == 0:
					s.Type, s.NextUpd, s.NextRec, s.Origin, s.OriginID = operation.TypeDeactivate, "", "", nil, 0
					lbl = "xfork:"
				case s.Type == operation.TypeDeactivate && (d.Deact || r.Intn(2) == 0):
					s.Type = operation.TypeRecover
					s.NextRec = d.Stranger(r.Intn(3)).Commitment(d.Code)
					s.Origin, s.OriginID = OriginValue(9), 9
					lbl = "xfork:"
				}
				if s.Type != operation.TypeDeactivate {
					s.NextUpd = d.Stranger(r.Intn(3)).Commitment(d.Code)
					for s.NextUpd == s.NextRec {
						s.NextUpd = d.Stranger(r.Intn(3)).Commitment(d.Code)
					}
				}
				evs = append(evs, Event{Op: Build(s), Label: lbl + string(s.Type)})
				continue
			}
		case o.Cycles && roll < 54 && !d.Deact && d.CurUpd != nil:
			s := d.ValidUpdate(d.CurUpd, "U.self")
			if len(d.PastUpd) > 0 && r.Intn(2) == 0 {
				s = d.ValidUpdate(d.PastUpd[r.Intn(len(d.PastUpd))], "U.back")
			}
			evs = append(evs, Event{Op: Build(s), Label: "cycle:" + s.Label})
			continue
		}
		if d.Deact {
			continue
		}
		// legitimate step
		var s Spec
		lroll := r.Intn(100)
		switch {
		case lroll < 65 && d.CurUpd != nil:
			s = d.ValidUpdate(d.fresh(), "U")
		case lroll < 92 || d.CurUpd == nil:
			s = d.ValidRecover(d.fresh(), d.fresh(), "R")
			if o.RecoverOldUpd && len(d.PastUpd) > 0 && r.Intn(2) == 0 {
				old := d.PastUpd[r.Intn(len(d.PastUpd))]
				if old.Commitment(d.Code) != s.NextRec && old != d.CurRec {
					s.NextUpd = old.Commitment(d.Code)
					s.Label = "R.oldupd"
				}
			}
		default:
			s = d.ValidDeactivate("D")
		}
		win := WNone
		if o.Windows && r.Intn(100) < 40 {
			win = WinKind(1 + r.Intn(5))
		}
		bad := 0
		if o.BadDeltas && s.Type != operation.TypeDeactivate && r.Intn(100) < 30 {
			bad = 1 + r.Intn(3)
		}
		switch bad {
		case 1:
			s.Patches, s.PatchOK, s.DValid = FailingPatches(), false, true
			s.Label += ".patchfail"
		case 2:
			s.Patches, s.PatchOK, s.DValid = DisabledPatches(), true, false
			s.Label += ".invalid"
		case 3:
			s.Tamper = TSwapDelta
			s.Label += ".hash"
		}
		ev := Event{Legit: true, Label: s.Label}
		// window is resolved when coordinates are known; remember the kind in the label
		ev.Op = &Op{Spec: s}
		ev.Op.Spec.From = int64(win) // placeholder consumed by Place
		ev.Op.Spec.Until = -1
		evs = append(evs, ev)
		// advance generator state according to the Sidetree rules
		inWin := win == WNone || win == WIn || win == WDefaultIn
		switch s.Type {
		case operation.TypeUpdate:
			if bad != 2 && bad != 3 {
				next := keyByCommitment(d, s.NextUpd)
				d.AdvanceUpdate(next)
			}
		case operation.TypeRecover:
			nr, nu := keyByCommitment(d, s.NextRec), keyByCommitment(d, s.NextUpd)
			if bad == 2 || bad == 3 {
				nu = nil
			}
			d.AdvanceRecover(nr, nu)
		case operation.TypeDeactivate:
			if inWin {
				d.Deact = true
				d.CurUpd, d.CurRec = nil, nil
			}
		}
		past = append(past, ev.Op)
	}
	if o.EndDeactivate > 0 && !d.Deact && d.CurRec != nil && r.Intn(100) < o.EndDeactivate {
		s := d.ValidDeactivate("D.end")
		evs = append(evs, Event{Op: &Op{Spec: func() Spec { s.From = 0; s.Until = -1; return s }()}, Legit: true, Label: "D.end"})
		d.Deact = true
	}
	return evs
}

func keyByCommitment(d *DID, c string) *Key {
	for _, k := range d.Keys {
		if k.Commitment(d.Code) == c {
			return k
		}
	}
	return nil
}

// Place assigns coordinates to events and builds the pending operations whose window depends on
// the anchoring time.
func (d *DID) Place(evs []Event, o GenOpts) (pub, unpub []Placed) {
	r := d.rng
	t := uint64(100 + r.Intn(50))
	num := uint64(0)
	used := map[[2]uint64]bool{}
	nUnpub := 0
	if o.Unpublished > 0 {
		nUnpub = r.Intn(o.Unpublished + 1)
		if nUnpub >= len(evs) {
			nUnpub = len(evs) - 1
		}
	}
	built := map[*Op]*Op{}
	for i, ev := range evs {
		if !(o.SharedTime && i > 0 && r.Intn(3) == 0) {
			t += uint64(1 + r.Intn(4))
		}
		num++
		n := num
		if o.NonMonotone {
			for {
				n = uint64(r.Intn(12))
				if !used[[2]uint64{t, n}] {
					break
				}
			}
		}
		used[[2]uint64{t, n}] = true
		op := ev.Op
		if op.Request == nil {
			if b, ok := built[op]; ok {
				op = b
			} else {
				s := op.Spec
				s.From, s.Until = WindowFor(WinKind(s.From), int64(t), o.TimeDelta)
				nb := Build(s)
				built[op] = nb
				op = nb
			}
		}
		p := Placed{Op: op, OID: int64(i + 1), Time: t, Num: n, CRef: int64(i + 1), PVer: t}
		if i >= len(evs)-nUnpub {
			p.CRef = 0
			unpub = append(unpub, p)
		} else {
			pub = append(pub, p)
		}
	}
	return pub, unpub
}

// Shuffle returns a permutation of the placed operations (store return order).
func Shuffle(r *rand.Rand, ps []Placed) []Placed {
	out := append([]Placed{}, ps...)
	r.Shuffle(len(out), func(i, j int) { out[i], out[j] = out[j], out[i] })
	return out
}
