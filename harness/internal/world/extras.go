package world

import (
	"fmt"
	"github.com/trustbloc/sidetree-core-go/pkg/commitment"
	"github.com/trustbloc/sidetree-core-go/pkg/versions/1_0/operationparser"
	"math/rand"
	"strings"
	"time"

	"github.com/trustbloc/sidetree-core-go/pkg/api/operation"
	"github.com/trustbloc/sidetree-core-go/pkg/api/protocol"
	"github.com/trustbloc/sidetree-core-go/pkg/dochandler"
	"github.com/trustbloc/sidetree-core-go/pkg/document"
	"github.com/trustbloc/sidetree-core-go/pkg/processor"
	"github.com/trustbloc/sidetree-core-go/pkg/versions/1_0/doctransformer/metadata"

	"verif/harness/internal/emit"
	"verif/harness/internal/out"
)

// MetadataPublished returns the oids of the published-operation list that document metadata shows.
func MetadataPublished(ps []Placed) ([]int64, error) {
	var ops []*operation.AnchoredOperation
	for _, p := range ps {
		ops = append(ops, p.Anchored())
	}
	rm := &protocol.ResolutionModel{Doc: document.Document{}, PublishedOperations: ops}
	md, err := metadata.New(metadata.WithIncludePublishedOperations(true)).CreateDocumentMetadata(rm,
		protocol.TransformationInfo{document.PublishedProperty: true})
	if err != nil {
		return nil, err
	}
	mm, _ := md[document.MethodProperty].(document.Metadata)
	lst, _ := mm[document.PublishedOperationsProperty].([]*metadata.PublishedOperation)
	var ids []int64
	for _, o := range lst {
		v := int64(-1)
		for _, e := range o.EquivalentReferences {
			fmt.Sscanf(e, "oid:%d", &v)
		}
		ids = append(ids, v)
	}
	return ids, nil
}

// MetaCaseGallina renders a metadata list case.
func MetaCaseGallina(tb *Table, md MDelta, ps []Placed, ids []int64, err error) string {
	items := make([]string, len(ps))
	for i, p := range ps {
		items[i] = p.Gallina(tb, md)
	}
	return emit.App("Build_mcase", emit.List(items), emit.Bool(err == nil), zlist(ids))
}

type noopWriter struct{}

func (noopWriter) Add(*operation.QueuedOperation, uint64) error { return nil }

// NoopMetrics satisfies the document handler's metrics provider.
type NoopMetrics struct{}

// ProcessOperation etc. implement the metrics provider.
func (NoopMetrics) ProcessOperation(time.Duration)             {}
func (NoopMetrics) GetProtocolVersionTime(time.Duration)       {}
func (NoopMetrics) ParseOperationTime(time.Duration)           {}
func (NoopMetrics) ValidateOperationTime(time.Duration)        {}
func (NoopMetrics) DecorateOperationTime(time.Duration)        {}
func (NoopMetrics) AddUnpublishedOperationTime(time.Duration)  {}
func (NoopMetrics) AddOperationToBatchTime(time.Duration)      {}
func (NoopMetrics) GetCreateOperationResultTime(time.Duration) {}

// IntakeDecorate submits the request to a document handler (default decorator) over the store.
func IntakeDecorate(pc protocol.Client, pub []Placed, op *Op) (res string) {
	defer func() {
		if r := recover(); r != nil {
			res = "panic:" + fmt.Sprint(r)
		}
	}()
	proc := processor.New("verif", &sliceStore{ops: pub}, pc)
	dh := dochandler.New("did:sidetree", nil, pc, noopWriter{}, proc, NoopMetrics{})
	_, err := dh.ProcessOperation(op.Request, 0)
	switch {
	case err == nil:
		return "accepted"
	case strings.Contains(err.Error(), "document has been deactivated"):
		return "deactivated"
	}
	return "rejected-earlier"
}

// IntakeDecorateUnpub is IntakeDecorate for a node that also keeps an unpublished-operation store (processor and
// handler configured with it): operations accepted but not yet anchored, or anchored and not yet removed from it.
func IntakeDecorateUnpub(pc protocol.Client, pub, unpub []Placed, op *Op) (res string) {
	defer func() {
		if r := recover(); r != nil {
			res = "panic:" + fmt.Sprint(r)
		}
	}()
	us := &sliceStore{ops: unpub}
	proc := processor.New("verif", &sliceStore{ops: pub}, pc, processor.WithUnpublishedOperationStore(us))
	dh := dochandler.New("did:sidetree", nil, pc, noopWriter{}, proc, NoopMetrics{},
		dochandler.WithUnpublishedOperationStore(discardUnpub{}, []operation.Type{operation.TypeUpdate, operation.TypeRecover, operation.TypeDeactivate}))
	_, err := dh.ProcessOperation(op.Request, 0)
	switch {
	case err == nil:
		return "accepted"
	case strings.Contains(err.Error(), "document has been deactivated"):
		return "deactivated"
	}
	return "rejected-earlier"
}

type discardUnpub struct{}

func (discardUnpub) Put(*operation.AnchoredOperation) error    { return nil }
func (discardUnpub) Delete(*operation.AnchoredOperation) error { return nil }

// DecorateCaseGallina renders an intake-after-deactivation case.
func DecorateCaseGallina(tb *Table, md MDelta, pub []Placed, res string) string {
	items := make([]string, len(pub))
	for i, p := range pub {
		items[i] = p.Gallina(tb, md)
	}
	return emit.App("Build_dcase", emit.List(items), emit.Bool(res != "accepted"))
}

// RunWithTimeout resolves with a wall-clock bound (a loop in resolution is an observed outcome).
func RunWithTimeout(h *History, pc protocol.Client, tb *Table, oidOf func(*operation.AnchoredOperation) int64) Outcome {
	return h.Run(pc, tb, oidOf) // Run itself is bounded
}

// CycleHistory builds a history whose update or recovery chain contains a self-loop or a longer
// commitment cycle at a random position.
func CycleHistory(d *DID, rng *rand.Rand) ([]Event, string) {
	evs := []Event{{Op: d.Create, Legit: true, Label: "create"}}
	pre := rng.Intn(4)
	add := func(s Spec, legit bool) {
		evs = append(evs, Event{Op: Build(s), Legit: legit, Label: s.Label})
	}
	for i := 0; i < pre; i++ {
		nk := d.fresh()
		add(d.ValidUpdate(nk, "U"), true)
		d.AdvanceUpdate(nk)
	}
	useRecover := rng.Intn(3) == 0
	clen := 1 + rng.Intn(5) // 1 = self-loop
	note := fmt.Sprintf("len%d@%d", clen, pre)
	if useRecover {
		note = "recover-" + note
		// cycle in the recovery chain: r0 -> r1 -> ... -> r0
		keys := []*Key{d.CurRec}
		for i := 1; i < clen; i++ {
			keys = append(keys, d.fresh())
		}
		for i := 0; i < clen; i++ {
			cur, next := keys[i], keys[(i+1)%clen]
			upd := d.fresh()
			s := Spec{Label: fmt.Sprintf("R.cycle%d", i), Type: operation.TypeRecover, Suffix: d.Suffix, RevealKey: cur, SignedKey: cur, SignWith: cur,
				NextRec: next.Commitment(d.Code), NextUpd: upd.Commitment(d.Code), DeltaID: d.newID(), Code: d.Code, Origin: OriginValue(2), OriginID: 2}
			add(s, false)
		}
	} else {
		keys := []*Key{d.CurUpd}
		for i := 1; i < clen; i++ {
			keys = append(keys, d.fresh())
		}
		for i := 0; i < clen; i++ {
			cur, next := keys[i], keys[(i+1)%clen]
			s := Spec{Label: fmt.Sprintf("U.cycle%d", i), Type: operation.TypeUpdate, Suffix: d.Suffix, RevealKey: cur, SignedKey: cur, SignWith: cur,
				NextUpd: next.Commitment(d.Code), DeltaID: d.newID(), Code: d.Code}
			add(s, false)
		}
		// an escape hatch competing with the closing operation, so that a longer prefix is possible
		if clen > 1 && rng.Intn(2) == 0 {
			cur := keys[clen-1]
			nk := d.fresh()
			s := Spec{Label: "U.escape", Type: operation.TypeUpdate, Suffix: d.Suffix, RevealKey: cur, SignedKey: cur, SignWith: cur,
				NextUpd: nk.Commitment(d.Code), DeltaID: d.newID(), Code: d.Code}
			add(s, true)
			note += "+escape"
		}
	}
	return evs, note
}

// IntakeRecommitCases exercises Parse (non-batch) with every pairing of revealed key and next
// commitments over a small key pool and both hash algorithms.
func IntakeRecommitCases(r *out.Run, g *out.Group, kp *KeyPool, thorough bool) {
	p := DefaultProtocol()
	ver := NewVersion("1.0", p, VersionOpts{})
	keys := kp.Keys[:5]
	if thorough {
		keys = kp.Keys[:8]
	}
	codes := []uint{SHA256, SHA512}
	create := Build(Spec{Type: operation.TypeCreate, NextUpd: keys[0].Commitment(SHA256), NextRec: keys[1].Commitment(SHA256), DeltaID: 1})
	calls := 0
	parse := func(req []byte) (ok bool, pan string) {
		defer func() {
			if rr := recover(); rr != nil {
				pan = fmt.Sprint(rr)
			}
		}()
		// every other request has been through the batch-mode entry points of the same parser before
		calls++
		if calls%2 == 0 {
			_, _ = ver.Parser.ParseOperation("did:sidetree", req, true)
			_, _ = ver.Parser.GetRevealValue(req)
			_, _ = ver.Parser.GetCommitment(req)
		}
		_, err := ver.Parser.Parse("did:sidetree", req)
		return err == nil, ""
	}
	verEarly := NewVersion("1.0-clock", p, VersionOpts{ParserOpts: []operationparser.Option{operationparser.WithAnchorTimeValidator(earlyClock{now: 3000})}})
	parseEarly := func(req []byte) (ok bool, pan string) {
		defer func() {
			if rr := recover(); rr != nil {
				pan = fmt.Sprint(rr)
			}
		}()
		_, err := verEarly.Parser.Parse("did:sidetree", req)
		return err == nil, ""
	}
	for ri, rk := range keys {
		for ni, nk := range keys {
			for _, nc := range codes {
				// update: reveal rk, next update commitment = commitment(nk) under nc
				s := Spec{Label: "U", Type: operation.TypeUpdate, Suffix: create.UniqueSuffix, RevealKey: rk, SignedKey: rk, SignWith: rk,
					NextUpd: nk.Commitment(nc), DeltaID: 2}
				op := Build(s)
				ok, pan := parse(op.Request)
				// the same request with an anchoring window that has not opened yet, at a node whose clock validator reports
				// it as early: refused, whatever it commits to (an early request gets no lighter check)
				se := s
				se.From, se.Until = 1<<40, 0
				if okE, panE := parseEarly(Build(se).Request); okE || panE != "" {
					r.Direct = append(r.Direct, out.Direct{Oracle: "early_update_is_refused_at_intake", What: fmt.Sprintf("accepted=%v panic=%q", okE, panE),
						Case: map[string]interface{}{"kind": "intake-update-early", "reveal_key": ri, "next_key": ni, "next_code": nc}})
				}
				r.Count("intake_update", fmt.Sprint(ok))
				r.Add(g, emit.App("Build_kcase", "Update", emit.Z(int64(ri)), emit.Z(int64(ni)), emit.Z(int64(nc)), emit.Z(-1), emit.Z(0), emit.Bool(ok), emit.Bool(pan != "")),
					map[string]interface{}{"kind": "intake-update", "reveal_key": ri, "next_key": ni, "next_code": nc, "accepted": ok, "panic": pan, "request": string(op.Request)},
					fmt.Sprintf("u%d-%d-%d", ri, ni, nc), true)
				for mi, mk := range keys {
					if !thorough && (mi+ni+ri)%2 == 1 {
						continue
					}
					// recover: reveal rk, next recovery = commitment(nk) under nc, next update = commitment(mk) under sha256
					s := Spec{Label: "R", Type: operation.TypeRecover, Suffix: create.UniqueSuffix, RevealKey: rk, SignedKey: rk, SignWith: rk,
						NextRec: nk.Commitment(nc), NextUpd: mk.Commitment(SHA256), DeltaID: 2}
					op := Build(s)
					ok, pan := parse(op.Request)
					r.Count("intake_recover", fmt.Sprint(ok))
					r.Add(g, emit.App("Build_kcase", "Recover", emit.Z(int64(ri)), emit.Z(int64(ni)), emit.Z(int64(nc)), emit.Z(int64(mi)), emit.Z(SHA256), emit.Bool(ok), emit.Bool(pan != "")),
						map[string]interface{}{"kind": "intake-recover", "reveal_key": ri, "next_rec_key": ni, "next_code": nc, "next_upd_key": mi, "accepted": ok, "panic": pan, "request": string(op.Request)},
						fmt.Sprintf("r%d-%d-%d-%d", ri, ni, nc, mi), true)
				}
				if ri == 0 {
					continue
				}
			}
		}
	}
	// keys that carry a nonce: the nonce is part of the JWK, so (key, nonce) is a key identity of its own (index 100+i)
	const nonce = "AAECAwQFBgcICQoLDA0ODw"
	withNonce := func(k *Key, code uint) string {
		c := *k.JWK
		c.Nonce = nonce
		v, err := commitment.GetCommitment(&c, code)
		must(err)
		return v
	}
	for ri, rk := range keys[:3] {
		for _, nc := range codes {
			for _, same := range []bool{true, false} {
				next, ni := withNonce(rk, nc), int64(100+ri)
				if !same {
					next, ni = rk.Commitment(nc), int64(ri)
				}
				s := Spec{Label: "U", Type: operation.TypeUpdate, Suffix: create.UniqueSuffix, RevealKey: rk, SignedKey: rk, SignWith: rk, Nonce: nonce,
					NextUpd: next, DeltaID: 2}
				op := Build(s)
				ok, pan := parse(op.Request)
				r.Count("intake_update_nonce", fmt.Sprint(ok))
				r.Add(g, emit.App("Build_kcase", "Update", emit.Z(int64(100+ri)), emit.Z(ni), emit.Z(int64(nc)), emit.Z(-1), emit.Z(0), emit.Bool(ok), emit.Bool(pan != "")),
					map[string]interface{}{"kind": "intake-update-nonce", "reveal_key": ri, "next_is_same_key_with_nonce": same, "next_code": nc, "accepted": ok, "panic": pan, "request": string(op.Request)},
					fmt.Sprintf("un%d-%v-%d", ri, same, nc), true)
				s = Spec{Label: "R", Type: operation.TypeRecover, Suffix: create.UniqueSuffix, RevealKey: rk, SignedKey: rk, SignWith: rk, Nonce: nonce,
					NextRec: next, NextUpd: keys[4].Commitment(SHA256), DeltaID: 2}
				op = Build(s)
				ok, pan = parse(op.Request)
				r.Count("intake_recover_nonce", fmt.Sprint(ok))
				r.Add(g, emit.App("Build_kcase", "Recover", emit.Z(int64(100+ri)), emit.Z(ni), emit.Z(int64(nc)), emit.Z(4), emit.Z(SHA256), emit.Bool(ok), emit.Bool(pan != "")),
					map[string]interface{}{"kind": "intake-recover-nonce", "reveal_key": ri, "next_is_same_key_with_nonce": same, "next_code": nc, "accepted": ok, "panic": pan, "request": string(op.Request)},
					fmt.Sprintf("rn%d-%v-%d", ri, same, nc), true)
			}
		}
	}
	// create: update commitment vs recovery commitment
	for ui, uk := range keys {
		for ci, ck := range keys {
			for _, nc := range codes {
				s := Spec{Label: "C", Type: operation.TypeCreate, NextUpd: uk.Commitment(SHA256), NextRec: ck.Commitment(nc), DeltaID: 1}
				// the optional suffix-data members (type, anchor origin) have no bearing on the rule
				if ui%2 == 1 {
					s.SfxType = "t1"
				}
				if ci%3 == 1 {
					s.Origin = "origin1"
				}
				op := Build(s)
				ok, pan := parse(op.Request)
				r.Count("intake_create", fmt.Sprint(ok))
				r.Add(g, emit.App("Build_kcase", "Create", emit.Z(-1), emit.Z(int64(ci)), emit.Z(int64(nc)), emit.Z(int64(ui)), emit.Z(SHA256), emit.Bool(ok), emit.Bool(pan != "")),
					map[string]interface{}{"kind": "intake-create", "upd_key": ui, "rec_key": ci, "rec_code": nc, "accepted": ok, "panic": pan, "request": string(op.Request)},
					fmt.Sprintf("c%d-%d-%d", ui, ci, nc), true)
			}
		}
	}
}

// NoopWriter is a batch writer that accepts everything.
type NoopWriter = noopWriter

// EmptyStore is an operation store without any anchored operation.
type EmptyStore struct{}

// Get implements the operation store.
func (EmptyStore) Get(string) ([]*operation.AnchoredOperation, error) {
	return nil, fmt.Errorf("uniqueSuffix not found in the store")
}

// IntakeSession is one document handler (default decorator) kept across submissions while the store changes:
// whatever the handler remembers between calls must not outlive a later deactivation.
type IntakeSession struct {
	store *sliceStore
	dh    *dochandler.DocumentHandler
}

// NewIntakeSession creates the handler over an initially given store content.
func NewIntakeSession(pc protocol.Client, pub []Placed) *IntakeSession {
	st := &sliceStore{ops: pub}
	proc := processor.New("verif", st, pc)
	return &IntakeSession{store: st, dh: dochandler.New("did:sidetree", nil, pc, noopWriter{}, proc, NoopMetrics{})}
}

// SetStore replaces the anchored operations the handler's processor sees.
func (s *IntakeSession) SetStore(pub []Placed) { s.store.ops = pub }

// Submit hands a request to the same handler.
func (s *IntakeSession) Submit(op *Op) (res string) {
	defer func() {
		if r := recover(); r != nil {
			res = "panic:" + fmt.Sprint(r)
		}
	}()
	_, err := s.dh.ProcessOperation(op.Request, 0)
	switch {
	case err == nil:
		return "accepted"
	case strings.Contains(err.Error(), "document has been deactivated"):
		return "deactivated"
	}
	return "rejected-earlier"
}

// SliceStore is an operation store (published or unpublished) over a fixed list of placed operations.
func SliceStore(ps []Placed) *sliceStore { return &sliceStore{ops: ps} }

// earlyClock is a server-time validator: a window that opens after "now" is early, one that closed before is expired.
type earlyClock struct{ now int64 }

func (c earlyClock) Validate(from, until int64) error {
	if from > c.now {
		return operationparser.ErrOperationEarly
	}
	if until != 0 && until < c.now {
		return operationparser.ErrOperationExpired
	}
	return nil
}
