package world

import (
	"fmt"
	"math/rand"

	"github.com/trustbloc/sidetree-core-go/pkg/api/operation"
)

// DID is a generated DID with its legitimate chain state, used to build histories.
type DID struct {
	Keys    []*Key // key pool; index = identity
	Table   *Table
	Code    uint
	Create  *Op
	Suffix  string
	rng     *rand.Rand
	nextKey int
	nextID  int64 // delta content ids
	// chain state while generating
	CurUpd *Key // key whose commitment is the update commitment in force (nil = none)
	CurRec *Key
	Deact  bool
	// history of commitments consumed, for cycles
	PastUpd []*Key
	PastRec []*Key
}

// KeyPool is shared between DIDs of one run (key generation for P-521 is slow).
type KeyPool struct {
	Keys []*Key
}

// NewKeyPool generates n keys cycling over the five types.
func NewKeyPool(n int) *KeyPool {
	kp := &KeyPool{}
	for i := 0; i < n; i++ {
		kp.Keys = append(kp.Keys, NewKey(i, KeyType(i%int(NumKeyTypes))))
	}
	return kp
}

// NewDID creates a DID whose create operation commits to two keys of the pool.
func NewDID(kp *KeyPool, tb *Table, rng *rand.Rand, code uint) *DID {
	d := &DID{Keys: kp.Keys, Table: tb, Code: code, rng: rng, nextID: 1}
	// random rotation of the pool so that key types vary per DID
	off := rng.Intn(len(kp.Keys))
	ks := make([]*Key, len(kp.Keys))
	for i := range ks {
		ks[i] = kp.Keys[(i+off)%len(kp.Keys)]
	}
	d.Keys = ks
	for _, k := range ks {
		tb.ID(k.Commitment(code))
	}
	d.CurRec, d.CurUpd = d.fresh(), d.fresh()
	d.Create = Build(Spec{Label: "C", Type: operation.TypeCreate, NextUpd: d.CurUpd.Commitment(code), NextRec: d.CurRec.Commitment(code),
		DeltaID: d.newID(), Code: code, Origin: OriginValue(1), OriginID: 1})
	d.Suffix = d.Create.UniqueSuffix
	return d
}

func (d *DID) fresh() *Key {
	k := d.Keys[d.nextKey%len(d.Keys)]
	d.nextKey++
	return k
}

// Stranger returns a key that is never part of the legitimate chain (taken from the end of the pool).
func (d *DID) Stranger(i int) *Key { return d.Keys[len(d.Keys)-1-(i%3)] }

func (d *DID) newID() int64 {
	v := d.nextID
	d.nextID++
	return v
}

// Remaining tells how many fresh keys are left before the pool wraps into the strangers.
func (d *DID) Remaining() int { return len(d.Keys) - 3 - d.nextKey }

// Window kinds for operations.
type WinKind int

// Window kinds.
const (
	WNone WinKind = iota
	WIn
	WEarly
	WLate
	WDefaultIn
	WDefaultLate
)

// WindowFor gives (from, until) for an operation anchored at time t under time delta dl.
func WindowFor(k WinKind, t int64, dl int64) (int64, int64) {
	switch k {
	case WIn:
		return t - 1, t + 1
	case WEarly:
		return t + 1, t + 100
	case WLate:
		return 1, t - 1
	case WDefaultIn:
		return t - dl, 0
	case WDefaultLate:
		return t - dl - 1, 0
	}
	return 0, 0
}

// ValidUpdate builds a valid update spending the current update key (does not advance the state).
func (d *DID) ValidUpdate(next *Key, label string) Spec {
	return Spec{Label: label, Type: operation.TypeUpdate, Suffix: d.Suffix, RevealKey: d.CurUpd, SignedKey: d.CurUpd, SignWith: d.CurUpd,
		NextUpd: next.Commitment(d.Code), DeltaID: d.newID(), Code: d.Code}
}

// ValidRecover builds a valid recover spending the current recovery key.
func (d *DID) ValidRecover(nextRec, nextUpd *Key, label string) Spec {
	oid := int64(2 + d.rng.Intn(3))
	return Spec{Label: label, Type: operation.TypeRecover, Suffix: d.Suffix, RevealKey: d.CurRec, SignedKey: d.CurRec, SignWith: d.CurRec,
		NextUpd: nextUpd.Commitment(d.Code), NextRec: nextRec.Commitment(d.Code), DeltaID: d.newID(), Code: d.Code,
		Origin: OriginValue(oid), OriginID: oid}
}

// ValidDeactivate builds a valid deactivate spending the current recovery key.
func (d *DID) ValidDeactivate(label string) Spec {
	return Spec{Label: label, Type: operation.TypeDeactivate, Suffix: d.Suffix, RevealKey: d.CurRec, SignedKey: d.CurRec, SignWith: d.CurRec, Code: d.Code}
}

// Step is a legitimate step appended to the chain; Advance applies its effect to the DID state.
type Step struct {
	Op      *Op
	NextUpd *Key
	NextRec *Key
}

// AdvanceUpdate moves the update commitment.
func (d *DID) AdvanceUpdate(next *Key) {
	if d.CurUpd != nil {
		d.PastUpd = append(d.PastUpd, d.CurUpd)
	}
	d.CurUpd = next
}

// AdvanceRecover moves both commitments.
func (d *DID) AdvanceRecover(nextRec, nextUpd *Key) {
	d.PastRec = append(d.PastRec, d.CurRec)
	if d.CurUpd != nil {
		d.PastUpd = append(d.PastUpd, d.CurUpd)
	}
	d.CurRec, d.CurUpd = nextRec, nextUpd
}

// ForgedKinds enumerates the unauthorised variants of C01.
var ForgedKinds = []string{"otherkey", "forgedsig", "sigflip", "payload", "revealmismatch",
	// a bad signature combined with a second defect (checks must not be reordered around early returns)
	"forgedsig+swapdelta", "forgedsig+nodelta", "forgedsig+disabled", "forgedsig+failpatch",
	// the request reveals the legitimate key, the signed part is the attacker's and consistent in itself (own key,
	// own key's reveal value where the signed data carries one)
	"revealmismatch+signedreveal",
	// a copy of a correctly signed operation with bytes appended to its signature
	"sigextend",
	// the committed key's reveal value in the request, another key inside the signed data, and no delta at all
	"revealmismatch+nodelta"}

// Forge makes an unauthorised variant of the given type against the current keys.
func (d *DID) Forge(ty operation.Type, kind string, n int) Spec {
	stranger := d.Stranger(n)
	attackerNext := d.Stranger(n + 1)
	cur := d.CurUpd
	if ty != operation.TypeUpdate {
		cur = d.CurRec
	}
	if cur == nil {
		cur = stranger
	}
	s := Spec{Label: fmt.Sprintf("%s.%s", ty, kind), Type: ty, Suffix: d.Suffix, RevealKey: cur, SignedKey: cur, SignWith: cur,
		NextUpd: attackerNext.Commitment(d.Code), NextRec: d.Stranger(n + 2).Commitment(d.Code), DeltaID: 900 + int64(n), Code: d.Code}
	if ty == operation.TypeRecover {
		s.Origin, s.OriginID = OriginValue(9), 9
	}
	switch kind {
	case "otherkey":
		s.RevealKey, s.SignedKey, s.SignWith = stranger, stranger, stranger
		if s.NextRec == stranger.Commitment(d.Code) {
			s.NextRec = attackerNext.Commitment(d.Code)
		}
	case "forgedsig":
		s.SignWith = stranger
	case "forgedsig+swapdelta":
		s.SignWith, s.Tamper = stranger, TSwapDelta
	case "forgedsig+nodelta":
		s.SignWith, s.Tamper = stranger, TNoDelta
	case "forgedsig+disabled":
		s.SignWith = stranger
		s.Patches, s.DValid, s.PatchOK = DisabledPatches(), false, true
	case "forgedsig+failpatch":
		s.SignWith = stranger
		s.Patches, s.DValid, s.PatchOK = FailingPatches(), true, false
	case "sigextend":
		s.Tamper = TSigExtend
	case "sigflip":
		s.Tamper = TSigFlip
	case "payload":
		s.Tamper = TPayload
	case "revealmismatch+signedreveal":
		s.SignedKey, s.SignWith, s.SignedReveal = stranger, stranger, stranger
		if s.NextRec == stranger.Commitment(d.Code) {
			s.NextRec = attackerNext.Commitment(d.Code)
		}
	case "revealmismatch+nodelta":
		s.SignedKey, s.SignWith, s.Tamper = stranger, stranger, TNoDelta
		if s.NextRec == stranger.Commitment(d.Code) {
			s.NextRec = attackerNext.Commitment(d.Code)
		}
	case "revealmismatch":
		s.SignedKey, s.SignWith = stranger, stranger
		if s.NextRec == stranger.Commitment(d.Code) {
			s.NextRec = attackerNext.Commitment(d.Code)
		}
	}
	return s
}
