// Package world wires the real sidetree-core-go components for the correspondence harness.
package world

import (
	"crypto/ecdsa"
	"crypto/ed25519"
	"crypto/elliptic"
	"crypto/rand"
	"fmt"

	"github.com/btcsuite/btcd/btcec"

	"github.com/trustbloc/sidetree-core-go/pkg/commitment"
	"github.com/trustbloc/sidetree-core-go/pkg/jws"
	"github.com/trustbloc/sidetree-core-go/pkg/util/ecsigner"
	"github.com/trustbloc/sidetree-core-go/pkg/util/edsigner"
	"github.com/trustbloc/sidetree-core-go/pkg/util/pubkey"
	"github.com/trustbloc/sidetree-core-go/pkg/versions/1_0/client"
)

// KeyType enumerates the supported key types.
type KeyType int

// The five key types the library supports.
const (
	Ed25519 KeyType = iota
	P256
	P384
	P521
	Secp256k1
	NumKeyTypes
)

// Alg returns the JWS algorithm of a key type.
func (k KeyType) Alg() string {
	return [...]string{"EdDSA", "ES256", "ES384", "ES512", "ES256K"}[k]
}

// Crv returns the JWK curve name of a key type.
func (k KeyType) Crv() string {
	return [...]string{"Ed25519", "P-256", "P-384", "P-521", "secp256k1"}[k]
}

// AllAlgs lists every signature algorithm.
var AllAlgs = []string{"EdDSA", "ES256", "ES384", "ES512", "ES256K"}

// AllCrvs lists every curve.
var AllCrvs = []string{"Ed25519", "P-256", "P-384", "P-521", "secp256k1"}

// Key is a key pair with its public JWK and signer.
type Key struct {
	Index  int
	Type   KeyType
	Priv   interface{}
	Pub    interface{}
	JWK    *jws.JWK
	Signer client.Signer
}

// NewKey generates a key. Key generation is not seeded (Go forbids that for ECDSA); replay files
// therefore store concrete request bytes.
func NewKey(index int, t KeyType) *Key {
	k := &Key{Index: index, Type: t}
	switch t {
	case Ed25519:
		pub, priv, err := ed25519.GenerateKey(rand.Reader)
		must(err)
		k.Priv, k.Pub = priv, pub
		k.Signer = edsigner.New(priv, t.Alg(), "")
	default:
		var c elliptic.Curve
		switch t {
		case P256:
			c = elliptic.P256()
		case P384:
			c = elliptic.P384()
		case P521:
			c = elliptic.P521()
		case Secp256k1:
			c = btcec.S256()
		}
		priv, err := ecdsa.GenerateKey(c, rand.Reader)
		must(err)
		k.Priv, k.Pub = priv, &priv.PublicKey
		k.Signer = ecsigner.New(priv, t.Alg(), "")
	}
	j, err := pubkey.GetPublicKeyJWK(k.Pub)
	must(err)
	k.JWK = j
	return k
}

// Commitment returns the commitment of the key under the multihash code.
func (k *Key) Commitment(code uint) string {
	c, err := commitment.GetCommitment(k.JWK, code)
	must(err)
	return c
}

// Reveal returns the reveal value of the key under the multihash code.
func (k *Key) Reveal(code uint) string {
	c, err := commitment.GetRevealValue(k.JWK, code)
	must(err)
	return c
}

func must(err error) {
	if err != nil {
		panic(fmt.Sprintf("harness internal error: %v", err))
	}
}

// Must panics on a harness-internal error.
func Must(err error) { must(err) }

var shortCoordKey *Key

// ShortCoordinateKey returns a secp256k1 key one of whose coordinates starts with a zero byte (its minimal
// big-endian form is shorter than 32 bytes; the JWK must still carry 32 bytes). About 1 key in 128 is like that.
func ShortCoordinateKey() *Key {
	if shortCoordKey != nil {
		return shortCoordKey
	}
	for i := 0; ; i++ {
		k := NewKey(1000+i, Secp256k1)
		pub := k.Pub.(*ecdsa.PublicKey)
		if len(pub.X.Bytes()) < 32 || len(pub.Y.Bytes()) < 32 {
			shortCoordKey = k
			return k
		}
	}
}
