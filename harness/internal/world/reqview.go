package world

import (
	"encoding/json"
	"sort"
	"strings"

	josejson "github.com/square/go-jose/v3/json"

	"github.com/trustbloc/sidetree-core-go/pkg/api/protocol"
	"github.com/trustbloc/sidetree-core-go/pkg/canonicalizer"
	"github.com/trustbloc/sidetree-core-go/pkg/jws"
	"github.com/trustbloc/sidetree-core-go/pkg/patch"
	"github.com/trustbloc/sidetree-core-go/pkg/versions/1_0/model"
	"github.com/trustbloc/sidetree-core-go/pkg/versions/1_0/operationparser/patchvalidator"

	"verif/harness/internal/emit"
)

// ProtoGallina renders the parser's view of the protocol.
func ProtoGallina(p protocol.Protocol) string {
	var algs, sigs, keys, patches []string
	for _, a := range p.MultihashAlgorithms {
		algs = append(algs, emit.N(uint64(a)))
	}
	for _, s := range p.SignatureAlgorithms {
		sigs = append(sigs, emit.Hex([]byte(s)))
	}
	for _, s := range p.KeyAlgorithms {
		keys = append(keys, emit.Hex([]byte(s)))
	}
	for _, s := range p.Patches {
		patches = append(patches, emit.Hex([]byte(s)))
	}
	return emit.App("Build_pproto", emit.Z(int64(p.MaxOperationSize)), emit.Z(int64(p.MaxOperationHashLength)), emit.Z(int64(p.MaxDeltaSize)),
		emit.Z(int64(p.NonceSize)), emit.Z(int64(p.MaxOperationTimeDelta)), emit.List(algs), emit.List(sigs), emit.List(keys), emit.List(patches))
}

func canonOrEmpty(v interface{}) []byte {
	b, err := canonicalizer.MarshalCanonical(v)
	if err != nil {
		return nil
	}
	return b
}

func jwkView(k *jws.JWK) string {
	if k == nil {
		return emit.App("Build_jwk_view", "false", "[]", "[]", "[]", "[]", "[]", "[]")
	}
	return emit.App("Build_jwk_view", "true", emit.Hex([]byte(k.Kty)), emit.Hex([]byte(k.Crv)), emit.Hex([]byte(k.X)), emit.Hex([]byte(k.Y)),
		emit.Hex([]byte(k.Nonce)), emit.Hex(canonOrEmpty(k)))
}

// HdrFactsOf renders go-jose's view of a protected header part (base64url text).
func HdrFactsOf(part string) (gallina string, names []string, alg *string, payloadJSON []byte) {
	jsonOK, hasAlg, bk := false, false, "B64Absent"
	var marshal []byte
	raw, err := b64.DecodeString(part)
	_ = raw
	if err == nil {
		var m map[string]interface{}
		if josejson.Unmarshal(raw, &m) == nil {
			jsonOK = true
			if m != nil {
				_, hasAlg = m["alg"]
				if v, ok := m["b64"]; ok {
					switch x := v.(type) {
					case bool:
						if x {
							bk = "B64True"
						} else {
							bk = "B64False"
						}
					default:
						bk = "B64NotBool"
					}
				}
				marshal, _ = josejson.Marshal(m)
				for k := range m {
					names = append(names, k)
				}
				sort.Strings(names)
				if s, ok := m["alg"].(string); ok {
					alg = &s
				}
			}
		}
	}
	return emit.App("Build_hdr_facts", emit.Bool(jsonOK), emit.Bool(hasAlg), bk, emit.Hex(marshal)), names, alg, nil
}

// SignedView renders the signed-data view for an operation type.
func SignedView(compact string, ty string, originOK func(interface{}) bool) string {
	parts := strings.Split(compact, ".")
	hdrG := emit.App("Build_hdr_facts", "false", "false", "B64Absent", "[]")
	var names []string
	var alg *string
	if len(parts) == 3 {
		hdrG, names, alg, _ = HdrFactsOf(parts[0])
	}
	var nameG []string
	for _, n := range names {
		nameG = append(nameG, emit.Hex([]byte(n)))
	}
	algG := "None"
	if alg != nil {
		algG = "(Some " + emit.Hex([]byte(*alg)) + ")"
	}
	modelOK := false
	var key *jws.JWK
	var deltaHash, recCommit, didSuffix string
	var from, until int64
	oOK := true
	if len(parts) == 3 {
		if payload, err := b64.DecodeString(parts[1]); err == nil {
			switch ty {
			case "update":
				var m model.UpdateSignedDataModel
				if json.Unmarshal(payload, &m) == nil {
					modelOK, key, deltaHash, from, until = true, m.UpdateKey, m.DeltaHash, m.AnchorFrom, m.AnchorUntil
				}
			case "recover":
				var m model.RecoverSignedDataModel
				if json.Unmarshal(payload, &m) == nil {
					modelOK, key, deltaHash, recCommit, from, until = true, m.RecoveryKey, m.DeltaHash, m.RecoveryCommitment, m.AnchorFrom, m.AnchorUntil
					oOK = originOK(m.AnchorOrigin)
				}
			case "deactivate":
				var m model.DeactivateSignedDataModel
				if json.Unmarshal(payload, &m) == nil {
					modelOK, key, didSuffix, from, until = true, m.RecoveryKey, m.DidSuffix, m.AnchorFrom, m.AnchorUntil
				}
			}
		}
	}
	return emit.App("Build_signed_view", emit.Hex([]byte(compact)), hdrG, emit.List(nameG), algG, emit.Bool(modelOK), jwkView(key),
		emit.Hex([]byte(deltaHash)), emit.Hex([]byte(recCommit)), emit.Hex([]byte(didSuffix)), emit.Z(from), emit.Z(until), emit.Bool(oOK))
}

func deltaView(d *model.DeltaModel) string {
	if d == nil {
		return emit.App("Build_delta_view", "false", "[]", "[]", "[]", "[]")
	}
	var acts, valid []string
	for _, p := range d.Patches {
		a, err := p.GetAction()
		if err != nil {
			acts = append(acts, "None")
		} else {
			acts = append(acts, "(Some "+emit.Hex([]byte(a))+")")
		}
		ok := false
		func() {
			defer func() { recover() }() //nolint:errcheck
			ok = patchvalidator.Validate(p) == nil
		}()
		valid = append(valid, emit.Bool(ok))
	}
	return emit.App("Build_delta_view", "true", emit.List(acts), emit.List(valid), emit.Hex([]byte(d.UpdateCommitment)), emit.Hex(canonOrEmpty(d)))
}

func suffixView(s *model.SuffixDataModel, originOK func(interface{}) bool) string {
	if s == nil {
		return emit.App("Build_suffix_view", "false", "[]", "[]", "[]", "true")
	}
	return emit.App("Build_suffix_view", "true", emit.Hex([]byte(s.DeltaHash)), emit.Hex([]byte(s.RecoveryCommitment)), emit.Hex(canonOrEmpty(s)),
		emit.Bool(originOK(s.AnchorOrigin)))
}

// ReqView renders the decoded view of a request buffer.
func ReqView(buf []byte, originOK func(interface{}) bool) string {
	var schema struct {
		Operation string `json:"type"`
	}
	schemaOK := json.Unmarshal(buf, &schema) == nil
	ty := schema.Operation
	structOK := false
	var didSuffix, reveal, signedData string
	var delta *model.DeltaModel
	var sd *model.SuffixDataModel
	if schemaOK {
		switch ty {
		case "create":
			var r model.CreateRequest
			if json.Unmarshal(buf, &r) == nil {
				structOK, delta, sd = true, r.Delta, r.SuffixData
			}
		case "update":
			var r model.UpdateRequest
			if json.Unmarshal(buf, &r) == nil {
				structOK, didSuffix, reveal, signedData, delta = true, r.DidSuffix, r.RevealValue, r.SignedData, r.Delta
			}
		case "recover":
			var r model.RecoverRequest
			if json.Unmarshal(buf, &r) == nil {
				structOK, didSuffix, reveal, signedData, delta = true, r.DidSuffix, r.RevealValue, r.SignedData, r.Delta
			}
		case "deactivate":
			var r model.DeactivateRequest
			if json.Unmarshal(buf, &r) == nil {
				structOK, didSuffix, reveal, signedData = true, r.DidSuffix, r.RevealValue, r.SignedData
			}
		}
	}
	return emit.App("Build_req_view", emit.Z(int64(len(buf))), emit.Bool(schemaOK), emit.Hex([]byte(ty)), emit.Bool(structOK),
		emit.Hex([]byte(didSuffix)), emit.Hex([]byte(reveal)), emit.Hex([]byte(signedData)),
		SignedView(signedData, ty, originOK), deltaView(delta), suffixView(sd, originOK))
}

// PatchVerdicts gives patchvalidator.Validate's verdict for every patch of the request's decoded delta (the same
// decoding as ReqView): the facts the view computed inside Coq from the request bytes still takes from the code.
func PatchVerdicts(buf []byte) []bool {
	var schema struct {
		Operation string `json:"type"`
	}
	if json.Unmarshal(buf, &schema) != nil {
		return nil
	}
	var delta *model.DeltaModel
	switch schema.Operation {
	case "create":
		var r model.CreateRequest
		if json.Unmarshal(buf, &r) == nil {
			delta = r.Delta
		}
	case "update":
		var r model.UpdateRequest
		if json.Unmarshal(buf, &r) == nil {
			delta = r.Delta
		}
	case "recover":
		var r model.RecoverRequest
		if json.Unmarshal(buf, &r) == nil {
			delta = r.Delta
		}
	}
	var out []bool
	if delta != nil {
		for _, p := range delta.Patches {
			ok := false
			func(p patch.Patch) {
				defer func() { _ = recover() }()
				ok = patchvalidator.Validate(p) == nil
			}(p)
			out = append(out, ok)
		}
	}
	return out
}
