package world

import (
	"encoding/hex"
	"encoding/json"
	"math/bits"
	"strings"

	"github.com/trustbloc/sidetree-core-go/pkg/api/operation"
	"github.com/trustbloc/sidetree-core-go/pkg/canonicalizer"
	"github.com/trustbloc/sidetree-core-go/pkg/versions/1_0/model"
	"github.com/trustbloc/sidetree-core-go/pkg/versions/1_0/txnprovider/models"

	"verif/harness/internal/emit"
)

// BytesFacts is what SV.Batch.FilesOfBytes takes as facts when it computes the batch-file view from the bytes of the
// files: the content of the CAS addresses that can be reached from the anchor string, the parser verdicts on what is
// embedded in the files (in file order), and the interning table of the strings the view identifies by number.
type BytesFacts struct {
	CAS          []string // Gallina pairs (uri, cas_entry), one per reachable address
	IDs          []string // Gallina triples (length, fingerprint, id)
	Creates      []string // create_fact per create reference that has suffix data
	CPRecover    []string // proof_fact per entry
	CPDeactivate []string
	PPUpdate     []string
	Deltas       []string // bool per non-nil delta
	// statistics
	Files       map[string]string // file kind -> "absent" | "unreadable" | "not-decompressed" | "decode-error" | "decoded"
	ContentSize int
	seenURI     map[string]bool
	seenFP      map[[2]uint64]bool
}

// FP is the fingerprint SV.Corr.FilesOfBytes.fp computes: a polynomial hash modulo 2^61-1.
func FP(s string) uint64 {
	const m = (1 << 61) - 1
	h := uint64(0)
	for i := 0; i < len(s); i++ {
		hi, lo := bits.Mul64(h, 131)
		lo, c := bits.Add64(lo, uint64(s[i])+1, 0)
		_, h = bits.Div64(hi+c, lo, m)
	}
	return h
}

// HexBytes renders bytes for the case files of SV.Corr.FilesOfBytes: chunks of the byte-list literal fh "..", long runs
// of one byte as (rp ".." n).
func HexBytes(b []byte) string {
	if len(b) == 0 {
		return "[]"
	}
	var parts []string
	lit := func(x []byte) {
		h := hex.EncodeToString(x)
		for len(h) > 4000 {
			parts = append(parts, `fh "`+h[:4000]+`"`)
			h = h[4000:]
		}
		if len(h) > 0 {
			parts = append(parts, `fh "`+h+`"`)
		}
	}
	start := 0
	for i := 0; i < len(b); {
		j := i
		for j < len(b) && b[j] == b[i] {
			j++
		}
		if j-i >= 200 {
			lit(b[start:i])
			parts = append(parts, `rp "`+hex.EncodeToString(b[i:i+1])+`" `+emit.N(uint64(j-i)))
			start = j
		}
		i = j
	}
	lit(b[start:])
	if len(parts) == 1 {
		return "(" + parts[0] + ")"
	}
	return "(" + strings.Join(parts, " ++ ") + ")"
}

func (f *BytesFacts) intern(s string, id int64) {
	if s == "" {
		return
	}
	k := [2]uint64{uint64(len(s)), FP(s)}
	if f.seenFP[k] {
		return
	}
	f.seenFP[k] = true
	f.IDs = append(f.IDs, "("+emit.Z(int64(k[0]))+", "+emit.Z(int64(k[1]))+", "+emit.Z(id)+")")
}

// internJSON mirrors IDs.OfJSON and records the text that was interned.
func (f *BytesFacts) internJSON(ids *IDs, v interface{}) {
	b, err := canonicalizer.MarshalCanonical(v)
	if err != nil {
		b, _ = json.Marshal(v)
	}
	if string(b) == "null" {
		return
	}
	f.intern(string(b), ids.Of(string(b)))
}

// entry records the facts about one address and returns the decompressed content.
func (v *ViewBuilder) entry(f *BytesFacts, kind, uri string) ([]byte, bool) {
	b, err := v.CAS.Read(uri)
	var content []byte
	var derr error
	if err == nil {
		content, derr = v.cp.Decompress(v.P.CompressionAlgorithm, b)
	}
	switch {
	case err != nil:
		f.Files[kind] = "unreadable"
	case derr != nil:
		f.Files[kind] = "not-decompressed"
	default:
		f.Files[kind] = "decode-error"
	}
	if !f.seenURI[uri] {
		f.seenURI[uri] = true
		switch {
		case err != nil && v.CAS.FailKey[uri]: // an address that exists but cannot be read: explicit entry
			f.CAS = append(f.CAS, "("+HexBytes([]byte(uri))+", "+emit.App("Build_cas_entry", "false", "0%Z", "false", "[]")+")")
		case err != nil: // nothing there: no entry
		case derr != nil:
			f.CAS = append(f.CAS, "("+HexBytes([]byte(uri))+", "+emit.App("Build_cas_entry", "true", emit.Z(int64(len(b))), "false", "[]")+")")
		default:
			f.ContentSize += len(content)
			f.CAS = append(f.CAS, "("+HexBytes([]byte(uri))+", "+emit.App("Build_cas_entry", "true", emit.Z(int64(len(b))), "true", HexBytes(content))+")")
		}
	}
	return content, err == nil && derr == nil
}

func (v *ViewBuilder) proofFacts(f *BytesFacts, ss []string, ty operation.Type) []string {
	var out []string
	for _, s := range ss {
		f.intern(s, v.IDs.Of(s))
		ok := false
		var origin int64
		func() {
			defer func() { recover() }() //nolint:errcheck
			switch ty {
			case operation.TypeRecover:
				m, err := v.Parser.ParseSignedDataForRecover(s)
				ok = err == nil
				if ok {
					origin = v.IDs.OfJSON(m.AnchorOrigin)
				}
			case operation.TypeDeactivate:
				_, err := v.Parser.ParseSignedDataForDeactivate(s)
				ok = err == nil
			case operation.TypeUpdate:
				_, err := v.Parser.ParseSignedDataForUpdate(s)
				ok = err == nil
			}
		}()
		out = append(out, emit.App("Build_proof_fact", emit.Bool(ok), emit.Z(origin)))
	}
	return out
}

func (v *ViewBuilder) refFacts(f *BytesFacts, rs []models.OperationReference) {
	for _, r := range rs {
		f.intern(r.DidSuffix, v.IDs.Of(r.DidSuffix))
		f.intern(r.RevealValue, v.IDs.Of(r.RevealValue))
	}
}

// BytesFacts walks the files reachable from the anchor string the way ViewBuilder.Anchor does (the library's own
// decoders, none of the provider's logic) and records the facts. Call it after Anchor (same interning table).
func (v *ViewBuilder) BytesFacts(anchorString string) *BytesFacts {
	f := &BytesFacts{Files: map[string]string{"core": "absent", "coreProof": "absent", "provIndex": "absent", "provProof": "absent", "chunk": "absent"},
		seenURI: map[string]bool{}, seenFP: map[[2]uint64]bool{}}
	parts := strings.Split(anchorString, ".")
	if len(parts) != 2 || !anchorInt.MatchString(parts[0]) || len(parts[0]) > 19 || (len(parts[0]) == 19 && parts[0] > "9223372036854775807") {
		return f
	}
	content, ok := v.entry(f, "core", parts[1])
	if !ok {
		return f
	}
	cif, err := models.ParseCoreIndexFile(content)
	if err != nil {
		return f
	}
	f.Files["core"] = "decoded"
	if cif.Operations != nil {
		for _, c := range cif.Operations.Create {
			if c.SuffixData == nil {
				continue
			}
			valid := v.Parser.ValidateSuffixData(c.SuffixData) == nil
			var sfx int64
			if s, err := model.GetUniqueSuffix(c.SuffixData, v.P.MultihashAlgorithms); err == nil {
				sfx = v.IDs.Of(s)
			}
			f.internJSON(v.IDs, c.SuffixData)
			f.Creates = append(f.Creates, emit.App("Build_create_fact", emit.Bool(valid), emit.Z(sfx), emit.Z(v.IDs.OfJSON(c.SuffixData.AnchorOrigin))))
		}
		v.refFacts(f, cif.Operations.Recover)
		v.refFacts(f, cif.Operations.Deactivate)
	}
	if cif.CoreProofFileURI != "" {
		if content, ok := v.entry(f, "coreProof", cif.CoreProofFileURI); ok {
			if cpf, err := models.ParseCoreProofFile(content); err == nil {
				f.Files["coreProof"] = "decoded"
				f.CPRecover = v.proofFacts(f, cpf.Operations.Recover, operation.TypeRecover)
				f.CPDeactivate = v.proofFacts(f, cpf.Operations.Deactivate, operation.TypeDeactivate)
			}
		}
	}
	if cif.ProvisionalIndexFileURI == "" {
		return f
	}
	content, ok = v.entry(f, "provIndex", cif.ProvisionalIndexFileURI)
	if !ok {
		return f
	}
	pif, err := models.ParseProvisionalIndexFile(content)
	if err != nil {
		return f
	}
	f.Files["provIndex"] = "decoded"
	if pif.Operations != nil {
		v.refFacts(f, pif.Operations.Update)
	}
	if pif.ProvisionalProofFileURI != "" {
		if content, ok := v.entry(f, "provProof", pif.ProvisionalProofFileURI); ok {
			if ppf, err := models.ParseProvisionalProofFile(content); err == nil {
				f.Files["provProof"] = "decoded"
				f.PPUpdate = v.proofFacts(f, ppf.Operations.Update, operation.TypeUpdate)
			}
		}
	}
	if len(pif.Chunks) > 0 && pif.Chunks[0].ChunkFileURI != "" {
		if content, ok := v.entry(f, "chunk", pif.Chunks[0].ChunkFileURI); ok {
			if cf, err := models.ParseChunkFile(content); err == nil {
				f.Files["chunk"] = "decoded"
				for _, d := range cf.Deltas {
					if d == nil {
						continue
					}
					valid := false
					func() {
						defer func() { recover() }() //nolint:errcheck
						valid = v.Parser.ValidateDelta(d) == nil
					}()
					f.internJSON(v.IDs, d)
					f.Deltas = append(f.Deltas, emit.Bool(valid))
				}
			}
		}
	}
	return f
}
