// Patch pool of the validator generator (copied from harness/cmd/gen_validator/main.go, which this package must
// not import or edit): every patch action with valid and invalid keys / services / ids / URIs / JSON-patch operations,
// and the independent re-statement of the C18 rules for an ACCEPTED patch.
package main

import (
	"encoding/json"
	"net/url"
	"regexp"
	"strings"
)

func q(s string) string { b, _ := json.Marshal(s); return string(b) }

// absent member is encoded as ""
func obj(members ...string) string {
	var it []string
	for i := 0; i+1 < len(members); i += 2 {
		if members[i+1] == "" {
			continue
		}
		it = append(it, q(members[i])+":"+members[i+1])
	}
	return "{" + strings.Join(it, ",") + "}"
}

var id50 = strings.Repeat("a", 50)
var id51 = strings.Repeat("a", 51)

var idVariants = []string{q("key-1"), q("A_z-09"), q(id50), q(id51), q(""), q("a b"), q("a.b"), q("kä"), q("a\n"), "", "5", "null", q("-")}

func init() {
	// every printable ASCII character inside an id (the URL-safe class is exactly A-Z a-z 0-9 _ -)
	for c := 0x20; c <= 0x7e; c++ {
		idVariants = append(idVariants, q("k"+string(rune(c))+"1"))
	}
}

var typeVariants = []string{q("JsonWebKey2020"), q("Bls12381G2Key2020"), q("EcdsaSecp256k1VerificationKey2019"), q("Ed25519VerificationKey2018"),
	q("Ed25519VerificationKey2020"), q("X25519KeyAgreementKey2019"), q("RsaKey"), q(""), "", "null", "7"}
var purposeVariants = []string{"", "[]", `["authentication"]`, `["keyAgreement"]`, `["assertionMethod","keyAgreement"]`,
	`["authentication","assertionMethod","keyAgreement","capabilityDelegation","capabilityInvocation"]`,
	`["authentication","assertionMethod","keyAgreement","capabilityDelegation","capabilityInvocation","authentication"]`,
	`["invalid"]`, `"authentication"`, `[1]`, `[1,"capabilityInvocation"]`, `null`, `["authentication","authentication"]`}

const goodJWK = `{"kty":"EC","crv":"P-256","x":"abc","y":"def"}`

// (jwk member, base58 member)
var materialVariants = [][2]string{{goodJWK, ""}, {"", q("3M5RCDjPTWPkKSN3sxUmmMqHbmRPegYP1tjcKyrDbt9J")}, {goodJWK, q("abc")}, {"", ""},
	{`{"kty":"EC","x":"abc"}`, ""}, {`{"crv":"P-256","x":"abc"}`, ""}, {`{"kty":"EC","crv":"P-256"}`, ""}, {`{"kty":"EC","crv":"P-256","x":""}`, ""},
	{`{"kty":1,"crv":"P-256","x":"a"}`, ""}, {`"jwk"`, ""}, {"null", ""}, {"", q("")}, {"", "5"}, {"", "null"}, {`{"kty":"OKP","crv":"Ed25519","x":"a"}`, ""}}

func keyEntry(id, typ, purposes string, mat [2]string, extra string) string {
	return obj("id", id, "type", typ, "purposes", purposes, "publicKeyJwk", mat[0], "publicKeyBase58", mat[1], "controller", extra)
}

var svcTypeVariants = []string{q("LinkedDomains"), q(strings.Repeat("t", 30)), q(strings.Repeat("t", 31)), q(""), "", "null", "9", q("tä" + strings.Repeat("t", 27)), q("tä" + strings.Repeat("t", 28))}
var endpointVariants = []string{q("https://example.com/x"), q("not a uri"), q(""), "", "null", `["https://ok.example"]`, `["https://ok.example","not a uri"]`,
	`["not a uri","https://ok.example"]`, `[]`, `[{"x":1},"not a uri"]`, `[1,"https://ok.example"]`, `[{"uri":"x"}]`, `{"uri":"not a uri"}`, `5`, `true`,
	q("/relative/path"), q("did:example:123"), q("http://a b"), q("%zz"), `[null,"%zz"]`, `["","https://ok.example"]`, q("mailto:x@y.z"), q("x"), q("//host/p"), q("*")}

func svcEntry(id, typ, ep, extra string) string {
	return obj("id", id, "type", typ, "serviceEndpoint", ep, "priority", extra)
}

func arr(items ...string) string { return "[" + strings.Join(items, ",") + "]" }

func patchJ(action, key, val string) string { return obj("action", action, key, val) }

func genPatches() []string {
	var out []string
	add := func(s string) { out = append(out, s) }
	goodMat := materialVariants[0]
	// keys: every single variation and all pairs of variations
	for _, id := range idVariants {
		for _, ty := range typeVariants {
			add(patchJ(q("add-public-keys"), "publicKeys", arr(keyEntry(id, ty, `["authentication"]`, goodMat, ""))))
		}
		for _, pu := range purposeVariants {
			add(patchJ(q("add-public-keys"), "publicKeys", arr(keyEntry(id, q("JsonWebKey2020"), pu, goodMat, ""))))
		}
		for _, m := range materialVariants {
			add(patchJ(q("add-public-keys"), "publicKeys", arr(keyEntry(id, q("Ed25519VerificationKey2018"), "", m, ""))))
		}
	}
	for _, ty := range typeVariants {
		for _, pu := range purposeVariants {
			add(patchJ(q("add-public-keys"), "publicKeys", arr(keyEntry(q("k1"), ty, pu, goodMat, ""))))
		}
		for _, m := range materialVariants {
			add(patchJ(q("add-public-keys"), "publicKeys", arr(keyEntry(q("k1"), ty, `["assertionMethod"]`, m, ""))))
			add(patchJ(q("add-public-keys"), "publicKeys", arr(keyEntry(q("k1"), ty, "", m, ""))))
		}
	}
	for _, pu := range purposeVariants {
		for _, m := range materialVariants {
			add(patchJ(q("add-public-keys"), "publicKeys", arr(keyEntry(q("k1"), q("JsonWebKey2020"), pu, m, ""))))
		}
	}
	good := keyEntry(q("k1"), q("JsonWebKey2020"), `["authentication"]`, goodMat, "")
	good2 := keyEntry(q("k2"), q("X25519KeyAgreementKey2019"), `["keyAgreement"]`, materialVariants[1], "")
	add(patchJ(q("add-public-keys"), "publicKeys", arr(keyEntry(q("k1"), q("JsonWebKey2020"), "", goodMat, q("did:x")))))
	for _, l := range []string{arr(good, good2), arr(good, good), arr(good2, good, good2), arr(), `"x"`, `null`, `{}`, arr(`"x"`), arr(`1`, good), arr(`null`),
		arr(good, keyEntry(q("k1"), q("RsaKey"), "", goodMat, "")), arr(good, `[]`, good2), ""} {
		add(patchJ(q("add-public-keys"), "publicKeys", l))
		add(patchJ(q("replace"), "document", obj("publicKeys", l)))
		add(patchJ(q("replace"), "document", obj("publicKeys", l, "services", arr(svcEntry(q("s1"), q("t"), q("https://a.example"), "")))))
	}
	// services: full product
	for _, id := range idVariants {
		for _, ty := range svcTypeVariants {
			add(patchJ(q("add-services"), "services", arr(svcEntry(id, ty, q("https://example.com/x"), ""))))
		}
		for _, ep := range endpointVariants {
			add(patchJ(q("add-services"), "services", arr(svcEntry(id, q("LinkedDomains"), ep, ""))))
		}
	}
	for _, ty := range svcTypeVariants {
		for _, ep := range endpointVariants {
			add(patchJ(q("add-services"), "services", arr(svcEntry(q("svc"), ty, ep, "1"))))
		}
	}
	s1 := svcEntry(q("s1"), q("t"), q("https://a.example"), "")
	s2 := svcEntry(q("s2"), q("t"), arr(q("https://a.example"), q("https://b.example")), "")
	for _, l := range []string{arr(s1, s2), arr(s1, s1), arr(s2, s1, s2), arr(), `"x"`, `null`, `{}`, arr(`"x"`), arr(`1`, s1), arr(`null`), arr(s1, `[]`, s2), "",
		arr(s1, svcEntry(q("s1"), q(""), q("https://a.example"), ""))} {
		add(patchJ(q("add-services"), "services", l))
		add(patchJ(q("replace"), "document", obj("services", l)))
		add(patchJ(q("replace"), "document", obj("services", l, "publicKeys", arr(good))))
	}
	for _, d := range []string{`{}`, `null`, `[]`, `"x"`, "", obj("other", "1"), obj("publicKeys", arr(good), "services", arr(s1), "x", "1"), obj("publicKeys", "null", "services", "5")} {
		add(patchJ(q("replace"), "document", d))
	}
	// commit a4ab443: non-object elements at every position, mixed with valid objects; ill-typed sections
	{
		good3 := keyEntry(q("k3"), q("Ed25519VerificationKey2018"), "", materialVariants[1], "")
		s3 := svcEntry(q("s3"), q("t"), q("https://c.example"), "")
		for _, junk := range []string{`1`, `"x"`, `null`, `[]`, `true`, `[{"id":"k9"}]`} {
			for pos := 0; pos < 3; pos++ {
				ks := []string{good, good2, good3}
				ss := []string{s1, s2, s3}
				ks[pos], ss[pos] = junk, junk
				add(patchJ(q("add-public-keys"), "publicKeys", arr(ks...)))
				add(patchJ(q("add-services"), "services", arr(ss...)))
				add(patchJ(q("replace"), "document", obj("publicKeys", arr(ks...), "services", arr(s1))))
				add(patchJ(q("replace"), "document", obj("publicKeys", arr(good), "services", arr(ss...))))
			}
			add(patchJ(q("add-public-keys"), "publicKeys", arr(junk)))
			add(patchJ(q("add-services"), "services", arr(junk)))
		}
		for _, sec := range []string{`"oops"`, `5`, `{}`, `null`, `true`, "", `[]`, arr(good), arr(`"junk"`), arr(`1`), `{"id":"k1"}`} {
			for _, sec2 := range []string{`"oops"`, `null`, "", `[]`, arr(s1), arr(`1`), `{}`} {
				add(patchJ(q("replace"), "document", obj("publicKeys", sec, "services", sec2)))
			}
			add(patchJ(q("replace"), "document", obj("services", sec)))
		}
	}
	// remove-*
	for _, act := range []string{"remove-public-keys", "remove-services"} {
		for _, l := range []string{arr(q("k1")), arr(q("k1"), q("k1")), arr(q(id50)), arr(q(id51)), arr(q("")), arr(q("a b")), arr(`1`), arr(`1`, q("a b")), arr(q("ok"), q("b.d")), arr(), `"k1"`, `null`, "", arr(`null`), arr(`{}`, q("k"))} {
			add(patchJ(q(act), "ids", l))
		}
	}
	// also-known-as
	for _, act := range []string{"add-also-known-as", "remove-also-known-as"} {
		for _, l := range []string{arr(q("https://a.example")), arr(q("https://a.example"), q("https://a.example")), arr(q("HTTP://a.example"), q("http://a.example")),
			arr(q("%zz")), arr(q("http://a b")), arr(q(":foo")), arr(q("did:example:1"), q("x")), arr(q("")), arr(q(""), q("")), arr(`1`), arr(`1`, q("%zz")), arr(), `"u"`, `null`, "",
			arr(q("a b")), arr(q("http://x/%41"), q("http://x/A")), arr(q("\x7f"))} {
			add(patchJ(q(act), "uris", l))
		}
	}
	// ietf-json-patch
	pathV := []string{q("/a"), q("/service"), q("/services"), q("/serviceX/1"), q("/publicKey"), q("/publicKey/0/id"), q("/publicKeys"), q("x/publicKey"), q("publicKey"), q(""), q("/"),
		q("/a/service"), q("/Service"), "null", "5", "", `["/a"]`, q("/public~0Key"), q("/s"), q("/servic")}
	fromV := []string{"", q("/publicKey"), q("/service/0"), q("/b"), "null", "3", q("b"), q(""), q("x/publicKey"), q("/services"), q("/b/service"), `["/b"]`, q("/"), q("/publicKe")}
	opV := []string{q("add"), q("remove"), q("replace"), q("move"), q("copy"), q("test"), q("bogus"), "", "null"}
	for _, pa := range pathV {
		for _, fr := range fromV {
			add(patchJ(q("ietf-json-patch"), "patches", arr(obj("op", pick(opV), "path", pa, "from", fr, "value", pick([]string{"", "1", "null", `{"a":1}`})))))
		}
		add(patchJ(q("ietf-json-patch"), "patches", arr(obj("op", q("add"), "path", q("/ok"), "value", "1"), obj("op", q("remove"), "path", pa))))
		add(patchJ(q("ietf-json-patch"), "patches", arr(obj("op", q("remove"), "path", pa), obj("op", q("add"), "path", q("/service/0"), "value", "1"))))
		add(patchJ(q("ietf-json-patch"), "patches", arr(obj("op", q("remove"), "path", pa), `5`)))
		add(patchJ(q("ietf-json-patch"), "patches", arr(obj("op", q("remove"), "path", pa), `null`)))
		add(patchJ(q("ietf-json-patch"), "patches", arr(obj("op", q("remove"), "path", pa), obj("path", "null"))))
	}
	for _, l := range []string{arr(), `null`, `"x"`, `{}`, "", arr(`1`), arr(`null`), arr(`[]`), arr(`"add"`), arr(`{}`)} {
		add(patchJ(q("ietf-json-patch"), "patches", l))
	}
	// action member and value key
	for _, a := range []string{q("bogus"), "", "null", "5", q("Replace"), q("add-public-keys "), `["replace"]`} {
		add(obj("action", a, "publicKeys", arr(good), "document", `{}`, "patches", arr(obj("op", q("add"), "path", q("/a"), "value", "1")), "ids", arr(q("a")), "uris", arr(q("x")), "services", arr(s1)))
	}
	for _, a := range []string{"replace", "add-public-keys", "remove-public-keys", "add-services", "remove-services", "ietf-json-patch", "add-also-known-as", "remove-also-known-as"} {
		add(obj("action", q(a)))
		add(obj("action", q(a), "value", arr(good)))
		add(obj("action", q(a), "publicKeys", arr(good), "document", obj("publicKeys", arr(good)), "patches", arr(obj("op", q("add"), "path", q("/a"), "value", "1")), "ids", arr(q("a")), "uris", arr(q("x")), "services", arr(s1)))
		add(obj("action", q(a), "publicKeys", arr(s1), "document", arr(good), "patches", arr(good), "ids", arr(good), "uris", arr(good), "services", arr(good)))
	}
	return out
}

func pick(l []string) string { return l[rng.Intn(len(l))] }

// random multi-entry patches: mostly valid entries with a few variations
func genRandomPatch() string {
	goodIDs := []string{q("k1"), q("k2"), q("k3"), q("A_z-09"), q(id50)}
	id := func() string {
		if rng.Intn(6) == 0 {
			return pick(idVariants)
		}
		return pick(goodIDs)
	}
	key := func() string {
		ty, pu, m := typeVariants[rng.Intn(6)], purposeVariants[rng.Intn(6)], materialVariants[rng.Intn(2)]
		if rng.Intn(5) == 0 {
			ty = pick(typeVariants)
		}
		if rng.Intn(5) == 0 {
			pu = pick(purposeVariants)
		}
		if rng.Intn(5) == 0 {
			m = materialVariants[rng.Intn(len(materialVariants))]
		}
		extra := ""
		if rng.Intn(25) == 0 {
			extra = q("did:x")
		}
		return keyEntry(id(), ty, pu, m, extra)
	}
	svc := func() string {
		ty, ep := svcTypeVariants[rng.Intn(2)], endpointVariants[0]
		if rng.Intn(5) == 0 {
			ty = pick(svcTypeVariants)
		}
		if rng.Intn(2) == 0 {
			ep = pick(endpointVariants)
		}
		if rng.Intn(4) == 0 { // arrays mixing good and bad URIs at every position
			pool := []string{q("https://ok.example"), q("https://b.example/p"), q("not a uri"), q(""), `{"x":1}`, `1`, `null`, q("did:example:1"), q("%zz")}
			n := 1 + rng.Intn(4)
			var it []string
			for i := 0; i < n; i++ {
				if rng.Intn(3) == 0 {
					it = append(it, pick(pool))
				} else {
					it = append(it, pool[rng.Intn(2)])
				}
			}
			ep = arr(it...)
		}
		return svcEntry(id(), ty, ep, "")
	}
	list := func(f func() string) string {
		n := 1 + rng.Intn(3)
		var it []string
		for i := 0; i < n; i++ {
			if rng.Intn(15) == 0 {
				it = append(it, pick([]string{`1`, `"x"`, `null`, `[]`}))
			} else if e := f(); e != "" {
				it = append(it, e)
			}
		}
		return arr(it...)
	}
	ptr := func() string {
		return pick([]string{q("/a"), q("/a/0"), q("/b/c"), q("/x~1y"), q(""), q("/"), q("/service"), q("/services"), q("/publicKey/0"), q("/publicKeyX"), q("a"), q("x/publicKey"), "null", "5", q("/s"), q("/public"), q("/Service")})
	}
	jop := func() string {
		k := pick([]string{"add", "remove", "replace", "move", "copy", "test"})
		path, from := ptr(), ""
		if rng.Intn(3) != 0 {
			path = pick([]string{q("/a"), q("/a/0"), q("/b/c"), q("/x~1y")})
		}
		if k == "move" || k == "copy" || rng.Intn(8) == 0 {
			from = ptr()
			if rng.Intn(3) != 0 {
				from = pick([]string{q("/a"), q("/a/0"), q("/b/c")})
			}
		}
		if rng.Intn(20) == 0 {
			path = ""
		}
		return obj("op", q(k), "path", path, "from", from, "value", pick([]string{"", "1", "null", `{"a":1}`}))
	}
	switch rng.Intn(7) {
	case 0:
		return patchJ(q("add-public-keys"), "publicKeys", list(key))
	case 1:
		return patchJ(q("add-services"), "services", list(svc))
	case 2:
		return patchJ(q("replace"), "document", obj("publicKeys", list(key), "services", list(svc)))
	case 3:
		return patchJ(q(pick([]string{"remove-public-keys", "remove-services"})), "ids", list(id))
	case 4:
		return patchJ(q(pick([]string{"add-also-known-as", "remove-also-known-as"})), "uris", list(func() string {
			return pick([]string{q("https://a.example"), q("HTTP://a.example"), q("http://a.example"), q("did:example:1"), q("%zz"), q("x"), q("http://x/%41"), q("http://x/A"), `1`})
		}))
	default:
		return patchJ(q("ietf-json-patch"), "patches", list(jop))
	}
}

// independent re-statement of the property-text rules for an ACCEPTED patch (direct oracle)
func ruleViolations(text string) []string {
	var p map[string]interface{}
	if json.Unmarshal([]byte(text), &p) != nil {
		return nil
	}
	var out []string
	idRe := regexp.MustCompile(`^[A-Za-z0-9_-]{1,50}$`)
	// accepted => a section is absent/null or an array, and every entry is an object with a valid id
	checkEntries := func(what string, v interface{}, present bool) {
		if !present || v == nil {
			return
		}
		l, ok := v.([]interface{})
		if !ok {
			out = append(out, "accepted "+what+" section is not an array")
			return
		}
		for _, e := range l {
			m, ok := e.(map[string]interface{})
			if !ok {
				out = append(out, "accepted "+what+" array has an entry that is not an object")
				continue
			}
			id, _ := m["id"].(string)
			if !idRe.MatchString(id) {
				out = append(out, "accepted "+what+" entry has an invalid id: "+id)
			}
		}
	}
	switch p["action"] {
	case "add-public-keys":
		v, ok := p["publicKeys"]
		checkEntries("publicKeys", v, ok)
	case "add-services":
		v, ok := p["services"]
		checkEntries("services", v, ok)
	case "replace":
		if d, ok := p["document"].(map[string]interface{}); ok {
			v, ok := d["publicKeys"]
			checkEntries("publicKeys", v, ok)
			v, ok = d["services"]
			checkEntries("services", v, ok)
		}
	}
	checkSvcs := func(v interface{}) {
		l, _ := v.([]interface{})
		for _, e := range l {
			m, ok := e.(map[string]interface{})
			if !ok {
				continue
			}
			var eps []string
			switch x := m["serviceEndpoint"].(type) {
			case string:
				eps = []string{x}
			case []interface{}:
				for _, y := range x {
					if s, ok := y.(string); ok {
						eps = append(eps, s)
					}
				}
			}
			for _, u := range eps {
				if _, err := url.ParseRequestURI(u); err != nil || u == "" {
					out = append(out, "accepted service endpoint is not a valid URI: "+u)
				}
			}
		}
	}
	switch p["action"] {
	case "add-services":
		checkSvcs(p["services"])
	case "replace":
		if d, ok := p["document"].(map[string]interface{}); ok {
			checkSvcs(d["services"])
		}
	case "ietf-json-patch":
		l, _ := p["patches"].([]interface{})
		for _, e := range l {
			m, _ := e.(map[string]interface{})
			for _, member := range []string{"path", "from"} {
				v, present := m[member]
				if !present {
					continue
				}
				s, ok := v.(string)
				if !ok {
					out = append(out, "accepted json patch has a non-string "+member)
					continue
				}
				if s != "" && !strings.HasPrefix(s, "/") {
					out = append(out, "accepted json patch pointer lacks the leading slash: "+s)
				}
				first := strings.SplitN(strings.TrimPrefix(s, "/"), "/", 2)[0]
				if first == "publicKey" || first == "service" {
					out = append(out, "accepted json patch addresses a protected section through "+member+": "+s)
				}
			}
		}
	}
	return out
}
