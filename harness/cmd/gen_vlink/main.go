// Differential generator for the patch validator model INSIDE the request parser model
// (SV.Parser.ViewValidated: the C18 model of patchvalidator.Validate run on the patches that SV.Parser.ViewOfBytes
// decodes from the request bytes; checked by SV.Corr.ViewValidated).
//
//	gen_vlink -out <dir> -seed <n> -tier quick|thorough
//
// Every case is a request buffer together with what the REAL code makes of it: the verdict of patchvalidator.Validate
// on every patch of the really decoded delta, Parser.ValidateDelta on that delta, Parser.Parse and
// Parser.ParseOperation(batch) on the buffer under one of four protocols (enabled patch actions vary), and the net/url
// verdicts for every string of the decoded patches (the oracles of Doc/Validator.v).  The Coq side gets the bytes and
// the URI tables only; no validator verdict is handed to the model.
//
// Population: the validator's interesting patches (pool of harness/cmd/gen_validator: every action, valid and invalid
// keys / services / ids / URIs / JSON-patch operations) are placed INSIDE real signed create / update / recover
// requests whose deltaHash is computed from the decoded delta, so that the request is otherwise valid and the
// validator verdict decides; the same with the patch text respelled (duplicate members, escapes, case, numbers,
// invalid UTF-8, white space), with special delta shapes (repeated "patches" arrays that merge, null / non-object
// elements, folded member names), inside bare unsigned requests, and in mutated requests (text and JSON level).
// Key generation is not seeded (Go does not allow that for ECDSA); everything else derives from -seed.
package main

import (
	"encoding/hex"
	"encoding/json"
	"flag"
	"fmt"
	"math/rand"
	"net/url"
	"os"
	"path/filepath"
	"regexp"
	"sort"
	"strings"

	"github.com/trustbloc/sidetree-core-go/pkg/api/operation"
	"github.com/trustbloc/sidetree-core-go/pkg/api/protocol"
	"github.com/trustbloc/sidetree-core-go/pkg/patch"
	"github.com/trustbloc/sidetree-core-go/pkg/versions/1_0/model"
	"github.com/trustbloc/sidetree-core-go/pkg/versions/1_0/operationparser"
	"github.com/trustbloc/sidetree-core-go/pkg/versions/1_0/operationparser/patchvalidator"

	"verif/harness/internal/emit"
	"verif/harness/internal/world"
)

var (
	outDir     string
	rng        *rand.Rand
	perFile    = 300
	cases      []string
	seen       = map[string]bool{}
	hist       = map[string]map[string]int{}
	samples    []string
	violations = []map[string]interface{}{}
	panics     int
	exampleHex string
	refusedHex string
)

func count(h, bucket string) {
	if hist[h] == nil {
		hist[h] = map[string]int{}
	}
	hist[h][bucket]++
}

func logf(format string, a ...interface{}) { fmt.Fprintf(os.Stderr, format, a...) }

func violation(oracle, what string, buf []byte, extra string) {
	if len(violations) < 30 {
		violations = append(violations, map[string]interface{}{"oracle": oracle, "what": what, "case": map[string]interface{}{"request": string(buf), "detail": extra}})
	}
	count("direct_violations", oracle)
}

// ---------------------------------------------------------------- protocols

var allActions = []string{"replace", "add-public-keys", "remove-public-keys", "add-services", "remove-services", "ietf-json-patch", "add-also-known-as", "remove-also-known-as"}

func protoWith(patches []string) protocol.Protocol {
	p := world.DefaultProtocol()
	p.Patches = patches
	return p
}

// P0 everything enabled; P1 the reference configuration (no also-known-as); P2 an unknown name among the enabled ones;
// P3 a subset in which neither key action is enabled
var protos = []protocol.Protocol{
	protoWith(allActions),
	protoWith(allActions[:6]),
	protoWith([]string{"add-public-keys", "bogus", "ietf-json-patch", "remove-also-known-as"}),
	protoWith([]string{"replace", "add-services", "remove-services", "add-also-known-as"}),
}

func pickProto() int {
	switch r := rng.Intn(10); {
	case r < 5:
		return 0
	case r < 7:
		return 1
	case r < 9:
		return 2
	}
	return 3
}

// ---------------------------------------------------------------- the real code on a buffer

type observed struct {
	syntaxOK, schemaOK, structOK bool
	ty                           string
	delta                        *model.DeltaModel
	valid                        []bool
	actions                      []string
}

// decoding as operationparser does it (schema first, then the request struct of the type), then the real validator
func observe(buf []byte) observed {
	var o observed
	o.syntaxOK = json.Valid(buf)
	var schema struct {
		Operation string `json:"type"`
	}
	o.schemaOK = json.Unmarshal(buf, &schema) == nil
	o.ty = schema.Operation
	if o.schemaOK {
		switch o.ty {
		case "create":
			var r model.CreateRequest
			if json.Unmarshal(buf, &r) == nil {
				o.structOK, o.delta = true, r.Delta
			}
		case "update":
			var r model.UpdateRequest
			if json.Unmarshal(buf, &r) == nil {
				o.structOK, o.delta = true, r.Delta
			}
		case "recover":
			var r model.RecoverRequest
			if json.Unmarshal(buf, &r) == nil {
				o.structOK, o.delta = true, r.Delta
			}
		case "deactivate":
			var r model.DeactivateRequest
			if json.Unmarshal(buf, &r) == nil {
				o.structOK = true
			}
		}
	}
	if o.delta != nil {
		for _, p := range o.delta.Patches {
			ok := false
			func(p patch.Patch) {
				defer func() {
					if x := recover(); x != nil {
						panics++
						violation("validator_never_panics", fmt.Sprint(x), buf, "")
					}
				}()
				ok = patchvalidator.Validate(p) == nil
			}(p)
			o.valid = append(o.valid, ok)
			a, err := p.GetAction()
			if err != nil {
				a = "(none)"
			}
			o.actions = append(o.actions, string(a))
		}
	}
	return o
}

func collectStrings(v interface{}, out map[string]bool) {
	switch x := v.(type) {
	case string:
		out[x] = true
	case []interface{}:
		for _, e := range x {
			collectStrings(e, out)
		}
	case map[string]interface{}:
		for _, e := range x {
			collectStrings(e, out)
		}
	}
}

// net/url verdicts for every string value of the decoded patches
func uriFacts(d *model.DeltaModel) (string, string) {
	set := map[string]bool{}
	if d != nil {
		for _, p := range d.Patches {
			for _, v := range p {
				collectStrings(v, set)
			}
		}
	}
	var keys []string
	for s := range set {
		keys = append(keys, s)
	}
	sort.Strings(keys)
	var uf, pf []string
	for _, s := range keys {
		_, err := url.ParseRequestURI(s)
		uf = append(uf, "("+emit.Hex([]byte(s))+", "+emit.Bool(err == nil)+")")
		u, err := url.Parse(s)
		if err != nil {
			pf = append(pf, "("+emit.Hex([]byte(s))+", None)")
		} else {
			pf = append(pf, "("+emit.Hex([]byte(s))+", Some "+emit.Hex([]byte(u.String()))+")")
		}
	}
	return emit.List(uf), emit.List(pf)
}

type originV struct{ ok bool }

func (o originV) Validate(interface{}) error {
	if o.ok {
		return nil
	}
	return fmt.Errorf("origin refused")
}

type timeV struct{}

func (timeV) Validate(_, _ int64) error { return nil }

var tyNames = map[operation.Type]string{operation.TypeCreate: "Create", operation.TypeUpdate: "Update", operation.TypeRecover: "Recover", operation.TypeDeactivate: "Deactivate"}

func newParser(pi int, origin bool) *operationparser.Parser {
	return operationparser.New(protos[pi], operationparser.WithAnchorOriginValidator(originV{origin}), operationparser.WithAnchorTimeValidator(timeV{}))
}

// the real parser on the buffer: rendered option qres, outcome label
func realParse(buf []byte, pi int, origin bool, batch bool) (string, string) {
	parser := newParser(pi, origin)
	res, outcome := "None", "rejected"
	func() {
		defer func() {
			if x := recover(); x != nil {
				outcome = "panic"
				panics++
				violation("parser_never_panics", fmt.Sprint(x), buf, "")
			}
		}()
		var ty operation.Type
		var sfx string
		var err error
		if batch {
			var o *model.Operation
			if o, err = parser.ParseOperation("did:sidetree", buf, true); err == nil {
				ty, sfx = o.Type, o.UniqueSuffix
			}
		} else {
			var o *operation.Operation
			if o, err = parser.Parse("did:sidetree", buf); err == nil {
				ty, sfx = o.Type, o.UniqueSuffix
			}
		}
		if err == nil {
			res, outcome = "(Some "+emit.App("ROp", tyNames[ty], emit.Hex([]byte(sfx)))+")", "accepted"
		}
	}()
	return res, outcome
}

func realValidateDelta(buf []byte, pi int, d *model.DeltaModel) (ok bool) {
	defer func() {
		if x := recover(); x != nil {
			ok = false
			panics++
			violation("validator_never_panics", "ValidateDelta: "+fmt.Sprint(x), buf, "")
		}
	}()
	return newParser(pi, true).ValidateDelta(d) == nil
}

var hexLit = regexp.MustCompile(`\(unhex "([0-9a-f]*)"\)`)

// (unhex "…") -> (uh "…" ++ uh "…"): the byte-list literal of SV.Corr.ViewOfBytes, in chunks coqc can digest
func fastLiterals(g string) string {
	return hexLit.ReplaceAllStringFunc(g, func(m string) string {
		h := m[len(`(unhex "`) : len(m)-2]
		if len(h) == 0 {
			return "[]"
		}
		var parts []string
		for len(h) > 4000 {
			parts = append(parts, `uh "`+h[:4000]+`"`)
			h = h[4000:]
		}
		parts = append(parts, `uh "`+h+`"`)
		return "(" + strings.Join(parts, " ++ ") + ")"
	})
}

func enabledIn(pi int, a string) bool {
	for _, e := range protos[pi].Patches {
		if e == a {
			return true
		}
	}
	return false
}

func addCase(class string, buf []byte) {
	key := string(buf)
	if seen[key] {
		count("duplicates_skipped", strings.SplitN(class, ":", 2)[0])
		return
	}
	seen[key] = true
	origin := rng.Intn(8) != 0
	pi := pickProto()
	var o observed
	func() {
		defer func() {
			if x := recover(); x != nil {
				panics++
				violation("decoders_never_panic", fmt.Sprint(x), buf, "")
			}
		}()
		o = observe(buf)
	}()
	uf, pf := uriFacts(o.delta)
	var valid []string
	for _, v := range o.valid {
		valid = append(valid, emit.Bool(v))
	}
	deltaOK := realValidateDelta(buf, pi, o.delta)
	intake, intakeOutcome := realParse(buf, pi, origin, false)
	// batch mode skips ValidateDelta; it costs the model as much as intake mode (hashing), so it is recorded for every
	// cheap case and for a third of the signed ones
	batch, batchOutcome := "None", "not-recorded"
	if !strings.HasPrefix(class, "signed") || rng.Intn(3) == 0 {
		var r string
		r, batchOutcome = realParse(buf, pi, origin, true)
		batch = "(Some " + r + ")"
	}
	cases = append(cases, fastLiterals(emit.App("Build_vlcase", emit.Hex(buf), uf, pf, emit.List(valid), emit.Bool(origin),
		fmt.Sprintf("P%d", pi), emit.Bool(deltaOK), intake, batch)))

	// direct oracles (independent of the Coq model): what acceptance at intake implies for the decoded patches
	if intakeOutcome == "accepted" && (o.ty == "create" || o.ty == "update" || o.ty == "recover") {
		if o.delta == nil || len(o.delta.Patches) == 0 {
			violation("accepted_request_has_validated_patches", "accepted at intake without patches", buf, "")
		}
		if o.delta != nil {
			for i, p := range o.delta.Patches {
				if !o.valid[i] {
					violation("accepted_request_has_validated_patches", fmt.Sprintf("patch %d was refused by patchvalidator.Validate", i), buf, "")
				}
				if !enabledIn(pi, o.actions[i]) {
					violation("accepted_request_has_enabled_actions", fmt.Sprintf("patch %d: action %s is not enabled under P%d", i, o.actions[i], pi), buf, "")
				}
				pb, _ := json.Marshal(p)
				for _, w := range ruleViolations(string(pb)) {
					violation("accepted_patch_obeys_rules", w, buf, string(pb))
				}
			}
		}
	}
	if deltaOK && o.delta != nil {
		for i, p := range o.delta.Patches {
			pb, _ := json.Marshal(p)
			for _, w := range ruleViolations(string(pb)) {
				violation("validated_delta_obeys_rules", fmt.Sprintf("patch %d: %s", i, w), buf, string(pb))
			}
		}
	}

	top := strings.SplitN(class, ":", 2)[0]
	count("class", class)
	count("class_top", top)
	count("protocol", fmt.Sprintf("P%d", pi))
	count("real_parser_intake", intakeOutcome)
	count("real_parser_batch", batchOutcome)
	count("intake_by_class:"+top, intakeOutcome)
	count("validate_delta", fmt.Sprint(deltaOK))
	outcome := "syntax-error"
	switch {
	case o.structOK:
		outcome = "struct-ok:" + o.ty
	case o.schemaOK && (o.ty == "create" || o.ty == "update" || o.ty == "recover" || o.ty == "deactivate"):
		outcome = "struct-error:" + o.ty
	case o.schemaOK:
		outcome = "unknown-type"
	case o.syntaxOK:
		outcome = "schema-error"
	}
	count("decode_outcome", outcome)
	n := len(o.valid)
	if n > 4 {
		n = 4
	}
	count("patches_per_request", fmt.Sprint(n))
	nv := 0
	for i, v := range o.valid {
		lab := "refused"
		if v {
			lab = "accepted"
			nv++
		}
		count("validator_verdict", lab)
		count("validator_by_action", o.actions[i]+":"+lab)
	}
	if len(o.valid) > 0 {
		switch {
		case nv == len(o.valid):
			count("verdict_mix", "all-accepted")
		case nv == 0:
			count("verdict_mix", "all-refused")
		default:
			count("verdict_mix", "mixed")
		}
		// what decides at intake for a request with patches
		switch {
		case intakeOutcome == "accepted":
			count("decided_by", "accepted")
		case nv < len(o.valid):
			count("decided_by", "rejected:some-patch-refused")
		case !deltaOK:
			count("decided_by", "rejected:delta-otherwise-invalid(action-disabled/commitment/size)")
		default:
			count("decided_by", "rejected:elsewhere")
		}
	}
	if len(samples) < 14 && rng.Intn(60) == 0 {
		s := string(buf)
		if len(s) > 300 {
			s = s[:300] + "..."
		}
		samples = append(samples, fmt.Sprintf("%s [%s, intake %s]: %q", class, outcome, intakeOutcome, s))
	}
}

// ---------------------------------------------------------------- requests

type bank struct {
	kp   *world.KeyPool
	dids []*world.DID
	id   int64
	n    int
}

func newBank(nDID int) *bank {
	b := &bank{kp: world.NewKeyPool(10), id: 1}
	tb := world.NewTable()
	for i := 0; i < nDID; i++ {
		code := uint(world.SHA256)
		if i%4 == 3 {
			code = world.SHA512
		}
		b.dids = append(b.dids, world.NewDID(b.kp, tb, rng, code))
	}
	return b
}

var reqTypes = []string{"create", "update", "recover"}

// a fresh valid spec of the given type
func (b *bank) spec(ty string) world.Spec {
	b.n++
	b.id++
	d := b.dids[b.n%len(b.dids)]
	code := d.Code
	n := len(b.kp.Keys)
	k, next, next2 := b.kp.Keys[b.n%n], b.kp.Keys[(b.n+1)%n], b.kp.Keys[(b.n+2)%n]
	switch ty {
	case "create":
		s := d.Create.Spec
		s.Label, s.DeltaID = "create", b.id
		if b.n%3 == 0 {
			s.Origin = map[string]interface{}{"chain": "x", "n": []interface{}{1.5, "s"}}
		}
		return s
	case "update":
		s := world.Spec{Label: "update", Type: operation.TypeUpdate, Suffix: d.Suffix, RevealKey: k, SignedKey: k, SignWith: k,
			NextUpd: next.Commitment(code), DeltaID: b.id, Code: code}
		if b.n%5 == 0 {
			s.From, s.Until = 1000, 5000
		}
		return s
	case "recover":
		return world.Spec{Label: "recover", Type: operation.TypeRecover, Suffix: d.Suffix, RevealKey: k, SignedKey: k, SignWith: k,
			NextUpd: next.Commitment(code), NextRec: next2.Commitment(code), DeltaID: b.id, Code: code, Origin: world.OriginValue(int64(2 + b.n%3)), OriginID: int64(2 + b.n%3)}
	}
	return world.Spec{Label: "deactivate", Type: operation.TypeDeactivate, Suffix: d.Suffix, RevealKey: k, SignedKey: k, SignWith: k, Code: code}
}

func decodePatch(t string) patch.Patch {
	var p patch.Patch
	if err := json.Unmarshal([]byte(t), &p); err != nil {
		panic("generator produced a non-object patch: " + t)
	}
	return p
}

// a real signed request carrying the given patches (deltaHash computed by world.Build from the same patches)
func (b *bank) withPatches(ty string, texts []string) []byte {
	s := b.spec(ty)
	s.Patches = []patch.Patch{}
	for _, t := range texts {
		s.Patches = append(s.Patches, decodePatch(t))
	}
	s.PatchOK, s.DValid = true, true
	return world.Build(s).Request
}

// a real signed request whose "delta" member is the given TEXT; deltaHash is computed from what the text decodes to,
// so the request is otherwise valid whenever the text decodes into a DeltaModel
func (b *bank) withDeltaText(ty string, mk func(updateCommitment string) string) ([]byte, bool) {
	s := b.spec(ty)
	text := mk(s.NextUpd)
	var dm model.DeltaModel
	decoded := json.Unmarshal([]byte(text), &dm) == nil
	if decoded {
		s.Patches = dm.Patches
		if s.Patches == nil {
			s.Patches = []patch.Patch{}
		}
		s.NextUpd = dm.UpdateCommitment
		s.PatchOK, s.DValid = true, true
	}
	op := world.Build(s)
	tree := parseOrdered(op.Request)
	tree.get("delta").val = raw(text)
	return []byte(tree.text()), decoded
}

func deltaText(commit string, patches []string) string {
	if rng.Intn(2) == 0 {
		return `{"updateCommitment":` + q(commit) + `,"patches":[` + strings.Join(patches, ",") + `]}`
	}
	return `{"patches":[` + strings.Join(patches, ",") + `],"updateCommitment":` + q(commit) + `}`
}

// ---------------------------------------------------------------- respelling of a patch text

var goodKeyPatch = patchJ(q("add-public-keys"), "publicKeys", arr(keyEntry(q("kg"), q("JsonWebKey2020"), `["authentication"]`, materialVariants[0], "")))
var goodSvcPatch = patchJ(q("add-services"), "services", arr(svcEntry(q("sg"), q("t"), q("https://g.example"), "")))
var goodIetfPatch = patchJ(q("ietf-json-patch"), "patches", arr(obj("op", q("add"), "path", q("/ok"), "value", "1")))
var goodReplacePatch = patchJ(q("replace"), "document", obj("publicKeys", arr(keyEntry(q("kr"), q("Ed25519VerificationKey2018"), "", materialVariants[1], "")),
	"services", arr(svcEntry(q("sr"), q("LinkedDomains"), arr(q("https://r.example"), q("https://r2.example/p")), "1"))))
var goodPatches = []string{goodKeyPatch, goodSvcPatch, goodIetfPatch, patchJ(q("remove-public-keys"), "ids", arr(q("k1"))), patchJ(q("add-also-known-as"), "uris", arr(q("https://a.example"))),
	goodReplacePatch, patchJ(q("replace"), "document", obj("services", arr(svcEntry(q("s9"), q("t"), q("did:example:9"), "")))), patchJ(q("replace"), "document", `{}`),
	patchJ(q("replace"), "document", obj("publicKeys", "null", "services", "[]")), patchJ(q("remove-services"), "ids", arr(q("s1"), q("s2"))), patchJ(q("remove-also-known-as"), "uris", arr(q("did:example:1"), q("x")))}

func uEscape(s string, all bool) string {
	var sb strings.Builder
	sb.WriteString(`"`)
	for i, c := range []byte(s) {
		if c < 0x80 && (all || i == 0) {
			sb.WriteString(fmt.Sprintf(`\u%04x`, c))
		} else {
			sb.WriteByte(c)
		}
	}
	sb.WriteString(`"`)
	return sb.String()
}

func rawStrings(n *node, acc *[]*node) {
	switch n.kind {
	case 'r':
		if strings.HasPrefix(n.raw, `"`) {
			*acc = append(*acc, n)
		}
	case 'a':
		for _, e := range n.arr {
			rawStrings(e, acc)
		}
	case 'o':
		for _, m := range n.mem {
			rawStrings(m.val, acc)
		}
	}
}

func rawNumbers(n *node, acc *[]*node) {
	switch n.kind {
	case 'r':
		if len(n.raw) > 0 && (n.raw[0] == '-' || (n.raw[0] >= '0' && n.raw[0] <= '9')) {
			*acc = append(*acc, n)
		}
	case 'a':
		for _, e := range n.arr {
			rawNumbers(e, acc)
		}
	case 'o':
		for _, m := range n.mem {
			rawNumbers(m.val, acc)
		}
	}
}

func anyObject(root *node) *node {
	var objs []*node
	root.objects(&objs)
	var nonEmpty []*node
	for _, o := range objs {
		if len(o.mem) > 0 {
			nonEmpty = append(nonEmpty, o)
		}
	}
	if len(nonEmpty) == 0 {
		return nil
	}
	if rng.Intn(2) == 0 {
		return nonEmpty[0] // the patch object itself
	}
	return nonEmpty[rng.Intn(len(nonEmpty))]
}

var junkValues = []string{"null", "1", `"x"`, "[]", "{}", "true", `["a b"]`, `[{"id":"bad id"}]`, `{"publicKeys":5}`, `"replace"`, `"bogus"`, `[1]`, `""`}

// the text is respelled; the decoded value may or may not change (the request's deltaHash follows the decoding)
func respell(t string) (string, string) {
	root := parseOrdered([]byte(t))
	switch rng.Intn(12) {
	case 0: // duplicate BEFORE with a junk value: the decoded patch is unchanged (last occurrence wins)
		if o := anyObject(root); o != nil {
			i := rng.Intn(len(o.mem))
			dup := &member{key: o.mem[i].key, val: raw(pick(junkValues))}
			o.mem = append(o.mem[:i:i], append([]*member{dup}, o.mem[i:]...)...)
			return root.text(), "dup-before"
		}
	case 1: // duplicate AFTER: the junk value wins
		if o := anyObject(root); o != nil {
			i := rng.Intn(len(o.mem))
			o.mem = append(o.mem, &member{key: o.mem[i].key, val: raw(pick(junkValues))})
			return root.text(), "dup-after"
		}
	case 2: // duplicate at the very front of the patch, original kept: unchanged
		if root.kind == 'o' && len(root.mem) > 0 {
			m := root.mem[rng.Intn(len(root.mem))]
			root.mem = append([]*member{{key: m.key, val: raw(pick(junkValues))}}, root.mem...)
			return root.text(), "dup-front"
		}
	case 3: // member name written with escapes: the same name
		if o := anyObject(root); o != nil {
			m := o.mem[rng.Intn(len(o.mem))]
			if k := keyName(m.key); k != "" {
				m.key = uEscape(k, rng.Intn(2) == 0)
				return root.text(), "key-escaped"
			}
		}
	case 4: // member name in another case: maps are case-sensitive (unlike struct fields), the member is another one
		if o := anyObject(root); o != nil {
			m := o.mem[rng.Intn(len(o.mem))]
			if k := keyName(m.key); k != "" {
				m.key = pick(keyVariants(k))
				return root.text(), "key-variant"
			}
		}
	case 5: // string value written with escapes: the same string
		var ss []*node
		rawStrings(root, &ss)
		if len(ss) > 0 {
			n := ss[rng.Intn(len(ss))]
			n.raw = uEscape(keyName(n.raw), rng.Intn(2) == 0)
			return root.text(), "string-escaped"
		}
	case 6: // invalid UTF-8 / lone surrogates inside a string value: coerced to U+FFFD by the decoder
		var ss []*node
		rawStrings(root, &ss)
		if len(ss) > 0 {
			n := ss[rng.Intn(len(ss))]
			body := n.raw[1 : len(n.raw)-1]
			taint := pick([]string{"\xff", `\ud800`, "\xc0\x80", `\udc00`, "\xe2\x82", `\u0000`, `😀`, "é", "<", `\u2028`, `\/`, " "})
			if rng.Intn(2) == 0 { // in front: a JSON pointer no longer starts with '/', an id no longer with its first character
				n.raw = `"` + taint + body + `"`
				return root.text(), "string-tainted-front"
			}
			n.raw = `"` + body + taint + `"`
			return root.text(), "string-tainted"
		}
	case 7: // number spellings
		var ns []*node
		rawNumbers(root, &ns)
		if len(ns) > 0 {
			n := ns[rng.Intn(len(ns))]
			alts := []string{"-0", "1e2", "0.1", "1e21", "5e-324", "1.7976931348623157e308", "123456789012345678901234567890"}
			if !strings.ContainsAny(n.raw, ".eE") { // the same number written differently
				alts = append(alts, n.raw+".0", n.raw+"e0", n.raw+"E+0", n.raw+".000e-0")
			}
			n.raw = pick(alts)
			return root.text(), "number"
		}
	case 8: // a value replaced by one of another type
		if o := anyObject(root); o != nil {
			o.mem[rng.Intn(len(o.mem))].val = raw(pick(wrongTypes[:15]))
			return root.text(), "wrongtype"
		}
	case 9: // a member removed
		if o := anyObject(root); o != nil {
			i := rng.Intn(len(o.mem))
			o.mem = append(o.mem[:i:i], o.mem[i+1:]...)
			return root.text(), "member-removed"
		}
	case 10: // an unknown member added (allowed at patch level, refused inside keys and replace documents)
		if o := anyObject(root); o != nil {
			o.mem = append(o.mem, &member{key: pick([]string{`"extra"`, `""`, `"Action"`, `"ID"`, `"\u0000"`}), val: raw(pick(junkValues))})
			return root.text(), "member-added"
		}
	}
	return root.spaced(), "spaced"
}

// ---------------------------------------------------------------- delta shapes

type shape struct {
	name string
	f    func(c string, a, b2 string) string // commitment, two patch texts
}

func partialOf(t string) string { // an object with ONE member of the patch, with another value: merges into the first decoding
	root := parseOrdered([]byte(t))
	if root.kind != 'o' || len(root.mem) == 0 {
		return "{}"
	}
	m := root.mem[rng.Intn(len(root.mem))]
	v := pick(junkValues)
	if rng.Intn(2) == 0 {
		for _, g := range goodPatches {
			if gm := parseOrdered([]byte(g)).get(keyName(m.key)); gm != nil {
				v = gm.val.text()
			}
		}
	}
	return "{" + m.key + ":" + v + "}"
}

var shapes = []shape{
	{"patches-twice-merge", func(c, a, b string) string {
		return `{"updateCommitment":` + q(c) + `,"patches":[` + a + `],"patches":[` + partialOf(a) + `]}`
	}},
	{"patches-twice-merge-other", func(c, a, b string) string {
		return `{"patches":[` + a + `,` + b + `],"updateCommitment":` + q(c) + `,"PATCHES":[` + partialOf(b) + `,` + partialOf(a) + `]}`
	}},
	{"patches-stale", func(c, a, b string) string { // the second element of the first array comes back in the third
		return `{"patches":[` + a + `,` + b + `],"patches":[{}],"patches":[{},` + partialOf(b) + `],"updateCommitment":` + q(c) + `}`
	}},
	{"patches-stale-action", func(c, a, b string) string { // the third array's second element has no action of its own
		return `{"patches":[` + b + `,` + a + `],"patches":[null],"patches":[` + b + `,{"zz":1}],"updateCommitment":` + q(c) + `}`
	}},
	{"patches-then-null", func(c, a, b string) string {
		return `{"patches":[` + a + `],"patches":null,"updateCommitment":` + q(c) + `,"patches":[` + partialOf(a) + `]}`
	}},
	{"patches-then-empty", func(c, a, b string) string {
		return `{"patches":[` + a + `,` + b + `],"patches":[],"updateCommitment":` + q(c) + `}`
	}},
	{"null-element", func(c, a, b string) string {
		return `{"patches":[` + a + `,null],"updateCommitment":` + q(c) + `}`
	}},
	{"null-element-first", func(c, a, b string) string {
		return `{"patches":[null,` + a + `],"updateCommitment":` + q(c) + `}`
	}},
	{"null-then-merge", func(c, a, b string) string { // null resets the element to a nil map, the next array allocates a fresh one
		return `{"patches":[` + a + `],"patches":[null],"patches":[` + partialOf(a) + `],"updateCommitment":` + q(c) + `}`
	}},
	{"non-object-element", func(c, a, b string) string {
		return `{"patches":[` + a + `,` + pick([]string{"1", `"x"`, "[]", "true"}) + `],"updateCommitment":` + q(c) + `}`
	}},
	{"empty-object-element", func(c, a, b string) string {
		return `{"patches":[{},` + a + `],"updateCommitment":` + q(c) + `}`
	}},
	{"folded-names", func(c, a, b string) string {
		return `{` + pick([]string{`"Patches"`, `"PATCHES"`, `"patcheſ"`, `"patcheſ"`, `"patches"`}) + `:[` + a + `],` + pick([]string{`"UpdateCommitment"`, `"UPDATECOMMITMENT"`, `"updatecommitment"`}) + `:` + q(c) + `}`
	}},
	{"near-miss-names", func(c, a, b string) string { // NOT the field: no patches
		return `{` + pick([]string{`"patches "`, `"patch"`, `"patchess"`, `"patıches"`}) + `:[` + a + `],"updateCommitment":` + q(c) + `}`
	}},
	{"commitment-twice", func(c, a, b string) string {
		return `{"updateCommitment":"EiX","patches":[` + a + `],"updateCommitment":` + q(c) + `}`
	}},
	{"commitment-bad", func(c, a, b string) string {
		return `{"updateCommitment":` + pick([]string{`""`, `"EiX"`, `null`, q(strings.Repeat("A", 120))}) + `,"patches":[` + a + `]}`
	}},
	{"unknown-members", func(c, a, b string) string {
		return `{"x":1e400,"patches":[` + a + `],"y":{"a":1,"a":2},"updateCommitment":` + q(c) + `}`
	}},
	{"number-out-of-range-in-patch", func(c, a, b string) string {
		return `{"patches":[` + a + `,{"action":"replace","document":{},"n":1e400}],"updateCommitment":` + q(c) + `}`
	}},
	{"many-patches", func(c, a, b string) string {
		return `{"patches":[` + a + `,` + b + `,` + a + `,` + goodIetfPatch + `],"updateCommitment":` + q(c) + `}`
	}},
}

// ---------------------------------------------------------------- main

func main() {
	out := flag.String("out", "cases", "output directory")
	seed := flag.Int64("seed", 1, "seed")
	tier := flag.String("tier", "quick", "quick|thorough")
	per := flag.Int("per", 0, "cases per file")
	flag.Parse()
	outDir = *out
	world.Must(os.MkdirAll(outDir, 0o755))
	rng = rand.New(rand.NewSource(*seed))
	// numbers of cases per class
	nDID, nPool, nMulti, nRespell, nShape, nBare, nMut, nJSONMut := 4, 280, 100, 200, 100, 900, 160, 60
	if *tier == "thorough" {
		nDID, nPool, nMulti, nRespell, nShape, nBare, nMut, nJSONMut = 12, 3600, 1200, 2400, 1100, 9600, 2000, 500
	}
	if *per > 0 {
		perFile = *per
	}
	bk := newBank(nDID)
	sys := genPatches()
	// the systematic pool by action (it is dominated by add-public-keys / add-services variants): drawing the action
	// first gives every validator its share
	byAction := map[string][]string{}
	var actionNames []string
	for _, t := range sys {
		var m map[string]interface{}
		_ = json.Unmarshal([]byte(t), &m)
		a, _ := m["action"].(string)
		if len(a) > 24 || a == "" {
			a = "(other)"
		}
		if byAction[a] == nil {
			actionNames = append(actionNames, a)
		}
		byAction[a] = append(byAction[a], t)
	}
	sort.Strings(actionNames)
	for _, a := range actionNames {
		count("pool", fmt.Sprintf("systematic:%s:%d", a, len(byAction[a])))
	}
	pool := func() string { // the systematic pool is mostly single violations; the random patches are mostly valid
		switch r := rng.Intn(10); {
		case r < 4:
			return genRandomPatch()
		case r < 6:
			return pick(goodPatches)
		case r < 8:
			return pick(byAction[pick(actionNames)])
		}
		return sys[rng.Intn(len(sys))]
	}
	count("pool", fmt.Sprintf("systematic-patches-available:%d", len(sys)))
	var signedReqs [][]byte // otherwise-valid signed requests, to be mutated later
	keep := func(b []byte) {
		if len(signedReqs) < 4000 {
			signedReqs = append(signedReqs, b)
		}
	}

	// 0. the two requests quoted in Parser/ViewValidatedProofs.v: an update carrying add-services and an ietf-json-patch
	//    (accepted), and the same with a JSON-patch operation that moves a value into the service section (refused)
	{
		jp := func(target string) string {
			return patchJ(q("ietf-json-patch"), "patches", arr(obj("op", q("add"), "path", q("/ok"), "value", `{"a":[1,2]}`), obj("op", q("move"), "from", q("/ok/a"), "path", q(target))))
		}
		ex := bk.withPatches("update", []string{goodSvcPatch, jp("/moved")})
		addCase("signed:update:example", ex)
		exampleHex = hex.EncodeToString(ex)
		tree := parseOrdered(ex)
		tree.get("delta").val = raw(strings.Replace(tree.get("delta").val.text(), `"/moved"`, `"/service/0"`, 1))
		addCase("signed:update:example-refused", []byte(tree.text()))
		refusedHex = hex.EncodeToString([]byte(tree.text()))
	}
	// 1. one pool patch inside a real signed request of each type (thorough: every second one strides through the systematic pool)
	for i := 0; i < nPool; i++ {
		t := pool()
		if *tier == "thorough" && i%2 == 0 { // a stride through the whole systematic pool
			t = sys[(i*7919)%len(sys)]
		}
		ty := reqTypes[i%3]
		b := bk.withPatches(ty, []string{t})
		addCase("signed:"+ty+":one-patch", b)
		keep(b)
	}
	// 2. several patches: good ones around a pool patch, pool patches only
	for i := 0; i < nMulti; i++ {
		ty := reqTypes[i%3]
		var ts []string
		switch rng.Intn(4) {
		case 0:
			ts = []string{pick(goodPatches), pool()}
		case 1:
			ts = []string{pool(), pick(goodPatches)}
		case 2:
			ts = []string{pick(goodPatches), pool(), pick(goodPatches)}
		default:
			ts = []string{pool(), pool()}
		}
		b := bk.withPatches(ty, ts)
		addCase("signed:"+ty+":several-patches", b)
		keep(b)
	}
	// 3. respelled patch text inside a real signed request, deltaHash following the decoding
	for i := 0; i < nRespell; i++ {
		ty := reqTypes[i%3]
		t := pool()
		if rng.Intn(3) == 0 {
			t = pick(goodPatches)
		}
		rt, kind := respell(t)
		if rng.Intn(4) == 0 && json.Valid([]byte(rt)) {
			var k2 string
			rt, k2 = respell(rt)
			kind += "+" + k2
		}
		others := []string{rt}
		if rng.Intn(3) == 0 {
			others = append(others, pick(goodPatches))
		}
		b, dec := bk.withDeltaText(ty, func(c string) string { return deltaText(c, others) })
		addCase(fmt.Sprintf("signed-text:%s:respelled:%s", ty, kind), b)
		count("respelled_delta_decodes", fmt.Sprint(dec))
		keep(b)
	}
	// 4. delta shapes
	for i := 0; i < nShape; i++ {
		ty := reqTypes[i%3]
		sh := shapes[i%len(shapes)]
		a, b2 := pool(), pick(goodPatches)
		if rng.Intn(2) == 0 {
			a, b2 = pick(goodPatches), pool()
		}
		if rng.Intn(3) == 0 {
			a = pick(goodPatches)
		}
		b, dec := bk.withDeltaText(ty, func(c string) string { return sh.f(c, a, b2) })
		addCase(fmt.Sprintf("signed-text:%s:shape:%s", ty, sh.name), b)
		count("shape_delta_decodes", fmt.Sprint(dec))
		keep(b)
	}
	// 5. bare unsigned requests: cheap for the model (the parser stops before hashing), so the whole pool goes through
	//    the decoder -> validator link
	for i := 0; i < nBare; i++ {
		t := pool()
		if i < len(sys) && (*tier == "thorough" || i%3 == 0) {
			t = sys[(i*7)%len(sys)]
			if *tier == "thorough" {
				t = sys[i]
			}
		}
		kind := "plain"
		if rng.Intn(3) == 0 {
			t, kind = respell(t)
		}
		ty := pick([]string{"create", "update", "update", "recover"})
		var req string
		switch ty {
		case "create":
			req = `{"type":"create","suffixData":{"deltaHash":"EiA","recoveryCommitment":"EiB"},"delta":{"patches":[` + t + `],"updateCommitment":"EiC"}}`
		default:
			req = `{"type":` + q(ty) + `,"didSuffix":"EiD","revealValue":"EiE","signedData":"e30.e30.e30","delta":{"updateCommitment":"EiC","patches":[` + t + `]}}`
		}
		addCase("bare:"+ty+":"+kind, []byte(req))
	}
	// 6. deactivate (no delta) and requests whose type does not admit a delta
	for i := 0; i < 6; i++ {
		op := world.Build(bk.spec("deactivate"))
		addCase("signed:deactivate", op.Request)
		tree := parseOrdered(op.Request)
		tree.mem = append(tree.mem, &member{key: `"delta"`, val: raw(deltaText("EiC", []string{pool()}))})
		addCase("signed:deactivate+delta", []byte(tree.text()))
	}
	// 7. mutated requests: text level (the patches stay inside; the deltaHash is NOT recomputed)
	for i := 0; i < nMut && len(signedReqs) > 0; i++ {
		base := signedReqs[rng.Intn(len(signedReqs))]
		t := parseOrdered(base)
		label := applyMut(t)
		if rng.Intn(4) == 0 {
			label += "+" + applyMut(t)
		}
		s := t.text()
		if rng.Intn(5) == 0 {
			s = t.spaced()
		}
		if rng.Intn(6) == 0 {
			var w string
			if s, w = wrapText(s); w != "" {
				label = w
			}
		}
		addCase("mutated-text:"+label, []byte(s))
	}
	// 8. mutated requests: JSON level
	muts := reqMutations()
	for i := 0; i < nJSONMut && len(signedReqs) > 0; i++ {
		base := signedReqs[rng.Intn(len(signedReqs))]
		m := muts[i%len(muts)]
		var cp map[string]interface{}
		if json.Unmarshal(base, &cp) != nil { // a base whose text does not decode (number out of range, ...)
			continue
		}
		if m.f(cp) {
			b, _ := json.Marshal(cp)
			addCase("mutated-json:"+m.name, b)
		}
	}
	// 9. every catalogue delta text of gen_view, and a few hand-written requests
	if len(signedReqs) > 0 {
		for i, dt := range deltaTexts {
			if *tier != "thorough" && i%2 == 1 {
				continue
			}
			t := parseOrdered(signedReqs[rng.Intn(len(signedReqs))])
			t.get("delta").val = raw(dt)
			addCase("mutated-text:delta-catalogue", []byte(t.text()))
		}
	}
	for _, s := range []string{`{"type":"update","delta":{"patches":[null]}}`, `{"type":"update","delta":{"patches":[{}]}}`, `{"type":"update","delta":null}`, `{"type":"update"}`, `{"type":"recover","delta":{"patches":[` + goodKeyPatch + `]}}`,
		`{"type":"create","delta":{"patches":[` + goodSvcPatch + `,` + goodIetfPatch + `]}}`, `{"type":"deactivate","delta":{"patches":[` + goodKeyPatch + `]}}`, `{"type":"upsert","delta":{"patches":[` + goodKeyPatch + `]}}`,
		`{"type":"update","delta":{"patches":[` + goodKeyPatch + `]},"delta":{"patches":[{"publicKeys":[]}]}}`, `{"type":"update","delta":{"patches":[` + goodKeyPatch + `]},"DELTA":{}}`,
		`{"type":"update","delta":{"patches":[` + goodKeyPatch + `]},"delta":null}`, `{"type":"update","delta":{"patches":[{"action":"ietf-json-patch","patches":[{"op":"add","path":"/a","value":1e400}]}]}}`,
		`{"type":"update","delta":{"patches":[{"action":"ietf-json-patch","patches":[{"op":"add","path":"\/a","value":{"x":[1,2,{"y":null}]}},{"op":"move","from":"\/b","path":"/publicKey"}]}]}}`,
		`{"type":"update","delta":{"patches":[{"action":"add-also-known-as","uris":["http://x/%41","http://x/A","HTTP://x/a"]}]}}`} {
		addCase("special", []byte(s))
	}

	// write files: cases spread over the files by size (largest first, always into the lightest file)
	if *tier != "thorough" && *per == 0 { // one wave on 16 cores
		perFile = (len(cases) + 15) / 16
	}
	nFiles := (len(cases) + perFile - 1) / perFile
	order := make([]int, len(cases))
	for i := range order {
		order[i] = i
	}
	sort.SliceStable(order, func(a, b int) bool { return len(cases[order[a]]) > len(cases[order[b]]) })
	files := make([][]int, nFiles)
	load := make([]int, nFiles)
	for _, ci := range order {
		best := 0
		for f := range files {
			if load[f] < load[best] {
				best = f
			}
		}
		files[best] = append(files[best], ci)
		load[best] += len(cases[ci]) + 2000
	}
	lo := 0
	for s, idx := range files {
		sort.Ints(idx)
		var sb strings.Builder
		sb.WriteString("(* generated by harness/cmd/gen_vlink; never edited *)\n")
		sb.WriteString("From Coq Require Import List ZArith NArith String.\nImport ListNotations.\n")
		sb.WriteString("From SV Require Import Base.Bytes Resolve.Op Parser.Accept Corr.Parser Corr.ViewOfBytes Corr.ViewValidated.\nLocal Open Scope list_scope.\n")
		for i, p := range protos {
			sb.WriteString(fmt.Sprintf("Definition P%d : pproto := %s.\n", i, world.ProtoGallina(p)))
		}
		sb.WriteString("Definition cases : list vlcase := [\n")
		for i, ci := range idx {
			sb.WriteString("  " + cases[ci])
			if i+1 < len(idx) {
				sb.WriteString(";")
			}
			sb.WriteString("\n")
		}
		sb.WriteString("].\n")
		base := fmt.Sprintf("%d%%nat", lo)
		if lo > 4000 { // coqc warns about large nat literals
			base = fmt.Sprintf("(N.to_nat %d%%N)", lo)
		}
		sb.WriteString("Definition M := Eval vm_compute in vl_mismatches " + base + " cases.\nPrint M.\n")
		world.Must(os.WriteFile(filepath.Join(outDir, fmt.Sprintf("VL_%03d.v", s)), []byte(sb.String()), 0o644))
		lo += len(idx)
	}
	logf("gen_vlink: %d cases, %d files, %d panics, %d direct violations\n", len(cases), nFiles, panics, len(violations))
	sj, _ := json.Marshal(map[string]interface{}{"histograms": hist, "samples": samples, "direct_violations": violations,
		"extra": map[string]interface{}{"tier": *tier, "seed": *seed, "cases": len(cases), "files": nFiles, "cases_per_file": perFile, "panics": panics,
			"example_update_request_hex": exampleHex, "example_refused_update_request_hex": refusedHex,
			"oracles": []string{"decoders_never_panic", "validator_never_panics", "parser_never_panics", "accepted_request_has_validated_patches", "accepted_request_has_enabled_actions", "accepted_patch_obeys_rules", "validated_delta_obeys_rules"}}})
	fmt.Println("STATS " + string(sj))
}
