// Ordered JSON trees at text level, catalogues of member-name / value spellings and the request mutations
// (copied from harness/cmd/gen_view/main.go, which this package must not import or edit).
package main

import (
	"encoding/base64"
	"encoding/json"
	"fmt"
	"strings"

	"verif/harness/internal/world"
)

type node struct {
	kind byte // 'o' object, 'a' array, 'r' raw scalar text
	raw  string
	mem  []*member
	arr  []*node
}

type member struct {
	key string // raw JSON text of the name, quotes included
	val *node
}

func parseOrdered(b []byte) *node {
	dec := json.NewDecoder(strings.NewReader(string(b)))
	dec.UseNumber()
	n := parseNode(dec)
	return n
}

func parseNode(dec *json.Decoder) *node {
	t, err := dec.Token()
	world.Must(err)
	switch v := t.(type) {
	case json.Delim:
		if v == '{' {
			n := &node{kind: 'o'}
			for dec.More() {
				kt, err := dec.Token()
				world.Must(err)
				kb, _ := json.Marshal(kt.(string))
				n.mem = append(n.mem, &member{key: string(kb), val: parseNode(dec)})
			}
			_, _ = dec.Token()
			return n
		}
		n := &node{kind: 'a'}
		for dec.More() {
			n.arr = append(n.arr, parseNode(dec))
		}
		_, _ = dec.Token()
		return n
	case json.Number:
		return &node{kind: 'r', raw: string(v)}
	case string:
		b, _ := json.Marshal(v)
		return &node{kind: 'r', raw: string(b)}
	case bool:
		if v {
			return &node{kind: 'r', raw: "true"}
		}
		return &node{kind: 'r', raw: "false"}
	}
	return &node{kind: 'r', raw: "null"}
}

func raw(s string) *node { return &node{kind: 'r', raw: s} }

func (n *node) clone() *node {
	c := &node{kind: n.kind, raw: n.raw}
	for _, m := range n.mem {
		c.mem = append(c.mem, &member{key: m.key, val: m.val.clone()})
	}
	for _, e := range n.arr {
		c.arr = append(c.arr, e.clone())
	}
	return c
}

func (n *node) write(sb *strings.Builder, ws func() string) {
	switch n.kind {
	case 'r':
		sb.WriteString(n.raw)
	case 'a':
		sb.WriteString("[" + ws())
		for i, e := range n.arr {
			if i > 0 {
				sb.WriteString(ws() + "," + ws())
			}
			e.write(sb, ws)
		}
		sb.WriteString(ws() + "]")
	case 'o':
		sb.WriteString("{" + ws())
		for i, m := range n.mem {
			if i > 0 {
				sb.WriteString(ws() + "," + ws())
			}
			sb.WriteString(m.key + ws() + ":" + ws())
			m.val.write(sb, ws)
		}
		sb.WriteString(ws() + "}")
	}
}

func (n *node) text() string {
	var sb strings.Builder
	n.write(&sb, func() string { return "" })
	return sb.String()
}

func (n *node) spaced() string {
	var sb strings.Builder
	n.write(&sb, func() string {
		k := rng.Intn(4)
		s := ""
		for i := 0; i < k; i++ {
			s += string(" \n\r\t"[rng.Intn(4)])
		}
		return s
	})
	return sb.String()
}

func (n *node) get(name string) *member {
	for _, m := range n.mem {
		if m.key == `"`+name+`"` {
			return m
		}
	}
	return nil
}

// all objects of the tree
func (n *node) objects(acc *[]*node) {
	switch n.kind {
	case 'o':
		*acc = append(*acc, n)
		for _, m := range n.mem {
			m.val.objects(acc)
		}
	case 'a':
		for _, e := range n.arr {
			e.objects(acc)
		}
	}
}

func keyName(rawKey string) string {
	var s string
	_ = json.Unmarshal([]byte(rawKey), &s)
	return s
}

// ---------------------------------------------------------------- catalogues

func keyVariants(k string) []string {
	swap := func(s string) string {
		b := []byte(s)
		for i, c := range b {
			switch {
			case 'a' <= c && c <= 'z':
				b[i] = c - 32
			case 'A' <= c && c <= 'Z':
				b[i] = c + 32
			}
		}
		return string(b)
	}
	out := []string{q(strings.ToUpper(k)), q(strings.ToLower(k)), q(strings.ToUpper(k[:1]) + k[1:]), q(swap(k)),
		q(k + " "), q(" " + k), q(k[:len(k)-1]), q(k + k), `"` + fmt.Sprintf(`\u%04x`, k[0]) + k[1:] + `"`,
		`"` + fmt.Sprintf(`\u%04X`, k[0]&^0x20) + k[1:] + `"`, `"` + k + `\u0000"`, q(k + "\u0130"), `"` + k[:1] + "\xff" + k[1:] + `"`}
	if strings.ContainsAny(k, "kK") { // U+212A KELVIN SIGN folds to K: raw UTF-8 and as an escape
		out = append(out, `"`+strings.NewReplacer("k", "\u212a", "K", "\u212a").Replace(k)+`"`, `"`+strings.NewReplacer("k", `\u212a`, "K", `\u212A`).Replace(k)+`"`)
	}
	if strings.ContainsAny(k, "sS") { // U+017F LATIN SMALL LETTER LONG S folds to S
		out = append(out, `"`+strings.NewReplacer("s", "\u017f", "S", "\u017f").Replace(k)+`"`, `"`+strings.NewReplacer("s", `\u017f`, "S", `\u017F`).Replace(k)+`"`)
	}
	if strings.ContainsAny(k, "iI") { // dotless / dotted i do NOT fold to ASCII
		out = append(out, `"`+strings.NewReplacer("i", "\u0131", "I", "\u0130").Replace(k)+`"`)
	}
	return out
}

var deep = strings.Repeat("[", 40) + `{"a":` + strings.Repeat(`{"b":`, 20) + "1.5" + strings.Repeat("}", 20) + "}" + strings.Repeat("]", 40)

var wrongTypes = []string{"1", `"s"`, "true", "false", "[]", "{}", "null", "[1]", `{"a":1}`, `""`, "0", "-1.5", `[null]`, `[{}]`, `{"type":"x"}`, "1e400", `[[]]`}

var strTexts = []string{`""`, `"\ud800"`, `"\udc00x"`, `"\ud800\udc00"`, `"\ud83d\ude00"`, `"\ud800A"`, `"\ud800\ud800\udc00"`, `"\udbff\udfff"`, `"a\u0000b"`, "\"\xff\"", "\"a\xc0\x80b\"", "\"\xed\xa0\x80\"",
	"\"\xf4\x90\x80\x80\"", "\"\xe2\x82\"", "\"\xf0\x9f\x98\x80\"", "\"\xc3\"", "\"\xc3\xa9\xe2\x82\xac\"", `"\/\b\f\n\r\t\"\\"`, `"<>&"`, `"\u2028\u2029"`, "\"\u2028\u2029\"", "\"\x7f\"", `"\u00e9"`, `"\u00E9\u20ac"`,
	`"\x"`, `"\u12"`, `"\'"`, `"\u12G4"`, "\"a\x01b\"", "\"a\nb\"", "\"a\tb\"", `"\ud800\`, `"\ud800\u"`, `"\ud800\udc0"`, `"EiDKIkwqO69IPG3pOlHkdb86nYt0aNxSHZu2r-bhEznjdA"`, `"create"`, `"update"`, `"\u212a"`, "\"\u212a\u017f\"", `"\ufffd"`, "\"\xef\xbf\xbd\"",
	`"\ufffe\uffff"`, "\"\xef\xbf\xbe\"", "\"\xe0\x80\x80\"", "\"\xf0\x80\x80\x80\"", "\"\xf8\x88\x80\x80\x80\"", `"\ud800\ud83d\ude00"`, `"\ud83d\ud83d\ude00\ude00"`, `"\uD83D\uDE00"`, `"\udc00\ud800"`}

var numTexts = []string{"1.0", "1e2", "1E2", "9223372036854775807", "9223372036854775808", "-9223372036854775808", "-9223372036854775809", "-0", "0", "007", "-", "1.", "+1", ".5", "1e400", "-1e400",
	"1e-400", "1e308", "1.7976931348623157e308", "1.7976931348623159e308", "123456789012345678901234567890", "0.1", "1e21", "1e-7", "4.35", "5e-324", "0.000001", "100", "1e5", "123456", "1234567", "0x10", "NaN",
	"Infinity", "1_0", "01", "-01", "0e0", "0.0", "12e", "1e+", "42", "-1", "1700000000", "1e-5", "0.0001", "123456789", "1234567.5", "12345678.5", "0.000012345", "100000", "999999.9", "1e6", "2e-5",
	"18446744073709551616", "9007199254740993", "0.30000000000000004", "1e23", "-0.0", "0e999", "00", "1e05", "1E+2", "1e-2", "-1E-2", "2.5e-3", strings.Repeat("9", 400), "0." + strings.Repeat("0", 400) + "1",
	"1" + strings.Repeat("0", 308), "1" + strings.Repeat("0", 309), "3e-324", "2e-324", "4.9406564584124654e-324", "2.2250738585072011e-308"}

var ifaceTexts = []string{deep, `{"a":1,"a":2}`, `{"b":1,"a":{"y":[],"x":{}}}`, `[1,"a",null,true,false,{"k":[]}]`, `{"":0}`, `{"\u0000":1,"\ud800":2,"` + "\xff" + `":3}`, `{"\ud800":1,"\udc00":2}`, "false", "0", `""`, "[]", "{}",
	`"origin7"`, `{"a":{"a":{"a":1e400}}}`, `[1e400]`, `{"z":1,"a":2,"é":3,"😀":4,"דּ":5}`, `[0.1,1e21,1e-7,-0,123456789012345678901234567890]`}

var deltaTexts = []string{`{"patches":[null]}`, `{"patches":[{}]}`, `{"patches":[{"action":1}]}`, `{"patches":[{"action":"replace"}]}`, `{"patches":[{"action":"replace","document":{}}]}`, `{"patches":[{"ACTION":"replace"}]}`,
	`{"patches":[{"action":"replace","action":"add-public-keys"}]}`, `{"patches":[{"action":"add-public-keys","action":null}]}`, `{"patches":[[]]}`, `{"patches":[1]}`, `{"patches":{}}`, `{"patches":"x"}`, `{"patches":null}`, `{"patches":[]}`,
	`{"patches":[{"action":"replace"},{"action":"frobnicate"},null,{"action":"ietf-json-patch","patches":[]}]}`, `{"updateCommitment":"EiX","UPDATECOMMITMENT":"EiY"}`, `{"updateCommitment":null}`, `{"updateCommitment":1}`, `{}`,
	`{"patches":[{"a":1},{"b":2}],"patches":[{"c":3}],"patches":[{"d":4},{"e":5}]}`, `{"patches":[{"a":1},{"b":2}],"patches":[],"patches":[{"d":4},{"e":5}]}`, `{"patches":[{"a":1},{"b":2},{"c":3}],"patches":[null],"patches":[{"d":4},{"e":5},{"f":6},{"g":7}]}`,
	`{"patches":[{"a":1},{"b":2}],"patches":null,"Patches":[{"d":4},{"e":5}]}`, `{"patches":[{"action":"replace","x":{"y":1}}],"PATCHES":[{"x":{"z":2}}]}`, `{"patches":[{"a":1e400}]}`, `{"patches":[{"action":"add-also-known-as","uris":["x"]}]}`,
	`{"patches":[{"action":"replace\u0000"}]}`, `{"patches":[{"action":"Replace"}]}`, `{"patches":[{"action":["replace"]}]}`, `{"patches":[{"action":null}]}`}

type mutation func(root *node) (label string, ok bool)

func randomObject(root *node) *node {
	var objs []*node
	root.objects(&objs)
	if len(objs) == 0 {
		return nil
	}
	// prefer the struct levels (outer objects)
	if rng.Intn(3) > 0 && len(objs) > 3 {
		return objs[rng.Intn(3)]
	}
	return objs[rng.Intn(len(objs))]
}

func scalarAlt(v *node) *node {
	if v.kind == 'r' && strings.HasPrefix(v.raw, `"`) {
		return raw(q("other-" + keyName(v.raw)))
	}
	return raw(pick(wrongTypes))
}

var textMutations = []mutation{
	func(root *node) (string, bool) { // member name in another case / folding look-alikes
		o := randomObject(root)
		if o == nil || len(o.mem) == 0 {
			return "", false
		}
		m := o.mem[rng.Intn(len(o.mem))]
		k := keyName(m.key)
		if k == "" {
			return "", false
		}
		m.key = pick(keyVariants(k))
		return "keycase", true
	},
	func(root *node) (string, bool) { // duplicate member, same or other case, before or after
		o := randomObject(root)
		if o == nil || len(o.mem) == 0 {
			return "", false
		}
		i := rng.Intn(len(o.mem))
		m := o.mem[i]
		k := keyName(m.key)
		if k == "" {
			return "", false
		}
		nk := m.key
		if rng.Intn(2) == 0 {
			nk = pick(keyVariants(k)[:4])
		}
		var nv *node
		switch rng.Intn(6) {
		case 0:
			nv = raw("null")
		case 1:
			nv = m.val.clone()
		case 2:
			nv = scalarAlt(m.val)
		case 3:
			nv = raw("{}")
		case 4:
			if m.val.kind == 'o' && len(m.val.mem) > 0 { // partial object: decodes INTO the first one
				nv = &node{kind: 'o', mem: []*member{{key: m.val.mem[rng.Intn(len(m.val.mem))].key, val: raw(q("merged"))}}}
			} else {
				nv = raw(pick(wrongTypes))
			}
		default:
			if k == "delta" {
				nv = raw(pick(deltaTexts))
			} else {
				nv = raw(pick(strTexts))
			}
		}
		dup := &member{key: nk, val: nv}
		if rng.Intn(2) == 0 {
			o.mem = append(o.mem, dup)
		} else {
			o.mem = append(o.mem[:i:i], append([]*member{dup}, o.mem[i:]...)...)
		}
		return "duplicate", true
	},
	func(root *node) (string, bool) { // null member
		o := randomObject(root)
		if o == nil || len(o.mem) == 0 {
			return "", false
		}
		o.mem[rng.Intn(len(o.mem))].val = raw("null")
		return "null", true
	},
	func(root *node) (string, bool) { // wrong type
		o := randomObject(root)
		if o == nil || len(o.mem) == 0 {
			return "", false
		}
		o.mem[rng.Intn(len(o.mem))].val = raw(pick(wrongTypes))
		return "wrongtype", true
	},
	func(root *node) (string, bool) { // string spellings, invalid UTF-8, surrogates
		o := randomObject(root)
		if o == nil || len(o.mem) == 0 {
			return "", false
		}
		o.mem[rng.Intn(len(o.mem))].val = raw(pick(strTexts))
		return "string", true
	},
	func(root *node) (string, bool) { // number spellings anywhere
		o := randomObject(root)
		if o == nil || len(o.mem) == 0 {
			return "", false
		}
		o.mem[rng.Intn(len(o.mem))].val = raw(pick(numTexts))
		return "number", true
	},
	func(root *node) (string, bool) { // add a known member with a special value
		o := randomObject(root)
		if o == nil {
			return "", false
		}
		names := []string{"anchorFrom", "anchorUntil", "anchorOrigin", "nonce", "type", "delta", "suffixData", "didSuffix", "revealValue", "signedData", "updateKey", "recoveryKey", "deltaHash",
			"recoveryCommitment", "updateCommitment", "patches", "kty", "crv", "x", "y", "action", "alg", "kid", "b64", "crit"}
		k := pick(names)
		var v string
		switch k {
		case "anchorFrom", "anchorUntil":
			v = pick(numTexts)
		case "anchorOrigin":
			v = pick(ifaceTexts)
		case "delta":
			v = pick(deltaTexts)
		case "b64":
			v = pick([]string{"true", "false", "null", `"true"`, "1", "[]"})
		case "patches":
			v = pick([]string{`[null]`, `[{"action":"replace","document":{}}]`, `[]`, `null`, `[{"x":1},{"y":2},{"z":3}]`})
		default:
			v = pick(append(append([]string{}, strTexts...), wrongTypes...))
		}
		key := q(k)
		if rng.Intn(4) == 0 {
			key = pick(keyVariants(k)[:4])
		}
		o.mem = append(o.mem, &member{key: key, val: raw(v)})
		return "addmember:" + k, true
	},
	func(root *node) (string, bool) { // unknown members, with content that would be an error elsewhere
		o := randomObject(root)
		if o == nil {
			return "", false
		}
		o.mem = append(o.mem, &member{key: pick([]string{`"extra"`, `"zzz"`, `""`, `"typ"`, `"\u0000"`, "\"\xff\""}), val: raw(pick([]string{"1e400", deep, `{"a":1,"a":2}`, `"\ud800"`, "null", `[1e999]`}))})
		return "unknown", true
	},
	func(root *node) (string, bool) { // delete
		o := randomObject(root)
		if o == nil || len(o.mem) == 0 {
			return "", false
		}
		i := rng.Intn(len(o.mem))
		o.mem = append(o.mem[:i:i], o.mem[i+1:]...)
		return "delete", true
	},
	func(root *node) (string, bool) { // interface{} positions
		var objs []*node
		root.objects(&objs)
		for _, o := range objs {
			if m := o.get("anchorOrigin"); m != nil {
				m.val = raw(pick(append(append([]string{}, ifaceTexts...), numTexts...)))
				return "iface", true
			}
		}
		o := objs[0]
		if m := o.get("suffixData"); m != nil && m.val.kind == 'o' {
			o = m.val
		}
		o.mem = append(o.mem, &member{key: `"anchorOrigin"`, val: raw(pick(append(append([]string{}, ifaceTexts...), numTexts...)))})
		return "iface", true
	},
	func(root *node) (string, bool) { // delta shapes
		if m := root.get("delta"); m != nil {
			m.val = raw(pick(deltaTexts))
			return "delta", true
		}
		return "", false
	},
}

func applyMut(root *node) string {
	for tries := 0; tries < 10; tries++ {
		if l, ok := textMutations[rng.Intn(len(textMutations))](root); ok {
			return l
		}
	}
	return "none"
}

// request -> (header tree, payload tree, signature part)
func openSigned(root *node) (h, p *node, sig string, ok bool) {
	m := root.get("signedData")
	if m == nil || m.val.kind != 'r' {
		return nil, nil, "", false
	}
	parts := strings.Split(keyName(m.val.raw), ".")
	if len(parts) != 3 {
		return nil, nil, "", false
	}
	hb, err1 := base64.RawURLEncoding.DecodeString(parts[0])
	pb, err2 := base64.RawURLEncoding.DecodeString(parts[1])
	if err1 != nil || err2 != nil || !json.Valid(hb) || !json.Valid(pb) {
		return nil, nil, "", false
	}
	return parseOrdered(hb), parseOrdered(pb), parts[2], true
}

func closeSigned(root *node, htext, ptext, sig string) {
	root.get("signedData").val = raw(q(base64.RawURLEncoding.EncodeToString([]byte(htext)) + "." + base64.RawURLEncoding.EncodeToString([]byte(ptext)) + "." + sig))
}

func wrapText(s string) (string, string) {
	switch rng.Intn(12) {
	case 0:
		return " \n\t\r" + s, "ws-leading"
	case 1:
		return s + " \n\t\r ", "ws-trailing"
	case 2:
		return s + pick([]string{"x", "{}", ",", "]", "}", "\x00", "null", " 1", "\xef\xbb\xbf", "\x0b", "\x0c", "\xc2\xa0"}), "trailing-content"
	case 3:
		return "\xef\xbb\xbf" + s, "bom"
	case 4:
		return s[:rng.Intn(len(s))], "truncated"
	case 5:
		return pick([]string{"\x0b", "\x0c", "\xc2\xa0", "\x00", "/**/", "//\n"}) + s, "pseudo-space"
	case 6:
		return "[" + s + "]", "in-array"
	case 7:
		i := rng.Intn(len(s))
		return s[:i] + pick([]string{"\"", "\\", ",", ":", "{", "}", "[", "]", " ", "\n", "\x00", "\xff", "0", "e", "-", "."}) + s[i:], "byte-insert"
	case 8:
		i := rng.Intn(len(s))
		return s[:i] + s[i+1:], "byte-delete"
	}
	return s, ""
}

// ---------------------------------------------------------------- JSON-level mutations (as harness/cmd/sv/c10.go)

type reqMut struct {
	name string
	f    func(m map[string]interface{}) bool
}

func reqMutations() []reqMut {
	set := func(name, field string, v interface{}) reqMut {
		return reqMut{name, func(m map[string]interface{}) bool {
			if _, ok := m[field]; !ok {
				return false
			}
			if v == "__delete__" {
				delete(m, field)
			} else {
				m[field] = v
			}
			return true
		}}
	}
	sub := func(name, parent, field string, v interface{}) reqMut {
		return reqMut{name, func(m map[string]interface{}) bool {
			pm, _ := m[parent].(map[string]interface{})
			if pm == nil {
				return false
			}
			if v == "__delete__" {
				delete(pm, field)
			} else {
				pm[field] = v
			}
			return true
		}}
	}
	long := strings.Repeat("A", 200)
	return []reqMut{
		set("type:unknown", "type", "upsert"), set("type:number", "type", float64(1)), set("type:missing", "type", "__delete__"),
		set("didSuffix:empty", "didSuffix", ""), set("didSuffix:missing", "didSuffix", "__delete__"), set("didSuffix:number", "didSuffix", float64(3)),
		set("reveal:empty", "revealValue", ""), set("reveal:long", "revealValue", long), set("reveal:garbage", "revealValue", "!!!"),
		set("reveal:other-hash", "revealValue", "EiBvbm90LXRoZS1oYXNoLW9mLXRoZS1rZXktYXQtYWxsISEh"),
		set("reveal:unsupported-code", "revealValue", "ESBvbm90LXRoZS1oYXNoLW9mLXRoZS1rZXktYXQtYWxsISEh"),
		set("signedData:empty", "signedData", ""), set("signedData:missing", "signedData", "__delete__"), set("signedData:two-parts", "signedData", "e30.e30"),
		set("signedData:number", "signedData", float64(1)),
		set("delta:missing", "delta", "__delete__"), set("delta:null", "delta", nil), set("delta:string", "delta", "x"),
		sub("delta.patches:empty", "delta", "patches", []interface{}{}), sub("delta.patches:missing", "delta", "patches", "__delete__"),
		sub("delta.patches:no-action", "delta", "patches", []interface{}{map[string]interface{}{"publicKeys": []interface{}{}}}),
		sub("delta.patches:unknown-action", "delta", "patches", []interface{}{map[string]interface{}{"action": "frobnicate", "x": 1}}),
		sub("delta.patches:invalid-patch", "delta", "patches", []interface{}{map[string]interface{}{"action": "add-public-keys", "publicKeys": []interface{}{map[string]interface{}{"id": "bad id!"}}}}),
		sub("delta.updateCommitment:empty", "delta", "updateCommitment", ""), sub("delta.updateCommitment:long", "delta", "updateCommitment", long),
		sub("delta.updateCommitment:garbage", "delta", "updateCommitment", "%%%"),
		sub("suffixData.deltaHash:garbage", "suffixData", "deltaHash", "zz"), sub("suffixData.deltaHash:missing", "suffixData", "deltaHash", "__delete__"),
		sub("suffixData.recoveryCommitment:empty", "suffixData", "recoveryCommitment", ""),
		set("suffixData:missing", "suffixData", "__delete__"), set("suffixData:null", "suffixData", nil),
		set("extra-member", "extra", "ignored"),
	}
}
