// Differential generator for the batch-file view computed from bytes (SV.Batch.FilesOfBytes against
// world.ViewBuilder = encoding/json on the real file structs, and against the real OperationProvider).
//
//	gen_files -out <dir> -seed <n> -tier quick|thorough
//
// Every case starts from a valid batch written by the real OperationHandler into a map CAS, mutates the file set
// (value-level mutations of harness/cmd/sv runC14, text-level mutations of the JSON of each file aimed at the
// decoder, truncated and arbitrary bytes), and records: the facts per reachable CAS address (read verdict, size as
// served, decompression verdict, decompressed bytes), the parser verdicts on what is embedded in the files, the view
// world.ViewBuilder computes with the real decoders, and what the real GetTxnOperations returned. The Coq side
// recomputes the view from the bytes and runs the provider model on it.
// Key generation is not seeded (Go does not allow that for ECDSA); everything else derives from -seed.
package main

import (
	"bytes"
	"compress/gzip"
	"encoding/json"
	"flag"
	"fmt"
	"math/rand"
	"os"
	"path/filepath"
	"sort"
	"strings"

	"github.com/trustbloc/sidetree-core-go/pkg/api/operation"
	"github.com/trustbloc/sidetree-core-go/pkg/api/protocol"
	"github.com/trustbloc/sidetree-core-go/pkg/api/txn"
	"github.com/trustbloc/sidetree-core-go/pkg/compression"
	"github.com/trustbloc/sidetree-core-go/pkg/versions/1_0/operationparser"
	"github.com/trustbloc/sidetree-core-go/pkg/versions/1_0/txnprovider"

	"verif/harness/internal/emit"
	"verif/harness/internal/world"
)

var (
	hist       = map[string]map[string]int{}
	samples    []string
	violations = []map[string]interface{}{}
)

func count(h, bucket string) {
	if hist[h] == nil {
		hist[h] = map[string]int{}
	}
	hist[h][bucket]++
}

func logf(format string, a ...interface{}) { fmt.Fprintf(os.Stderr, format, a...) }

// ---------------------------------------------------------------------------------------------
// environment and batches (as harness/cmd/sv/batch_cmds.go)

type expiryTV struct{}

func (expiryTV) Validate(from, _ int64) error {
	if from == world.ExpiryMarker {
		return operationparser.ErrOperationExpired
	}
	return nil
}

type batchEnv struct {
	p    protocol.Protocol
	cas  *world.MapCAS
	ver  *world.Version
	ids  *world.IDs
	dids []*world.ClientDID
	rng  *rand.Rand
}

func newBatchEnv(seed int64, nDID int, maxOps uint) *batchEnv {
	rng := rand.New(rand.NewSource(seed))
	p := world.DefaultProtocol()
	p.MultihashAlgorithms = []uint{world.SHA256}
	p.MaxOperationCount = maxOps
	p.Patches = []string{"replace", "add-public-keys", "remove-public-keys", "add-services", "remove-services", "ietf-json-patch"}
	// small limits: the padding of the size-limit cases has to travel through the case files
	p.MaxCoreIndexFileSize = 5000
	p.MaxProofFileSize = 6000
	p.MaxProvisionalIndexFileSize = 4000
	p.MaxChunkFileSize = 9000
	p.MaxMemoryDecompressionFactor = 3
	cas := world.NewMapCAS()
	ver := world.NewVersion("1.0", p, world.VersionOpts{CAS: cas, ParserOpts: []operationparser.Option{operationparser.WithAnchorTimeValidator(expiryTV{})}})
	kp := world.NewKeyPool(15)
	e := &batchEnv{p: p, cas: cas, ver: ver, ids: world.NewIDs(), rng: rng}
	for i := 0; i < nDID; i++ {
		e.dids = append(e.dids, world.NewClientDID(kp, i, rng, world.Origins[i%len(world.Origins)]))
	}
	return e
}

func (e *batchEnv) randomOp(onlyType operation.Type) world.ClientOp {
	d := e.dids[e.rng.Intn(len(e.dids))]
	k := e.rng.Intn(10)
	if onlyType != "" {
		switch onlyType {
		case operation.TypeUpdate:
			k = 3
		case operation.TypeDeactivate:
			k = 9
		}
	}
	switch {
	case k < 3:
		return d.Create
	case k < 6:
		return d.Update(e.rng.Intn(3), false)
	case k == 6:
		return d.Update(e.rng.Intn(3), true)
	case k < 9:
		return d.Recover(e.rng.Intn(3), world.Origins[e.rng.Intn(len(world.Origins))])
	}
	return d.Deactivate()
}

func queued(ops []world.ClientOp) []*operation.QueuedOperation {
	var q []*operation.QueuedOperation
	for i, o := range ops {
		q = append(q, &operation.QueuedOperation{Type: o.Type, OperationRequest: o.Request, UniqueSuffix: o.Suffix, Namespace: "did:sidetree",
			AnchorOrigin: o.Origin, Properties: []operation.Property{{Key: "verif-id", Value: int64(i + 1)}}})
	}
	return q
}

// small batches: the bytes of every file travel through the case files
func (e *batchEnv) genBatch(shape int) []world.ClientOp {
	var ops []world.ClientOp
	n := 1 + e.rng.Intn(4)
	switch shape % 8 {
	case 0:
		n = 1
	case 1: // deactivate only
		for i := 0; i < n; i++ {
			ops = append(ops, e.randomOp(operation.TypeDeactivate))
		}
		return ops
	case 2: // update only
		for i := 0; i < n; i++ {
			ops = append(ops, e.randomOp(operation.TypeUpdate))
		}
		return ops
	case 3:
		n = int(e.p.MaxOperationCount)
	}
	for i := 0; i < n; i++ {
		ops = append(ops, e.randomOp(""))
	}
	return ops
}

// ---------------------------------------------------------------------------------------------
// file sets and value-level mutations (as harness/cmd/sv/batch_cmds.go runC14)

type fileSet struct {
	anchorCount string
	core        map[string]interface{}
	coreProof   map[string]interface{}
	provIndex   map[string]interface{}
	provProof   map[string]interface{}
	chunk       map[string]interface{}
	// transport-level mutations per file kind: "", "raw" (not compressed), "pad-raw", "pad-decomp", "flip", "fail", "longuri"
	transport map[string]string
	// text-level mutation of the JSON of a file, applied to what json.Marshal wrote (child URIs are in place)
	text map[string]func([]byte) []byte
}

func gz(b []byte) []byte {
	var buf bytes.Buffer
	w := gzip.NewWriter(&buf)
	w.Write(b) //nolint:errcheck
	w.Close()
	return buf.Bytes()
}

func (e *batchEnv) loadJSON(uri string) map[string]interface{} {
	if uri == "" {
		return nil
	}
	b, err := e.cas.Read(uri)
	if err != nil {
		return nil
	}
	zr, err := gzip.NewReader(bytes.NewReader(b))
	if err != nil {
		return nil
	}
	var buf bytes.Buffer
	buf.ReadFrom(zr) //nolint:errcheck
	var m map[string]interface{}
	if json.Unmarshal(buf.Bytes(), &m) != nil {
		return nil
	}
	return m
}

func (e *batchEnv) loadSet(anchor string) *fileSet {
	parts := strings.SplitN(anchor, ".", 2)
	fs := &fileSet{anchorCount: parts[0], transport: map[string]string{}, text: map[string]func([]byte) []byte{}}
	fs.core = e.loadJSON(parts[1])
	s := func(m map[string]interface{}, k string) string {
		if m == nil {
			return ""
		}
		v, _ := m[k].(string)
		return v
	}
	fs.coreProof = e.loadJSON(s(fs.core, "coreProofFileUri"))
	fs.provIndex = e.loadJSON(s(fs.core, "provisionalIndexFileUri"))
	fs.provProof = e.loadJSON(s(fs.provIndex, "provisionalProofFileUri"))
	if fs.provIndex != nil {
		if ch, ok := fs.provIndex["chunks"].([]interface{}); ok && len(ch) > 0 {
			if cm, ok := ch[0].(map[string]interface{}); ok {
				fs.chunk = e.loadJSON(s(cm, "chunkFileUri"))
			}
		}
	}
	return fs
}

func (e *batchEnv) storeFile(kind string, m map[string]interface{}, fs *fileSet, limit uint) string {
	b, _ := json.Marshal(m)
	if f := fs.text[kind]; f != nil {
		b = f(b)
	}
	mode := fs.transport[kind]
	var stored []byte
	switch mode {
	case "raw":
		stored = b
	case "pad-decomp": // small on the wire, larger than limit*factor after decompression
		pad := strings.Repeat(" ", int(limit*e.p.MaxMemoryDecompressionFactor)+10)
		stored = gz(append(b[:max(len(b)-1, 0)], []byte(pad+"}")...))
	case "pad-decomp-ok": // just within limit*factor
		room := int(limit*e.p.MaxMemoryDecompressionFactor) - len(b)
		if room < 0 {
			room = 0
		}
		stored = gz(append(b[:max(len(b)-1, 0)], []byte(strings.Repeat(" ", room)+"}")...))
	case "pad-raw": // larger than the limit on the wire (incompressible padding inside a JSON string member)
		noise := make([]byte, limit)
		for i := range noise {
			noise[i] = "abcdefghijklmnopqrstuvwxyzABCDEFGHIJKLMNOPQRSTUVWXYZ0123456789"[e.rng.Intn(62)]
		}
		mm := map[string]interface{}{}
		for k, v := range m {
			mm[k] = v
		}
		mm["padding"] = string(noise)
		bb, _ := json.Marshal(mm)
		stored = gz(bb)
	case "flip":
		stored = gz(b)
		stored[len(stored)/2] ^= 0x55
	case "flip-json":
		bb := append([]byte{}, b...)
		if len(bb) > 0 {
			bb[e.rng.Intn(len(bb))] ^= byte(1 << uint(e.rng.Intn(7)))
		}
		stored = gz(bb)
	default:
		stored = gz(b)
	}
	uri, _ := e.cas.Write(stored)
	if mode == "fail" {
		e.cas.FailKey[uri] = true
	}
	if mode == "longuri" {
		long := uri + strings.Repeat("x", int(e.p.MaxCasURILength))
		e.cas.Put(long, stored)
		return long
	}
	if mode == "maxuri" {
		long := uri + strings.Repeat("x", int(e.p.MaxCasURILength)-len(uri))
		e.cas.Put(long, stored)
		return long
	}
	return uri
}

func max(a, b int) int {
	if a > b {
		return a
	}
	return b
}

// store writes the (mutated) file set bottom-up and returns the anchor string.
func (e *batchEnv) store(fs *fileSet) string {
	if fs.chunk != nil && fs.provIndex != nil {
		uri := e.storeFile("chunk", fs.chunk, fs, e.p.MaxChunkFileSize)
		if _, keep := fs.provIndex["_keepchunks"]; !keep {
			fs.provIndex["chunks"] = []interface{}{map[string]interface{}{"chunkFileUri": uri}}
		}
	}
	if fs.provIndex != nil {
		delete(fs.provIndex, "_keepchunks")
		if fs.provProof != nil {
			if _, keep := fs.provIndex["_keepproof"]; !keep {
				fs.provIndex["provisionalProofFileUri"] = e.storeFile("provProof", fs.provProof, fs, e.p.MaxProofFileSize)
			}
		}
		delete(fs.provIndex, "_keepproof")
	}
	if fs.core == nil {
		return fs.anchorCount + ".missing"
	}
	if fs.provIndex != nil {
		if _, keep := fs.core["_keepprov"]; !keep {
			fs.core["provisionalIndexFileUri"] = e.storeFile("provIndex", fs.provIndex, fs, e.p.MaxProvisionalIndexFileSize)
		}
	}
	delete(fs.core, "_keepprov")
	if fs.coreProof != nil {
		if _, keep := fs.core["_keepcproof"]; !keep {
			fs.core["coreProofFileUri"] = e.storeFile("coreProof", fs.coreProof, fs, e.p.MaxProofFileSize)
		}
	}
	delete(fs.core, "_keepcproof")
	delete(fs.core, "_x")
	return fs.anchorCount + "." + e.storeFile("core", fs.core, fs, e.p.MaxCoreIndexFileSize)
}

func listAt(m map[string]interface{}, path ...string) ([]interface{}, func([]interface{})) {
	cur := m
	for i, k := range path {
		if cur == nil {
			return nil, nil
		}
		if i == len(path)-1 {
			l, _ := cur[k].([]interface{})
			parent := cur
			return l, func(n []interface{}) { parent[k] = n }
		}
		next, _ := cur[k].(map[string]interface{})
		cur = next
	}
	return nil, nil
}

type mutation struct {
	name string
	f    func(e *batchEnv, fs *fileSet) bool
}

func listMut(name, file string, path ...string) []mutation {
	get := func(fs *fileSet) map[string]interface{} {
		switch file {
		case "core":
			return fs.core
		case "coreProof":
			return fs.coreProof
		case "provIndex":
			return fs.provIndex
		case "provProof":
			return fs.provProof
		}
		return fs.chunk
	}
	mk := func(kind string, g func(e *batchEnv, l []interface{}) []interface{}) mutation {
		return mutation{name: name + ":" + kind, f: func(e *batchEnv, fs *fileSet) bool {
			l, set := listAt(get(fs), path...)
			if set == nil || len(l) == 0 {
				return false
			}
			set(g(e, l))
			return true
		}}
	}
	return []mutation{
		mk("drop", func(e *batchEnv, l []interface{}) []interface{} {
			i := e.rng.Intn(len(l))
			return append(append([]interface{}{}, l[:i]...), l[i+1:]...)
		}),
		mk("dup", func(e *batchEnv, l []interface{}) []interface{} {
			i := e.rng.Intn(len(l))
			return append(append([]interface{}{}, l...), l[i])
		}),
		mk("null", func(e *batchEnv, l []interface{}) []interface{} {
			n := append([]interface{}{}, l...)
			n[e.rng.Intn(len(n))] = nil
			return n
		}),
		mk("swap", func(e *batchEnv, l []interface{}) []interface{} {
			n := append([]interface{}{}, l...)
			if len(n) > 1 {
				n[0], n[len(n)-1] = n[len(n)-1], n[0]
			}
			return n
		}),
		mk("empty", func(e *batchEnv, l []interface{}) []interface{} { return []interface{}{} }),
	}
}

func allMutations() []mutation {
	var ms []mutation
	ms = append(ms, listMut("core.create", "core", "operations", "create")...)
	ms = append(ms, listMut("core.recover", "core", "operations", "recover")...)
	ms = append(ms, listMut("core.deactivate", "core", "operations", "deactivate")...)
	ms = append(ms, listMut("coreProof.recover", "coreProof", "operations", "recover")...)
	ms = append(ms, listMut("coreProof.deactivate", "coreProof", "operations", "deactivate")...)
	ms = append(ms, listMut("provIndex.update", "provIndex", "operations", "update")...)
	ms = append(ms, listMut("provProof.update", "provProof", "operations", "update")...)
	ms = append(ms, listMut("chunk.deltas", "chunk", "deltas")...)
	ms = append(ms, listMut("provIndex.chunks", "provIndex", "chunks")...)
	// a delta that is well-formed but uses a patch action the protocol does not enable / an unknown action
	for _, pj := range []string{`{"action":"add-also-known-as","uris":["https://alias.example"]}`, `{"action":"frobnicate","x":1}`} {
		pj := pj
		ms = append(ms, mutation{name: "chunk.deltas:disabled-action", f: func(e *batchEnv, fs *fileSet) bool {
			l, set := listAt(fs.chunk, "deltas")
			if set == nil || len(l) == 0 {
				return false
			}
			n := append([]interface{}{}, l...)
			i := e.rng.Intn(len(n))
			d, ok := n[i].(map[string]interface{})
			if !ok {
				return false
			}
			var pv interface{}
			world.Must(json.Unmarshal([]byte(pj), &pv))
			nd := map[string]interface{}{}
			for k, v := range d {
				nd[k] = v
			}
			nd["patches"] = []interface{}{pv}
			n[i] = nd
			set(n)
			return true
		}})
	}
	setField := func(name, file, field string, val interface{}, keep string) mutation {
		return mutation{name: name, f: func(e *batchEnv, fs *fileSet) bool {
			m := map[string]map[string]interface{}{"core": fs.core, "provIndex": fs.provIndex}[file]
			if m == nil {
				return false
			}
			if val == nil {
				delete(m, field)
			} else {
				m[field] = val
			}
			m[keep] = true
			return true
		}}
	}
	ms = append(ms,
		setField("core.noProofRef", "core", "coreProofFileUri", nil, "_keepcproof"),
		setField("core.noProvRef", "core", "provisionalIndexFileUri", nil, "_keepprov"),
		setField("core.danglingProofRef", "core", "coreProofFileUri", "nowhere", "_keepcproof"),
		setField("core.danglingProvRef", "core", "provisionalIndexFileUri", "nowhere", "_keepprov"),
		setField("core.superfluousProofRef", "core", "coreProofFileUri", "cas0001", "_keepcproof"),
		setField("core.proofRefWrongType", "core", "coreProofFileUri", float64(7), "_keepcproof"),
		setField("provIndex.noProofRef", "provIndex", "provisionalProofFileUri", nil, "_keepproof"),
		setField("provIndex.danglingProofRef", "provIndex", "provisionalProofFileUri", "nowhere", "_keepproof"),
		setField("provIndex.superfluousProofRef", "provIndex", "provisionalProofFileUri", "cas0001", "_keepproof"),
		setField("provIndex.noChunks", "provIndex", "chunks", []interface{}{}, "_keepchunks"),
		setField("provIndex.chunksNull", "provIndex", "chunks", nil, "_keepchunks"),
		setField("core.operationsNull", "core", "operations", nil, "_x"),
		setField("core.operationsString", "core", "operations", "oops", "_x"),
		setField("provIndex.operationsList", "provIndex", "operations", []interface{}{"x"}, "_keepx"),
	)
	for _, kind := range []string{"core", "coreProof", "provIndex", "provProof", "chunk"} {
		for _, mode := range []string{"raw", "pad-decomp", "pad-decomp-ok", "pad-raw", "flip", "flip-json", "fail", "longuri", "maxuri"} {
			kind, mode := kind, mode
			ms = append(ms, mutation{name: "transport:" + kind + ":" + mode, f: func(e *batchEnv, fs *fileSet) bool {
				present := map[string]bool{"core": fs.core != nil, "coreProof": fs.coreProof != nil, "provIndex": fs.provIndex != nil, "provProof": fs.provProof != nil, "chunk": fs.chunk != nil}[kind]
				if !present {
					return false
				}
				fs.transport[kind] = mode
				return true
			}})
		}
	}
	// retarget / tamper entries
	tamperRef := func(name, file string, field string, val func(e *batchEnv) interface{}, path ...string) mutation {
		return mutation{name: name, f: func(e *batchEnv, fs *fileSet) bool {
			m := map[string]map[string]interface{}{"core": fs.core, "provIndex": fs.provIndex}[file]
			l, _ := listAt(m, path...)
			if len(l) == 0 {
				return false
			}
			em, ok := l[e.rng.Intn(len(l))].(map[string]interface{})
			if !ok {
				return false
			}
			em[field] = val(e)
			return true
		}}
	}
	otherSuffix := func(e *batchEnv) interface{} { return e.dids[e.rng.Intn(len(e.dids))].Suffix }
	ms = append(ms,
		tamperRef("core.recover.retarget", "core", "didSuffix", otherSuffix, "operations", "recover"),
		tamperRef("core.deactivate.retarget", "core", "didSuffix", otherSuffix, "operations", "deactivate"),
		tamperRef("provIndex.update.retarget", "provIndex", "didSuffix", otherSuffix, "operations", "update"),
		tamperRef("core.recover.emptySuffix", "core", "didSuffix", func(*batchEnv) interface{} { return "" }, "operations", "recover"),
		tamperRef("provIndex.update.longReveal", "provIndex", "revealValue", func(e *batchEnv) interface{} { return strings.Repeat("A", int(e.p.MaxOperationHashLength)+1) }, "operations", "update"),
		tamperRef("provIndex.update.maxReveal", "provIndex", "revealValue", func(e *batchEnv) interface{} { return strings.Repeat("A", int(e.p.MaxOperationHashLength)) }, "operations", "update"),
		tamperRef("core.deactivate.numberSuffix", "core", "didSuffix", func(*batchEnv) interface{} { return float64(5) }, "operations", "deactivate"),
		tamperRef("core.create.badSuffixData", "core", "suffixData", func(*batchEnv) interface{} {
			return map[string]interface{}{"deltaHash": "x", "recoveryCommitment": "y"}
		}, "operations", "create"),
	)
	// anchor string
	for _, a := range []string{"0", "-1", "01", "+1", "1e1", "", "99999999999999999999999", "x", "9223372036854775807", "9223372036854775808", "1 ", " 1", "1\n", "١", "1\x00"} {
		a := a
		ms = append(ms, mutation{name: "anchor:count=" + a, f: func(e *batchEnv, fs *fileSet) bool { fs.anchorCount = a; return true }})
	}
	ms = append(ms,
		mutation{name: "anchor:count+1", f: func(e *batchEnv, fs *fileSet) bool {
			var n int
			fmt.Sscanf(fs.anchorCount, "%d", &n)
			fs.anchorCount = fmt.Sprint(n + 1)
			return true
		}},
		mutation{name: "anchor:count-1", f: func(e *batchEnv, fs *fileSet) bool {
			var n int
			fmt.Sscanf(fs.anchorCount, "%d", &n)
			fs.anchorCount = fmt.Sprint(n - 1)
			return true
		}},
		mutation{name: "anchor:extra-part", f: func(e *batchEnv, fs *fileSet) bool { fs.anchorCount += ".1"; return true }},
	)
	return ms
}

// ---------------------------------------------------------------------------------------------
// ordered JSON trees (text level), as harness/cmd/gen_view

type node struct {
	kind byte // 'o' object, 'a' array, 'r' raw scalar text
	raw  string
	mem  []*member
	arr  []*node
}

type member struct {
	key string // raw JSON text of the name, quotes included
	val *node
}

func parseOrdered(b []byte) *node {
	dec := json.NewDecoder(strings.NewReader(string(b)))
	dec.UseNumber()
	return parseNode(dec)
}

func parseNode(dec *json.Decoder) *node {
	t, err := dec.Token()
	world.Must(err)
	switch v := t.(type) {
	case json.Delim:
		if v == '{' {
			n := &node{kind: 'o'}
			for dec.More() {
				kt, err := dec.Token()
				world.Must(err)
				kb, _ := json.Marshal(kt.(string))
				n.mem = append(n.mem, &member{key: string(kb), val: parseNode(dec)})
			}
			_, _ = dec.Token()
			return n
		}
		n := &node{kind: 'a'}
		for dec.More() {
			n.arr = append(n.arr, parseNode(dec))
		}
		_, _ = dec.Token()
		return n
	case json.Number:
		return &node{kind: 'r', raw: string(v)}
	case string:
		b, _ := json.Marshal(v)
		return &node{kind: 'r', raw: string(b)}
	case bool:
		if v {
			return &node{kind: 'r', raw: "true"}
		}
		return &node{kind: 'r', raw: "false"}
	}
	return &node{kind: 'r', raw: "null"}
}

func raw(s string) *node { return &node{kind: 'r', raw: s} }

func (n *node) clone() *node {
	c := &node{kind: n.kind, raw: n.raw}
	for _, m := range n.mem {
		c.mem = append(c.mem, &member{key: m.key, val: m.val.clone()})
	}
	for _, e := range n.arr {
		c.arr = append(c.arr, e.clone())
	}
	return c
}

func (n *node) write(sb *strings.Builder, ws func() string) {
	switch n.kind {
	case 'r':
		sb.WriteString(n.raw)
	case 'a':
		sb.WriteString("[" + ws())
		for i, e := range n.arr {
			if i > 0 {
				sb.WriteString(ws() + "," + ws())
			}
			e.write(sb, ws)
		}
		sb.WriteString(ws() + "]")
	case 'o':
		sb.WriteString("{" + ws())
		for i, m := range n.mem {
			if i > 0 {
				sb.WriteString(ws() + "," + ws())
			}
			sb.WriteString(m.key + ws() + ":" + ws())
			m.val.write(sb, ws)
		}
		sb.WriteString(ws() + "}")
	}
}

func (n *node) text() string {
	var sb strings.Builder
	n.write(&sb, func() string { return "" })
	return sb.String()
}

func (n *node) spaced(rng *rand.Rand) string {
	var sb strings.Builder
	n.write(&sb, func() string {
		k := rng.Intn(3)
		s := ""
		for i := 0; i < k; i++ {
			s += string(" \n\r\t"[rng.Intn(4)])
		}
		return s
	})
	return sb.String()
}

// all objects of the tree
func (n *node) objects(acc *[]*node) {
	switch n.kind {
	case 'o':
		*acc = append(*acc, n)
		for _, m := range n.mem {
			m.val.objects(acc)
		}
	case 'a':
		for _, e := range n.arr {
			e.objects(acc)
		}
	}
}

// all members whose value is of the given kind ('o', 'a', 's' string scalar), with the object they live in
type memberAt struct {
	obj *node
	idx int
}

func (n *node) membersOf(kind byte, acc *[]memberAt) {
	switch n.kind {
	case 'o':
		for i, m := range n.mem {
			k := m.val.kind
			if k == 'r' && strings.HasPrefix(m.val.raw, `"`) {
				k = 's'
			}
			if k == kind {
				*acc = append(*acc, memberAt{n, i})
			}
			m.val.membersOf(kind, acc)
		}
	case 'a':
		for _, e := range n.arr {
			e.membersOf(kind, acc)
		}
	}
}

func (n *node) arrays(acc *[]*node) {
	switch n.kind {
	case 'o':
		for _, m := range n.mem {
			m.val.arrays(acc)
		}
	case 'a':
		*acc = append(*acc, n)
		for _, e := range n.arr {
			e.arrays(acc)
		}
	}
}

func keyName(rawKey string) string {
	var s string
	_ = json.Unmarshal([]byte(rawKey), &s)
	return s
}

func q(s string) string { b, _ := json.Marshal(s); return string(b) }

// ---------------------------------------------------------------------------------------------
// catalogues

func keyVariants(k string) []string {
	swap := func(s string) string {
		b := []byte(s)
		for i, c := range b {
			switch {
			case 'a' <= c && c <= 'z':
				b[i] = c - 32
			case 'A' <= c && c <= 'Z':
				b[i] = c + 32
			}
		}
		return string(b)
	}
	out := []string{q(strings.ToUpper(k)), q(strings.ToLower(k)), q(strings.ToUpper(k[:1]) + k[1:]), q(swap(k)),
		q(k + " "), q(" " + k), q(k[:len(k)-1]), q(k + k), `"` + fmt.Sprintf(`\u%04x`, k[0]) + k[1:] + `"`,
		`"` + fmt.Sprintf(`\u%04X`, k[0]&^0x20) + k[1:] + `"`, `"` + k + `\u0000"`, q(k + "\u0130"), `"` + k[:1] + "\xff" + k[1:] + `"`}
	if strings.ContainsAny(k, "kK") { // U+212A KELVIN SIGN folds to K: raw UTF-8 and as an escape
		out = append(out, `"`+strings.NewReplacer("k", "\u212a", "K", "\u212a").Replace(k)+`"`, `"`+strings.NewReplacer("k", `\u212a`, "K", `\u212A`).Replace(k)+`"`)
	}
	if strings.ContainsAny(k, "sS") { // U+017F LATIN SMALL LETTER LONG S folds to S
		out = append(out, `"`+strings.NewReplacer("s", "\u017f", "S", "\u017f").Replace(k)+`"`, `"`+strings.NewReplacer("s", `\u017f`, "S", `\u017F`).Replace(k)+`"`)
	}
	if strings.ContainsAny(k, "iI") { // dotless / dotted i do NOT fold to ASCII
		out = append(out, `"`+strings.NewReplacer("i", "\u0131", "I", "\u0130").Replace(k)+`"`)
	}
	return out
}

var deep = strings.Repeat("[", 40) + `{"a":` + strings.Repeat(`{"b":`, 20) + "1.5" + strings.Repeat("}", 20) + "}" + strings.Repeat("]", 40)

var wrongTypes = []string{"1", `"s"`, "true", "false", "[]", "{}", "null", "[1]", `{"a":1}`, `""`, "0", "-1.5", `[null]`, `[{}]`, `{"operations":{}}`, "1e400", `[[]]`, `[""]`, `["x","y"]`, `[null,null,null]`, `[{},{}]`,
	"123456789012345678901234567890", "1.5e300", "-0", "0.1"}

var strTexts = []string{`""`, `"\ud800"`, `"\udc00x"`, `"\ud800\udc00"`, `"\ud83d\ude00"`, `"\ud800A"`, `"\ud800\ud800\udc00"`, `"\udbff\udfff"`, `"a\u0000b"`, "\"\xff\"", "\"a\xc0\x80b\"", "\"\xed\xa0\x80\"",
	"\"\xf4\x90\x80\x80\"", "\"\xe2\x82\"", "\"\xf0\x9f\x98\x80\"", "\"\xc3\"", "\"\xc3\xa9\xe2\x82\xac\"", `"\/\b\f\n\r\t\"\\"`, `"<>&"`, `"\u2028\u2029"`, "\"\u2028\u2029\"", "\"\x7f\"", `"\u00e9"`, `"\u00E9\u20ac"`,
	`"\x"`, `"\u12"`, `"\'"`, `"\u12G4"`, "\"a\x01b\"", "\"a\nb\"", "\"a\tb\"", `"\ud800\`, `"\ud800\u"`, `"\ud800\udc0"`, `"EiDKIkwqO69IPG3pOlHkdb86nYt0aNxSHZu2r-bhEznjdA"`, `"cas0001"`, `"nowhere"`, `"\u212a"`, "\"\u212a\u017f\"", `"\ufffd"`, "\"\xef\xbf\xbd\"",
	`"\ufffe\uffff"`, "\"\xef\xbf\xbe\"", "\"\xe0\x80\x80\"", "\"\xf0\x80\x80\x80\"", "\"\xf8\x88\x80\x80\x80\"", `"\ud800\ud83d\ude00"`, `"\ud83d\ud83d\ude00\ude00"`, `"\uD83D\uDE00"`, `"\udc00\ud800"`, `"a.b"`, `"x y"`}

var numTexts = []string{"1.0", "1e2", "9223372036854775807", "9223372036854775808", "-0", "0", "007", "-", "1.", "+1", ".5", "1e400", "-1e400", "1e-400", "1.7976931348623159e308", "123456789012345678901234567890", "0.1", "1e21",
	"5e-324", "0x10", "NaN", "Infinity", "01", "0e0", "12e", "1e+", "42", "-1", strings.Repeat("9", 400), "0." + strings.Repeat("0", 400) + "1", "1" + strings.Repeat("0", 309)}

var unknownValues = []string{"1e400", deep, `{"a":1,"a":2}`, `"\ud800"`, "null", `[1e999]`, `{"operations":{"create":[1]}}`, `[{"didSuffix":1}]`}

var deltaTexts = []string{`{"patches":[null]}`, `{"patches":[{}]}`, `{"patches":[{"action":1}]}`, `{"patches":[{"action":"replace","document":{}}]}`, `{"patches":[[]]}`, `{"patches":[1]}`, `{"patches":{}}`, `{"patches":"x"}`, `{"patches":null}`,
	`{"patches":[]}`, `{"updateCommitment":"EiX","UPDATECOMMITMENT":"EiY"}`, `{"updateCommitment":null}`, `{"updateCommitment":1}`, `{}`, `{"patches":[{"a":1},{"b":2}],"patches":[{"c":3}],"patches":[{"d":4},{"e":5}]}`,
	`{"patches":[{"a":1e400}]}`, `{"patches":[{"action":"add-also-known-as","uris":["x"]}]}`, `{"patches":[{"a":1.0,"b":1e2,"c":-0,"d":0.000001,"e":1e21,"f":"<>& "}]}`, `{"patches":[{"z":1,"a":{"y":2,"x":[1,{"q":null}]}}]}`}

var suffixTexts = []string{`{}`, `{"deltaHash":"x"}`, `{"deltaHash":1}`, `{"recoveryCommitment":null}`, `{"anchorOrigin":null}`, `{"anchorOrigin":{"b":1,"a":[1.0,1e2,"é"]}}`, `{"anchorOrigin":1e400}`, `{"anchorOrigin":"s"}`, `{"anchorOrigin":42}`,
	`{"type":"t"}`, `{"type":1}`, `{"DELTAHASH":"X","deltahash":"y"}`, `{"anchorOrigin":` + deep + `}`, `{"anchorOrigin":[]}`, `{"anchorOrigin":{}}`, `{"anchorOrigin":false}`, `{"anchorOrigin":{"a":1,"a":2}}`}

// ---------------------------------------------------------------------------------------------
// text-level mutations of one file

type textMut func(rng *rand.Rand, root *node) (label string, ok bool)

func pick(rng *rand.Rand, l []string) string { return l[rng.Intn(len(l))] }

func randomObject(rng *rand.Rand, root *node) *node {
	var objs []*node
	root.objects(&objs)
	if len(objs) == 0 {
		return nil
	}
	if rng.Intn(3) > 0 && len(objs) > 2 {
		return objs[rng.Intn(2)]
	}
	return objs[rng.Intn(len(objs))]
}

// an array text derived from an existing array: the shapes that exercise decoding into an existing slice
func arrayVariant(rng *rand.Rand, a *node) *node {
	n := len(a.arr)
	out := &node{kind: 'a'}
	fill := func(k int, f func(i int) *node) {
		for i := 0; i < k; i++ {
			out.arr = append(out.arr, f(i))
		}
	}
	elem := func(i int) *node {
		if n == 0 {
			return raw("{}")
		}
		return a.arr[i%n].clone()
	}
	switch rng.Intn(12) {
	case 0: // empty: drops the backing array
	case 1: // shorter prefix
		fill(rng.Intn(n+1), elem)
	case 2: // as many nulls: every element stays
		fill(n, func(int) *node { return raw("null") })
	case 3: // as many empty objects: every element stays (struct elements) / type error (string elements)
		fill(n, func(int) *node { return raw("{}") })
	case 4: // one null / one empty object
		fill(1, func(int) *node { return raw(pick(rng, []string{"null", "{}"})) })
	case 5: // longer: clones and fresh elements
		fill(n+1+rng.Intn(2), func(i int) *node {
			if i < n {
				return elem(i)
			}
			return raw(pick(rng, []string{"null", "{}", `""`, `"x"`}))
		})
	case 6: // more nulls than there were elements
		fill(n+1, func(int) *node { return raw("null") })
	case 7: // rotated
		fill(n, func(i int) *node { return elem(i + 1) })
	case 8: // partial objects: only the first member of every element
		fill(n, func(i int) *node {
			e := elem(i)
			if e.kind == 'o' && len(e.mem) > 1 {
				e.mem = e.mem[rng.Intn(len(e.mem)):][:1]
			}
			return e
		})
	case 9: // wrong element types
		fill(1+rng.Intn(2), func(int) *node { return raw(pick(rng, wrongTypes)) })
	case 10: // elements with odd strings
		fill(n, func(i int) *node {
			e := elem(i)
			switch {
			case e.kind == 'o' && len(e.mem) > 0 && e.mem[0].val.kind == 'r':
				e.mem[0].val = raw(pick(rng, strTexts))
			case e.kind == 'r' && strings.HasPrefix(e.raw, `"`):
				e = raw(pick(rng, strTexts))
			}
			return e
		})
	default:
		fill(n, elem)
	}
	return out
}

func objectVariant(rng *rand.Rand, o *node) *node {
	out := &node{kind: 'o'}
	switch rng.Intn(6) {
	case 0: // empty object: no-op on what is there
	case 1: // a subset of the members
		for _, m := range o.mem {
			if rng.Intn(2) == 0 {
				out.mem = append(out.mem, &member{key: m.key, val: m.val.clone()})
			}
		}
	case 2: // the members with array variants
		for _, m := range o.mem {
			v := m.val.clone()
			if v.kind == 'a' {
				v = arrayVariant(rng, v)
			}
			out.mem = append(out.mem, &member{key: m.key, val: v})
		}
	case 3: // members set to null
		for _, m := range o.mem {
			out.mem = append(out.mem, &member{key: m.key, val: raw("null")})
		}
	case 4: // one member, other case
		if len(o.mem) > 0 {
			m := o.mem[rng.Intn(len(o.mem))]
			v := m.val.clone()
			if v.kind == 'a' {
				v = arrayVariant(rng, v)
			}
			out.mem = append(out.mem, &member{key: pick(rng, keyVariants(keyName(m.key))[:4]), val: v})
		}
	default:
		return o.clone()
	}
	return out
}

var textMuts = []textMut{
	func(rng *rand.Rand, root *node) (string, bool) { // member name in another case / folding look-alikes
		o := randomObject(rng, root)
		if o == nil || len(o.mem) == 0 {
			return "", false
		}
		m := o.mem[rng.Intn(len(o.mem))]
		k := keyName(m.key)
		if k == "" {
			return "", false
		}
		vs := keyVariants(k)
		if rng.Intn(2) == 0 {
			vs = vs[:4]
		}
		m.key = pick(rng, vs)
		return "keycase", true
	},
	func(rng *rand.Rand, root *node) (string, bool) { // duplicate of a string member
		var ms []memberAt
		root.membersOf('s', &ms)
		if len(ms) == 0 {
			return "", false
		}
		at := ms[rng.Intn(len(ms))]
		m := at.obj.mem[at.idx]
		nk := m.key
		if rng.Intn(2) == 0 {
			nk = pick(rng, keyVariants(keyName(m.key))[:4])
		}
		var nv *node
		switch rng.Intn(5) {
		case 0:
			nv = raw("null")
		case 1:
			nv = raw(q("other-" + keyName(m.val.raw)))
		case 2:
			nv = raw(pick(rng, wrongTypes))
		case 3:
			nv = raw(`""`)
		default:
			nv = raw(pick(rng, strTexts))
		}
		insertMember(rng, at.obj, at.idx, &member{key: nk, val: nv})
		return "dup-string", true
	},
	func(rng *rand.Rand, root *node) (string, bool) { // duplicate of an object member: decodes INTO the first
		var ms []memberAt
		root.membersOf('o', &ms)
		if len(ms) == 0 {
			return "", false
		}
		at := ms[rng.Intn(len(ms))]
		m := at.obj.mem[at.idx]
		nk := m.key
		if rng.Intn(3) == 0 {
			nk = pick(rng, keyVariants(keyName(m.key))[:4])
		}
		var nv *node
		switch rng.Intn(6) {
		case 0:
			nv = raw("null")
		case 1:
			nv = raw(pick(rng, wrongTypes))
		default:
			nv = objectVariant(rng, m.val)
		}
		insertMember(rng, at.obj, at.idx, &member{key: nk, val: nv})
		if rng.Intn(3) == 0 { // a third one
			insertMember(rng, at.obj, at.idx, &member{key: m.key, val: objectVariant(rng, m.val)})
			return "dup-object3", true
		}
		return "dup-object", true
	},
	func(rng *rand.Rand, root *node) (string, bool) { // duplicate of an array member: reuses the backing array
		var ms []memberAt
		root.membersOf('a', &ms)
		if len(ms) == 0 {
			return "", false
		}
		at := ms[rng.Intn(len(ms))]
		m := at.obj.mem[at.idx]
		nk := m.key
		if rng.Intn(3) == 0 {
			nk = pick(rng, keyVariants(keyName(m.key))[:4])
		}
		var nv *node
		switch rng.Intn(8) {
		case 0:
			nv = raw("null")
		case 1:
			nv = raw(pick(rng, wrongTypes))
		default:
			nv = arrayVariant(rng, m.val)
		}
		insertMember(rng, at.obj, at.idx, &member{key: nk, val: nv})
		if rng.Intn(2) == 0 { // long, short, long: the stale elements come back
			at.obj.mem = append(at.obj.mem, &member{key: m.key, val: arrayVariant(rng, m.val)})
			return "dup-array3", true
		}
		return "dup-array", true
	},
	func(rng *rand.Rand, root *node) (string, bool) { // "operations" split over several members
		for _, m := range root.mem {
			if keyName(m.key) == "operations" && m.val.kind == 'o' && len(m.val.mem) > 0 {
				var extra []*member
				keep := m.val.mem[:0:0]
				for _, x := range m.val.mem {
					switch rng.Intn(3) {
					case 0:
						extra = append(extra, x)
					case 1: // split the array itself: prefix first, then the whole
						if x.val.kind == 'a' && len(x.val.arr) > 1 {
							pre := &node{kind: 'a', arr: x.val.clone().arr[:1+rng.Intn(len(x.val.arr)-1)]}
							keep = append(keep, &member{key: x.key, val: pre})
							extra = append(extra, x)
						} else {
							keep = append(keep, x)
						}
					default:
						keep = append(keep, x)
					}
				}
				m.val.mem = keep
				k := m.key
				if rng.Intn(3) == 0 {
					k = pick(rng, keyVariants("operations")[:4])
				}
				root.mem = append(root.mem, &member{key: k, val: &node{kind: 'o', mem: extra}})
				return "split-operations", true
			}
		}
		return "", false
	},
	func(rng *rand.Rand, root *node) (string, bool) { // null member
		o := randomObject(rng, root)
		if o == nil || len(o.mem) == 0 {
			return "", false
		}
		o.mem[rng.Intn(len(o.mem))].val = raw("null")
		return "null", true
	},
	func(rng *rand.Rand, root *node) (string, bool) { // wrong type
		o := randomObject(rng, root)
		if o == nil || len(o.mem) == 0 {
			return "", false
		}
		o.mem[rng.Intn(len(o.mem))].val = raw(pick(rng, wrongTypes))
		return "wrongtype", true
	},
	func(rng *rand.Rand, root *node) (string, bool) { // string spellings, invalid UTF-8, surrogates
		var ms []memberAt
		root.membersOf('s', &ms)
		if len(ms) == 0 {
			return "", false
		}
		at := ms[rng.Intn(len(ms))]
		at.obj.mem[at.idx].val = raw(pick(rng, strTexts))
		return "string", true
	},
	func(rng *rand.Rand, root *node) (string, bool) { // number spellings where strings (or anything) are expected
		o := randomObject(rng, root)
		if o == nil || len(o.mem) == 0 {
			return "", false
		}
		o.mem[rng.Intn(len(o.mem))].val = raw(pick(rng, numTexts))
		return "number", true
	},
	func(rng *rand.Rand, root *node) (string, bool) { // unknown members, with content that would be an error elsewhere
		o := randomObject(rng, root)
		if o == nil {
			return "", false
		}
		insertMember(rng, o, rng.Intn(len(o.mem)+1), &member{key: pick(rng, []string{`"extra"`, `"zzz"`, `""`, `"operation"`, `"\u0000"`, "\"\xff\"", `"deltas "`, `"chunkFileURIs"`}), val: raw(pick(rng, unknownValues))})
		return "unknown", true
	},
	func(rng *rand.Rand, root *node) (string, bool) { // add a known member with a special value
		o := randomObject(rng, root)
		if o == nil {
			return "", false
		}
		names := []string{"operations", "create", "recover", "deactivate", "update", "deltas", "chunks", "chunkFileUri", "coreProofFileUri", "provisionalIndexFileUri", "provisionalProofFileUri", "didSuffix", "revealValue", "suffixData",
			"patches", "updateCommitment", "deltaHash", "recoveryCommitment", "anchorOrigin", "type"}
		k := pick(rng, names)
		key := q(k)
		if rng.Intn(4) == 0 {
			key = pick(rng, keyVariants(k)[:4])
		}
		var v string
		switch k {
		case "suffixData":
			v = pick(rng, suffixTexts)
		case "anchorOrigin":
			v = pick(rng, append(append([]string{}, wrongTypes...), deep, `{"b":1,"a":2}`))
		default:
			v = pick(rng, append(append([]string{}, strTexts...), wrongTypes...))
		}
		o.mem = append(o.mem, &member{key: key, val: raw(v)})
		return "addmember:" + k, true
	},
	func(rng *rand.Rand, root *node) (string, bool) { // delete
		o := randomObject(rng, root)
		if o == nil || len(o.mem) == 0 {
			return "", false
		}
		i := rng.Intn(len(o.mem))
		o.mem = append(o.mem[:i:i], o.mem[i+1:]...)
		return "delete", true
	},
	func(rng *rand.Rand, root *node) (string, bool) { // array elements
		var as []*node
		root.arrays(&as)
		if len(as) == 0 {
			return "", false
		}
		a := as[rng.Intn(len(as))]
		if len(a.arr) == 0 {
			a.arr = append(a.arr, raw(pick(rng, wrongTypes)))
			return "elem-add", true
		}
		i := rng.Intn(len(a.arr))
		switch rng.Intn(6) {
		case 0:
			a.arr[i] = raw("null")
			return "elem-null", true
		case 1:
			a.arr[i] = raw("{}")
			return "elem-empty-object", true
		case 2:
			a.arr[i] = raw(pick(rng, wrongTypes))
			return "elem-wrongtype", true
		case 3:
			a.arr[i] = raw(pick(rng, strTexts))
			return "elem-string", true
		case 4:
			a.arr = append(a.arr, a.arr[i].clone())
			return "elem-dup", true
		}
		a.arr = append(a.arr[:i:i], a.arr[i+1:]...)
		return "elem-drop", true
	},
	func(rng *rand.Rand, root *node) (string, bool) { // embedded delta / suffix data shapes
		var objs []*node
		root.objects(&objs)
		for _, o := range objs {
			for _, m := range o.mem {
				switch keyName(m.key) {
				case "suffixData":
					if rng.Intn(2) == 0 {
						m.val = raw(pick(rng, suffixTexts))
					} else {
						o.mem = append(o.mem, &member{key: m.key, val: raw(pick(rng, suffixTexts))})
					}
					return "suffixdata", true
				case "deltas":
					if m.val.kind == 'a' && len(m.val.arr) > 0 {
						if rng.Intn(2) == 0 {
							m.val.arr[rng.Intn(len(m.val.arr))] = raw(pick(rng, deltaTexts))
						} else { // a second "deltas" whose elements decode INTO the deltas that are there
							dup := &node{kind: 'a'}
							for range m.val.arr {
								dup.arr = append(dup.arr, raw(pick(rng, append(append([]string{}, deltaTexts...), "null", "{}"))))
							}
							o.mem = append(o.mem, &member{key: m.key, val: dup})
						}
						return "delta", true
					}
				}
			}
		}
		return "", false
	},
}

// staleSeq: an array member written three times - whole, a shorter one, then placeholders: the placeholders decode
// INTO what the first array left in the backing array (null and {} are no-ops on strings and structs), so the file
// often still reads as the original one
func staleSeq(rng *rand.Rand, root *node) (string, bool) {
	var ms []memberAt
	root.membersOf('a', &ms)
	var cand []memberAt
	for _, at := range ms {
		if len(at.obj.mem[at.idx].val.arr) > 0 {
			cand = append(cand, at)
		}
	}
	if len(cand) == 0 {
		return "", false
	}
	var big []memberAt // arrays with several elements show the stale elements
	for _, at := range cand {
		if len(at.obj.mem[at.idx].val.arr) > 1 {
			big = append(big, at)
		}
	}
	if len(big) > 0 && rng.Intn(4) > 0 {
		cand = big
	}
	at := cand[rng.Intn(len(cand))]
	m := at.obj.mem[at.idx]
	n := len(m.val.arr)
	short := &node{kind: 'a'}
	for i, k := 0, rng.Intn(n+1); i < k; i++ {
		switch rng.Intn(3) {
		case 0:
			short.arr = append(short.arr, raw("null"))
		case 1:
			short.arr = append(short.arr, raw("{}"))
		default:
			short.arr = append(short.arr, m.val.arr[i].clone())
		}
	}
	if len(short.arr) == 0 && rng.Intn(2) == 0 { // [] drops the backing array, so does null: use a one-element array instead
		short.arr = append(short.arr, raw("null"))
	}
	ph := "null"
	if m.val.arr[0].kind == 'o' && rng.Intn(2) == 0 {
		ph = "{}"
	}
	long := &node{kind: 'a'}
	for i, k := 0, n+rng.Intn(3)/2; i < k; i++ {
		long.arr = append(long.arr, raw(ph))
	}
	key := func() string {
		if rng.Intn(4) == 0 {
			return pick(rng, keyVariants(keyName(m.key))[:4])
		}
		return m.key
	}
	rest := append([]*member{}, at.obj.mem[at.idx+1:]...)
	at.obj.mem = append(at.obj.mem[:at.idx+1:at.idx+1], &member{key: key(), val: short})
	if rng.Intn(4) > 0 {
		at.obj.mem = append(at.obj.mem, &member{key: key(), val: long})
	}
	at.obj.mem = append(at.obj.mem, rest...)
	return "stale-seq", true
}

// nullAfter: an object member followed by the same member with null (a no-op on a struct, nil for a pointer), then
// possibly by {} (a fresh struct behind a pointer)
func nullAfter(rng *rand.Rand, root *node) (string, bool) {
	var ms []memberAt
	root.membersOf('o', &ms)
	if len(ms) == 0 {
		return "", false
	}
	at := ms[rng.Intn(len(ms))]
	m := at.obj.mem[at.idx]
	rest := append([]*member{}, at.obj.mem[at.idx+1:]...)
	at.obj.mem = append(at.obj.mem[:at.idx+1:at.idx+1], &member{key: m.key, val: raw("null")})
	switch rng.Intn(3) {
	case 0:
		at.obj.mem = append(at.obj.mem, &member{key: m.key, val: raw("{}")})
	case 1:
		at.obj.mem = append(at.obj.mem, &member{key: m.key, val: objectVariant(rng, m.val)})
	}
	at.obj.mem = append(at.obj.mem, rest...)
	return "null-after-object", true
}

func init() { textMuts = append(textMuts, staleSeq, staleSeq, nullAfter, textMuts[13], textMuts[13]) }

func insertMember(rng *rand.Rand, o *node, near int, m *member) {
	switch rng.Intn(3) {
	case 0: // before
		o.mem = append(o.mem[:near:near], append([]*member{m}, o.mem[near:]...)...)
	case 1: // right after
		if near < len(o.mem) {
			near++
		}
		o.mem = append(o.mem[:near:near], append([]*member{m}, o.mem[near:]...)...)
	default: // at the end
		o.mem = append(o.mem, m)
	}
}

func wrapText(rng *rand.Rand, s string) (string, string) {
	if len(s) == 0 {
		return s, ""
	}
	switch rng.Intn(10) {
	case 0:
		return " \n\t\r" + s, "ws-leading"
	case 1:
		return s + " \n\t\r ", "ws-trailing"
	case 2:
		return s + pick(rng, []string{"x", "{}", ",", "]", "}", "\x00", "null", " 1", "\xef\xbb\xbf", "\x0b", "\x0c", "\xc2\xa0"}), "trailing-content"
	case 3:
		return "\xef\xbb\xbf" + s, "bom"
	case 4:
		return s[:rng.Intn(len(s))], "truncated"
	case 5:
		return pick(rng, []string{"\x0b", "\x0c", "\xc2\xa0", "\x00", "/**/", "//\n"}) + s, "pseudo-space"
	case 6:
		return "[" + s + "]", "in-array"
	case 7:
		i := rng.Intn(len(s))
		return s[:i] + pick(rng, []string{"\"", "\\", ",", ":", "{", "}", "[", "]", " ", "\n", "\x00", "\xff", "0", "e", "-", "."}) + s[i:], "byte-insert"
	case 8:
		i := rng.Intn(len(s))
		return s[:i] + s[i+1:], "byte-delete"
	}
	i := rng.Intn(len(s))
	return s[:i] + string([]byte{s[i] ^ byte(1<<uint(rng.Intn(8)))}) + s[i+1:], "bit-flip"
}

var wholeTexts = []string{"null", " null ", "{}", "[]", `""`, "0", "true", "", " ", "nul", "nulll", `{"operations":null}`, `{"operations":{}}`, `{"deltas":null}`, `{"deltas":[]}`, `{"chunks":null}`, `{"chunks":[]}`, `{"chunks":[{}]}`,
	`{"chunks":[{"chunkFileUri":""}]}`, `{"operations":{"create":null,"recover":null,"deactivate":null,"update":null}}`, `[{}]`, `{"operations":[]}`, `{"a":` + strings.Repeat("[", 10000) + strings.Repeat("]", 10000) + `}`,
	`{"a":` + strings.Repeat("[", 9999) + strings.Repeat("]", 9999) + `}`, "\xef\xbb\xbf{}", "{}{}", "{} x", `{"":{}}`, `{"operations":{"create":[{"suffixData":{"anchorOrigin":` + strings.Repeat("[", 9996) + strings.Repeat("]", 9996) + `}}]}}`,
	`{"operations":{"create":[{"suffixData":{"anchorOrigin":` + strings.Repeat("[", 9997) + strings.Repeat("]", 9997) + `}}]}}`}

func arbitraryBytes(rng *rand.Rand) string {
	alphabet := `{}[]":,\ntruefalsenull0123456789.eE-+ operationscreaterecoverdeactivateupdatedeltaschunkschunkFileUrididSuffixrevealValuesuffixData`
	b := make([]byte, rng.Intn(80))
	for j := range b {
		if rng.Intn(10) == 0 {
			b[j] = byte(rng.Intn(256))
		} else {
			b[j] = alphabet[rng.Intn(len(alphabet))]
		}
	}
	return string(b)
}

// textMutator builds the text-level mutation of one file; label receives what was done
func textMutator(rng *rand.Rand, label *string) func([]byte) []byte {
	return func(b []byte) []byte {
		switch rng.Intn(14) {
		case 0:
			*label = "whole"
			return []byte(pick(rng, wholeTexts))
		case 1:
			*label = "arbitrary-bytes"
			return []byte(arbitraryBytes(rng))
		case 2:
			s, l := wrapText(rng, string(b))
			*label = l
			return []byte(s)
		}
		root := parseOrdered(b)
		var labels []string
		for k, tries := 1+rng.Intn(2)*rng.Intn(2), 0; len(labels) < k && tries < 20; tries++ {
			if l, ok := textMuts[rng.Intn(len(textMuts))](rng, root); ok {
				labels = append(labels, strings.SplitN(l, ":", 2)[0])
			}
		}
		*label = strings.Join(labels, "+")
		s := root.text()
		if rng.Intn(5) == 0 {
			s = root.spaced(rng)
		}
		if rng.Intn(12) == 0 {
			var w string
			if s, w = wrapText(rng, s); w != "" {
				*label += "+" + w
			}
		}
		return []byte(s)
	}
}

// ---------------------------------------------------------------------------------------------

func errClass(s string) string {
	for _, k := range []string{"parse anchor data", "error reading core index", "error reading core proof", "error reading provisional index",
		"error reading provisional proof", "error reading chunk", "failed to parse content", "core index file[", "core proof file[",
		"provisional index file[", "provisional proof file[", "chunk file[", "number of", "duplicate", "missing chunk", "parse core index operations", "failed to validate signed data"} {
		if strings.Contains(s, k) {
			return k
		}
	}
	return "other"
}

// mirrorCAS fails every local read; the same content is reachable through the alternate source "mirror".
type mirrorCAS struct{ inner *world.MapCAS }

func (m mirrorCAS) Write(b []byte) (string, error) { return m.inner.Write(b) }
func (m mirrorCAS) Read(k string) ([]byte, error) {
	if !strings.HasPrefix(k, "mirror/") {
		return nil, fmt.Errorf("local CAS unavailable")
	}
	return m.inner.Read(strings.TrimPrefix(k, "mirror/"))
}

func limitsGallina(p protocol.Protocol) string { return world.Limits(p) }

func main() {
	outDir := flag.String("out", "cases", "output directory")
	seed := flag.Int64("seed", 1, "seed")
	tier := flag.String("tier", "quick", "quick|thorough")
	per := flag.Int("per", 0, "cases per file")
	nFlag := flag.Int("n", 0, "number of cases (overrides the tier)")
	flag.Parse()
	world.Must(os.MkdirAll(*outDir, 0o755))
	n, perFile := 1500, 0
	if *tier == "thorough" {
		n, perFile = 24000, 200
	}
	if *nFlag > 0 {
		n = *nFlag
	}
	if *per > 0 {
		perFile = *per
	}
	e := newBatchEnv(*seed, 6, 6)
	rng := e.rng
	muts := allMutations()
	var light []mutation // everything but the transport mutations, which are drawn less often
	var transport []mutation
	for _, m := range muts {
		if strings.HasPrefix(m.name, "transport:") {
			transport = append(transport, m)
		} else {
			light = append(light, m)
		}
	}
	// crafted: a deactivate-only batch (no provisional files) gets a provisional index file and a chunk file that is
	// not a JSON object at all, or has no deltas: the transaction still reads
	for _, txt := range []string{"null", " null ", "{}", `{"deltas":[]}`, `{"deltas":null}`, `{"Deltas":null,"x":1e999}`, "[]", `{"deltas":[null]}`} {
		txt := txt
		light = append(light, mutation{name: "crafted:chunk-for-deactivate-only=" + txt, f: func(e *batchEnv, fs *fileSet) bool {
			if fs.provIndex != nil || fs.core == nil || fs.coreProof == nil {
				return false
			}
			fs.provIndex = map[string]interface{}{}
			fs.chunk = map[string]interface{}{}
			fs.text["chunk"] = func([]byte) []byte { return []byte(txt) }
			return true
		}})
	}
	vb := world.NewViewBuilder(e.cas, e.p, e.ver.Parser, e.ids)
	altProv := txnprovider.NewOperationProvider(e.p, e.ver.Parser, mirrorCAS{e.cas}, compression.New(compression.WithDefaultAlgorithms()),
		txnprovider.WithSourceCASURIFormatter(func(uri, source string) (string, error) { return source + "/" + uri, nil }))
	var cases []string
	exampleDone := false
	var example map[string]interface{}
	kinds := []string{"core", "coreProof", "provIndex", "provProof", "chunk"}
	for i := 0; i < n; i++ {
		// a fresh valid file set
		var ops []world.ClientOp
		for len(ops) == 0 {
			for _, o := range e.genBatch(4 + i) {
				if !o.Expired {
					ops = append(ops, o)
				}
			}
		}
		info, err := e.ver.Handler.PrepareTxnFiles(queued(ops))
		if err != nil {
			logf("prepare: %v\n", err)
			os.Exit(1)
		}
		fs := e.loadSet(info.AnchorString)
		var applied []string
		textLabels := map[string]*string{}
		// what kind of case: 0 unmutated, 1 value-level, 2 text-level, 3 both
		mode := []int{0, 1, 1, 1, 2, 2, 2, 2, 2, 3}[i%10]
		if mode == 1 || mode == 3 {
			k := 1 + rng.Intn(3)
			if mode == 3 {
				k = 1
			}
			for tries := 0; len(applied) < k && tries < 40; tries++ {
				pool := light
				if rng.Intn(5) == 0 {
					pool = transport
				}
				m := pool[rng.Intn(len(pool))]
				if m.f(e, fs) {
					applied = append(applied, m.name)
				}
			}
		}
		if mode == 2 || mode == 3 {
			present := map[string]bool{"core": fs.core != nil, "coreProof": fs.coreProof != nil, "provIndex": fs.provIndex != nil, "provProof": fs.provProof != nil, "chunk": fs.chunk != nil}
			k := 1
			if rng.Intn(5) == 0 {
				k = 2
			}
			for tries := 0; len(textLabels) < k && tries < 20; tries++ {
				kind := kinds[rng.Intn(len(kinds))]
				if present[kind] && textLabels[kind] == nil {
					l := new(string)
					textLabels[kind] = l
					fs.text[kind] = textMutator(rng, l)
				}
			}
		}
		anchor := e.store(fs)
		for _, kind := range kinds { // in a fixed order
			if l := textLabels[kind]; l != nil {
				applied = append(applied, "text:"+kind+":"+*l)
				for _, x := range strings.Split(*l, "+") {
					count("text_mutation", x)
				}
				count("text_mutated_file", kind)
			}
		}
		// every third case: the local CAS read fails and the content comes from an alternate source
		var alt []string
		prov := e.ver.Provider
		if i%3 == 1 {
			alt = []string{"dead", "mirror"}
			prov = altProv
		}
		desc := map[string]interface{}{"mutations": applied, "anchor_string": anchor}
		var view string
		var facts *world.BytesFacts
		vpan := ""
		func() {
			defer func() {
				if x := recover(); x != nil {
					vpan = fmt.Sprint(x)
				}
			}()
			view = vb.Anchor(anchor)
			facts = vb.BytesFacts(anchor)
		}()
		if vpan != "" {
			violations = append(violations, map[string]interface{}{"oracle": "decoders_never_panic", "what": vpan, "case": desc})
			continue
		}
		if again := vb.Anchor(anchor); again != view {
			violations = append(violations, map[string]interface{}{"oracle": "view_deterministic", "what": "two runs of the decoders differ", "case": desc})
		}
		// run the provider, crash isolated by recover
		var rb []*operation.AnchoredOperation
		var rerr error
		pan := ""
		func() {
			defer func() {
				if x := recover(); x != nil {
					pan = fmt.Sprint(x)
				}
			}()
			rb, rerr = prov.GetTxnOperations(&txn.SidetreeTxn{AnchorString: anchor, Namespace: "did:sidetree", AlternateSources: alt})
		}()
		count("cas_source", map[bool]string{true: "alternate", false: "local"}[alt != nil])
		outcome := "ok"
		rbG := "None"
		switch {
		case pan != "":
			outcome = "panic"
			violations = append(violations, map[string]interface{}{"oracle": "no_panic", "what": pan, "case": desc})
		case rerr != nil:
			outcome = "error:" + errClass(rerr.Error())
		default:
			rbG = "(Some " + world.ReadBack(e.ids, rb) + ")"
			seen := map[string]bool{}
			for _, o := range rb {
				if seen[o.UniqueSuffix] {
					violations = append(violations, map[string]interface{}{"oracle": "distinct_suffixes", "what": o.UniqueSuffix, "case": desc})
				}
				seen[o.UniqueSuffix] = true
			}
			var cnt int
			fmt.Sscanf(anchor, "%d.", &cnt)
			if cnt != len(rb) {
				violations = append(violations, map[string]interface{}{"oracle": "count_matches_anchor", "what": fmt.Sprintf("%d vs %d", cnt, len(rb)), "case": desc})
			}
		}
		// (d): a reachable file that does not decode makes the transaction fail
		for _, kind := range kinds {
			st := facts.Files[kind]
			count("file:"+kind, st)
			if st != "absent" && st != "decoded" && outcome == "ok" {
				violations = append(violations, map[string]interface{}{"oracle": "undecodable_file_fails_transaction", "what": kind + " " + st, "case": desc})
			}
		}
		desc["impl"] = outcome
		count("outcome", outcome)
		count("mode", []string{"unmutated", "value-level", "text-level", "both"}[mode])
		if mode == 2 {
			count("outcome_of_text_level", strings.SplitN(outcome, ":", 2)[0])
		}
		if len(applied) == 1 && strings.HasPrefix(applied[0], "crafted:") {
			count("crafted_outcome", applied[0]+" -> "+strings.SplitN(outcome, ":", 2)[0])
		}
		count("operations", fmt.Sprint(len(ops)))
		for _, a := range applied {
			if !strings.HasPrefix(a, "text:") {
				count("mutation_kind", strings.SplitN(a, ":", 2)[0])
			}
		}
		count("content_kb", fmt.Sprint(facts.ContentSize/1024))
		cases = append(cases, emit.App("Build_fbcase", "L", world.HexBytes([]byte(anchor)), emit.List(facts.CAS), emit.List(facts.IDs), emit.List(facts.Creates),
			emit.List(facts.CPRecover), emit.List(facts.CPDeactivate), emit.List(facts.PPUpdate), emit.List(facts.Deltas), view, rbG, emit.Bool(pan != ""), emit.Bool(mode == 0)))
		if len(samples) < 12 && rng.Intn(n/12+1) == 0 {
			samples = append(samples, fmt.Sprintf("%v -> %s", applied, outcome))
		}
		// one unmutated file set with every file, as hex, for the examples of FilesOfBytesProofs.v
		if !exampleDone && mode == 0 && outcome == "ok" && fs.coreProof != nil && fs.provProof != nil && fs.chunk != nil && len(ops) <= 3 {
			exampleDone = true
			example = map[string]interface{}{"anchor": anchor, "case": cases[len(cases)-1]}
		}
	}

	// write files: cases spread over the files by size (largest first, always into the lightest file)
	if perFile == 0 { // one wave on 16 cores
		perFile = (len(cases) + 15) / 16
	}
	nFiles := (len(cases) + perFile - 1) / perFile
	order := make([]int, len(cases))
	for i := range order {
		order[i] = i
	}
	sort.SliceStable(order, func(a, b int) bool { return len(cases[order[a]]) > len(cases[order[b]]) })
	files := make([][]int, nFiles)
	load := make([]int, nFiles)
	for _, ci := range order {
		best := 0
		for f := range files {
			if load[f] < load[best] {
				best = f
			}
		}
		files[best] = append(files[best], ci)
		load[best] += len(cases[ci]) + 2000
	}
	lo := 0
	total := 0
	for s, idx := range files {
		sort.Ints(idx)
		var sb strings.Builder
		sb.WriteString("(* generated by harness/cmd/gen_files; never edited *)\n")
		sb.WriteString("From Coq Require Import List ZArith NArith String.\nImport ListNotations.\n")
		sb.WriteString("From SV Require Import Base.Bytes Resolve.Op Batch.Files Batch.FilesOfBytes Corr.FilesOfBytes.\nLocal Open Scope list_scope.\n")
		sb.WriteString("Definition L : limits := " + limitsGallina(e.p) + ".\n")
		sb.WriteString("Definition cases : list fbcase := [\n")
		for i, ci := range idx {
			sb.WriteString("  " + cases[ci])
			if i+1 < len(idx) {
				sb.WriteString(";")
			}
			sb.WriteString("\n")
		}
		sb.WriteString("].\n")
		base := fmt.Sprintf("%d%%nat", lo)
		if lo > 4000 { // coqc warns about large nat literals
			base = fmt.Sprintf("(N.to_nat %d%%N)", lo)
		}
		sb.WriteString("Definition M := Eval vm_compute in fb_mismatches " + base + " cases.\nPrint M.\n")
		world.Must(os.WriteFile(filepath.Join(*outDir, fmt.Sprintf("FB_%03d.v", s)), []byte(sb.String()), 0o644))
		total += sb.Len()
		lo += len(idx)
	}
	logf("gen_files: %d cases, %d files, %d KB\n", len(cases), nFiles, total/1024)
	sj, _ := json.Marshal(map[string]interface{}{"histograms": hist, "samples": samples, "direct_violations": violations,
		"extra": map[string]interface{}{"tier": *tier, "seed": *seed, "cases": len(cases), "files": nFiles, "cases_per_file": perFile, "source_kb": total / 1024,
			"example": example, "oracles": []string{"decoders_never_panic", "view_deterministic", "no_panic", "distinct_suffixes", "count_matches_anchor", "undecodable_file_fails_transaction"}}})
	fmt.Println("STATS " + string(sj))
}
