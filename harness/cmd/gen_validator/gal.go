package main

import (
	"bytes"
	"encoding/hex"
	"encoding/json"
	"fmt"
	"math"
	"strings"
)

// ordered JSON value
type jv struct {
	kind byte // n null, b bool, f number, s string, a array, o object
	b    bool
	f    float64
	s    string
	arr  []*jv
	keys []string
	vals []*jv
}

func parseJSON(text []byte) (*jv, error) {
	dec := json.NewDecoder(bytes.NewReader(text))
	v, err := parseVal(dec)
	if err != nil {
		return nil, err
	}
	if dec.More() {
		return nil, fmt.Errorf("trailing")
	}
	return v, nil
}

func parseVal(dec *json.Decoder) (*jv, error) {
	t, err := dec.Token()
	if err != nil {
		return nil, err
	}
	switch x := t.(type) {
	case nil:
		return &jv{kind: 'n'}, nil
	case bool:
		return &jv{kind: 'b', b: x}, nil
	case float64:
		return &jv{kind: 'f', f: x}, nil
	case string:
		return &jv{kind: 's', s: x}, nil
	case json.Delim:
		if x == '[' {
			r := &jv{kind: 'a'}
			for dec.More() {
				e, err := parseVal(dec)
				if err != nil {
					return nil, err
				}
				r.arr = append(r.arr, e)
			}
			_, err := dec.Token()
			return r, err
		}
		if x == '{' {
			r := &jv{kind: 'o'}
			for dec.More() {
				k, err := dec.Token()
				if err != nil {
					return nil, err
				}
				e, err := parseVal(dec)
				if err != nil {
					return nil, err
				}
				r.keys = append(r.keys, k.(string))
				r.vals = append(r.vals, e)
			}
			_, err := dec.Token()
			return r, err
		}
	}
	return nil, fmt.Errorf("bad token")
}

func galStr(s string) string {
	ok := true
	for _, c := range []byte(s) {
		if c < 0x20 || c > 0x7e || c == '"' {
			ok = false
		}
	}
	if ok {
		return `(bs "` + s + `")`
	}
	return `(unhex "` + hex.EncodeToString([]byte(s)) + `")`
}

func (v *jv) gal() string {
	switch v.kind {
	case 'n':
		return "JNull"
	case 'b':
		if v.b {
			return "(JBool true)"
		}
		return "(JBool false)"
	case 'f':
		return fmt.Sprintf("(JNum %d)", math.Float64bits(v.f))
	case 's':
		return "(JStr " + galStr(v.s) + ")"
	case 'a':
		var it []string
		for _, e := range v.arr {
			it = append(it, e.gal())
		}
		return "(JArr [" + strings.Join(it, "; ") + "])"
	case 'o':
		var it []string
		for i, k := range v.keys {
			it = append(it, "("+galStr(k)+", "+v.vals[i].gal()+")")
		}
		return "(JObj [" + strings.Join(it, "; ") + "])"
	}
	panic("kind")
}

func galOfText(text string) string {
	v, err := parseJSON([]byte(text))
	if err != nil {
		panic("bad json in generator: " + text + ": " + err.Error())
	}
	return v.gal()
}
