// Differential generator for the JSON-patch engine model (SV.Doc.JsonPatch: jp_apply, apply_json_outcome).
// usage: jpgen -out <dir> -seed <n> -tier quick|thorough      (internal: jpgen worker)
//
// Every case is run by the real code in a CHILD process (memory limit, small maximum stack, timeout):
//   lib : jsonpatch.DecodePatch(ops).Apply(doc) with recover()   -> ok / err / panic / fatal (child died)
//   comp: doccomposer.New().ApplyPatches(document, {"action":"ietf-json-patch","patches":ops})
//         (only when doc is a JSON object)                        -> ok / err / unrecovered panic / fatal
// The parent also runs the real patchvalidator on {"action":"ietf-json-patch","patches":ops}.
package main

import (
	"bufio"
	"bytes"
	"encoding/json"
	"flag"
	"fmt"
	"math/rand"
	"os"
	"os/exec"
	"runtime/debug"
	"sort"
	"strconv"
	"strings"
	"time"

	jsonpatch "github.com/evanphx/json-patch"
	"github.com/trustbloc/sidetree-core-go/pkg/document"
	"github.com/trustbloc/sidetree-core-go/pkg/patch"
	"github.com/trustbloc/sidetree-core-go/pkg/versions/1_0/doccomposer"
	"github.com/trustbloc/sidetree-core-go/pkg/versions/1_0/operationparser/patchvalidator"
)

type req struct {
	Mode     string // lib | comp
	Ops, Doc string
	Rep      int
}
type resp struct {
	O   int    // 0 ok, 1 err, 2 panic (caught by the worker's recover), 3 fatal (child died / timeout)
	R   string // result document
	Msg string // panic / fatal message
}

func applyLib(ops, doc string) (r resp) {
	defer func() {
		if e := recover(); e != nil {
			r = resp{O: 2, Msg: fmt.Sprint(e)}
		}
	}()
	p, err := jsonpatch.DecodePatch([]byte(ops))
	if err != nil {
		return resp{O: 1}
	}
	out, err := p.Apply([]byte(doc))
	if err != nil {
		return resp{O: 1}
	}
	return resp{O: 0, R: string(out)}
}

func applyComposer(ops, doc string) (r resp) {
	defer func() {
		if e := recover(); e != nil {
			r = resp{O: 2, Msg: fmt.Sprint(e)}
		}
	}()
	d, err := document.FromBytes([]byte(doc))
	if err != nil {
		panic("generator: composer case with a non-object document")
	}
	var p patch.Patch
	if err := json.Unmarshal([]byte(`{"action":"ietf-json-patch","patches":`+ops+`}`), &p); err != nil {
		panic(err)
	}
	res, err := doccomposer.New().ApplyPatches(d, []patch.Patch{p})
	if err != nil {
		return resp{O: 1}
	}
	b, err := json.Marshal(res)
	if err != nil {
		panic(err)
	}
	return resp{O: 0, R: string(b)}
}

func worker() {
	debug.SetMaxStack(64 << 20)
	in := bufio.NewReaderSize(os.Stdin, 1<<20)
	out := bufio.NewWriter(os.Stdout)
	for {
		line, err := in.ReadBytes('\n')
		if err != nil {
			return
		}
		var q req
		if err := json.Unmarshal(line, &q); err != nil {
			panic(err)
		}
		best := resp{O: -1}
		for i := 0; i < q.Rep; i++ {
			var r resp
			if q.Mode == "comp" {
				r = applyComposer(q.Ops, q.Doc)
			} else {
				r = applyLib(q.Ops, q.Doc)
			}
			if r.O > best.O {
				best = r
			}
		}
		b, _ := json.Marshal(best)
		out.Write(b)
		out.WriteByte('\n')
		out.Flush()
	}
}

type wproc struct {
	cmd    *exec.Cmd
	in     *bufio.Writer
	out    *bufio.Reader
	stderr *bytes.Buffer
}

func startWorker() *wproc {
	self, _ := os.Executable()
	cmd := exec.Command("bash", "-c", `ulimit -v 4000000; exec "$0" worker`, self)
	stdin, _ := cmd.StdinPipe()
	stdout, _ := cmd.StdoutPipe()
	eb := &bytes.Buffer{}
	cmd.Stderr = eb
	if err := cmd.Start(); err != nil {
		panic(err)
	}
	return &wproc{cmd: cmd, in: bufio.NewWriter(stdin), out: bufio.NewReaderSize(stdout, 1<<20), stderr: eb}
}

var wp *wproc
var fatals int

// runReal runs the real code in the child; a dead child or a timeout is a fatal error (outcome 3).
func runReal(q req) resp {
	if wp == nil {
		wp = startWorker()
	}
	b, _ := json.Marshal(q)
	wp.in.Write(b)
	wp.in.WriteByte('\n')
	wp.in.Flush()
	ch := make(chan *resp, 1)
	go func(o *bufio.Reader) {
		line, err := o.ReadBytes('\n')
		if err != nil {
			ch <- nil
			return
		}
		var r resp
		if json.Unmarshal(line, &r) != nil {
			ch <- nil
			return
		}
		ch <- &r
	}(wp.out)
	msg := "timeout"
	select {
	case r := <-ch:
		if r != nil {
			return *r
		}
		msg = ""
	case <-time.After(60 * time.Second):
	}
	wp.cmd.Process.Kill()
	wp.cmd.Wait()
	if msg == "" {
		msg = "child died"
		for _, l := range strings.Split(wp.stderr.String(), "\n") {
			if strings.HasPrefix(l, "fatal error:") || strings.HasPrefix(l, "runtime: out of memory") {
				msg = l
				if strings.HasPrefix(l, "fatal error:") {
					break
				}
			}
		}
	}
	wp = nil
	fatals++
	return resp{O: 3, Msg: msg}
}

func realValidatorAccepts(ops string) (acc bool) {
	defer func() {
		if e := recover(); e != nil {
			acc = false
		}
	}()
	var p patch.Patch
	if err := json.Unmarshal([]byte(`{"action":"ietf-json-patch","patches":`+ops+`}`), &p); err != nil {
		return false
	}
	return patchvalidator.Validate(p) == nil
}

// ---------- generation ----------

var rng *rand.Rand

func pick(l []string) string { return l[rng.Intn(len(l))] }

var scalars = []string{`1`, `2`, `"s"`, `true`, `null`, `""`}

func genDoc(depth int) string {
	if depth == 0 {
		return pick(scalars)
	}
	switch rng.Intn(5) {
	case 0:
		return pick(scalars)
	case 1, 2:
		n := rng.Intn(4)
		var it []string
		for i := 0; i < n; i++ {
			it = append(it, genDoc(depth-1))
		}
		return "[" + strings.Join(it, ",") + "]"
	default:
		keys := []string{"a", "b", "c", "a~b", "c/d", "", "0", "-", "publicKey", "service"}
		n := rng.Intn(4)
		seen := map[string]bool{}
		var it []string
		for i := 0; i < n; i++ {
			k := keys[rng.Intn(len(keys))]
			if i == 0 && rng.Intn(2) == 0 {
				k = "a"
			}
			if seen[k] {
				continue
			}
			seen[k] = true
			kb, _ := json.Marshal(k)
			it = append(it, string(kb)+":"+genDoc(depth-1))
		}
		return "{" + strings.Join(it, ",") + "}"
	}
}

func genContainerDoc() string {
	for {
		d := genDoc(3)
		if d[0] == '{' || d[0] == '[' {
			return d
		}
	}
}

var fixedDocs = []string{
	`{}`, `[]`, `null`, `1`, `"s"`, `true`,
	`{"a":[1,2]}`, `{"a":{"x":1},"b":[1,2,3]}`, `{"a":[[1],{"k":null}],"b":null}`,
	`[1,2]`, `[{"x":[1]},[2,3]]`, `{"a":{"b":{"c":1}}}`, `{"a~b":1,"c/d":[5],"":{"":2}}`,
	`{"publicKey":[{"id":"k"}],"service":[{"id":"s"}],"x":[1]}`, `{"a":[null,1],"b":{"n":null}}`,
	`[[1,[2]],[],{}]`, `{"a":[],"b":{}}`,
}

func escTok(k string) string {
	k = strings.ReplaceAll(k, "~", "~0")
	return strings.ReplaceAll(k, "/", "~1")
}

// all pointers to existing places, plus their containers' lengths
func collectPaths(v *jv, prefix string, out *[]string) {
	*out = append(*out, prefix)
	switch v.kind {
	case 'a':
		n := len(v.arr)
		for _, t := range []string{"-", "-1", "-2", strconv.Itoa(-n), strconv.Itoa(-n - 1), strconv.Itoa(-n - 2), "0", strconv.Itoa(n - 1), strconv.Itoa(n), strconv.Itoa(n + 1), strconv.Itoa(n + 3), "01", "+0", "x", "", "1_0", "-0"} {
			*out = append(*out, prefix+"/"+t)
		}
		for i, e := range v.arr {
			collectPaths(e, prefix+"/"+strconv.Itoa(i), out)
		}
	case 'o':
		for _, t := range []string{"zz", "", "-", "0", "-1"} {
			*out = append(*out, prefix+"/"+t)
		}
		for i, k := range v.keys {
			collectPaths(v.vals[i], prefix+"/"+escTok(k), out)
		}
	default:
		*out = append(*out, prefix+"/x", prefix+"/0", prefix+"/-1")
	}
}

func subValues(v *jv, out *[]string) {
	b := v.text()
	*out = append(*out, b)
	for _, e := range v.arr {
		subValues(e, out)
	}
	for _, e := range v.vals {
		subValues(e, out)
	}
}

func (v *jv) text() string {
	switch v.kind {
	case 'n':
		return "null"
	case 'b':
		return strconv.FormatBool(v.b)
	case 'f':
		b, _ := json.Marshal(v.f)
		return string(b)
	case 's':
		b, _ := json.Marshal(v.s)
		return string(b)
	case 'a':
		var it []string
		for _, e := range v.arr {
			it = append(it, e.text())
		}
		return "[" + strings.Join(it, ",") + "]"
	default:
		var it []string
		for i, k := range v.keys {
			kb, _ := json.Marshal(k)
			it = append(it, string(kb)+":"+v.vals[i].text())
		}
		return "{" + strings.Join(it, ",") + "}"
	}
}

var extraPaths = []string{"", "/", "a", "x/a", "x/a/0", "unknown", "//", "/a/", "/a//0", "/~", "/~2", "/a~0b", "/a~1b", "/c~1d/0", "/a~01", "x/publicKey", "/publicKey/0", "/service", "/a/9223372036854775807", "/a/9223372036854775806", "/a/99999999999", "/a/35184372088831", "/a/35184372088832", "/a/9223372036854775808", "/a/-9223372036854775808", "/a/-9223372036854775809", "/a/0/99999999999"}

var extraValues = []string{`1`, `"s"`, `null`, `[]`, `{}`, `[null]`, `{"x":null}`, `{"x":1}`, `[1,2]`, `[[1]]`, `{"a":[1,2]}`, `{"k":null,"z":1}`, `[1,null]`, `true`, `2`}

type opgen struct {
	paths  []string
	values []string
	exist  []string          // pointers of existing nodes (not the root)
	valAt  map[string]string // their texts
	addable []string         // pointers where add succeeds
	far     []string         // array positions far behind the end
}

func collectExist(v *jv, prefix string, g *opgen) {
	if prefix != "" {
		g.exist = append(g.exist, prefix)
		g.valAt[prefix] = v.text()
	}
	switch v.kind {
	case 'a':
		g.addable = append(g.addable, prefix+"/-", prefix+"/0", prefix+"/"+strconv.Itoa(len(v.arr)), prefix+"/-1")
		g.far = append(g.far, prefix+"/99999999999", prefix+"/35184372088831", prefix+"/35184372088832", prefix+"/"+strconv.Itoa(len(v.arr)+2), prefix+"/9223372036854775806")
		for i, e := range v.arr {
			collectExist(e, prefix+"/"+strconv.Itoa(i), g)
		}
	case 'o':
		g.addable = append(g.addable, prefix+"/new", prefix+"/a", prefix+"/n~1w")
		for i, k := range v.keys {
			collectExist(v.vals[i], prefix+"/"+escTok(k), g)
		}
	}
}

// an operation that is likely to apply
func (g *opgen) genGoodOp() string {
	if len(g.exist) == 0 || len(g.addable) == 0 {
		return g.genOp()
	}
	q := func(s string) string { b, _ := json.Marshal(s); return string(b) }
	val := func() string {
		if rng.Intn(2) == 0 {
			return pick(extraValues)
		}
		return pick(g.values)
	}
	switch rng.Intn(8) {
	case 7:
		if len(g.far) == 0 || rng.Intn(2) == 0 {
			return `{"op":"add","path":` + q(pick(g.addable)) + `,"value":` + val() + `}`
		}
		return `{"op":"` + pick([]string{"copy", "move"}) + `","from":` + q(pick(g.exist)) + `,"path":` + q(pick(g.far)) + `}`
	case 0:
		return `{"op":"add","path":` + q(pick(g.addable)) + `,"value":` + val() + `}`
	case 1:
		return `{"op":"remove","path":` + q(pick(g.exist)) + `}`
	case 2:
		return `{"op":"replace","path":` + q(pick(g.exist)) + `,"value":` + val() + `}`
	case 3:
		return `{"op":"move","from":` + q(pick(g.exist)) + `,"path":` + q(pick(g.addable)) + `}`
	case 4:
		return `{"op":"copy","from":` + q(pick(g.exist)) + `,"path":` + q(pick(g.addable)) + `}`
	case 5:
		p := pick(g.exist)
		return `{"op":"test","path":` + q(p) + `,"value":` + g.valAt[p] + `}`
	default:
		return `{"op":"copy","from":` + q(pick(g.exist)) + `,"path":` + q(pick(g.exist)) + `}`
	}
}

func (g *opgen) genOp() string {
	kinds := []string{"add", "remove", "replace", "move", "copy", "test"}
	k := pick(kinds)
	var mem []string
	// op member
	switch rng.Intn(40) {
	case 0:
		mem = append(mem, `"op":"bogus"`)
	case 1:
		mem = append(mem, `"op":1`)
	case 2:
		mem = append(mem, `"op":null`)
	case 3: // absent
	case 4:
		mem = append(mem, `"op":"Add"`)
	default:
		mem = append(mem, `"op":"`+k+`"`)
	}
	ptr := func() string {
		switch rng.Intn(30) {
		case 0:
			return `null`
		case 1:
			return `5`
		case 2:
			return `["/a"]`
		case 3:
			return ""
		}
		var p string
		if rng.Intn(6) == 0 {
			p = pick(extraPaths)
		} else {
			p = pick(g.paths)
		}
		b, _ := json.Marshal(p)
		return string(b)
	}
	if p := ptr(); p != "" {
		mem = append(mem, `"path":`+p)
	}
	needFrom := k == "move" || k == "copy"
	if needFrom || rng.Intn(10) == 0 {
		if p := ptr(); p != "" {
			mem = append(mem, `"from":`+p)
		}
	}
	needVal := k == "add" || k == "replace" || k == "test"
	if (needVal && rng.Intn(12) != 0) || (!needVal && rng.Intn(8) == 0) {
		var v string
		if rng.Intn(3) == 0 {
			v = pick(extraValues)
		} else {
			v = pick(g.values)
		}
		mem = append(mem, `"value":`+v)
	}
	if rng.Intn(50) == 0 && len(mem) > 0 { // duplicate member: last wins
		mem = append(mem, mem[0])
	}
	rng.Shuffle(len(mem), func(i, j int) { mem[i], mem[j] = mem[j], mem[i] })
	return "{" + strings.Join(mem, ",") + "}"
}

func genOps(g *opgen, n int) string {
	switch rng.Intn(60) {
	case 0:
		return `null`
	case 1:
		return `{}`
	case 2:
		return `[1]`
	case 3:
		return `[null]`
	case 4:
		return `["add"]`
	case 5:
		return `[[]]`
	case 6:
		return `3`
	}
	var it []string
	for i := 0; i < n; i++ {
		if rng.Intn(3) != 0 {
			it = append(it, g.genGoodOp())
		} else {
			it = append(it, g.genOp())
		}
	}
	return "[" + strings.Join(it, ",") + "]"
}

func san(s string) string {
	s = strings.ReplaceAll(s, "\"", "'")
	s = strings.ReplaceAll(s, "(*", "( *")
	return strings.ReplaceAll(s, "*)", "* )")
}

type kase struct {
	ops, doc string
	lib      resp
	comp     resp // O = 9: not run
	accepted bool
}

var outName = map[int]string{0: "ok", 1: "err", 2: "panic", 3: "fatal", 9: "not_run"}

// crashClass names the class of an unrecoverable outcome from the runtime's message
func crashClass(msg string) string {
	switch {
	case strings.Contains(msg, "stack overflow") || strings.Contains(msg, "stack exceeds"):
		return "copy_or_move_destination_inside_or_alias_of_its_source (cyclic node, json.Marshal recurses forever)"
	case strings.Contains(msg, "out of memory"):
		return "copy_or_move_to_array_index_far_beyond_the_end (index+1 pointers are allocated)"
	case msg == "timeout":
		return "timeout"
	}
	return "other: " + msg
}

// annotateWithModel adds "model_predicts_fatal" = "true"/"false" to every listed violation: the verdict of
// the Coq model itself (apply_json_outcome ops doc = Fatal), obtained with one coqc run on a scratch
// file.  When coqc or the compiled model is not available the field is left out and the reason returned.
func annotateWithModel(violations []map[string]interface{}, coqdir string) string {
	if len(violations) == 0 || coqdir == "" {
		return ""
	}
	var items []string
	for _, v := range violations {
		c := v["case"].(map[string]string)
		items = append(items, "("+galOfText(c["ops"])+", "+galOfText(c["doc"])+")")
	}
	dir, err := os.MkdirTemp("", "jpmodel")
	if err != nil {
		return err.Error()
	}
	defer os.RemoveAll(dir)
	src := "From Coq Require Import List ZArith NArith String.\nImport ListNotations.\n" +
		"From SV Require Import Base.Bytes Json.Ast Doc.JsonPatch.\n" +
		"Definition R := Eval vm_compute in map (fun c : json * json => match apply_json_outcome (fst c) (snd c) with Fatal => true | _ => false end) [\n" +
		strings.Join(items, ";\n") + "].\nPrint R.\n"
	file := dir + "/JpModelCheck.v"
	if err := os.WriteFile(file, []byte(src), 0o644); err != nil {
		return err.Error()
	}
	cmd := exec.Command("coqc", "-Q", coqdir+"/theories", "SV", file)
	cmd.Dir = dir
	done := make(chan struct{})
	var out []byte
	go func() { out, err = cmd.CombinedOutput(); close(done) }()
	select {
	case <-done:
	case <-time.After(120 * time.Second):
		if cmd.Process != nil {
			cmd.Process.Kill()
		}
		return "coqc timeout"
	}
	if err != nil {
		return "coqc: " + err.Error() + ": " + strings.TrimSpace(string(out))
	}
	text := string(out)
	i := strings.Index(text, "R =")
	if i < 0 {
		return "coqc output not understood"
	}
	var verdicts []string
	for _, w := range strings.FieldsFunc(text[i+3:], func(r rune) bool { return r == '[' || r == ']' || r == ';' || r == ' ' || r == '\n' || r == ':' }) {
		if w == "true" || w == "false" {
			verdicts = append(verdicts, w)
		}
		if w == "list" {
			break
		}
	}
	if len(verdicts) != len(violations) {
		return "coqc output not understood"
	}
	for k, v := range violations {
		v["case"].(map[string]string)["model_predicts_fatal"] = verdicts[k]
	}
	return ""
}

func opt(r resp) string {
	if r.O == 0 {
		return "(Some " + galOfText(r.R) + ")"
	}
	return "None"
}

func main() {
	if len(os.Args) > 1 && os.Args[1] == "worker" {
		worker()
		return
	}
	outdir := flag.String("out", ".", "output directory")
	seed := flag.Int("seed", 1, "seed")
	tier := flag.String("tier", "quick", "quick|thorough")
	coqdir := flag.String("coqdir", "/verif/coq", "Coq development (compiled SV.Doc.JsonPatch) used to annotate direct_violations; \"\" disables")
	flag.Parse()
	nRandDocs, perDoc := 30, 45
	if *tier == "thorough" {
		nRandDocs, perDoc = 150, 160
	}
	rng = rand.New(rand.NewSource(int64(*seed)))
	docs := append([]string{}, fixedDocs...)
	for i := 0; i < nRandDocs; i++ {
		docs = append(docs, genContainerDoc())
	}
	var cases []kase
	hist := map[string]map[string]int{"library_outcome": {}, "composer_outcome": {}, "validator": {}, "ops_per_case": {}, "accepted_and_composer": {}}
	var violations []map[string]interface{}
	vseen := map[string]int{}
	for _, d := range docs {
		v, err := parseJSON([]byte(d))
		if err != nil {
			panic(err)
		}
		g := &opgen{valAt: map[string]string{}}
		collectExist(v, "", g)
		collectPaths(v, "", &g.paths)
		subValues(v, &g.values)
		for i := 0; i < perDoc; i++ {
			n := 1 + rng.Intn(3)
			if i < perDoc/3 {
				n = 1
			}
			ops := genOps(g, n)
			rep := 1
			if strings.Contains(ops, `"test"`) {
				rep = 200 // Go's random map order makes err-vs-panic nondeterministic inside lazyNode.equal
			}
			k := kase{ops: ops, doc: d, comp: resp{O: 9}}
			k.lib = runReal(req{Mode: "lib", Ops: ops, Doc: d, Rep: rep})
			k.accepted = realValidatorAccepts(ops)
			if d[0] == '{' {
				k.comp = runReal(req{Mode: "comp", Ops: ops, Doc: d, Rep: 1})
			}
			hist["library_outcome"][outName[k.lib.O]]++
			hist["composer_outcome"][outName[k.comp.O]]++
			hist["ops_per_case"][strconv.Itoa(n)]++
			if k.accepted {
				hist["validator"]["accepted"]++
				hist["accepted_and_composer"][outName[k.comp.O]]++
			} else {
				hist["validator"]["rejected"]++
			}
			if k.accepted && (k.comp.O == 2 || k.comp.O == 3) {
				cl := crashClass(k.comp.Msg)
				vseen[cl]++
				if vseen[cl] <= 5 {
					violations = append(violations, map[string]interface{}{
						"oracle": "accepted_delta_never_crashes", "what": k.comp.Msg,
						"case": map[string]string{"class": cl, "ops": ops, "doc": d}})
				}
			}
			cases = append(cases, k)
		}
	}
	if wp != nil {
		wp.in.Flush()
		wp.cmd.Process.Kill()
		wp.cmd.Wait()
	}
	per := 400
	for s := 0; s*per < len(cases); s++ {
		var sb strings.Builder
		sb.WriteString("From Coq Require Import List ZArith NArith String.\nImport ListNotations.\n")
		sb.WriteString("From SV Require Import Base.Bytes Json.Ast Doc.JsonPatch Corr.Validator.\n")
		sb.WriteString("Definition cases : list pcase18 := [\n")
		hi := (s + 1) * per
		if hi > len(cases) {
			hi = len(cases)
		}
		for i := s * per; i < hi; i++ {
			c := cases[i]
			sb.WriteString(fmt.Sprintf("(* %d: %s | %s *)\n  Build_pcase18 %s %s %d%%nat %s %d%%nat %s", i, san(c.ops), san(c.doc), galOfText(c.ops), galOfText(c.doc), c.lib.O, opt(c.lib), c.comp.O, opt(c.comp)))
			if i+1 < hi {
				sb.WriteString(";")
			}
			sb.WriteString("\n")
		}
		sb.WriteString("].\n")
		sb.WriteString(fmt.Sprintf("Definition M := Eval vm_compute in jp_mismatches %d%%nat cases.\nPrint M.\n", s*per))
		name := fmt.Sprintf("%s/JpCases_%d_%03d.v", *outdir, *seed, s)
		if err := os.WriteFile(name, []byte(sb.String()), 0o644); err != nil {
			panic(err)
		}
	}
	var samples []string
	if len(cases) > 0 {
		c := cases[len(cases)/2]
		samples = append(samples, fmt.Sprintf("ops=%s doc=%s library=%s composer=%s accepted=%v", c.ops, c.doc, outName[c.lib.O], outName[c.comp.O], c.accepted))
	}
	classes := map[string]int{}
	var keys []string
	for k := range vseen {
		keys = append(keys, k)
	}
	sort.Strings(keys)
	for _, k := range keys {
		classes[k] = vseen[k]
	}
	if violations == nil {
		violations = []map[string]interface{}{}
	}
	modelErr := annotateWithModel(violations, *coqdir)
	stats := map[string]interface{}{
		"histograms":        hist,
		"samples":           samples,
		"direct_violations": violations,
		"extra":             map[string]interface{}{"cases": len(cases), "child_deaths": fatals, "violations_per_class": classes, "violations_listed_per_class_max": 5, "tier": *tier, "seed": *seed, "model_predicts_fatal_error": modelErr},
	}
	b, _ := json.Marshal(stats)
	fmt.Printf("cases=%d files=%d\n", len(cases), (len(cases)+per-1)/per)
	fmt.Println("STATS " + string(b))
}
