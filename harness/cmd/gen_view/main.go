// Differential generator for the request view computed from bytes (SV.Parser.ViewOfBytes against
// world.ReqView = encoding/json + go-jose/json + canonicalizer on the real structs).
//
//	gen_view -out <dir> -seed <n> -tier quick|thorough
//
// Every case is a request buffer, the remaining facts (validator verdict per decoded patch, verdict of the
// anchor-origin plug-in) and the view the real decoders produce; the Coq side recomputes the view from the bytes.
// Key generation is not seeded (Go does not allow that for ECDSA); everything else derives from -seed.
package main

import (
	"encoding/base64"
	"encoding/hex"
	"encoding/json"
	"flag"
	"fmt"
	"math/rand"
	"os"
	"path/filepath"
	"regexp"
	"sort"
	"strings"

	"github.com/trustbloc/sidetree-core-go/pkg/api/operation"
	"github.com/trustbloc/sidetree-core-go/pkg/patch"
	"github.com/trustbloc/sidetree-core-go/pkg/versions/1_0/model"
	"github.com/trustbloc/sidetree-core-go/pkg/versions/1_0/operationparser"
	"github.com/trustbloc/sidetree-core-go/pkg/versions/1_0/operationparser/patchvalidator"

	"verif/harness/internal/emit"
	"verif/harness/internal/world"
)

var (
	outDir     string
	rng        *rand.Rand
	perFile    = 100
	cases      []string
	seen       = map[string]bool{}
	hist       = map[string]map[string]int{}
	samples    []string
	violations = []map[string]interface{}{}
	panics     int
	exampleHex string
)

func count(h, bucket string) {
	if hist[h] == nil {
		hist[h] = map[string]int{}
	}
	hist[h][bucket]++
}

func logf(format string, a ...interface{}) { fmt.Fprintf(os.Stderr, format, a...) }

// ---------------------------------------------------------------- ordered JSON trees (text level)

type node struct {
	kind byte // 'o' object, 'a' array, 'r' raw scalar text
	raw  string
	mem  []*member
	arr  []*node
}

type member struct {
	key string // raw JSON text of the name, quotes included
	val *node
}

func parseOrdered(b []byte) *node {
	dec := json.NewDecoder(strings.NewReader(string(b)))
	dec.UseNumber()
	n := parseNode(dec)
	return n
}

func parseNode(dec *json.Decoder) *node {
	t, err := dec.Token()
	world.Must(err)
	switch v := t.(type) {
	case json.Delim:
		if v == '{' {
			n := &node{kind: 'o'}
			for dec.More() {
				kt, err := dec.Token()
				world.Must(err)
				kb, _ := json.Marshal(kt.(string))
				n.mem = append(n.mem, &member{key: string(kb), val: parseNode(dec)})
			}
			_, _ = dec.Token()
			return n
		}
		n := &node{kind: 'a'}
		for dec.More() {
			n.arr = append(n.arr, parseNode(dec))
		}
		_, _ = dec.Token()
		return n
	case json.Number:
		return &node{kind: 'r', raw: string(v)}
	case string:
		b, _ := json.Marshal(v)
		return &node{kind: 'r', raw: string(b)}
	case bool:
		if v {
			return &node{kind: 'r', raw: "true"}
		}
		return &node{kind: 'r', raw: "false"}
	}
	return &node{kind: 'r', raw: "null"}
}

func raw(s string) *node { return &node{kind: 'r', raw: s} }

func (n *node) clone() *node {
	c := &node{kind: n.kind, raw: n.raw}
	for _, m := range n.mem {
		c.mem = append(c.mem, &member{key: m.key, val: m.val.clone()})
	}
	for _, e := range n.arr {
		c.arr = append(c.arr, e.clone())
	}
	return c
}

func (n *node) write(sb *strings.Builder, ws func() string) {
	switch n.kind {
	case 'r':
		sb.WriteString(n.raw)
	case 'a':
		sb.WriteString("[" + ws())
		for i, e := range n.arr {
			if i > 0 {
				sb.WriteString(ws() + "," + ws())
			}
			e.write(sb, ws)
		}
		sb.WriteString(ws() + "]")
	case 'o':
		sb.WriteString("{" + ws())
		for i, m := range n.mem {
			if i > 0 {
				sb.WriteString(ws() + "," + ws())
			}
			sb.WriteString(m.key + ws() + ":" + ws())
			m.val.write(sb, ws)
		}
		sb.WriteString(ws() + "}")
	}
}

func (n *node) text() string {
	var sb strings.Builder
	n.write(&sb, func() string { return "" })
	return sb.String()
}

func (n *node) spaced() string {
	var sb strings.Builder
	n.write(&sb, func() string {
		k := rng.Intn(4)
		s := ""
		for i := 0; i < k; i++ {
			s += string(" \n\r\t"[rng.Intn(4)])
		}
		return s
	})
	return sb.String()
}

func (n *node) get(name string) *member {
	for _, m := range n.mem {
		if m.key == `"`+name+`"` {
			return m
		}
	}
	return nil
}

// all objects of the tree
func (n *node) objects(acc *[]*node) {
	switch n.kind {
	case 'o':
		*acc = append(*acc, n)
		for _, m := range n.mem {
			m.val.objects(acc)
		}
	case 'a':
		for _, e := range n.arr {
			e.objects(acc)
		}
	}
}

func keyName(rawKey string) string {
	var s string
	_ = json.Unmarshal([]byte(rawKey), &s)
	return s
}

func q(s string) string { b, _ := json.Marshal(s); return string(b) }

// ---------------------------------------------------------------- catalogues

func keyVariants(k string) []string {
	swap := func(s string) string {
		b := []byte(s)
		for i, c := range b {
			switch {
			case 'a' <= c && c <= 'z':
				b[i] = c - 32
			case 'A' <= c && c <= 'Z':
				b[i] = c + 32
			}
		}
		return string(b)
	}
	out := []string{q(strings.ToUpper(k)), q(strings.ToLower(k)), q(strings.ToUpper(k[:1]) + k[1:]), q(swap(k)),
		q(k + " "), q(" " + k), q(k[:len(k)-1]), q(k + k), `"` + fmt.Sprintf(`\u%04x`, k[0]) + k[1:] + `"`,
		`"` + fmt.Sprintf(`\u%04X`, k[0]&^0x20) + k[1:] + `"`, `"` + k + `\u0000"`, q(k + "\u0130"), `"` + k[:1] + "\xff" + k[1:] + `"`}
	if strings.ContainsAny(k, "kK") { // U+212A KELVIN SIGN folds to K: raw UTF-8 and as an escape
		out = append(out, `"`+strings.NewReplacer("k", "\u212a", "K", "\u212a").Replace(k)+`"`, `"`+strings.NewReplacer("k", `\u212a`, "K", `\u212A`).Replace(k)+`"`)
	}
	if strings.ContainsAny(k, "sS") { // U+017F LATIN SMALL LETTER LONG S folds to S
		out = append(out, `"`+strings.NewReplacer("s", "\u017f", "S", "\u017f").Replace(k)+`"`, `"`+strings.NewReplacer("s", `\u017f`, "S", `\u017F`).Replace(k)+`"`)
	}
	if strings.ContainsAny(k, "iI") { // dotless / dotted i do NOT fold to ASCII
		out = append(out, `"`+strings.NewReplacer("i", "\u0131", "I", "\u0130").Replace(k)+`"`)
	}
	return out
}

var deep = strings.Repeat("[", 40) + `{"a":` + strings.Repeat(`{"b":`, 20) + "1.5" + strings.Repeat("}", 20) + "}" + strings.Repeat("]", 40)

var wrongTypes = []string{"1", `"s"`, "true", "false", "[]", "{}", "null", "[1]", `{"a":1}`, `""`, "0", "-1.5", `[null]`, `[{}]`, `{"type":"x"}`, "1e400", `[[]]`}

var strTexts = []string{`""`, `"\ud800"`, `"\udc00x"`, `"\ud800\udc00"`, `"\ud83d\ude00"`, `"\ud800A"`, `"\ud800\ud800\udc00"`, `"\udbff\udfff"`, `"a\u0000b"`, "\"\xff\"", "\"a\xc0\x80b\"", "\"\xed\xa0\x80\"",
	"\"\xf4\x90\x80\x80\"", "\"\xe2\x82\"", "\"\xf0\x9f\x98\x80\"", "\"\xc3\"", "\"\xc3\xa9\xe2\x82\xac\"", `"\/\b\f\n\r\t\"\\"`, `"<>&"`, `"\u2028\u2029"`, "\"\u2028\u2029\"", "\"\x7f\"", `"\u00e9"`, `"\u00E9\u20ac"`,
	`"\x"`, `"\u12"`, `"\'"`, `"\u12G4"`, "\"a\x01b\"", "\"a\nb\"", "\"a\tb\"", `"\ud800\`, `"\ud800\u"`, `"\ud800\udc0"`, `"EiDKIkwqO69IPG3pOlHkdb86nYt0aNxSHZu2r-bhEznjdA"`, `"create"`, `"update"`, `"\u212a"`, "\"\u212a\u017f\"", `"\ufffd"`, "\"\xef\xbf\xbd\"",
	`"\ufffe\uffff"`, "\"\xef\xbf\xbe\"", "\"\xe0\x80\x80\"", "\"\xf0\x80\x80\x80\"", "\"\xf8\x88\x80\x80\x80\"", `"\ud800\ud83d\ude00"`, `"\ud83d\ud83d\ude00\ude00"`, `"\uD83D\uDE00"`, `"\udc00\ud800"`}

var numTexts = []string{"1.0", "1e2", "1E2", "9223372036854775807", "9223372036854775808", "-9223372036854775808", "-9223372036854775809", "-0", "0", "007", "-", "1.", "+1", ".5", "1e400", "-1e400",
	"1e-400", "1e308", "1.7976931348623157e308", "1.7976931348623159e308", "123456789012345678901234567890", "0.1", "1e21", "1e-7", "4.35", "5e-324", "0.000001", "100", "1e5", "123456", "1234567", "0x10", "NaN",
	"Infinity", "1_0", "01", "-01", "0e0", "0.0", "12e", "1e+", "42", "-1", "1700000000", "1e-5", "0.0001", "123456789", "1234567.5", "12345678.5", "0.000012345", "100000", "999999.9", "1e6", "2e-5",
	"18446744073709551616", "9007199254740993", "0.30000000000000004", "1e23", "-0.0", "0e999", "00", "1e05", "1E+2", "1e-2", "-1E-2", "2.5e-3", strings.Repeat("9", 400), "0." + strings.Repeat("0", 400) + "1",
	"1" + strings.Repeat("0", 308), "1" + strings.Repeat("0", 309), "3e-324", "2e-324", "4.9406564584124654e-324", "2.2250738585072011e-308"}

var ifaceTexts = []string{deep, `{"a":1,"a":2}`, `{"b":1,"a":{"y":[],"x":{}}}`, `[1,"a",null,true,false,{"k":[]}]`, `{"":0}`, `{"\u0000":1,"\ud800":2,"` + "\xff" + `":3}`, `{"\ud800":1,"\udc00":2}`, "false", "0", `""`, "[]", "{}",
	`"origin7"`, `{"a":{"a":{"a":1e400}}}`, `[1e400]`, `{"z":1,"a":2,"é":3,"😀":4,"דּ":5}`, `[0.1,1e21,1e-7,-0,123456789012345678901234567890]`}

var deltaTexts = []string{`{"patches":[null]}`, `{"patches":[{}]}`, `{"patches":[{"action":1}]}`, `{"patches":[{"action":"replace"}]}`, `{"patches":[{"action":"replace","document":{}}]}`, `{"patches":[{"ACTION":"replace"}]}`,
	`{"patches":[{"action":"replace","action":"add-public-keys"}]}`, `{"patches":[{"action":"add-public-keys","action":null}]}`, `{"patches":[[]]}`, `{"patches":[1]}`, `{"patches":{}}`, `{"patches":"x"}`, `{"patches":null}`, `{"patches":[]}`,
	`{"patches":[{"action":"replace"},{"action":"frobnicate"},null,{"action":"ietf-json-patch","patches":[]}]}`, `{"updateCommitment":"EiX","UPDATECOMMITMENT":"EiY"}`, `{"updateCommitment":null}`, `{"updateCommitment":1}`, `{}`,
	`{"patches":[{"a":1},{"b":2}],"patches":[{"c":3}],"patches":[{"d":4},{"e":5}]}`, `{"patches":[{"a":1},{"b":2}],"patches":[],"patches":[{"d":4},{"e":5}]}`, `{"patches":[{"a":1},{"b":2},{"c":3}],"patches":[null],"patches":[{"d":4},{"e":5},{"f":6},{"g":7}]}`,
	`{"patches":[{"a":1},{"b":2}],"patches":null,"Patches":[{"d":4},{"e":5}]}`, `{"patches":[{"action":"replace","x":{"y":1}}],"PATCHES":[{"x":{"z":2}}]}`, `{"patches":[{"a":1e400}]}`, `{"patches":[{"action":"add-also-known-as","uris":["x"]}]}`,
	`{"patches":[{"action":"replace\u0000"}]}`, `{"patches":[{"action":"Replace"}]}`, `{"patches":[{"action":["replace"]}]}`, `{"patches":[{"action":null}]}`}

// ---------------------------------------------------------------- cases

type observed struct {
	syntaxOK, schemaOK, structOK bool
	ty                           string
	valid                        []bool
	signed                       string
}

// the facts that remain facts: validator verdicts for the patches of the decoded delta (same decoding as world.ReqView)
func observe(buf []byte) observed {
	var o observed
	var any interface{}
	o.syntaxOK = json.Valid(buf)
	_ = any
	var schema struct {
		Operation string `json:"type"`
	}
	o.schemaOK = json.Unmarshal(buf, &schema) == nil
	o.ty = schema.Operation
	var delta *model.DeltaModel
	if o.schemaOK {
		switch o.ty {
		case "create":
			var r model.CreateRequest
			if json.Unmarshal(buf, &r) == nil {
				o.structOK, delta = true, r.Delta
			}
		case "update":
			var r model.UpdateRequest
			if json.Unmarshal(buf, &r) == nil {
				o.structOK, delta, o.signed = true, r.Delta, r.SignedData
			}
		case "recover":
			var r model.RecoverRequest
			if json.Unmarshal(buf, &r) == nil {
				o.structOK, delta, o.signed = true, r.Delta, r.SignedData
			}
		case "deactivate":
			var r model.DeactivateRequest
			if json.Unmarshal(buf, &r) == nil {
				o.structOK, o.signed = true, r.SignedData
			}
		}
	}
	if delta != nil {
		for _, p := range delta.Patches {
			ok := false
			func(p patch.Patch) {
				defer func() { recover() }() //nolint:errcheck
				ok = patchvalidator.Validate(p) == nil
			}(p)
			o.valid = append(o.valid, ok)
		}
	}
	return o
}

type originV struct{ ok bool }

func (o originV) Validate(interface{}) error {
	if o.ok {
		return nil
	}
	return fmt.Errorf("origin refused")
}

type timeV struct{}

func (timeV) Validate(_, _ int64) error { return nil }

var proto = world.DefaultProtocol()

var tyNames = map[operation.Type]string{operation.TypeCreate: "Create", operation.TypeUpdate: "Update", operation.TypeRecover: "Recover", operation.TypeDeactivate: "Deactivate"}

// the real parser on the buffer: rendered option qres, outcome label
func realParse(buf []byte, origin bool, batch bool) (string, string) {
	parser := operationparser.New(proto, operationparser.WithAnchorOriginValidator(originV{origin}), operationparser.WithAnchorTimeValidator(timeV{}))
	res, outcome := "None", "rejected"
	func() {
		defer func() {
			if x := recover(); x != nil {
				outcome = "panic"
				violations = append(violations, map[string]interface{}{"oracle": "parser_never_panics", "what": fmt.Sprint(x), "case": map[string]interface{}{"request": string(buf)}})
			}
		}()
		var ty operation.Type
		var sfx string
		var err error
		if batch {
			var o *model.Operation
			if o, err = parser.ParseOperation("did:sidetree", buf, true); err == nil {
				ty, sfx = o.Type, o.UniqueSuffix
			}
		} else {
			var o *operation.Operation
			if o, err = parser.Parse("did:sidetree", buf); err == nil {
				ty, sfx = o.Type, o.UniqueSuffix
			}
		}
		if err == nil {
			res, outcome = "(Some "+emit.App("ROp", tyNames[ty], emit.Hex([]byte(sfx)))+")", "accepted"
		}
	}()
	return res, outcome
}

var hexLit = regexp.MustCompile(`\(unhex "([0-9a-f]*)"\)`)

// (unhex "…") -> (uh "…" ++ uh "…"): the byte-list literal of SV.Corr.ViewOfBytes, in chunks coqc can digest
func fastLiterals(g string) string {
	return hexLit.ReplaceAllStringFunc(g, func(m string) string {
		h := m[len(`(unhex "`) : len(m)-2]
		if len(h) == 0 {
			return "[]"
		}
		var parts []string
		for len(h) > 4000 {
			parts = append(parts, `uh "`+h[:4000]+`"`)
			h = h[4000:]
		}
		parts = append(parts, `uh "`+h+`"`)
		return "(" + strings.Join(parts, " ++ ") + ")"
	})
}

func addCase(class string, buf []byte) {
	key := string(buf)
	if seen[key] {
		count("duplicates_skipped", class)
		return
	}
	seen[key] = true
	origin := rng.Intn(4) != 0
	originOK := func(interface{}) bool { return origin }
	var view string
	func() {
		defer func() {
			if x := recover(); x != nil {
				panics++
				violations = append(violations, map[string]interface{}{"oracle": "decoders_never_panic", "what": fmt.Sprint(x), "case": map[string]interface{}{"request": string(buf)}})
			}
		}()
		view = world.ReqView(buf, originOK)
	}()
	if view == "" {
		return
	}
	if again := world.ReqView(buf, originOK); again != view {
		violations = append(violations, map[string]interface{}{"oracle": "view_deterministic", "what": "two runs of the decoders differ", "case": map[string]interface{}{"request": string(buf)}})
	}
	o := observe(buf)
	var valid []string
	for _, v := range o.valid {
		valid = append(valid, emit.Bool(v))
	}
	intake, intakeOutcome := realParse(buf, origin, false)
	batch, batchOutcome := realParse(buf, origin, true)
	count("real_parser_intake", intakeOutcome)
	count("real_parser_batch", batchOutcome)
	cases = append(cases, fastLiterals(emit.App("Build_vbcase", emit.Hex(buf), emit.List(valid), emit.Bool(origin), view, "P", intake, batch)))
	count("class", class)
	outcome := "syntax-error"
	switch {
	case o.structOK:
		outcome = "struct-ok:" + o.ty
	case o.schemaOK && (o.ty == "create" || o.ty == "update" || o.ty == "recover" || o.ty == "deactivate"):
		outcome = "struct-error:" + o.ty
	case o.schemaOK:
		outcome = "unknown-type"
	case o.syntaxOK:
		outcome = "schema-error"
	}
	count("decode_outcome", outcome)
	count("outcome_by_class:"+strings.SplitN(class, ":", 2)[0], strings.SplitN(outcome, ":", 2)[0])
	count("patches", fmt.Sprint(len(o.valid)))
	if o.structOK && o.signed != "" {
		count("signed_view", signedOutcome(view))
	}
	if len(samples) < 12 && rng.Intn(40) == 0 {
		s := string(buf)
		if len(s) > 300 {
			s = s[:300] + "..."
		}
		samples = append(samples, fmt.Sprintf("%s [%s]: %q", class, outcome, s))
	}
}

// crude reading of the rendered signed view: header json ok / payload model ok
func signedOutcome(view string) string {
	i := strings.Index(view, "(Build_hdr_facts ")
	h := "hdr-bad"
	if i >= 0 && strings.HasPrefix(view[i+len("(Build_hdr_facts "):], "true") {
		h = "hdr-ok"
	}
	j := strings.Index(view, "(Build_jwk_view ")
	m := "model-bad"
	if j >= 5 && strings.HasSuffix(strings.TrimSpace(view[:j]), "true") {
		m = "model-ok"
	}
	return h + "," + m
}

// ---------------------------------------------------------------- mutations

type mutation func(root *node) (label string, ok bool)

func pick(l []string) string { return l[rng.Intn(len(l))] }

func randomObject(root *node) *node {
	var objs []*node
	root.objects(&objs)
	if len(objs) == 0 {
		return nil
	}
	// prefer the struct levels (outer objects)
	if rng.Intn(3) > 0 && len(objs) > 3 {
		return objs[rng.Intn(3)]
	}
	return objs[rng.Intn(len(objs))]
}

func scalarAlt(v *node) *node {
	if v.kind == 'r' && strings.HasPrefix(v.raw, `"`) {
		return raw(q("other-" + keyName(v.raw)))
	}
	return raw(pick(wrongTypes))
}

var textMutations = []mutation{
	func(root *node) (string, bool) { // member name in another case / folding look-alikes
		o := randomObject(root)
		if o == nil || len(o.mem) == 0 {
			return "", false
		}
		m := o.mem[rng.Intn(len(o.mem))]
		k := keyName(m.key)
		if k == "" {
			return "", false
		}
		m.key = pick(keyVariants(k))
		return "keycase", true
	},
	func(root *node) (string, bool) { // duplicate member, same or other case, before or after
		o := randomObject(root)
		if o == nil || len(o.mem) == 0 {
			return "", false
		}
		i := rng.Intn(len(o.mem))
		m := o.mem[i]
		k := keyName(m.key)
		if k == "" {
			return "", false
		}
		nk := m.key
		if rng.Intn(2) == 0 {
			nk = pick(keyVariants(k)[:4])
		}
		var nv *node
		switch rng.Intn(6) {
		case 0:
			nv = raw("null")
		case 1:
			nv = m.val.clone()
		case 2:
			nv = scalarAlt(m.val)
		case 3:
			nv = raw("{}")
		case 4:
			if m.val.kind == 'o' && len(m.val.mem) > 0 { // partial object: decodes INTO the first one
				nv = &node{kind: 'o', mem: []*member{{key: m.val.mem[rng.Intn(len(m.val.mem))].key, val: raw(q("merged"))}}}
			} else {
				nv = raw(pick(wrongTypes))
			}
		default:
			if k == "delta" {
				nv = raw(pick(deltaTexts))
			} else {
				nv = raw(pick(strTexts))
			}
		}
		dup := &member{key: nk, val: nv}
		if rng.Intn(2) == 0 {
			o.mem = append(o.mem, dup)
		} else {
			o.mem = append(o.mem[:i:i], append([]*member{dup}, o.mem[i:]...)...)
		}
		return "duplicate", true
	},
	func(root *node) (string, bool) { // null member
		o := randomObject(root)
		if o == nil || len(o.mem) == 0 {
			return "", false
		}
		o.mem[rng.Intn(len(o.mem))].val = raw("null")
		return "null", true
	},
	func(root *node) (string, bool) { // wrong type
		o := randomObject(root)
		if o == nil || len(o.mem) == 0 {
			return "", false
		}
		o.mem[rng.Intn(len(o.mem))].val = raw(pick(wrongTypes))
		return "wrongtype", true
	},
	func(root *node) (string, bool) { // string spellings, invalid UTF-8, surrogates
		o := randomObject(root)
		if o == nil || len(o.mem) == 0 {
			return "", false
		}
		o.mem[rng.Intn(len(o.mem))].val = raw(pick(strTexts))
		return "string", true
	},
	func(root *node) (string, bool) { // number spellings anywhere
		o := randomObject(root)
		if o == nil || len(o.mem) == 0 {
			return "", false
		}
		o.mem[rng.Intn(len(o.mem))].val = raw(pick(numTexts))
		return "number", true
	},
	func(root *node) (string, bool) { // add a known member with a special value
		o := randomObject(root)
		if o == nil {
			return "", false
		}
		names := []string{"anchorFrom", "anchorUntil", "anchorOrigin", "nonce", "type", "delta", "suffixData", "didSuffix", "revealValue", "signedData", "updateKey", "recoveryKey", "deltaHash",
			"recoveryCommitment", "updateCommitment", "patches", "kty", "crv", "x", "y", "action", "alg", "kid", "b64", "crit"}
		k := pick(names)
		var v string
		switch k {
		case "anchorFrom", "anchorUntil":
			v = pick(numTexts)
		case "anchorOrigin":
			v = pick(ifaceTexts)
		case "delta":
			v = pick(deltaTexts)
		case "b64":
			v = pick([]string{"true", "false", "null", `"true"`, "1", "[]"})
		case "patches":
			v = pick([]string{`[null]`, `[{"action":"replace","document":{}}]`, `[]`, `null`, `[{"x":1},{"y":2},{"z":3}]`})
		default:
			v = pick(append(append([]string{}, strTexts...), wrongTypes...))
		}
		key := q(k)
		if rng.Intn(4) == 0 {
			key = pick(keyVariants(k)[:4])
		}
		o.mem = append(o.mem, &member{key: key, val: raw(v)})
		return "addmember:" + k, true
	},
	func(root *node) (string, bool) { // unknown members, with content that would be an error elsewhere
		o := randomObject(root)
		if o == nil {
			return "", false
		}
		o.mem = append(o.mem, &member{key: pick([]string{`"extra"`, `"zzz"`, `""`, `"typ"`, `"\u0000"`, "\"\xff\""}), val: raw(pick([]string{"1e400", deep, `{"a":1,"a":2}`, `"\ud800"`, "null", `[1e999]`}))})
		return "unknown", true
	},
	func(root *node) (string, bool) { // delete
		o := randomObject(root)
		if o == nil || len(o.mem) == 0 {
			return "", false
		}
		i := rng.Intn(len(o.mem))
		o.mem = append(o.mem[:i:i], o.mem[i+1:]...)
		return "delete", true
	},
	func(root *node) (string, bool) { // interface{} positions
		var objs []*node
		root.objects(&objs)
		for _, o := range objs {
			if m := o.get("anchorOrigin"); m != nil {
				m.val = raw(pick(append(append([]string{}, ifaceTexts...), numTexts...)))
				return "iface", true
			}
		}
		o := objs[0]
		if m := o.get("suffixData"); m != nil && m.val.kind == 'o' {
			o = m.val
		}
		o.mem = append(o.mem, &member{key: `"anchorOrigin"`, val: raw(pick(append(append([]string{}, ifaceTexts...), numTexts...)))})
		return "iface", true
	},
	func(root *node) (string, bool) { // delta shapes
		if m := root.get("delta"); m != nil {
			m.val = raw(pick(deltaTexts))
			return "delta", true
		}
		return "", false
	},
}

func applyMut(root *node) string {
	for tries := 0; tries < 10; tries++ {
		if l, ok := textMutations[rng.Intn(len(textMutations))](root); ok {
			return l
		}
	}
	return "none"
}

// request -> (header tree, payload tree, signature part)
func openSigned(root *node) (h, p *node, sig string, ok bool) {
	m := root.get("signedData")
	if m == nil || m.val.kind != 'r' {
		return nil, nil, "", false
	}
	parts := strings.Split(keyName(m.val.raw), ".")
	if len(parts) != 3 {
		return nil, nil, "", false
	}
	hb, err1 := base64.RawURLEncoding.DecodeString(parts[0])
	pb, err2 := base64.RawURLEncoding.DecodeString(parts[1])
	if err1 != nil || err2 != nil || !json.Valid(hb) || !json.Valid(pb) {
		return nil, nil, "", false
	}
	return parseOrdered(hb), parseOrdered(pb), parts[2], true
}

func closeSigned(root *node, htext, ptext, sig string) {
	root.get("signedData").val = raw(q(base64.RawURLEncoding.EncodeToString([]byte(htext)) + "." + base64.RawURLEncoding.EncodeToString([]byte(ptext)) + "." + sig))
}

func wrapText(s string) (string, string) {
	switch rng.Intn(12) {
	case 0:
		return " \n\t\r" + s, "ws-leading"
	case 1:
		return s + " \n\t\r ", "ws-trailing"
	case 2:
		return s + pick([]string{"x", "{}", ",", "]", "}", "\x00", "null", " 1", "\xef\xbb\xbf", "\x0b", "\x0c", "\xc2\xa0"}), "trailing-content"
	case 3:
		return "\xef\xbb\xbf" + s, "bom"
	case 4:
		return s[:rng.Intn(len(s))], "truncated"
	case 5:
		return pick([]string{"\x0b", "\x0c", "\xc2\xa0", "\x00", "/**/", "//\n"}) + s, "pseudo-space"
	case 6:
		return "[" + s + "]", "in-array"
	case 7:
		i := rng.Intn(len(s))
		return s[:i] + pick([]string{"\"", "\\", ",", ":", "{", "}", "[", "]", " ", "\n", "\x00", "\xff", "0", "e", "-", "."}) + s[i:], "byte-insert"
	case 8:
		i := rng.Intn(len(s))
		return s[:i] + s[i+1:], "byte-delete"
	}
	return s, ""
}

// ---------------------------------------------------------------- JSON-level mutations (as harness/cmd/sv/c10.go)

type reqMut struct {
	name string
	f    func(m map[string]interface{}) bool
}

func reqMutations() []reqMut {
	set := func(name, field string, v interface{}) reqMut {
		return reqMut{name, func(m map[string]interface{}) bool {
			if _, ok := m[field]; !ok {
				return false
			}
			if v == "__delete__" {
				delete(m, field)
			} else {
				m[field] = v
			}
			return true
		}}
	}
	sub := func(name, parent, field string, v interface{}) reqMut {
		return reqMut{name, func(m map[string]interface{}) bool {
			pm, _ := m[parent].(map[string]interface{})
			if pm == nil {
				return false
			}
			if v == "__delete__" {
				delete(pm, field)
			} else {
				pm[field] = v
			}
			return true
		}}
	}
	long := strings.Repeat("A", 200)
	return []reqMut{
		set("type:unknown", "type", "upsert"), set("type:number", "type", float64(1)), set("type:missing", "type", "__delete__"),
		set("didSuffix:empty", "didSuffix", ""), set("didSuffix:missing", "didSuffix", "__delete__"), set("didSuffix:number", "didSuffix", float64(3)),
		set("reveal:empty", "revealValue", ""), set("reveal:long", "revealValue", long), set("reveal:garbage", "revealValue", "!!!"),
		set("reveal:other-hash", "revealValue", "EiBvbm90LXRoZS1oYXNoLW9mLXRoZS1rZXktYXQtYWxsISEh"),
		set("reveal:unsupported-code", "revealValue", "ESBvbm90LXRoZS1oYXNoLW9mLXRoZS1rZXktYXQtYWxsISEh"),
		set("signedData:empty", "signedData", ""), set("signedData:missing", "signedData", "__delete__"), set("signedData:two-parts", "signedData", "e30.e30"),
		set("signedData:number", "signedData", float64(1)),
		set("delta:missing", "delta", "__delete__"), set("delta:null", "delta", nil), set("delta:string", "delta", "x"),
		sub("delta.patches:empty", "delta", "patches", []interface{}{}), sub("delta.patches:missing", "delta", "patches", "__delete__"),
		sub("delta.patches:no-action", "delta", "patches", []interface{}{map[string]interface{}{"publicKeys": []interface{}{}}}),
		sub("delta.patches:unknown-action", "delta", "patches", []interface{}{map[string]interface{}{"action": "frobnicate", "x": 1}}),
		sub("delta.patches:invalid-patch", "delta", "patches", []interface{}{map[string]interface{}{"action": "add-public-keys", "publicKeys": []interface{}{map[string]interface{}{"id": "bad id!"}}}}),
		sub("delta.updateCommitment:empty", "delta", "updateCommitment", ""), sub("delta.updateCommitment:long", "delta", "updateCommitment", long),
		sub("delta.updateCommitment:garbage", "delta", "updateCommitment", "%%%"),
		sub("suffixData.deltaHash:garbage", "suffixData", "deltaHash", "zz"), sub("suffixData.deltaHash:missing", "suffixData", "deltaHash", "__delete__"),
		sub("suffixData.recoveryCommitment:empty", "suffixData", "recoveryCommitment", ""),
		set("suffixData:missing", "suffixData", "__delete__"), set("suffixData:null", "suffixData", nil),
		set("extra-member", "extra", "ignored"),
	}
}

// ---------------------------------------------------------------- base requests

func baseOps(kp *world.KeyPool, nDID int) []*world.Op {
	var ops []*world.Op
	tb := world.NewTable()
	id := int64(1)
	for di := 0; di < nDID; di++ {
		code := uint(world.SHA256)
		if di%3 == 2 {
			code = world.SHA512
		}
		d := world.NewDID(kp, tb, rng, code)
		d.Create.Spec.Label = "create"
		ops = append(ops, d.Create)
		cs := d.Create.Spec
		cs.Origin, cs.Label = nil, "create:no-origin"
		if di%2 == 0 {
			cs.Origin = map[string]interface{}{"chain": "x", "n": []interface{}{1.5, float64(1 << 60), "s"}}
			cs.Label = "create:object-origin"
		}
		ops = append(ops, world.Build(cs))
		n := len(kp.Keys)
		for ki := 0; ki < 5; ki++ {
			k := kp.Keys[(di*5+ki)%n]
			next := kp.Keys[(di*5+ki+1)%n]
			next2 := kp.Keys[(di*5+ki+2)%n]
			id++
			upd := world.Spec{Label: "update", Type: operation.TypeUpdate, Suffix: d.Suffix, RevealKey: k, SignedKey: k, SignWith: k,
				NextUpd: next.Commitment(code), DeltaID: id, Code: code}
			switch rng.Intn(5) {
			case 0:
				upd.Nonce, upd.Label = "AAECAwQFBgcICQoLDA0ODw", "update:nonce"
			case 1:
				upd.From, upd.Until, upd.Label = 1000+int64(rng.Intn(1000)), 5000+int64(rng.Intn(1000)), "update:window"
			case 2:
				upd.From, upd.Label = int64(rng.Intn(1<<30)), "update:from-only"
			case 3:
				upd.Patches, upd.DValid, upd.PatchOK, upd.Label = append(world.DefaultPatches(id), world.FailingPatches()...), true, false, "update:two-patches"
			}
			ops = append(ops, world.Build(upd))
			id++
			rec := world.Spec{Label: "recover", Type: operation.TypeRecover, Suffix: d.Suffix, RevealKey: k, SignedKey: k, SignWith: k,
				NextUpd: next.Commitment(code), NextRec: next2.Commitment(code), DeltaID: id, Code: code, Origin: world.OriginValue(int64(2 + ki)), OriginID: int64(2 + ki)}
			switch rng.Intn(4) {
			case 0:
				rec.From, rec.Until, rec.Label = 1, int64(1<<62), "recover:window"
			case 1:
				rec.Origin, rec.OriginID, rec.Label = nil, 0, "recover:no-origin"
			case 2:
				rec.Origin, rec.Label = []interface{}{"a", map[string]interface{}{"b": 1e21}}, "recover:array-origin"
				rec.Nonce = "AAECAwQFBgcICQoLDA0ODw"
			}
			ops = append(ops, world.Build(rec))
			if ki%2 == 0 {
				de := world.Spec{Label: "deactivate", Type: operation.TypeDeactivate, Suffix: d.Suffix, RevealKey: k, SignedKey: k, SignWith: k, Code: code}
				if rng.Intn(2) == 0 {
					de.From, de.Until, de.Label = 7, 8, "deactivate:window"
				}
				ops = append(ops, world.Build(de))
			}
		}
	}
	return ops
}

// ---------------------------------------------------------------- main

func main() {
	out := flag.String("out", "cases", "output directory")
	seed := flag.Int64("seed", 1, "seed")
	tier := flag.String("tier", "quick", "quick|thorough")
	per := flag.Int("per", 0, "cases per file")
	flag.Parse()
	outDir = *out
	world.Must(os.MkdirAll(outDir, 0o755))
	rng = rand.New(rand.NewSource(*seed))
	nDID, nText, nSigned, nJSON, nArb := 2, 16, 14, 4, 200
	if *tier == "thorough" {
		nDID, nText, nSigned, nJSON, nArb = 12, 70, 60, 32, 4000
		perFile = 250
	}
	if *per > 0 {
		perFile = *per
	}
	kp := world.NewKeyPool(10)
	muts := reqMutations()
	ops := baseOps(kp, nDID)
	for _, op := range ops {
		base := strings.SplitN(op.Spec.Label, ":", 2)[0]
		addCase("valid:"+op.Spec.Label, op.Request)
		if exampleHex == "" && op.Spec.Type == operation.TypeUpdate {
			exampleHex = hex.EncodeToString(op.Request)
		}
		tree := parseOrdered(op.Request)
		addCase("respaced:"+base, []byte(tree.spaced()))
		// JSON-level mutations
		for k := 0; k < nJSON; k++ {
			m := muts[rng.Intn(len(muts))]
			if *tier == "thorough" {
				m = muts[k%len(muts)]
			}
			var cp map[string]interface{}
			world.Must(json.Unmarshal(op.Request, &cp))
			if m.f(cp) {
				b, _ := json.Marshal(cp)
				addCase("json:"+m.name, b)
			}
		}
		// text-level mutations of the request
		for k := 0; k < nText; k++ {
			t := tree.clone()
			label := applyMut(t)
			if rng.Intn(4) == 0 {
				label += "+" + applyMut(t)
			}
			s := t.text()
			if rng.Intn(5) == 0 {
				s = t.spaced()
			}
			if rng.Intn(6) == 0 {
				var w string
				if s, w = wrapText(s); w != "" {
					label = w
				}
			}
			addCase("text:"+label, []byte(s))
		}
		// the same inside the protected header and the payload
		if h, p, sig, ok := openSigned(tree); ok {
			for k := 0; k < nSigned; k++ {
				t, hh, pp := tree.clone(), h.clone(), p.clone()
				var label string
				htext, ptext := hh.text(), pp.text()
				switch rng.Intn(10) {
				case 0, 1, 2:
					label = "header:" + applyMut(hh)
					htext = hh.text()
				case 3:
					htext = pick([]string{"null", "[]", `"x"`, "1", "{}", `{"alg":null}`, `{"alg":1}`, `{"alg":""}`, `{"ALG":"ES256"}`, `{"alg":"ES256","alg":"ES256"}`, `{"alg":"ES256","alg":"x"}`, `{"alg":"ES256","\u0061lg":"ES256"}`, `{"alg":"ES256","a":[{"x":1,"x":1}]}`, `{"alg":"ES256","kid":null,"b64":0}`,
						`{"alg":"ES256","kid":"k","b64":false}`, `{"alg":"ES256","b64":true}`, `{"alg":"ES256","b64":null}`, `{"alg":"ES256","b64":"false"}`, `{"alg":"ES256","x":{"b":1,"a":[1e21,1e-7,1.5,100000,1000000,0.0001,0.00001,-0,5e-324,123456789]}}`,
						`{"alg":"ES256","crit":["b64"],"n":{"n":{"k":1,"k":2}}}`, `{"alg":"ES256","s":"<>& \u0000\u001f\"\\\/\u007f` + "\xff" + `"}`, ` {"alg":"ES256"} `, `{"alg":"ES256"} x`, "\xef\xbb\xbf{}", `{"alg":"ES256","z":1e400}`, "{\"\u00e9\":1,\"z\":2,\"a\":3,\"\xff\":4,\"\\ud800\":5}",
						`{"alg":"ES256","deep":` + deep + `}`, `{"alg":"\ud83d\ude00"}`, ``, ` `, `{"alg":"ES256",}`, `{"alg":"EdDSA","kid":""}`})
					label = "header:special"
				case 4, 5, 6, 7:
					label = "payload:" + applyMut(pp)
					ptext = pp.text()
					if rng.Intn(6) == 0 {
						var w string
						if ptext, w = wrapText(ptext); w != "" {
							label = "payload:" + w
						}
					}
				case 8:
					ptext = pick([]string{"null", "[]", `"x"`, "1", "{}", ``, ` `, `{"anchorFrom":1,"ANCHORFROM":2,"anchorfrom":null}`, `{"recoveryKey":{"kty":"EC"},"recoveryKey":{"crv":"P-256"},"updateKey":{"x":"1"},"UPDATEKEY":{"y":"2"}}`,
						`{"recoveryKey":{"kty":"EC"},"recoveryKey":null,"recoveryKey":{"crv":"P-256"},"updateKey":{"kty":"EC"},"updateKey":null,"updateKey":{"crv":"P-256"}}`, `{"anchorOrigin":` + deep + `}`,
						`{"updateKey":{"Kty":"EC","crv":"P-256","x":"a","y":"b","nonce":null},"recoveryKey":{"KTY":"OKP","Crv":"Ed25519","X":"a","Nonce":"n","nonce":""}}`,
						`{"deltaHash":"\ud800","deltaHash":"z","didSuffix":"a","revealValue":1}`, `{"anchorUntil":9223372036854775807,"anchorFrom":-9223372036854775808}`, `{"anchorUntil":9223372036854775808}`, `{"anchorFrom":1.0}`,
						`{"anchorFrom":1e2}`, `{"anchorFrom":-0}`, `{"anchorFrom":"1"}`, `{"anchorFrom":null,"anchorUntil":null}`, `{"anchorFrom":[1]}`})
					label = "payload:special"
				default:
					label = "signed:parts"
				}
				closeSigned(t, htext, ptext, sig)
				if label == "signed:parts" {
					c := keyName(t.get("signedData").val.raw)
					parts := strings.Split(c, ".")
					switch rng.Intn(9) {
					case 0:
						c = parts[0] + "." + parts[1]
					case 1:
						c = c + "." + parts[2]
					case 2:
						c = parts[0] + "\n" + "." + parts[1][:4] + "\r\n" + parts[1][4:] + "." + parts[2]
					case 3:
						c = parts[0] + "=." + parts[1] + "." + parts[2]
					case 4:
						c = parts[0][:len(parts[0])-1] + "." + parts[1] + "." + parts[2]
					case 5:
						c = parts[0] + "." + parts[1] + "*." + parts[2]
					case 6:
						c = "." + parts[1] + "." + parts[2]
					case 7:
						c = parts[0] + ".." + parts[2]
					default:
						c = strings.NewReplacer("-", "+", "_", "/").Replace(c)
					}
					t.get("signedData").val = raw(q(c))
				}
				addCase(label, []byte(t.text()))
			}
		}
	}
	// systematic: every catalogue entry once, at its natural place
	sysOps := map[string]*world.Op{}
	for _, op := range ops {
		if _, ok := sysOps[string(op.Spec.Type)]; !ok {
			sysOps[string(op.Spec.Type)] = op
		}
	}
	var tys []string
	for ty := range sysOps {
		tys = append(tys, ty)
	}
	sort.Strings(tys)
	stride := 1
	if *tier != "thorough" {
		stride = 4
	}
	n := 0
	for _, ty := range tys {
		op := sysOps[ty]
		tree := parseOrdered(op.Request)
		for _, m := range tree.mem {
			k := keyName(m.key)
			for _, kv := range keyVariants(k) {
				if n++; n%stride == 0 {
					t := tree.clone()
					t.get(k).key = kv
					addCase("sys:keycase:"+k, []byte(t.text()))
				}
			}
			for _, w := range wrongTypes {
				if n++; n%stride == 0 {
					t := tree.clone()
					t.get(k).val = raw(w)
					addCase("sys:wrongtype:"+k, []byte(t.text()))
				}
			}
		}
		for _, dt := range deltaTexts {
			if m := tree.get("delta"); m != nil {
				if n++; n%stride == 0 || ty == "update" {
					t := tree.clone()
					t.get("delta").val = raw(dt)
					addCase("sys:delta", []byte(t.text()))
					t2 := tree.clone()
					t2.mem = append(t2.mem, &member{key: pick([]string{`"delta"`, `"Delta"`, `"DELTA"`}), val: raw(dt)})
					addCase("sys:delta-duplicate", []byte(t2.text()))
				}
			}
		}
		if h, p, sig, ok := openSigned(tree); ok {
			for _, name := range []string{"anchorFrom", "anchorUntil"} {
				for _, nt := range numTexts {
					if n++; n%stride == 0 || (ty == "update" && name == "anchorFrom") {
						t, pp := tree.clone(), p.clone()
						if m := pp.get(name); m != nil {
							m.val = raw(nt)
						} else {
							pp.mem = append(pp.mem, &member{key: q(name), val: raw(nt)})
						}
						closeSigned(t, h.text(), pp.text(), sig)
						addCase("sys:int64:"+name, []byte(t.text()))
					}
				}
			}
			for _, m := range p.mem {
				k := keyName(m.key)
				for _, kv := range keyVariants(k) {
					if n++; n%stride == 0 {
						t, pp := tree.clone(), p.clone()
						pp.get(k).key = kv
						closeSigned(t, h.text(), pp.text(), sig)
						addCase("sys:payload-keycase:"+k, []byte(t.text()))
					}
				}
				for _, w := range wrongTypes {
					if n++; n%stride == 0 {
						t, pp := tree.clone(), p.clone()
						pp.get(k).val = raw(w)
						closeSigned(t, h.text(), pp.text(), sig)
						addCase("sys:payload-wrongtype:"+k, []byte(t.text()))
					}
				}
			}
			for _, nt := range numTexts {
				if n++; n%stride == 0 || ty == "recover" {
					t := tree.clone()
					closeSigned(t, `{"alg":"ES256","n":`+nt+`}`, p.text(), sig)
					addCase("sys:header-number", []byte(t.text()))
				}
			}
			for _, st := range strTexts {
				if n++; n%stride == 0 {
					t := tree.clone()
					closeSigned(t, `{"alg":`+st+`,`+st+`:1}`, p.text(), sig)
					addCase("sys:header-string", []byte(t.text()))
				}
			}
		}
		for _, st := range strTexts {
			if n++; n%stride == 0 {
				t := tree.clone()
				t.mem[len(t.mem)-1].val = raw(st)
				addCase("sys:string", []byte(t.text()))
			}
		}
		for _, it := range append(append([]string{}, ifaceTexts...), numTexts...) {
			if n++; n%stride == 0 || ty == "create" {
				t := tree.clone()
				if m := t.get("suffixData"); m != nil {
					m.val.mem = append(m.val.mem, &member{key: `"anchorOrigin"`, val: raw(it)})
					addCase("sys:iface", []byte(t.text()))
				}
			}
		}
	}
	// nesting limit of encoding/json (10000) and a scalar / null at top level
	for _, s := range []string{strings.Repeat("[", 10000) + strings.Repeat("]", 10000), strings.Repeat("[", 10001) + strings.Repeat("]", 10001), `{"type":"create","suffixData":{"anchorOrigin":` + strings.Repeat("[", 9998) + strings.Repeat("]", 9998) + `}}`,
		`{"type":"create","suffixData":{"anchorOrigin":` + strings.Repeat("[", 9999) + strings.Repeat("]", 9999) + `}}`, "null", " null ", "true", "1", `"create"`, "[]", "{}", "", " ", `{"type":"create"}`, `{"type":"update"}`, `{"type":"recover"}`,
		`{"type":"deactivate"}`, `{"type":"create","suffixData":{},"delta":{}}`, `{"TYPE":"create","type":null,"suffixdata":{"TYPE":"t","anchororigin":null},"delta":{"patches":[{"action":"replace"}]}}`,
		`{"type":"create","type":"update","didSuffix":"x"}`, `{"type":"update","type":1}`, `{"type":1,"type":"update","didSuffix":"x"}`, `{"type":"update","didSuffix":"a","didSuffix":1}`, `{"type":"update","x":1e400,"delta":null}`,
		`{"type":"update","delta":{"patches":[{"n":1e400}]}}`, `{"type":"deactivate","didſuffix":"a","revealValue":"b","signedData":"c.d.e"}`, `{"type":"deactivate","signedData":"e30.e30.e30"}`, `{"type":"deactivate","signedData":"bnVsbA.bnVsbA.AA"}`,
		`{"type":"update","signedData":"eyJhbGciOiJFUzI1NiJ9.bnVsbA.AA","delta":{"patches":[{"action":"replace","document":{"publicKeys":[],"services":[]}}],"updateCommitment":"EiA"}}`} {
		addCase("special", []byte(s))
	}
	// arbitrary bytes
	alphabet := `{}[]":,\ntruefalsenull0123456789.eE-+ typeupdatecreaterecoverdeactivatedeltasignedDatasuffixData`
	for i := 0; i < nArb; i++ {
		b := make([]byte, rng.Intn(80))
		for j := range b {
			if rng.Intn(10) == 0 {
				b[j] = byte(rng.Intn(256))
			} else {
				b[j] = alphabet[rng.Intn(len(alphabet))]
			}
		}
		addCase("arbitrary-bytes", b)
	}
	// small random JSON around the type member
	for i := 0; i < nArb/2; i++ {
		var sb strings.Builder
		sb.WriteString("{")
		for j, m := 0, 1+rng.Intn(4); j < m; j++ {
			if j > 0 {
				sb.WriteString(",")
			}
			k := pick([]string{"type", "Type", "TYPE", "delta", "didSuffix", "signedData", "suffixData", "revealValue", "x"})
			v := pick([]string{`"create"`, `"update"`, `"recover"`, `"deactivate"`, `"Create"`, "null", "1", "{}", "[]", `""`, `"x"`, `{"patches":[{"action":"replace"}],"updateCommitment":"c"}`, `{"deltaHash":"h","recoveryCommitment":"r"}`, "true"})
			sb.WriteString(q(k) + ":" + v)
		}
		sb.WriteString("}")
		addCase("small-json", []byte(sb.String()))
	}

	// write files: cases spread over the files by size (largest first, always into the lightest file)
	if *tier != "thorough" && *per == 0 { // one wave on 16 cores
		perFile = (len(cases) + 15) / 16
	}
	nFiles := (len(cases) + perFile - 1) / perFile
	order := make([]int, len(cases))
	for i := range order {
		order[i] = i
	}
	sort.SliceStable(order, func(a, b int) bool { return len(cases[order[a]]) > len(cases[order[b]]) })
	files := make([][]int, nFiles)
	load := make([]int, nFiles)
	for _, ci := range order {
		best := 0
		for f := range files {
			if load[f] < load[best] {
				best = f
			}
		}
		files[best] = append(files[best], ci)
		load[best] += len(cases[ci]) + 2000
	}
	lo := 0
	for s, idx := range files {
		sort.Ints(idx)
		var sb strings.Builder
		sb.WriteString("(* generated by harness/cmd/gen_view; never edited *)\n")
		sb.WriteString("From Coq Require Import List ZArith NArith String.\nImport ListNotations.\n")
		sb.WriteString("From SV Require Import Base.Bytes Resolve.Op Jws.Compact Parser.Accept Corr.Parser Corr.ViewOfBytes.\nLocal Open Scope list_scope.\n")
		sb.WriteString("Definition P : pproto := " + world.ProtoGallina(proto) + ".\n")
		sb.WriteString("Definition cases : list vbcase := [\n")
		for i, ci := range idx {
			sb.WriteString("  " + cases[ci])
			if i+1 < len(idx) {
				sb.WriteString(";")
			}
			sb.WriteString("\n")
		}
		sb.WriteString("].\n")
		base := fmt.Sprintf("%d%%nat", lo)
		if lo > 4000 { // coqc warns about large nat literals
			base = fmt.Sprintf("(N.to_nat %d%%N)", lo)
		}
		sb.WriteString("Definition M := Eval vm_compute in vb_mismatches " + base + " cases.\nPrint M.\n")
		world.Must(os.WriteFile(filepath.Join(outDir, fmt.Sprintf("VB_%03d.v", s)), []byte(sb.String()), 0o644))
		lo += len(idx)
	}
	logf("gen_view: %d cases, %d files, %d panics\n", len(cases), nFiles, panics)
	sj, _ := json.Marshal(map[string]interface{}{"histograms": hist, "samples": samples, "direct_violations": violations,
		"extra": map[string]interface{}{"tier": *tier, "seed": *seed, "cases": len(cases), "files": nFiles, "cases_per_file": perFile, "panics": panics,
			"example_update_request_hex": exampleHex, "oracles": []string{"decoders_never_panic", "view_deterministic"}}})
	fmt.Println("STATS " + string(sj))
}
