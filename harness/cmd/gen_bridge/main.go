// Differential generator for the bridge from operation BYTES to the abstract anchored operation of the resolution
// model (SV.Resolve.FromBytes / SV.Corr.Bridge).
//
//	gen_bridge -out <dir> -seed <n> -tier quick|thorough
//
// The operations are the population the resolution correspondences (C01-C06, C12) run on: the same builders
// (world.NewKeyPool, NewDID, GenEvents, Place, Forge with every ForgedKinds entry, CycleHistory, windows, both hash
// codes, all key types), the same protocol parameters, the same commitment table.  For every placed operation one
// bridge case is emitted:
//
//   - the request bytes and the facts that stay facts, all obtained from the REAL code on the bytes (never from the
//     builder's by-construction flags): patchvalidator verdict per decoded patch, key decodability (internal JWK decoder
//     through verifhooks; secp256k1 point on curve), the signature primitive's verdict on the signing input under the
//     public key decoded from the JWK inside the signed data, the real composer's verdict on the decoded patches;
//   - "stated": the aop exactly as world.Placed.Gallina renders it for the resolution cases (by construction);
//   - "real": the same record filled from the real code run on the bytes (real parser in batch mode, real VerifyJWS, real
//     hashing / ValidateDelta / commitment functions, the decoded signed window and commitments).
//
// The Coq side computes the aop from the bytes and compares it exactly with "real" and, modulo fields that resolution
// cannot observe (aop_norm, justified in Resolve/FromBytesProofs.v), with "stated".
//
// In addition whole histories are emitted as lists of stored operation bytes together with the outcome of the real
// processor.Resolve on them (BH files): the Coq side runs resolve_bytes.
//
// Key generation is not seeded (Go does not allow that for ECDSA); everything else derives from -seed.
package main

import (
	"crypto"
	"crypto/ecdsa"
	"crypto/ed25519"
	"crypto/elliptic"
	_ "crypto/sha256"
	_ "crypto/sha512"
	"encoding/base64"
	"encoding/hex"
	"encoding/json"
	"flag"
	"fmt"
	"math/big"
	"math/rand"
	"os"
	"path/filepath"
	"sort"
	"strings"

	"github.com/btcsuite/btcd/btcec"
	josejson "github.com/square/go-jose/v3/json"

	"github.com/trustbloc/sidetree-core-go/pkg/api/operation"
	"github.com/trustbloc/sidetree-core-go/pkg/api/protocol"
	"github.com/trustbloc/sidetree-core-go/pkg/commitment"
	"github.com/trustbloc/sidetree-core-go/pkg/document"
	"github.com/trustbloc/sidetree-core-go/pkg/hashing"
	"github.com/trustbloc/sidetree-core-go/pkg/jws"
	"github.com/trustbloc/sidetree-core-go/pkg/patch"
	"github.com/trustbloc/sidetree-core-go/pkg/verifhooks"
	"github.com/trustbloc/sidetree-core-go/pkg/versions/1_0/model"
	"github.com/trustbloc/sidetree-core-go/pkg/versions/1_0/operationparser/patchvalidator"

	"verif/harness/internal/emit"
	"verif/harness/internal/world"
)

var rawURL = base64.RawURLEncoding

var (
	hist       = map[string]map[string]int{}
	samples    []interface{}
	violations = []map[string]interface{}{}
)

func count(h, bucket string) {
	if hist[h] == nil {
		hist[h] = map[string]int{}
	}
	hist[h][bucket]++
}

func logf(format string, a ...interface{}) { fmt.Fprintf(os.Stderr, format, a...) }

// ---------------------------------------------------------------- environment (as cmd/sv newResolveEnv)

type env struct {
	kp  *world.KeyPool
	tb  *world.Table
	pc  *world.Client
	ver *world.Version
	p   protocol.Protocol
	md  world.MDelta
	rng *rand.Rand
	dl  int64
}

func newEnv(seed int64, nkeys int) *env {
	p := world.DefaultProtocol()
	// "add-also-known-as" stays disabled so that DisabledPatches() is an invalid delta
	p.Patches = []string{"replace", "add-public-keys", "remove-public-keys", "add-services", "remove-services", "ietf-json-patch"}
	ver := world.NewVersion("1.0", p, world.VersionOpts{})
	kp := world.NewKeyPool(nkeys)
	return &env{kp: kp, tb: world.NewTable(), pc: &world.Client{Versions: []*world.Version{ver}}, ver: ver, p: p,
		md:  func(uint64) (int64, bool) { return int64(p.MaxOperationTimeDelta), true },
		rng: rand.New(rand.NewSource(seed)), dl: int64(p.MaxOperationTimeDelta)}
}

func oidOf(o *operation.AnchoredOperation) int64 {
	for _, e := range o.EquivalentReferences {
		var v int64
		if _, err := fmt.Sscanf(e, "oid:%d", &v); err == nil {
			return v
		}
	}
	return -1
}

// ---------------------------------------------------------------- the signature primitive, independently of the library

type hdrFacts struct {
	jsonOK  bool
	hasAlg  bool
	b64     string
	marshal []byte
}

// go-jose's view of the protected header part (as cmd/sv/c09.go)
func headerFacts(part string) hdrFacts {
	hf := hdrFacts{b64: "B64Absent"}
	raw, err := rawURL.DecodeString(part)
	if err != nil {
		return hf
	}
	var m map[string]interface{}
	if josejson.Unmarshal(raw, &m) != nil || m == nil {
		if josejson.Unmarshal(raw, &m) == nil && m == nil {
			hf.jsonOK = true
		}
		return hf
	}
	hf.jsonOK = true
	_, hf.hasAlg = m["alg"]
	if v, ok := m["b64"]; ok {
		switch b := v.(type) {
		case bool:
			if b {
				hf.b64 = "B64True"
			} else {
				hf.b64 = "B64False"
			}
		default:
			hf.b64 = "B64NotBool"
		}
	}
	hf.marshal, _ = josejson.Marshal(m)
	return hf
}

// the signing input the model computes; the crypto fact is evaluated on exactly these bytes
func modelSigningInput(compact string) (msg, sig []byte, ok bool) {
	parts := strings.Split(compact, ".")
	if len(parts) != 3 {
		return nil, nil, false
	}
	h := headerFacts(parts[0])
	payload, err := rawURL.DecodeString(parts[1])
	if err != nil {
		return nil, nil, false
	}
	sig, err = rawURL.DecodeString(parts[2])
	if err != nil {
		return nil, nil, false
	}
	hs := rawURL.EncodeToString(h.marshal)
	switch h.b64 {
	case "B64NotBool":
		return nil, sig, false
	case "B64False":
		return []byte(hs + "." + string(payload)), sig, true
	}
	return []byte(hs + "." + rawURL.EncodeToString(payload)), sig, true
}

// the public key object the JWK's coordinates denote (nil = none), and whether the point is on secp256k1
func pubOfJWK(j *jws.JWK) (pub interface{}, onS256 bool) {
	if j == nil {
		return nil, false
	}
	x, errx := rawURL.DecodeString(j.X)
	y, erry := rawURL.DecodeString(j.Y)
	if errx == nil && erry == nil && len(x) > 0 && len(y) > 0 {
		onS256 = btcec.S256().IsOnCurve(new(big.Int).SetBytes(x), new(big.Int).SetBytes(y))
	}
	switch j.Kty {
	case "EC":
		var c elliptic.Curve
		switch j.Crv {
		case "P-256":
			c = elliptic.P256()
		case "P-384":
			c = elliptic.P384()
		case "P-521":
			c = elliptic.P521()
		case "secp256k1":
			c = btcec.S256()
		}
		if c == nil || errx != nil || erry != nil || len(x) == 0 || len(y) == 0 {
			return nil, onS256
		}
		bx, by := new(big.Int).SetBytes(x), new(big.Int).SetBytes(y)
		if !c.IsOnCurve(bx, by) {
			return nil, onS256
		}
		return &ecdsa.PublicKey{Curve: c, X: bx, Y: by}, onS256
	case "OKP":
		if errx == nil && len(x) == ed25519.PublicKeySize {
			return ed25519.PublicKey(x), onS256
		}
	}
	return nil, onS256
}

func cryptoVerify(pub interface{}, crv string, msg, sig []byte) bool {
	switch p := pub.(type) {
	case ed25519.PublicKey:
		return ed25519.Verify(p, msg, sig)
	case *ecdsa.PublicKey:
		h := crypto.SHA256
		switch crv {
		case "P-384":
			h = crypto.SHA384
		case "P-521":
			h = crypto.SHA512
		}
		if len(sig)%2 != 0 || len(sig) == 0 {
			return false
		}
		hh := h.New()
		hh.Write(msg)
		n := len(sig) / 2
		return ecdsa.Verify(p, hh.Sum(nil), new(big.Int).SetBytes(sig[:n]), new(big.Int).SetBytes(sig[n:]))
	}
	return false
}

func declen(s string) int {
	if s == "" {
		return -1
	}
	b, err := rawURL.DecodeString(s)
	if err != nil {
		return -1
	}
	return len(b)
}

// go-jose's / the internal decoder's verdict on the JWK (as cmd/sv/c09.go)
func joseAccepts(j *jws.JWK) (ok bool) {
	if j == nil {
		return false
	}
	defer func() {
		if recover() != nil {
			ok = false
		}
	}()
	b, err := json.Marshal(j)
	if err != nil {
		return false
	}
	ok = verifhooks.ParseInternalJWK(b) == nil
	// for OKP keys go-jose does not check the length; the repository code does (len == 32)
	if j.Kty == "OKP" && ok && declen(j.X) != ed25519.PublicKeySize {
		ok = false
	}
	return ok
}

// ---------------------------------------------------------------- what the real code makes of the request bytes

type obs struct {
	// the facts handed to the model
	valid        []bool
	onCurve      bool
	joseOK       bool
	cryptoOK     bool
	patchApplies bool
	deltaID      int64
	originID     int64
	deltaFrom    string // how the identity of the delta content was obtained
	originFrom   string
	// the aop fields as the real code determines them
	parseOK  bool
	revealC  string
	sigOK    bool
	sfxOK    bool
	dhashOK  bool
	dvalid   bool
	from     int64
	until    int64
	updC     string
	recC     string
	keyCrv   string
	hashCode string
	panics   []string
}

func guard(o *obs, what string, f func()) {
	defer func() {
		if x := recover(); x != nil {
			o.panics = append(o.panics, what+": "+fmt.Sprint(x))
		}
	}()
	f()
}

func originNumber(v interface{}) (int64, bool) {
	s, ok := v.(string)
	if !ok {
		return 0, v == nil
	}
	var x int64
	if _, err := fmt.Sscanf(s, "origin%d", &x); err != nil {
		return 0, false
	}
	return x, true
}

// content identity of a delta: the number in the id "k<n>" of the first public key it adds
func deltaNumber(d *model.DeltaModel) (int64, bool) {
	if d == nil || len(d.Patches) == 0 {
		return 0, false
	}
	pks, ok := d.Patches[0]["publicKeys"].([]interface{})
	if !ok || len(pks) == 0 {
		return 0, false
	}
	m, ok := pks[0].(map[string]interface{})
	if !ok {
		return 0, false
	}
	id, _ := m["id"].(string)
	var v int64
	if _, err := fmt.Sscanf(id, "k%d", &v); err != nil {
		return 0, false
	}
	return v, true
}

var obsCache = map[*world.Op]*obs{}

func observe(e *env, op *world.Op) *obs {
	if o, ok := obsCache[op]; ok {
		return o
	}
	o := &obs{sfxOK: true}
	obsCache[op] = o
	buf := op.Request
	// ---- decoding, exactly as world.ReqView does it
	var schema struct {
		Operation string `json:"type"`
	}
	schemaOK := json.Unmarshal(buf, &schema) == nil
	ty := schema.Operation
	var didSuffix, reveal, signedData string
	var delta *model.DeltaModel
	var sd *model.SuffixDataModel
	if schemaOK {
		switch ty {
		case "create":
			var r model.CreateRequest
			if json.Unmarshal(buf, &r) == nil {
				delta, sd = r.Delta, r.SuffixData
			}
		case "update":
			var r model.UpdateRequest
			if json.Unmarshal(buf, &r) == nil {
				didSuffix, reveal, signedData, delta = r.DidSuffix, r.RevealValue, r.SignedData, r.Delta
			}
		case "recover":
			var r model.RecoverRequest
			if json.Unmarshal(buf, &r) == nil {
				didSuffix, reveal, signedData, delta = r.DidSuffix, r.RevealValue, r.SignedData, r.Delta
			}
		case "deactivate":
			var r model.DeactivateRequest
			if json.Unmarshal(buf, &r) == nil {
				didSuffix, reveal, signedData = r.DidSuffix, r.RevealValue, r.SignedData
			}
		}
	}
	var key *jws.JWK
	var signedDeltaHash, signedRec, signedSfx string
	var signedOrigin interface{}
	parts := strings.Split(signedData, ".")
	if len(parts) == 3 {
		if payload, err := rawURL.DecodeString(parts[1]); err == nil {
			switch ty {
			case "update":
				var m model.UpdateSignedDataModel
				if json.Unmarshal(payload, &m) == nil {
					key, signedDeltaHash, o.from, o.until = m.UpdateKey, m.DeltaHash, m.AnchorFrom, m.AnchorUntil
				}
			case "recover":
				var m model.RecoverSignedDataModel
				if json.Unmarshal(payload, &m) == nil {
					key, signedDeltaHash, signedRec, o.from, o.until = m.RecoveryKey, m.DeltaHash, m.RecoveryCommitment, m.AnchorFrom, m.AnchorUntil
					signedOrigin = m.AnchorOrigin
				}
			case "deactivate":
				var m model.DeactivateSignedDataModel
				if json.Unmarshal(payload, &m) == nil {
					key, signedSfx, o.from, o.until = m.RecoveryKey, m.DidSuffix, m.AnchorFrom, m.AnchorUntil
				}
			}
		}
	}
	// ---- facts
	if delta != nil {
		for _, p := range delta.Patches {
			ok := false
			func(p patch.Patch) {
				defer func() { recover() }() //nolint:errcheck
				ok = patchvalidator.Validate(p) == nil
			}(p)
			o.valid = append(o.valid, ok)
		}
	}
	var pub interface{}
	pub, o.onCurve = pubOfJWK(key)
	o.joseOK = joseAccepts(key)
	if key != nil {
		o.keyCrv = key.Crv
		if msg, sig, ok := modelSigningInput(signedData); ok && pub != nil {
			o.cryptoOK = cryptoVerify(pub, key.Crv, msg, sig)
		}
	}
	guard(o, "ApplyPatches", func() {
		var ps []patch.Patch
		if delta != nil {
			ps = delta.Patches
		}
		_, err := e.ver.Composer.ApplyPatches(make(document.Document), ps)
		o.patchApplies = err == nil
	})
	// identities of delta content and anchor origin: read off the decoded request where the harness's encoding of
	// identities allows it, else the builder's number (such a delta never contributes content)
	o.deltaID, o.deltaFrom = op.Spec.DeltaID, "builder"
	if v, ok := deltaNumber(delta); ok {
		o.deltaID, o.deltaFrom = v, "request"
	}
	o.originID, o.originFrom = op.Spec.OriginID, "builder"
	switch {
	case sd != nil:
		if v, ok := originNumber(sd.AnchorOrigin); ok {
			o.originID, o.originFrom = v, "request"
		}
	case ty == "recover" && key != nil:
		if v, ok := originNumber(signedOrigin); ok {
			o.originID, o.originFrom = v, "request"
		}
	}
	// ---- the aop fields from the real code
	guard(o, "Parse", func() {
		if op.Spec.Type == operation.TypeCreate {
			_, err := e.ver.Parser.ParseCreateOperation(buf, true)
			o.parseOK = err == nil
		} else {
			_, err := e.ver.Parser.GetRevealValue(buf)
			o.parseOK = err == nil
		}
	})
	guard(o, "GetCommitmentFromRevealValue", func() {
		if c, err := commitment.GetCommitmentFromRevealValue(reveal); err == nil {
			o.revealC = c
		}
	})
	guard(o, "VerifyJWS", func() {
		if key != nil {
			_, _, err := verifhooks.VerifyJWS(signedData, key)
			o.sigOK = err == nil
		}
	})
	o.sfxOK = signedSfx == didSuffix
	guard(o, "IsValidModelMultihash", func() {
		h := signedDeltaHash
		if sd != nil {
			h = sd.DeltaHash
		}
		if ty == "create" && sd == nil {
			h = ""
		}
		o.dhashOK = hashing.IsValidModelMultihash(delta, h) == nil
		if c, err := hashing.GetMultihashCode(h); err == nil {
			o.hashCode = fmt.Sprint(c)
		}
	})
	guard(o, "ValidateDelta", func() { o.dvalid = e.ver.Parser.ValidateDelta(delta) == nil })
	if delta != nil && ty != "deactivate" {
		o.updC = delta.UpdateCommitment
	}
	switch {
	case ty == "create" && sd != nil:
		o.recC = sd.RecoveryCommitment
	case ty == "recover":
		o.recC = signedRec
	}
	for _, p := range o.panics {
		violations = append(violations, map[string]interface{}{"oracle": "real_code_never_panics", "what": p, "case": map[string]interface{}{"label": op.Spec.Label, "request": string(buf)}})
	}
	return o
}

// ---------------------------------------------------------------- rendering

func hexLit(b []byte) string {
	if len(b) == 0 {
		return "[]"
	}
	// printable ASCII: the characters themselves (coqc elaborates the case files twice as fast as with hex digits)
	ascii := true
	for _, c := range b {
		if c < 0x20 || c > 0x7e {
			ascii = false
			break
		}
	}
	if ascii {
		s := string(b)
		var parts []string
		for len(s) > 2000 {
			parts = append(parts, `rb "`+strings.ReplaceAll(s[:2000], `"`, `""`)+`"`)
			s = s[2000:]
		}
		parts = append(parts, `rb "`+strings.ReplaceAll(s, `"`, `""`)+`"`)
		return "(" + strings.Join(parts, " ++ ") + ")"
	}
	h := hex.EncodeToString(b)
	var parts []string
	for len(h) > 4000 {
		parts = append(parts, `uh "`+h[:4000]+`"`)
		h = h[4000:]
	}
	parts = append(parts, `uh "`+h+`"`)
	return "(" + strings.Join(parts, " ++ ") + ")"
}

func tyName(t operation.Type) string {
	switch t {
	case operation.TypeCreate:
		return "Create"
	case operation.TypeUpdate:
		return "Update"
	case operation.TypeRecover:
		return "Recover"
	}
	return "Deactivate"
}

func boolList(v []bool) string {
	items := make([]string, len(v))
	for i, b := range v {
		items[i] = emit.Bool(b)
	}
	return emit.List(items)
}

func coordsGallina(e *env, p world.Placed, o *obs) string {
	_, err := e.pc.Get(p.PVer)
	return emit.App("Build_coords", emit.Z(p.OID), emit.Z(int64(p.Time)), emit.Z(int64(p.Num)), emit.Z(p.CRef), emit.Bool(err == nil),
		emit.Z(o.deltaID), emit.Z(o.originID))
}

// the per-operation arguments shared by bridge cases and stored operations
func factsGallina(e *env, p world.Placed, o *obs, origin bool) []string {
	return []string{hexLit(p.Op.Request), boolList(o.valid), emit.Bool(origin),
		emit.App("Build_key_facts", emit.Bool(o.onCurve), emit.Bool(o.joseOK)), emit.Bool(o.cryptoOK), emit.Bool(o.patchApplies),
		coordsGallina(e, p, o)}
}

func realGallina(e *env, p world.Placed, o *obs) string {
	_, err := e.pc.Get(p.PVer)
	return emit.App("mk_aop", emit.Z(p.OID), tyName(p.Op.Spec.Type), emit.Z(int64(p.Time)), emit.Z(int64(p.Num)), emit.Z(p.CRef),
		emit.Opt(err == nil, emit.Z(int64(e.p.MaxOperationTimeDelta))),
		emit.Bool(o.parseOK), emit.Z(e.tb.ID(o.revealC)),
		emit.Bool(o.sigOK), emit.Bool(o.sfxOK), emit.Bool(o.dhashOK), emit.Bool(o.dvalid), emit.Bool(o.patchApplies),
		emit.Z(o.from), emit.Z(o.until),
		emit.Z(o.deltaID), emit.Z(e.tb.ID(o.updC)), emit.Z(e.tb.ID(o.recC)), emit.Z(o.originID))
}

// which fields the builder's by-construction statement and the real code disagree on, with the context that makes the
// field unobservable (histogram only; the authoritative comparison is aop_norm on the Coq side)
func statedDiffs(p world.Placed, o *obs) []string {
	b := p.Op
	var d []string
	add := func(field string, differs bool) {
		if differs {
			ctx := []string{tyName(b.Spec.Type)}
			if !o.parseOK {
				ctx = append(ctx, "parse refused")
			}
			if !o.sigOK && b.Spec.Type != operation.TypeCreate {
				ctx = append(ctx, "signature refused")
			}
			if !o.dhashOK && b.Spec.Type != operation.TypeDeactivate {
				ctx = append(ctx, "delta hash mismatch")
			}
			if !o.dvalid && b.Spec.Type != operation.TypeDeactivate {
				ctx = append(ctx, "delta invalid")
			}
			d = append(d, field+" ["+strings.Join(ctx, ", ")+"]")
		}
	}
	add("parse_ok", b.ParseOK != o.parseOK)
	add("reveal_c", b.RevealC != o.revealC)
	add("sig_ok", b.SigOK != o.sigOK)
	add("sfx_ok", b.SfxOK != o.sfxOK)
	add("dhash_ok", b.DHashOK != o.dhashOK)
	add("dvalid", b.DValid != o.dvalid)
	add("patch_ok", b.PatchOK != o.patchApplies)
	add("window", b.Spec.From != o.from || b.Spec.Until != o.until)
	add("delta", b.Spec.DeltaID != o.deltaID)
	add("upd_c", b.UpdC != o.updC)
	add("rec_c", b.RecC != o.recC)
	add("origin", b.Spec.OriginID != o.originID)
	return d
}

// ---------------------------------------------------------------- populations (the GenOpts of the resolution checks)

type profile struct {
	name string
	opts func(i int, dl int64) world.GenOpts
	code func(i int) uint
}

var profiles = []profile{
	{"C01", func(i int, dl int64) world.GenOpts {
		o := world.GenOpts{MinLen: 2, MaxLen: 10, Forged: true, DupCreates: true, EndDeactivate: 10, TimeDelta: dl, SharedTime: i%3 == 0}
		if i%9 == 8 {
			o.MaxLen = 26
		}
		return o
	}, func(i int) uint {
		if i%4 == 3 {
			return world.SHA512
		}
		return world.SHA256
	}},
	{"C03", func(i int, dl int64) world.GenOpts {
		o := world.GenOpts{RecoverOldUpd: i%2 == 0, MinLen: 1, MaxLen: 9, Forged: i%3 == 0, DupCreates: i%4 == 1, Forks: true, BadDeltas: true, Windows: true,
			Cycles: true, Replays: i%2 == 0, EndDeactivate: 15, TimeDelta: dl}
		if i%10 == 9 {
			o.MaxLen = 30
		}
		if i%7 == 3 {
			o.Unpublished = 2
		}
		return o
	}, func(i int) uint {
		if i%5 == 4 {
			return world.SHA512
		}
		return world.SHA256
	}},
	{"C02", func(i int, dl int64) world.GenOpts {
		o := world.GenOpts{MinLen: 1, MaxLen: 4, Forks: true, DupCreates: i%2 == 0, NonMonotone: true, SharedTime: true, Unpublished: i % 3, EndDeactivate: 10, TimeDelta: dl}
		if i%6 == 5 {
			o.MaxLen = 7
		}
		return o
	}, func(int) uint { return world.SHA256 }},
	{"C04", func(i int, dl int64) world.GenOpts {
		return world.GenOpts{MinLen: 1, MaxLen: 7, EndDeactivate: 60, TimeDelta: dl, BadDeltas: i%3 == 0, RecoverOldUpd: true, NonMonotone: i%4 == 3}
	}, func(int) uint { return world.SHA256 }},
	{"C06", func(i int, dl int64) world.GenOpts {
		return world.GenOpts{MinLen: 2, MaxLen: 8, Forks: true, Forged: i%3 == 0, BadDeltas: i%4 == 0, Unpublished: i % 2, EndDeactivate: 15, TimeDelta: dl, SharedTime: i%2 == 0}
	}, func(i int) uint {
		if i%6 == 1 {
			return world.SHA512
		}
		return world.SHA256
	}},
	{"C12", nil, func(int) uint { return world.SHA256 }},
	{"variants", nil, func(i int) uint {
		if i%3 == 2 {
			return world.SHA512
		}
		return world.SHA256
	}},
	{"C11-windows", func(i int, dl int64) world.GenOpts {
		return world.GenOpts{MinLen: 3, MaxLen: 9, Windows: true, Forged: true, EndDeactivate: 40, TimeDelta: dl}
	}, func(i int) uint {
		if i%2 == 1 {
			return world.SHA512
		}
		return world.SHA256
	}},
}

// Operations outside the alphabet of the resolution checks, built with the same builder (world.Spec fields that the parser
// checks C10 / C12 use): a deactivate whose signed suffix is another one, JWKs with a nonce (right and wrong size), other
// spellings of the curve and of the signature algorithm.  For the indices in "unstated" the builder's by-construction flags
// do not claim anything (world.Build does not model these rules): the case then carries the real record in both places.
func variantEvents(d *world.DID, rng *rand.Rand) (evs []world.Event, unstated map[int]bool) {
	evs = []world.Event{{Op: d.Create, Legit: true, Label: "create"}}
	unstated = map[int]bool{}
	add := func(s world.Spec, claimed bool) {
		if !claimed {
			unstated[len(evs)] = true
		}
		evs = append(evs, world.Event{Op: world.Build(s), Label: "variant:" + s.Label})
	}
	nonce := func(n int) string {
		b := make([]byte, n)
		rng.Read(b)
		return rawURL.EncodeToString(b)
	}
	next := d.Stranger(1)
	s := d.ValidDeactivate("D.othersuffix")
	s.SignedSfx = "EiOtherSuffix"
	add(s, true)
	s = d.ValidUpdate(next, "U.nonce")
	s.Nonce = nonce(16)
	add(s, true)
	s = d.ValidUpdate(next, "U.nonce-wrong-size")
	s.Nonce = nonce(15)
	add(s, false)
	s = d.ValidUpdate(next, "U.crv-lowercase")
	s.CrvSpell = strings.ToLower(s.SignedKey.Type.Crv())
	add(s, false)
	s = d.ValidUpdate(next, "U.crv-uppercase")
	s.CrvSpell = strings.ToUpper(s.SignedKey.Type.Crv())
	add(s, false)
	s = d.ValidUpdate(next, "U.alg-lowercase")
	s.HeaderAlg = strings.ToLower(s.SignWith.Type.Alg())
	add(s, false)
	s = d.ValidRecover(d.Stranger(2), next, "R.nonce")
	s.Nonce = nonce(16)
	add(s, true)
	s = d.ValidRecover(d.Stranger(2), next, "R.crv-uppercase")
	s.CrvSpell = strings.ToUpper(s.SignedKey.Type.Crv())
	add(s, false)
	return evs, unstated
}

func windowClass(o *obs, t uint64, dl int64) string {
	if o.from == 0 && o.until == 0 {
		return "none"
	}
	until := o.until
	if o.from != 0 && until == 0 {
		until = o.from + dl
	}
	switch {
	case o.from > int64(t):
		return "early"
	case until < int64(t):
		return "late"
	}
	if o.until == 0 {
		return "in(default until)"
	}
	return "in"
}

// ---------------------------------------------------------------- main

type caseText struct {
	text string
	desc map[string]interface{}
}

func main() {
	outDir := flag.String("out", "cases", "output directory")
	seed := flag.Int64("seed", 1, "seed")
	tier := flag.String("tier", "quick", "quick|thorough")
	per := flag.Int("per", 0, "bridge cases per file")
	nHist := flag.Int("histories", 0, "number of histories (0 = tier default)")
	flag.Parse()
	world.Must(os.MkdirAll(*outDir, 0o755))
	n, perFile, hPerFile, hEvery := 180, 0, 0, 4
	if *tier == "thorough" {
		n, perFile, hPerFile, hEvery = 1800, 300, 40, 4
	}
	if *nHist > 0 {
		n = *nHist
	}
	if *per > 0 {
		perFile = *per
	}
	e := newEnv(*seed, 40)
	// one more key: secp256k1 with a coordinate whose minimal big-endian form is shorter than 32 bytes
	e.kp.Keys = append(e.kp.Keys, world.ShortCoordinateKey())
	var bcases, hcases []caseText
	exampleHex := ""
	var example map[string]interface{}
	seen := map[string]bool{}
	for i := 0; i < n; i++ {
		pf := profiles[i%len(profiles)]
		j := i / len(profiles)
		code := pf.code(j)
		d := world.NewDID(e.kp, e.tb, e.rng, code)
		var evs []world.Event
		var o world.GenOpts
		note := ""
		unstated := map[int]bool{}
		if pf.name == "variants" {
			evs, unstated = variantEvents(d, e.rng)
			o = world.GenOpts{TimeDelta: e.dl}
		} else if pf.opts == nil {
			evs, note = world.CycleHistory(d, e.rng)
			o = world.GenOpts{TimeDelta: e.dl}
		} else {
			o = pf.opts(j, e.dl)
			evs = d.GenEvents(o)
		}
		if pf.name == "C04" {
			// arbitrary later operations, also validly signed with every earlier key (as cmd/sv runC04)
			olds := append(append([]*world.Key{}, d.PastUpd...), d.PastRec...)
			for k, kn := 0, 1+e.rng.Intn(4); k < kn; k++ {
				switch e.rng.Intn(3) {
				case 0:
					ty := []operation.Type{operation.TypeUpdate, operation.TypeRecover, operation.TypeDeactivate}[e.rng.Intn(3)]
					kind := world.ForgedKinds[e.rng.Intn(len(world.ForgedKinds))]
					evs = append(evs, world.Event{Op: world.Build(d.Forge(ty, kind, k)), Label: "forged:" + string(ty) + ":" + kind})
				case 1:
					if len(olds) > 0 {
						key := olds[e.rng.Intn(len(olds))]
						s := world.Spec{Label: "ext.oldkey", Type: operation.TypeUpdate, Suffix: d.Suffix, RevealKey: key, SignedKey: key, SignWith: key,
							NextUpd: d.Stranger(k).Commitment(d.Code), DeltaID: 800 + int64(k), Code: d.Code}
						if e.rng.Intn(2) == 0 {
							s.Type = operation.TypeRecover
							s.NextRec = d.Stranger(k + 1).Commitment(d.Code)
						}
						evs = append(evs, world.Event{Op: world.Build(s), Label: "ext:oldkey"})
					}
				default:
					evs = append(evs, world.Event{Op: d.Create, Label: "ext:create"})
				}
			}
		}
		pub, unpub := d.Place(evs, o)
		count("profile", pf.name)
		count("history_length", fmt.Sprint(len(evs)))
		if note != "" {
			count("cycle_shape", note)
		}
		origin := e.rng.Intn(4) != 0 // batch mode never consults the anchor-origin plug-in: its verdict must not matter
		all := append(append([]world.Placed{}, pub...), unpub...)
		for k, p := range all {
			ob := observe(e, p.Op)
			label := evs[k].Label
			args := factsGallina(e, p, ob, origin)
			stated := p.Gallina(e.tb, e.md)
			real := realGallina(e, p, ob)
			if unstated[k] {
				stated = real
			}
			text := emit.App("Build_bcase", append(append([]string{"P"}, args...), "T", stated, real)...)
			ty := tyName(p.Op.Spec.Type)
			count("type", ty)
			count("letter", letter(label))
			count("hash_code", fmt.Sprint(code))
			if ob.keyCrv != "" {
				count("signing_key_curve", ob.keyCrv)
			}
			if p.Op.Spec.Type != operation.TypeCreate {
				count("window", windowClass(ob, p.Time, e.dl))
			}
			count("published", fmt.Sprint(p.CRef != 0))
			count("real_verdicts", fmt.Sprintf("%s parse=%v sig=%v sfx=%v dhash=%v dvalid=%v patch=%v", ty, ob.parseOK, ob.sigOK, ob.sfxOK, ob.dhashOK, ob.dvalid, ob.patchApplies))
			count("facts", fmt.Sprintf("on_curve=%v jose_ok=%v crypto_ok=%v patch_applies=%v valid=%v", ob.onCurve, ob.joseOK, ob.cryptoOK, ob.patchApplies, ob.valid))
			count("delta_identity_from", ob.deltaFrom)
			count("origin_identity_from", ob.originFrom)
			diffs := statedDiffs(p, ob)
			if unstated[k] {
				diffs = nil
				count("stated_vs_real", "builder makes no statement (variant)")
			} else if len(diffs) == 0 {
				count("stated_vs_real", "equal")
			}
			for _, df := range diffs {
				count("stated_vs_real", df)
			}
			desc := map[string]interface{}{"profile": pf.name, "label": label, "type": ty, "oid": p.OID, "time": p.Time, "num": p.Num, "cref": p.CRef,
				"request": string(p.Op.Request), "stated_vs_real": diffs}
			key := string(p.Op.Request) + fmt.Sprint(p.Time, p.Num, p.CRef, p.OID)
			if !seen[key] {
				seen[key] = true
			}
			bcases = append(bcases, caseText{text, desc})
			if len(samples) < 6 && e.rng.Intn(200) == 0 {
				samples = append(samples, desc)
			}
			if exampleHex == "" && k == 1 && label == "U" && ob.keyCrv == "P-256" && code == world.SHA256 && ob.from == 0 && p.CRef != 0 {
				exampleHex = hex.EncodeToString(p.Op.Request)
				c0 := all[0]
				ob0 := observe(e, c0.Op)
				tabOf := func(ss ...string) map[string]int64 {
					m := map[string]int64{}
					for _, x := range ss {
						if x != "" {
							m[x] = e.tb.ID(x)
						}
					}
					return m
				}
				example = map[string]interface{}{
					"create_request_hex": hex.EncodeToString(c0.Op.Request), "create_stated": c0.Gallina(e.tb, e.md),
					"create_facts":       fmt.Sprintf("valid=%v kf=(%v,%v) crypto_ok=%v patch_applies=%v coords=%s", ob0.valid, ob0.onCurve, ob0.joseOK, ob0.cryptoOK, ob0.patchApplies, coordsGallina(e, c0, ob0)),
					"update_request_hex": exampleHex, "update_stated": stated, "update_real": real,
					"update_facts": fmt.Sprintf("valid=%v kf=(%v,%v) crypto_ok=%v patch_applies=%v coords=%s", ob.valid, ob.onCurve, ob.joseOK, ob.cryptoOK, ob.patchApplies, coordsGallina(e, p, ob)),
					"commitments":  tabOf(ob0.updC, ob0.recC, ob.revealC, ob.updC),
				}
			}
		}
		// the whole history as stored bytes against the real processor
		if i%hEvery == 0 {
			stored := func(ps []world.Placed) string {
				items := make([]string, len(ps))
				for k, p := range ps {
					items[k] = emit.App("Build_stored_op", factsGallina(e, p, observe(e, p.Op), origin)...)
				}
				return emit.List(items)
			}
			pubS := world.Shuffle(e.rng, pub)
			hs := []*world.History{{Level: 1, Pub: pubS, Unpub: unpub}}
			if len(all) > 1 && i%(2*hEvery) == 0 {
				q := all[e.rng.Intn(len(all))]
				t := int64(q.Time) - int64(e.rng.Intn(2))
				hs = append(hs, &world.History{Level: 1, Pub: pubS, Unpub: unpub, VersionTime: &t})
				if len(pub) > 0 {
					hs = append(hs, &world.History{Level: 1, Pub: pubS, Unpub: unpub, VersionID: pub[e.rng.Intn(len(pub))].CRef})
				}
				var store, add []world.Placed
				for k, p := range pubS {
					if p.Op.Spec.Type != operation.TypeCreate && (k+i)%2 == 0 {
						add = append(add, p)
					} else {
						store = append(store, p)
					}
				}
				if len(add) > 0 {
					hs = append(hs, &world.History{Level: 1, Pub: store, Unpub: unpub, Additional: add})
				}
			}
			for _, h := range hs {
				oc := h.Run(e.pc, e.tb, oidOf)
				vt := "None"
				kind := "plain"
				if h.VersionTime != nil {
					vt = "(Some " + emit.Z(*h.VersionTime) + ")"
					kind = "version-time"
				}
				if h.VersionID != 0 {
					kind = "version-id"
				}
				if len(h.Additional) > 0 {
					kind = "additional"
				}
				bo := emit.App("Build_bopts", emit.Z(h.VersionID), vt, stored(h.Additional))
				text := emit.App("Build_hcase", emit.Nat(h.Level), "P", "T", stored(h.Pub), stored(h.Unpub), bo, oc.Gallina())
				out := "ok"
				switch {
				case oc.Panic != "":
					out = "panic"
				case oc.Err != "":
					out = oc.Err
				case oc.Deact:
					out = "deactivated"
				}
				count("history_outcome", kind+":"+out)
				var labels []string
				for _, ev := range evs {
					labels = append(labels, ev.Label)
				}
				hcases = append(hcases, caseText{text, map[string]interface{}{"profile": pf.name, "kind": kind, "events": strings.Join(labels, ","), "impl": oc}})
			}
		}
	}

	// ---- files.  The commitment table is complete only now (identifiers are allocated on first sight).
	type kv struct {
		k string
		v int64
	}
	var tab []kv
	for k, v := range e.tb.Commit {
		if k != "" {
			tab = append(tab, kv{k, v})
		}
	}
	sort.Slice(tab, func(a, b int) bool { return tab[a].v < tab[b].v })
	var tItems []string
	for _, x := range tab {
		tItems = append(tItems, "("+hexLit([]byte(x.k))+", "+emit.Z(x.v)+")")
	}
	header := "(* generated by harness/cmd/gen_bridge; never edited *)\n" +
		"From Coq Require Import List ZArith NArith String.\nImport ListNotations.\n" +
		"From SV Require Import Base.Bytes Resolve.Op Resolve.Process Parser.Accept Resolve.FromView Resolve.FromBytes Corr.Resolve Corr.ViewOfBytes Corr.Bridge.\n" +
		"Local Open Scope list_scope.\n" +
		"Definition P : pproto := " + world.ProtoGallina(e.p) + ".\n" +
		"Definition T : list (bytes * Z) := [\n  " + strings.Join(tItems, ";\n  ") + "].\n"
	write := func(prefix, typ, check string, cs []caseText, perFile int) int {
		nFiles := (len(cs) + perFile - 1) / perFile
		// spread by size: largest first, always into the lightest file
		order := make([]int, len(cs))
		for i := range order {
			order[i] = i
		}
		sort.SliceStable(order, func(a, b int) bool { return len(cs[order[a]].text) > len(cs[order[b]].text) })
		files := make([][]int, nFiles)
		load := make([]int, nFiles)
		for _, ci := range order {
			best := 0
			for f := range files {
				if load[f] < load[best] {
					best = f
				}
			}
			files[best] = append(files[best], ci)
			load[best] += len(cs[ci].text) + 2000
		}
		lo := 0
		df, err := os.Create(filepath.Join(*outDir, prefix+".descs.jsonl"))
		world.Must(err)
		enc := json.NewEncoder(df)
		for s, idx := range files {
			sort.Ints(idx)
			var sb strings.Builder
			sb.WriteString(header)
			sb.WriteString(fmt.Sprintf("Definition base : nat := %d.\n", lo))
			sb.WriteString("Definition cases : list " + typ + " := [\n")
			for i, ci := range idx {
				sb.WriteString("  " + cs[ci].text)
				if i+1 < len(idx) {
					sb.WriteString(";")
				}
				sb.WriteString("\n")
				world.Must(enc.Encode(cs[ci].desc))
			}
			sb.WriteString("].\n")
			sb.WriteString("Definition M := Eval vm_compute in " + check + " base cases.\nPrint M.\n")
			world.Must(os.WriteFile(filepath.Join(*outDir, fmt.Sprintf("%s_%03d.v", prefix, s)), []byte(sb.String()), 0o644))
			lo += len(idx)
		}
		df.Close()
		return nFiles
	}
	if perFile == 0 { // quick: one wave on 16 cores (an operation costs ~0.15 s of coqc time, a history ~1 s)
		perFile = (len(bcases) + 9) / 10
		hPerFile = (len(hcases) + 5) / 6
	}
	nb := write("BR", "bcase", "b_mismatches", bcases, perFile)
	nh := write("BH", "hcase", "h_mismatches", hcases, hPerFile)
	logf("gen_bridge: %d operations in %d files, %d histories in %d files, table of %d commitments\n", len(bcases), nb, len(hcases), nh, len(tab))
	sj, _ := json.Marshal(map[string]interface{}{"histograms": hist, "samples": samples, "direct_violations": violations,
		"distinct_nontrivial": len(seen),
		"extra": map[string]interface{}{"tier": *tier, "seed": *seed, "operations": len(bcases), "distinct_operations": len(seen), "histories": len(hcases),
			"operation_files": nb, "history_files": nh, "commitment_table_size": len(tab), "example": example,
			"oracles": []string{"real_code_never_panics"}}})
	fmt.Println("STATS " + string(sj))
}

func letter(label string) string {
	parts := strings.SplitN(label, ":", 3)
	if parts[0] == "forged" && len(parts) == 3 {
		return "forged:" + parts[2]
	}
	if parts[0] == "fork" || parts[0] == "cycle" || parts[0] == "ext" || parts[0] == "variant" {
		return label
	}
	return parts[0]
}
