// Truly concurrent soak of the batch writer under the race detector (property C16).
//
// usage: gen_writer_race -out <dir> -seed <n> -tier quick|thorough
// build: CGO_ENABLED=1 go build -race -tags verif -modfile ../.build/go.mod -o <bin> ./cmd/gen_writer_race
//
// The parent process re-executes itself once per run (GORACE="halt_on_error=1 exitcode=66"), so that
// a data race report, a panic or a hang of one run becomes a direct violation with the child's
// stderr tail instead of a crash of the generator.  Each child starts a REAL batch.Writer (Start(),
// real batch-timeout and monitor tickers of a few milliseconds) over the real cutter, the real
// opqueue.MemQueue, the real txnprovider.OperationHandler writing to a CAS that fails at random and
// an anchor writer that fails at random and records every successful anchor; 4-16 client goroutines
// call Add concurrently.  After the clients have finished the writer must drain; then Stop() and the
// oracles, all evaluated on the implementation alone:
//
//	every accepted operation (Add returned nil) is in exactly one successfully anchored batch or was
//	discarded as expired; nothing anchored or discarded twice; only operations expired by construction
//	are discarded; no batch above MaxOperationCount; no batch mixing protocol versions; at most one
//	operation per DID in a batch; operations of one client leave the queue in the order of its Add
//	calls; a failed batch is the prefix of the next batch handed to the handler (it returned to the
//	head of the queue in its order); the writer drains within a bound; no data race; no panic.
//
// No Coq case files are written: this generator has no model side.  Goroutine scheduling is not
// reproducible; every violation carries the run's seed and parameters.
// Last stdout line: STATS {json}.
package main

import (
	"bytes"
	"encoding/json"
	"errors"
	"flag"
	"fmt"
	"math/rand"
	"os"
	"os/exec"
	"path/filepath"
	"runtime/debug"
	"sort"
	"strings"
	"sync"
	"sync/atomic"
	"time"

	"github.com/trustbloc/logutil-go/pkg/log"

	"github.com/trustbloc/sidetree-core-go/pkg/api/operation"
	"github.com/trustbloc/sidetree-core-go/pkg/api/protocol"
	"github.com/trustbloc/sidetree-core-go/pkg/api/txn"
	"github.com/trustbloc/sidetree-core-go/pkg/batch"
	"github.com/trustbloc/sidetree-core-go/pkg/batch/cutter"
	"github.com/trustbloc/sidetree-core-go/pkg/batch/opqueue"
	"github.com/trustbloc/sidetree-core-go/pkg/mocks"
	"github.com/trustbloc/sidetree-core-go/pkg/versions/1_0/operationparser"

	"verif/harness/internal/world"
)

const raceExit = 66

// ---- parameters of one run (all derived from the run seed) -----------------------------------

type params struct {
	Seed          int64   `json:"seed"`
	Mode          string  `json:"mode"` // soak | stop_inflight | probe
	Max           uint    `json:"max_operation_count"`
	Clients       int     `json:"clients"`
	OpsPerClient  int     `json:"ops_per_client"`
	DIDs          int     `json:"dids"`
	PCAS          float64 `json:"p_cas_write_fails"`
	PAnchor       float64 `json:"p_anchor_write_fails"`
	BatchTimeout  int     `json:"batch_timeout_us"`
	Monitor       int     `json:"monitor_interval_us"`
	SleepMax      int     `json:"client_sleep_max_us"`
	Versions      string  `json:"versions"` // single | per_client_switch | global_switch
	FaultsInDrain bool    `json:"faults_during_drain"`
	PExpired      float64 `json:"p_expired"`
}

func genParams(seed int64, mode string) params {
	r := rand.New(rand.NewSource(seed))
	p := params{Seed: seed, Mode: mode}
	p.Max = uint(2 + r.Intn(5))
	p.Clients = 4 + r.Intn(13)
	p.OpsPerClient = 3 + r.Intn(12)
	p.DIDs = 2 + r.Intn(4)
	p.PCAS = []float64{0, 0.01, 0.03, 0.08}[r.Intn(4)]
	p.PAnchor = []float64{0, 0.05, 0.2, 0.4}[r.Intn(4)]
	p.BatchTimeout = 1500 + r.Intn(9000)
	p.Monitor = 500 + r.Intn(3000)
	p.SleepMax = []int{0, 200, 1000, 3000}[r.Intn(4)]
	p.Versions = []string{"single", "per_client_switch", "per_client_switch", "global_switch"}[r.Intn(4)]
	p.FaultsInDrain = r.Intn(2) == 0
	p.PExpired = []float64{0.05, 0.15, 0.3}[r.Intn(3)]
	if mode == "stop_inflight" {
		p.DIDs = 1 + r.Intn(2) // many operations per DID: every batch defers operations
		p.Max = uint(4 + r.Intn(4))
		p.PCAS, p.PAnchor = 0, 0
		p.SleepMax = 200
		p.OpsPerClient = 10 + r.Intn(10)
	}
	return p
}

// ---- request bank (as cmd/sv/c16.go buildWriterBank, without the not-yet-valid operation that
// makes the handler reject the whole batch for ever) ----------------------------------------------

type wOp struct {
	did     int
	ty      operation.Type
	req     []byte
	suffix  string
	expired bool
}

func buildBank(kp *world.KeyPool, nDID int) (live, expired []wOp) {
	for i := 0; i < nDID; i++ {
		rec, upd, n1, n2 := kp.Keys[(4*i)%len(kp.Keys)], kp.Keys[(4*i+1)%len(kp.Keys)], kp.Keys[(4*i+2)%len(kp.Keys)], kp.Keys[(4*i+3)%len(kp.Keys)]
		c := world.Build(world.Spec{Type: operation.TypeCreate, NextUpd: upd.Commitment(world.SHA256), NextRec: rec.Commitment(world.SHA256), DeltaID: int64(10 + i)})
		sfx := c.UniqueSuffix
		live = append(live, wOp{did: i + 1, ty: operation.TypeCreate, req: c.Request, suffix: sfx})
		u := world.Build(world.Spec{Type: operation.TypeUpdate, Suffix: sfx, RevealKey: upd, SignedKey: upd, SignWith: upd, NextUpd: n1.Commitment(world.SHA256), DeltaID: int64(100 + i)})
		live = append(live, wOp{did: i + 1, ty: operation.TypeUpdate, req: u.Request, suffix: sfx})
		ue := world.Build(world.Spec{Type: operation.TypeUpdate, Suffix: sfx, RevealKey: upd, SignedKey: upd, SignWith: upd, NextUpd: n1.Commitment(world.SHA256), DeltaID: int64(200 + i), From: 424242, Until: 424243})
		expired = append(expired, wOp{did: i + 1, ty: operation.TypeUpdate, req: ue.Request, suffix: sfx, expired: true})
		r := world.Build(world.Spec{Type: operation.TypeRecover, Suffix: sfx, RevealKey: rec, SignedKey: rec, SignWith: rec, NextUpd: n1.Commitment(world.SHA256), NextRec: n2.Commitment(world.SHA256), DeltaID: int64(300 + i)})
		live = append(live, wOp{did: i + 1, ty: operation.TypeRecover, req: r.Request, suffix: sfx})
		dd := world.Build(world.Spec{Type: operation.TypeDeactivate, Suffix: sfx, RevealKey: rec, SignedKey: rec, SignWith: rec})
		live = append(live, wOp{did: i + 1, ty: operation.TypeDeactivate, req: dd.Request, suffix: sfx})
	}
	return live, expired
}

// expiry is signalled through the anchoring window: anchorFrom == 424242 means "expired"
type expiryValidator struct{}

func (expiryValidator) Validate(from, _ int64) error {
	if from == 424242 {
		return operationparser.ErrOperationExpired
	}
	return nil
}

// ---- instrumented collaborators (pass-through; everything under one mutex) ---------------------

type prepRec struct {
	Seq        int     `json:"seq"`
	Genesis    uint64  `json:"handler_genesis"`
	IDs        []int64 `json:"ids"`
	Expired    []int64 `json:"expired,omitempty"`
	Additional []int64 `json:"additional,omitempty"`
	OK         bool    `json:"ok"`
	Anchor     string  `json:"-"`
	Anchored   int     `json:"anchored"` // 0 not attempted, 1 written, -1 anchor write failed, 2 nothing to anchor (every operation expired)
}

type anchRec struct {
	Prep     int      `json:"prep"`
	Version  uint64   `json:"version"`
	Refs     []string `json:"refs"`
	Included []int64  `json:"included"`
}

type recorder struct {
	mu       sync.Mutex
	rng      *rand.Rand
	faults   bool
	pCAS     float64
	pAnchor  float64
	preps    []*prepRec
	anchors  []anchRec
	last     *prepRec
	settled  int
	casFail  int
	internal []string // violations detected inside the collaborators
	// CAS write failures that did not fail the batch being prepared
	casIgnored []string
}

func opID(q *operation.QueuedOperation) int64 {
	for _, p := range q.Properties {
		if p.Key == "verif-id" {
			return p.Value.(int64)
		}
	}
	return -1
}

func idsOf(ops []*operation.QueuedOperation) []int64 {
	out := make([]int64, 0, len(ops))
	for _, o := range ops {
		out = append(out, opID(o))
	}
	return out
}

type failingCAS struct {
	inner *mocks.MockCasClient
	rec   *recorder
}

func (c *failingCAS) Write(b []byte) (string, error) {
	c.rec.mu.Lock()
	fail := c.rec.faults && c.rec.rng.Float64() < c.rec.pCAS
	if fail {
		c.rec.casFail++
	}
	c.rec.mu.Unlock()
	if fail {
		return "", errors.New("injected CAS write failure")
	}
	return c.inner.Write(b)
}

func (c *failingCAS) Read(a string) ([]byte, error) { return c.inner.Read(a) }

type recHandler struct {
	inner   protocol.OperationHandler
	genesis uint64
	rec     *recorder
}

func (h *recHandler) PrepareTxnFiles(ops []*operation.QueuedOperation) (*protocol.AnchoringInfo, error) {
	h.rec.mu.Lock()
	casFailedBefore := h.rec.casFail
	h.rec.mu.Unlock()
	info, err := h.inner.PrepareTxnFiles(ops)
	h.rec.mu.Lock()
	defer h.rec.mu.Unlock()
	// CAS writes happen only inside this call (one writer goroutine): a failed write must fail the batch
	if err == nil && h.rec.casFail > casFailedBefore {
		h.rec.casIgnored = append(h.rec.casIgnored, fmt.Sprintf("%d CAS write(s) failed while batch %v was prepared and PrepareTxnFiles reported success", h.rec.casFail-casFailedBefore, idsOf(ops)))
	}
	p := &prepRec{Seq: len(h.rec.preps), Genesis: h.genesis, IDs: idsOf(ops), OK: err == nil}
	if err == nil {
		p.Expired = idsOf(info.ExpiredOperations)
		p.Additional = idsOf(info.AdditionalOperations)
		p.Anchor = info.AnchorString
		if info.AnchorString == "" && len(info.ExpiredOperations) == len(ops) {
			// every operation of the batch was discarded as expired: the handler prepares nothing and the writer
			// commits the batch without an anchor write
			p.Anchored = 2
			h.rec.settled += len(p.Expired)
		}
	}
	h.rec.preps = append(h.rec.preps, p)
	h.rec.last = p
	return info, err
}

type recAnchor struct {
	rec *recorder
	// self-test of the oracles: every third successful anchor write is recorded and then reported to
	// the writer as failed, so its batch is anchored again
	lie bool
	n   int
}

func (a *recAnchor) WriteAnchor(anchor string, _ []*protocol.AnchorDocument, refs []*operation.Reference, pv uint64) error {
	a.rec.mu.Lock()
	defer a.rec.mu.Unlock()
	p := a.rec.last
	if p == nil || !p.OK || p.Anchored != 0 || p.Anchor != anchor {
		a.rec.internal = append(a.rec.internal, fmt.Sprintf("WriteAnchor(%q) does not follow a successful PrepareTxnFiles of that anchor string", anchor))
		return errors.New("anchor without prepare")
	}
	if a.rec.faults && a.rec.rng.Float64() < a.rec.pAnchor {
		p.Anchored = -1
		return errors.New("injected anchor write failure")
	}
	p.Anchored = 1
	skip := map[int64]int{}
	for _, id := range p.Expired {
		skip[id]++
	}
	for _, id := range p.Additional {
		skip[id]++
	}
	var inc []int64
	for _, id := range p.IDs {
		if skip[id] > 0 {
			skip[id]--
			continue
		}
		inc = append(inc, id)
	}
	var rs []string
	for _, r := range refs {
		rs = append(rs, r.UniqueSuffix+"|"+string(r.Type))
	}
	a.rec.anchors = append(a.rec.anchors, anchRec{Prep: p.Seq, Version: pv, Refs: rs, Included: inc})
	a.rec.settled += len(inc) + len(p.Expired)
	a.n++
	if a.lie && a.n%3 == 0 {
		return errors.New("self-test: recorded as written, reported as failed")
	}
	return nil
}

func (a *recAnchor) Read(int) (bool, *txn.SidetreeTxn) { return false, nil }

type wContext struct {
	pc protocol.Client
	a  batch.AnchorWriter
	q  cutter.OperationQueue
}

func (c *wContext) Protocol() protocol.Client             { return c.pc }
func (c *wContext) Anchor() batch.AnchorWriter            { return c.a }
func (c *wContext) OperationQueue() cutter.OperationQueue { return c.q }

// ---- one run (child process) ----------------------------------------------------------------

type violation struct {
	Oracle string      `json:"oracle"`
	What   string      `json:"what"`
	Case   interface{} `json:"case"`
}

type planned struct {
	id    int64
	op    wOp
	ver   uint64 // 0: decided at Add time from the global switch
	sleep time.Duration
}

type acceptedOp struct {
	id     int64
	client int
	index  int
	op     wOp
	ver    uint64
}

type runResult struct {
	Params       params         `json:"params"`
	Accepted     int            `json:"accepted"`
	Rejected     int            `json:"rejected_after_stop"`
	Prepares     int            `json:"prepares"`
	PrepFailed   int            `json:"prepare_failed"`
	AnchorFailed int            `json:"anchor_failed"`
	CASFailed    int            `json:"cas_write_failed"`
	Batches      int            `json:"batches_anchored"`
	Anchored     int            `json:"operations_anchored"`
	Discarded    int            `json:"operations_discarded_expired"`
	AllExpired   int            `json:"batches_all_expired_committed_without_anchor"`
	AllExpSizes  map[string]int `json:"all_expired_batch_sizes"`
	Deferred     int            `json:"operations_deferred"`
	Boundary     int            `json:"batches_followed_by_other_version"`
	InQueue      int            `json:"left_in_queue"`
	Lost         []int64        `json:"lost,omitempty"`
	DrainMs      int64          `json:"drain_ms"`
	BatchSizes   map[string]int `json:"batch_sizes"`
	CutFull      int            `json:"cuts_of_max_size"`
	CutSmall     int            `json:"cuts_below_max_size"`
	Violations   []violation    `json:"violations"`
}

func runChild(p params) runResult {
	res := runResult{Params: p, BatchSizes: map[string]int{}, AllExpSizes: map[string]int{}, Violations: []violation{}}
	rng := rand.New(rand.NewSource(p.Seed*7919 + 13))
	kp := world.NewKeyPool(12)
	live, expired := buildBank(kp, p.DIDs)

	rec := &recorder{rng: rand.New(rand.NewSource(p.Seed*31 + 7)), faults: true, pCAS: p.PCAS, pAnchor: p.PAnchor}
	cas := &failingCAS{inner: mocks.NewMockCasClient(nil), rec: rec}
	q := &trackQueue{inner: &opqueue.MemQueue{}}
	versions := []uint64{100}
	if p.Versions != "single" {
		versions = []uint64{100, 200}
	}
	cl := &world.Client{}
	for _, g := range versions {
		pr := world.DefaultProtocol()
		pr.GenesisTime = g
		pr.MaxOperationCount = p.Max
		v := world.NewVersion(fmt.Sprint(g), pr, world.VersionOpts{CAS: cas, ParserOpts: []operationparser.Option{operationparser.WithAnchorTimeValidator(expiryValidator{})}})
		v.HandlerOverride = &recHandler{inner: v.Handler, genesis: g, rec: rec}
		cl.Versions = append(cl.Versions, v)
	}
	w, err := batch.New("did:sidetree", &wContext{pc: cl, a: &recAnchor{rec: rec, lie: p.Mode == "selftest_dup"}, q: q},
		batch.WithBatchTimeout(time.Duration(p.BatchTimeout)*time.Microsecond),
		batch.WithMonitorInterval(time.Duration(p.Monitor)*time.Microsecond))
	world.Must(err)

	// plans (deterministic in the seed)
	plans := make([][]planned, p.Clients)
	for c := range plans {
		sw := p.OpsPerClient
		if p.Versions == "per_client_switch" {
			sw = rng.Intn(p.OpsPerClient + 1)
		}
		for k := 0; k < p.OpsPerClient; k++ {
			pl := planned{id: int64(c)*100000 + int64(k) + 1}
			if rng.Float64() < p.PExpired {
				pl.op = expired[rng.Intn(len(expired))]
			} else {
				pl.op = live[rng.Intn(len(live))]
			}
			switch p.Versions {
			case "single":
				pl.ver = 100
			case "per_client_switch":
				pl.ver = 100
				if k >= sw {
					pl.ver = 200
				}
			default:
				pl.ver = 0
			}
			if p.SleepMax > 0 {
				pl.sleep = time.Duration(rng.Intn(p.SleepMax)) * time.Microsecond
			}
			plans[c] = append(plans[c], pl)
		}
	}

	var globalVer uint64 = 100
	var added int64
	total := int64(p.Clients * p.OpsPerClient)
	w.Start()

	acc := make([][]acceptedOp, p.Clients)
	rejected := make([]int, p.Clients)
	var wg sync.WaitGroup
	for c := 0; c < p.Clients; c++ {
		wg.Add(1)
		go func(c int) {
			defer wg.Done()
			for k, pl := range plans[c] {
				ver := pl.ver
				if ver == 0 {
					ver = atomic.LoadUint64(&globalVer)
				}
				e := w.Add(&operation.QueuedOperation{Type: pl.op.ty, OperationRequest: pl.op.req, UniqueSuffix: pl.op.suffix, Namespace: "did:sidetree",
					Properties: []operation.Property{{Key: "verif-id", Value: pl.id}}}, ver)
				if e == nil {
					acc[c] = append(acc[c], acceptedOp{id: pl.id, client: c, index: k, op: pl.op, ver: ver})
				} else {
					rejected[c]++
				}
				n := atomic.AddInt64(&added, 1)
				if p.Versions == "global_switch" && n == total/2 {
					atomic.StoreUint64(&globalVer, 200)
				}
				if pl.sleep > 0 {
					time.Sleep(pl.sleep)
				}
			}
		}(c)
	}

	stoppedEarly := false
	if p.Mode == "stop_inflight" {
		// stop while operations are in flight
		target := total / 3
		for atomic.LoadInt64(&added) < target {
			time.Sleep(200 * time.Microsecond)
		}
		w.Stop()
		stoppedEarly = true
	}
	wg.Wait()

	var accepted []acceptedOp
	for c := range acc {
		accepted = append(accepted, acc[c]...)
		res.Rejected += rejected[c]
	}
	res.Accepted = len(accepted)

	rec.mu.Lock()
	rec.faults = p.FaultsInDrain
	rec.mu.Unlock()

	// drain: poll until everything accepted is settled, or the bound
	t0 := time.Now()
	bound := 10*time.Second + time.Duration(len(accepted))*150*time.Millisecond
	bound2 := 5*time.Second + time.Duration(len(accepted))*100*time.Millisecond
	drained := false
	if !stoppedEarly {
		for time.Since(t0) < bound {
			rec.mu.Lock()
			s := rec.settled
			rec.mu.Unlock()
			if s >= len(accepted) {
				drained = true
				break
			}
			time.Sleep(300 * time.Microsecond)
		}
		res.DrainMs = time.Since(t0).Milliseconds()
		if !drained {
			// last resort: no more injected failures, a second bound
			rec.mu.Lock()
			rec.faults = false
			rec.mu.Unlock()
			t1 := time.Now()
			for time.Since(t1) < bound2 {
				rec.mu.Lock()
				s := rec.settled
				rec.mu.Unlock()
				if s >= len(accepted) {
					break
				}
				time.Sleep(300 * time.Microsecond)
			}
		}
		w.Stop()
	}
	// let the writer goroutine finish what it is doing: wait until the records are stable
	stable := 0
	lastN := -1
	// (after Stop the writer finishes the processAvailable call it is in, which may keep cutting full batches for a
	// while; a batch between Remove and Ack is in flight, not lost - so wait for real quiescence, bounded by time)
	quiesceDeadline := time.Now().Add(120 * time.Second)
	for stable < 60 && time.Now().Before(quiesceDeadline) {
		rec.mu.Lock()
		n := len(rec.preps)*1000003 + len(rec.anchors)
		rec.mu.Unlock()
		n += int(q.Len()) * 7
		if atomic.LoadInt32(&q.inflight) != 0 {
			// a batch has been removed from the queue and neither acknowledged nor returned yet: the writer goroutine is
			// still inside its processing step (it may simply not have been scheduled for a while on a loaded machine)
			stable, lastN = 0, -1
		} else if n == lastN {
			stable++
		} else {
			stable, lastN = 0, n
		}
		time.Sleep(time.Duration(p.BatchTimeout/4+250) * time.Microsecond)
	}

	// ---- oracles ----
	rec.mu.Lock()
	defer rec.mu.Unlock()
	viol := func(oracle, what string, detail interface{}) {
		if len(res.Violations) < 12 {
			res.Violations = append(res.Violations, violation{Oracle: oracle, What: what, Case: map[string]interface{}{"params": p, "detail": detail}})
		}
	}
	byID := map[int64]acceptedOp{}
	for _, a := range accepted {
		byID[a.id] = a
	}
	if res.Rejected > 0 && !stoppedEarly {
		viol("add_accepted_while_running", fmt.Sprintf("%d Add calls returned an error while the writer was running", res.Rejected), nil)
	}
	for _, m := range rec.internal {
		viol("anchor_follows_prepare", m, nil)
	}
	for _, m := range rec.casIgnored {
		viol("cas_write_failure_fails_the_batch", m, nil)
	}
	anchoredIn := map[int64][]int{}
	discardedIn := map[int64][]int{}
	firstPrep := map[int64][2]int{}
	for i, pr := range rec.preps {
		res.Prepares++
		if !pr.OK {
			res.PrepFailed++
		}
		if pr.Anchored == -1 {
			res.AnchorFailed++
		}
		if pr.Anchored == 2 {
			// F16: every operation of the batch expired - committed without an anchor write
			res.AllExpired++
			res.AllExpSizes[fmt.Sprint(len(pr.IDs))]++
			if len(pr.Additional) != 0 || len(pr.Expired) != len(pr.IDs) {
				viol("all_expired_batch_defers_nothing", fmt.Sprintf("batch %v without anchor string: expired %v, additional %v", pr.IDs, pr.Expired, pr.Additional), pr)
			}
		}
		if pr.OK && pr.Anchor == "" && pr.Anchored != 2 {
			viol("no_anchor_string_only_when_every_operation_expired", fmt.Sprintf("batch %v: empty anchor string, expired %v", pr.IDs, pr.Expired), pr)
		}
		if pr.OK && pr.Anchor != "" && len(pr.Expired)+len(pr.Additional) >= len(pr.IDs) {
			viol("anchor_string_only_with_included_operations", fmt.Sprintf("batch %v: anchor string %q, expired %v, additional %v", pr.IDs, pr.Anchor, pr.Expired, pr.Additional), pr)
		}
		if uint(len(pr.IDs)) == p.Max {
			res.CutFull++
		} else {
			res.CutSmall++
		}
		if uint(len(pr.IDs)) > p.Max {
			viol("batch_not_larger_than_max", fmt.Sprintf("batch of %d operations handed to the handler, MaxOperationCount %d", len(pr.IDs), p.Max), pr)
		}
		if len(pr.IDs) == 0 {
			viol("batch_not_empty", "PrepareTxnFiles called without operations", pr)
			continue
		}
		v0 := byID[pr.IDs[0]].ver
		for pos, id := range pr.IDs {
			a, ok := byID[id]
			if !ok {
				viol("batch_contains_only_accepted_operations", fmt.Sprintf("operation %d in a batch was never accepted", id), pr)
				continue
			}
			if a.ver != v0 {
				viol("batch_does_not_mix_protocol_versions", fmt.Sprintf("batch %v contains operations queued under versions %d and %d", pr.IDs, v0, a.ver), pr)
				break
			}
			if _, seen := firstPrep[id]; !seen {
				firstPrep[id] = [2]int{i, pos}
			}
		}
		if pr.Genesis != v0 {
			viol("batch_processed_by_the_handler_of_its_version", fmt.Sprintf("batch queued under version %d prepared by the handler of version %d", v0, pr.Genesis), pr)
		}
		// a failed batch returned to the head of the queue in its order: it is a prefix of the next batch
		if (!pr.OK || pr.Anchored == -1) && i+1 < len(rec.preps) {
			nx := rec.preps[i+1].IDs
			okp := len(nx) >= len(pr.IDs)
			for k := 0; okp && k < len(pr.IDs); k++ {
				okp = nx[k] == pr.IDs[k]
			}
			if !okp {
				viol("failed_batch_returns_to_head_in_order", fmt.Sprintf("failed batch %v, next batch %v", pr.IDs, nx), nil)
			}
		}
		if i+1 < len(rec.preps) && len(rec.preps[i+1].IDs) > 0 && byID[rec.preps[i+1].IDs[0]].ver != v0 {
			res.Boundary++
		}
		if pr.OK && (pr.Anchored == 1 || pr.Anchored == 2) {
			res.Deferred += len(pr.Additional)
			for _, id := range pr.Expired {
				discardedIn[id] = append(discardedIn[id], i)
				if !byID[id].op.expired {
					viol("only_expired_operations_are_discarded", fmt.Sprintf("operation %d is not expired by construction but was discarded", id), pr)
				}
			}
		}
	}
	for _, an := range rec.anchors {
		res.Batches++
		res.BatchSizes[fmt.Sprint(len(an.Included))]++
		if uint(len(an.Refs)) > p.Max {
			viol("batch_not_larger_than_max", fmt.Sprintf("%d operation references anchored, MaxOperationCount %d", len(an.Refs), p.Max), an)
		}
		var want []string
		sfx := map[string]bool{}
		for _, id := range an.Included {
			anchoredIn[id] = append(anchoredIn[id], an.Prep)
			a := byID[id]
			want = append(want, a.op.suffix+"|"+string(a.op.ty))
			if a.op.expired {
				viol("expired_operations_are_not_anchored", fmt.Sprintf("operation %d is expired by construction but was anchored", id), an)
			}
			if a.ver != an.Version {
				viol("batch_does_not_mix_protocol_versions", fmt.Sprintf("operation %d queued under version %d anchored with protocol version %d", id, a.ver, an.Version), an)
			}
			if sfx[a.op.suffix] {
				viol("one_operation_per_did_in_a_batch", fmt.Sprintf("two operations of DID suffix %s in one anchored batch", a.op.suffix), an)
			}
			sfx[a.op.suffix] = true
		}
		got := append([]string{}, an.Refs...)
		sort.Strings(got)
		sort.Strings(want)
		if strings.Join(got, ",") != strings.Join(want, ",") {
			viol("anchored_references_are_the_included_operations", fmt.Sprintf("references %v, included operations %v", got, want), an)
		}
	}
	// left in the queue
	inQueue := map[int64]int{}
	items, _ := q.Peek(q.Len())
	for _, it := range items {
		inQueue[opID(&it.QueuedOperation)]++
	}
	res.InQueue = len(items)
	for _, a := range accepted {
		na, nd := len(anchoredIn[a.id]), len(discardedIn[a.id])
		if na > 0 {
			res.Anchored++
		}
		if nd > 0 {
			res.Discarded++
		}
		switch {
		case na+nd > 1:
			viol("nothing_anchored_twice", fmt.Sprintf("operation %d: anchored in batches %v, discarded in batches %v", a.id, anchoredIn[a.id], discardedIn[a.id]), nil)
		case na+nd == 1 && inQueue[a.id] > 0:
			viol("nothing_anchored_twice", fmt.Sprintf("operation %d is settled and still in the queue", a.id), nil)
		case na+nd == 0 && inQueue[a.id] > 1:
			viol("nothing_duplicated", fmt.Sprintf("operation %d is %d times in the queue", a.id, inQueue[a.id]), nil)
		case na+nd == 0 && inQueue[a.id] == 0:
			res.Lost = append(res.Lost, a.id)
		}
	}
	if !stoppedEarly {
		if len(res.Lost) > 0 {
			viol("every_accepted_operation_is_anchored_or_discarded", fmt.Sprintf("%d accepted operations are neither anchored, discarded as expired nor in the queue: %v", len(res.Lost), res.Lost), nil)
		}
		if res.InQueue > 0 {
			var left []int64
			for id := range inQueue {
				left = append(left, id)
			}
			viol("writer_drains_within_bound", fmt.Sprintf("%d operations still queued %v after the clients stopped (the last %v without injected failures)", res.InQueue, bound+bound2, bound2), left)
		}
	}
	// FIFO per client: operations of one client are first cut in the order of its Add calls
	for c := range acc {
		for k := 1; k < len(acc[c]); k++ {
			a, b := acc[c][k-1], acc[c][k]
			fa, oka := firstPrep[a.id]
			fb, okb := firstPrep[b.id]
			if okb && (!oka || fa[0] > fb[0] || (fa[0] == fb[0] && fa[1] > fb[1])) {
				viol("operations_leave_the_queue_in_fifo_order", fmt.Sprintf("client %d added %d before %d; first cut at (batch,position) %v and %v (cut at all: %v)", c, a.id, b.id, fa, fb, oka), nil)
				break
			}
		}
	}
	res.CASFailed = rec.casFail
	return res
}

// ---- deterministic confirmation of the stop_inflight finding -------------------------------------
// Three operations of one DID are accepted; the writer is stopped while it prepares their batch (the
// Stop() is issued from inside the handler call, i.e. at a point where a concurrent Stop() can land);
// the step is driven synchronously through the verification hook VerifStep.
type stopHandler struct {
	inner protocol.OperationHandler
	stop  func()
}

func (h *stopHandler) PrepareTxnFiles(ops []*operation.QueuedOperation) (*protocol.AnchoringInfo, error) {
	h.stop()
	return h.inner.PrepareTxnFiles(ops)
}

func stopDemo() (out map[string]interface{}) {
	defer func() {
		if r := recover(); r != nil {
			out = map[string]interface{}{"panic": fmt.Sprint(r)}
		}
	}()
	kp := world.NewKeyPool(12)
	live, _ := buildBank(kp, 1)
	rec := &recorder{rng: rand.New(rand.NewSource(1))}
	q := &opqueue.MemQueue{}
	pr := world.DefaultProtocol()
	pr.GenesisTime = 100
	pr.MaxOperationCount = 5
	v := world.NewVersion("100", pr, world.VersionOpts{CAS: mocks.NewMockCasClient(nil)})
	var w *batch.Writer
	v.HandlerOverride = &stopHandler{inner: &recHandler{inner: v.Handler, genesis: 100, rec: rec}, stop: func() { w.Stop() }}
	var err error
	w, err = batch.New("did:sidetree", &wContext{pc: &world.Client{Versions: []*world.Version{v}}, a: &recAnchor{rec: rec}, q: q},
		batch.WithBatchTimeout(time.Hour), batch.WithMonitorInterval(time.Hour))
	world.Must(err)
	accepted := 0
	for i := 0; i < 3; i++ {
		o := live[i]
		if w.Add(&operation.QueuedOperation{Type: o.ty, OperationRequest: o.req, UniqueSuffix: o.suffix, Namespace: "did:sidetree",
			Properties: []operation.Property{{Key: "verif-id", Value: int64(i + 1)}}}, 100) == nil {
			accepted++
		}
	}
	pending := w.VerifStep(true)
	anchored := []int64{}
	for _, a := range rec.anchors {
		anchored = append(anchored, a.Included...)
	}
	deferred := []int64{}
	for _, p := range rec.preps {
		deferred = append(deferred, p.Additional...)
	}
	return map[string]interface{}{"accepted": accepted, "anchored_ids": anchored, "deferred_by_handler_ids": deferred,
		"queue_length_after": q.Len(), "pending_returned": pending, "lost": accepted - len(anchored) - int(q.Len())}
}

// ---- development aid (not used by the pipeline): differential cases for Writer/Liveness.v -------
// -emit-liveness-cases <file.v>: drives the real writer one tick at a time through VerifStep (no
// goroutines), records the queue / handler / anchor calls of every tick and writes a Coq file that
// compares them with SV.Writer.LivenessLemmas.tick_events (the thread's continuation predicted by
// the model) under the same failure oracle.

// trackQueue is the library's in-memory queue plus a counter of batches that are in flight (removed by the cutter and
// neither acknowledged nor returned yet); only the harness's end-of-run quiescence test reads the counter.
type trackQueue struct {
	inner    *opqueue.MemQueue
	inflight int32
}

func (q *trackQueue) Add(d *operation.QueuedOperation, pv uint64) (uint, error) {
	return q.inner.Add(d, pv)
}
func (q *trackQueue) Peek(n uint) (operation.QueuedOperationsAtTime, error) { return q.inner.Peek(n) }
func (q *trackQueue) Len() uint                                             { return q.inner.Len() }
func (q *trackQueue) Remove(n uint) (operation.QueuedOperationsAtTime, func() uint, func(error), error) {
	ops, ack, nack, err := q.inner.Remove(n)
	if err != nil {
		return ops, ack, nack, err
	}
	atomic.AddInt32(&q.inflight, 1)
	return ops, func() uint {
			defer atomic.AddInt32(&q.inflight, -1)
			return ack()
		}, func(e error) {
			defer atomic.AddInt32(&q.inflight, -1)
			nack(e)
		}, nil
}

type evQueue struct {
	inner *opqueue.MemQueue
	ev    *[]string
}

func (q *evQueue) Add(d *operation.QueuedOperation, pv uint64) (uint, error) {
	*q.ev = append(*q.ev, "EReAdd")
	return q.inner.Add(d, pv)
}
func (q *evQueue) Peek(n uint) (operation.QueuedOperationsAtTime, error) {
	*q.ev = append(*q.ev, "EPeek")
	return q.inner.Peek(n)
}
func (q *evQueue) Len() uint {
	*q.ev = append(*q.ev, "ELen")
	return q.inner.Len()
}
func (q *evQueue) Remove(n uint) (operation.QueuedOperationsAtTime, func() uint, func(error), error) {
	*q.ev = append(*q.ev, "ERemove")
	ops, ack, nack, err := q.inner.Remove(n)
	return ops, func() uint { *q.ev = append(*q.ev, "EAck"); return ack() },
		func(e error) { *q.ev = append(*q.ev, "ENack"); nack(e) }, err
}

type evHandler struct {
	inner protocol.OperationHandler
	ev    *[]string
	fail  func() bool
	noAnc *int // prepares that returned no anchor string (every operation expired, F16)
}

func (h *evHandler) PrepareTxnFiles(ops []*operation.QueuedOperation) (*protocol.AnchoringInfo, error) {
	if h.fail() {
		*h.ev = append(*h.ev, "EPrepare false []")
		return nil, errors.New("injected handler failure")
	}
	info, err := h.inner.PrepareTxnFiles(ops)
	if err != nil {
		panic("unexpected handler error: " + err.Error())
	}
	*h.ev = append(*h.ev, "EPrepare true []")
	if info.AnchorString == "" && h.noAnc != nil {
		*h.noAnc++
	}
	return info, nil
}

type evAnchor struct {
	ev   *[]string
	fail func() bool
	log  *[][]string
	ver  *[]uint64
}

func (a *evAnchor) WriteAnchor(_ string, _ []*protocol.AnchorDocument, refs []*operation.Reference, pv uint64) error {
	if a.fail() {
		*a.ev = append(*a.ev, "EAnchor false")
		return errors.New("injected anchor failure")
	}
	*a.ev = append(*a.ev, "EAnchor true")
	var rs []string
	for _, r := range refs {
		rs = append(rs, r.UniqueSuffix+"|"+string(r.Type))
	}
	sort.Strings(rs)
	*a.log = append(*a.log, rs)
	*a.ver = append(*a.ver, pv)
	return nil
}
func (a *evAnchor) Read(int) (bool, *txn.SidetreeTxn) { return false, nil }

func emitLivenessCases(path string, seed int64, n int) error {
	rng := rand.New(rand.NewSource(seed))
	kp := world.NewKeyPool(12)
	live, expired := buildBank(kp, 3)
	bank := append(append([]wOp{}, live...), expired...)
	tyCode := map[operation.Type]int{operation.TypeCreate: 1, operation.TypeUpdate: 2, operation.TypeRecover: 3, operation.TypeDeactivate: 4}
	var cases []string
	nNoAnchor := 0
	for ci := 0; ci < n; ci++ {
		max := uint(1 + rng.Intn(4))
		var ev []string
		var alog [][]string
		var aver []uint64
		kind, k := 0, 0
		failNow := func(want int) func() bool {
			return func() bool { return kind == want && len(alog) >= k }
		}
		q := &evQueue{inner: &opqueue.MemQueue{}, ev: &ev}
		cl := &world.Client{}
		for _, g := range []uint64{100, 200} {
			pr := world.DefaultProtocol()
			pr.GenesisTime = g
			pr.MaxOperationCount = max
			v := world.NewVersion(fmt.Sprint(g), pr, world.VersionOpts{CAS: mocks.NewMockCasClient(nil), ParserOpts: []operationparser.Option{operationparser.WithAnchorTimeValidator(expiryValidator{})}})
			v.HandlerOverride = &evHandler{inner: v.Handler, ev: &ev, fail: failNow(1), noAnc: &nNoAnchor}
			cl.Versions = append(cl.Versions, v)
		}
		w, err := batch.New("did:sidetree", &wContext{pc: cl, a: &evAnchor{ev: &ev, fail: failNow(2), log: &alog, ver: &aver}, q: q},
			batch.WithBatchTimeout(time.Hour), batch.WithMonitorInterval(time.Hour))
		if err != nil {
			return err
		}
		var nextID int64
		var expIDs []string
		idCode := map[int64]string{}
		curV := uint64(100)
		var ticks []string
		nt := 1 + rng.Intn(6)
		for t := 0; t < nt; t++ {
			var adds []string
			for a := rng.Intn(6); a > 0; a-- {
				if rng.Intn(5) == 0 {
					curV = 200
				}
				nextID++
				o := bank[rng.Intn(len(bank))]
				if o.expired {
					expIDs = append(expIDs, fmt.Sprintf("%d%%Z", nextID))
				}
				idCode[nextID] = fmt.Sprintf("%d", o.did*10+tyCode[o.ty])
				ev = nil
				if e := w.Add(&operation.QueuedOperation{Type: o.ty, OperationRequest: o.req, UniqueSuffix: o.suffix, Namespace: "did:sidetree",
					Properties: []operation.Property{{Key: "verif-id", Value: nextID}}}, curV); e != nil {
					return e
				}
				adds = append(adds, fmt.Sprintf("mkq %d %d %d %d", nextID, o.did, tyCode[o.ty], curV))
			}
			force := rng.Intn(3) > 0
			kind = rng.Intn(3)
			if rng.Intn(2) == 0 {
				kind = 0
			}
			k = len(alog) + rng.Intn(3)
			ev = nil
			w.VerifStep(force)
			items, _ := q.inner.Peek(q.inner.Len())
			var qs []string
			for _, it := range items {
				qs = append(qs, fmt.Sprintf("%d%%Z", opID(&it.QueuedOperation)))
			}
			ticks = append(ticks, fmt.Sprintf("Build_ltick [%s] %v %d%%nat %d%%nat [%s] [%s]", strings.Join(adds, "; "), force, kind, k, strings.Join(ev, "; "), strings.Join(qs, "; ")))
		}
		var logs []string
		for i, rs := range alog {
			var codes []string
			for _, rf := range rs {
				parts := strings.Split(rf, "|")
				for _, bo := range bank {
					if bo.suffix == parts[0] {
						codes = append(codes, fmt.Sprintf("%d%%Z", bo.did*10+tyCode[operation.Type(parts[1])]))
						break
					}
				}
			}
			sort.Strings(codes)
			logs = append(logs, fmt.Sprintf("(%d%%Z, [%s])", aver[i], strings.Join(codes, "; ")))
		}
		cases = append(cases, fmt.Sprintf("(* %d *) Build_lcase %d%%nat [%s]\n   [%s]\n   [%s]", ci, max, strings.Join(expIDs, "; "), strings.Join(ticks, ";\n    "), strings.Join(logs, "; ")))
	}
	var b strings.Builder
	b.WriteString(livenessPrelude)
	b.WriteString("Definition cases : list lcase := [\n" + strings.Join(cases, ";\n") + "].\n")
	b.WriteString("Definition M := Eval vm_compute in l_mismatches 0%nat cases.\nPrint M. (* expected: M = [] *)\n")
	b.WriteString("Definition NTicks := Eval vm_compute in fold_right (fun c n => (length (lc_ticks c) + n)%nat) 0%nat cases.\nPrint NTicks.\n")
	b.WriteString(fmt.Sprintf("(* prepares of the real handler that returned no anchor string (every operation expired): %d *)\n", nNoAnchor))
	b.WriteString("Definition NAllExpired := Eval vm_compute in fold_right (fun c n => (l_all_expired c + n)%nat) 0%nat cases.\nPrint NAllExpired.\n")
	fmt.Printf("all-expired prepares (real handler): %d\n", nNoAnchor)
	return os.WriteFile(path, []byte(b.String()), 0o644)
}

const livenessPrelude = `From Coq Require Import List ZArith Bool Arith.
From SV Require Import Writer.Machine Writer.Invariants Writer.LivenessLemmas Corr.Resolve Corr.Writer.
Import ListNotations.
Local Open Scope Z_scope.
Record ltick := { lt_adds : list qop; lt_force : bool; lt_kind : nat; lt_k : nat; lt_events : list event; lt_queue : list Z }.
Record lcase := { lc_max : nat; lc_expired : list Z; lc_ticks : list ltick; lc_log : list (Z * list Z) }.
(* the failure oracle of the harness: handler (kind 1) / anchor writer (kind 2) fail once k batches are anchored *)
Definition mk_oracle (ex : list Z) (kind k : nat) : oracle :=
  {| o_expired := fun _ => ex;
     o_ok := fun s => match wpc s, kind with
                      | AtPrepare _ _ _ _, 1%nat => Nat.ltb (length (anchored s)) k
                      | AtAnchor _ _ _ _ _, 2%nat => Nat.ltb (length (anchored s)) k
                      | _, _ => true end |}.
Definition ev_eqb (a b : event) : bool :=
  match a, b with
  | ETick f, ETick g => Bool.eqb f g
  | EPrepare x _, EPrepare y _ => Bool.eqb x y
  | EAnchor x, EAnchor y => Bool.eqb x y
  | ELen, ELen | EPeek, EPeek | ERemove, ERemove | EReAdd, EReAdd | EAck, EAck | ENack, ENack => true
  | _, _ => false end.
Fixpoint evs_eqb (a b : list event) : bool :=
  match a, b with [], [] => true | x :: a', y :: b' => ev_eqb x y && evs_eqb a' b' | _, _ => false end.
Fixpoint run_ticks (max : nat) (ex : list Z) (s : wstate) (l : list ltick) : bool * wstate :=
  match l with
  | [] => (true, s)
  | t :: r =>
    let s1 := run max s (adds (lt_adds t)) in
    let ev := tick_events max (mk_oracle ex (lt_kind t) (lt_k t)) (lt_force t) s1 in
    let s2 := run max s1 ev in
    (* the recorded trace does not contain the tick itself *)
    let ok := evs_eqb ev (ETick (lt_force t) :: lt_events t) && listZ_eqb (ids (queue s2)) (lt_queue t)
              && negb (stuck s2) && is_idle (wpc s2) in
    let '(okr, sf) := run_ticks max ex s2 r in (ok && okr, sf)
  end.
Definition l_check (c : lcase) : bool :=
  let '(ok, s) := run_ticks (lc_max c) (lc_expired c) (init []) (lc_ticks c) in
  ok && log_eqb (anchored s) (lc_log c).
Definition l_mismatches (base : nat) (l : list lcase) : list nat := mismatches_from l_check base l.
(* F16: batches the MODEL commits without an anchor write (EPrepare true directly followed by EAck in the predicted
   trace); must equal the number of prepares of the real handler that returned no anchor string *)
Fixpoint count_prep_ack (l : list event) : nat :=
  match l with
  | EPrepare true _ :: ((EAck :: _) as r) => S (count_prep_ack r)
  | _ :: r => count_prep_ack r
  | [] => 0%nat
  end.
Fixpoint ticks_all_expired (max : nat) (ex : list Z) (s : wstate) (l : list ltick) : nat :=
  match l with
  | [] => 0%nat
  | t :: r =>
    let s1 := run max s (adds (lt_adds t)) in
    let ev := tick_events max (mk_oracle ex (lt_kind t) (lt_k t)) (lt_force t) s1 in
    (count_prep_ack ev + ticks_all_expired max ex (run max s1 ev) r)%nat
  end.
Definition l_all_expired (c : lcase) : nat := ticks_all_expired (lc_max c) (lc_expired c) (init []) (lc_ticks c).
`

// deliberate data race: checks that a race report really ends the child with the race exit code
var probeVar int

func runProbe() {
	var wg sync.WaitGroup
	for i := 0; i < 2; i++ {
		wg.Add(1)
		go func(i int) {
			defer wg.Done()
			for k := 0; k < 1000; k++ {
				probeVar += i
			}
		}(i)
	}
	wg.Wait()
}

// ---- parent ---------------------------------------------------------------------------------

func raceBuilt() bool {
	bi, ok := debug.ReadBuildInfo()
	if !ok {
		return false
	}
	for _, s := range bi.Settings {
		if s.Key == "-race" && s.Value == "true" {
			return true
		}
	}
	return false
}

func tail(b []byte, n int) string {
	if len(b) > n {
		b = b[len(b)-n:]
	}
	return string(b)
}

type childOut struct {
	res      *runResult
	exit     int
	timedOut bool
	stderr   string
	raceRep  string
}

func spawn(seed int64, mode string, timeout time.Duration) childOut {
	cmd := exec.Command(os.Args[0], "-child", "-runseed", fmt.Sprint(seed), "-mode", mode)
	env := []string{}
	for _, e := range os.Environ() {
		if !strings.HasPrefix(e, "GORACE=") {
			env = append(env, e)
		}
	}
	cmd.Env = append(env, fmt.Sprintf("GORACE=halt_on_error=1 exitcode=%d atexit_sleep_ms=0", raceExit))
	var so, se bytes.Buffer
	cmd.Stdout, cmd.Stderr = &so, &se
	out := childOut{}
	if err := cmd.Start(); err != nil {
		out.exit = -1
		out.stderr = err.Error()
		return out
	}
	done := make(chan error, 1)
	go func() { done <- cmd.Wait() }()
	select {
	case err := <-done:
		if err != nil {
			if ee, ok := err.(*exec.ExitError); ok {
				out.exit = ee.ExitCode()
			} else {
				out.exit = -1
			}
		}
	case <-time.After(timeout):
		_ = cmd.Process.Kill()
		<-done
		out.timedOut = true
		out.exit = -2
	}
	out.stderr = tail(se.Bytes(), 6000)
	if i := bytes.Index(se.Bytes(), []byte("WARNING: DATA RACE")); i >= 0 {
		r := se.Bytes()[i:]
		if len(r) > 6000 {
			r = r[:6000]
		}
		out.raceRep = string(r)
	}
	for _, line := range strings.Split(so.String(), "\n") {
		if strings.HasPrefix(line, "RESULT ") {
			var r runResult
			if json.Unmarshal([]byte(line[7:]), &r) == nil {
				out.res = &r
			}
		}
	}
	return out
}

func firstN(l []int64, n int) []int64 {
	if len(l) > n {
		return l[:n]
	}
	return l
}

func bucket(n int, edges ...int) string {
	lo := 0
	for _, e := range edges {
		if n < e {
			return fmt.Sprintf("%d-%d", lo, e-1)
		}
		lo = e
	}
	return fmt.Sprintf(">=%d", lo)
}

func main() {
	outdir := flag.String("out", "", "output directory")
	seed := flag.Int64("seed", 1, "seed")
	tier := flag.String("tier", "quick", "quick|thorough")
	child := flag.Bool("child", false, "internal: run one soak run and print RESULT {json}")
	runseed := flag.Int64("runseed", 0, "internal")
	mode := flag.String("mode", "soak", "internal")
	emitCases := flag.String("emit-liveness-cases", "", "development aid: write differential cases for Writer/Liveness.v to this file and exit")
	flag.Parse()
	log.SetDefaultLevel(log.PANIC)
	if *emitCases != "" {
		n := 400
		if *tier == "thorough" {
			n = 3000
		}
		if err := emitLivenessCases(*emitCases, *seed, n); err != nil {
			fmt.Fprintln(os.Stderr, err)
			os.Exit(1)
		}
		return
	}

	if *child {
		if *mode == "probe" {
			runProbe()
			fmt.Println("RESULT {}")
			return
		}
		r := runChild(genParams(*runseed, *mode))
		b, _ := json.Marshal(r)
		fmt.Println("RESULT " + string(b))
		return
	}

	nSoak, nStop, parallel := 60, 8, 4
	if *tier == "thorough" {
		nSoak, nStop = 1150, 60
	}
	if *outdir != "" {
		_ = os.MkdirAll(*outdir, 0o755)
	}
	hist := map[string]map[string]int{}
	count := func(h, k string, n int) {
		if hist[h] == nil {
			hist[h] = map[string]int{}
		}
		hist[h][k] += n
	}
	violations := []violation{}
	addV := func(v violation) {
		if len(violations) < 25 {
			violations = append(violations, v)
		}
	}
	samples := []interface{}{}
	totals := map[string]int{}
	var runlog []string
	t0 := time.Now()

	// the race oracle must be able to fail: a deliberate race has to end a child with the race exit code
	probe := spawn(0, "probe", 60*time.Second)
	raceEffective := probe.exit == raceExit
	if !raceEffective {
		addV(violation{Oracle: "race_detector_is_active", What: fmt.Sprintf("a deliberate data race ended the probe child with exit code %d, expected %d: the binary is not built with -race (built with -race according to build info: %v)", probe.exit, raceExit, raceBuilt()),
			Case: map[string]interface{}{"stderr_tail": probe.stderr}})
	}

	// the oracles must be able to fail: a run whose anchor writer lies (written, but reported as failed)
	st := spawn(*seed+4242, "selftest_dup", 240*time.Second)
	selftest := false
	if st.res != nil {
		for _, v := range st.res.Violations {
			if v.Oracle == "nothing_anchored_twice" {
				selftest = true
			}
		}
	}
	if !selftest {
		addV(violation{Oracle: "oracle_selftest", What: "a run with an anchor writer that records a write and reports it as failed did not trip the exactly-once oracle",
			Case: map[string]interface{}{"exit": st.exit, "stderr_tail": st.stderr}})
	}

	master := rand.New(rand.NewSource(*seed))
	var stopFindings []interface{}
	type job struct {
		rs int64
		m  string
		co childOut
	}
	jobs := make([]*job, nSoak+nStop)
	for i := range jobs {
		m := "soak"
		if i >= nSoak {
			m = "stop_inflight"
		}
		jobs[i] = &job{rs: master.Int63n(1 << 40), m: m}
	}
	// a few children at a time: more runs per minute and more scheduling noise
	sem := make(chan struct{}, parallel)
	var jwg sync.WaitGroup
	for _, j := range jobs {
		jwg.Add(1)
		sem <- struct{}{}
		go func(j *job) {
			defer jwg.Done()
			j.co = spawn(j.rs, j.m, 240*time.Second)
			<-sem
		}(j)
	}
	jwg.Wait()
	for _, j := range jobs {
		rs, m, co := j.rs, j.m, j.co
		p := genParams(rs, m)
		count("runs", m, 1)
		desc := map[string]interface{}{"run_seed": rs, "mode": m, "params": p}
		switch {
		case co.exit == raceExit || co.raceRep != "":
			count("child_exit", "data_race", 1)
			rep := co.raceRep
			if rep == "" {
				rep = co.stderr
			}
			addV(violation{Oracle: "no_data_race", What: "the race detector reported a data race", Case: map[string]interface{}{"run": desc, "race_report": rep}})
			continue
		case co.timedOut:
			count("child_exit", "timeout", 1)
			addV(violation{Oracle: "run_terminates", What: "the run did not finish within 240 s (killed)", Case: map[string]interface{}{"run": desc, "stderr_tail": co.stderr}})
			continue
		case co.exit != 0 || co.res == nil:
			count("child_exit", "crash", 1)
			addV(violation{Oracle: "no_panic", What: fmt.Sprintf("the run ended with exit code %d", co.exit), Case: map[string]interface{}{"run": desc, "stderr_tail": co.stderr}})
			continue
		}
		count("child_exit", "ok", 1)
		r := co.res
		b, _ := json.Marshal(r)
		runlog = append(runlog, string(b))
		if m == "stop_inflight" {
			count("stop_inflight_lost_operations", bucket(len(r.Lost), 1, 2, 5, 20), 1)
			totals["stop_inflight_runs"]++
			totals["stop_inflight_accepted"] += r.Accepted
			totals["stop_inflight_lost"] += len(r.Lost)
			if len(r.Lost) > 0 && len(stopFindings) < 3 {
				stopFindings = append(stopFindings, map[string]interface{}{"run_seed": rs, "params": p, "accepted": r.Accepted, "lost_count": len(r.Lost), "lost_operation_ids_first": firstN(r.Lost, 12),
					"anchored": r.Anchored, "discarded": r.Discarded, "left_in_queue": r.InQueue, "deferred": r.Deferred})
			}
			if len(r.Lost) > 0 {
				addV(violation{Oracle: "stop_during_processing_loses_nothing",
					What: fmt.Sprintf("%d of %d accepted operations are neither anchored, discarded nor left in the queue after Stop()", len(r.Lost), r.Accepted),
					Case: map[string]interface{}{"run_seed": rs, "params": p, "lost_operation_ids_first": firstN(r.Lost, 12)}})
			}
			for _, v := range r.Violations {
				addV(v)
			}
			continue
		}
		totals["runs"]++
		totals["operations_accepted"] += r.Accepted
		totals["batches_anchored"] += r.Batches
		totals["operations_anchored"] += r.Anchored
		totals["operations_discarded_expired"] += r.Discarded
		totals["batches_all_expired_committed_without_anchor"] += r.AllExpired
		totals["operations_deferred"] += r.Deferred
		totals["prepare_calls"] += r.Prepares
		totals["prepare_failed"] += r.PrepFailed
		totals["cas_write_failed"] += r.CASFailed
		totals["anchor_write_failed"] += r.AnchorFailed
		totals["version_boundaries"] += r.Boundary
		totals["cuts_of_max_size"] += r.CutFull
		totals["cuts_below_max_size"] += r.CutSmall
		count("max_operation_count", fmt.Sprint(p.Max), 1)
		count("clients", bucket(p.Clients, 4, 8, 12, 17), 1)
		count("versions", p.Versions, 1)
		count("accepted_per_run", bucket(r.Accepted, 50, 100, 200, 400), 1)
		count("batches_per_run", bucket(r.Batches, 10, 30, 60, 120), 1)
		count("failed_batches_per_run", bucket(r.PrepFailed+r.AnchorFailed, 1, 5, 20, 50), 1)
		count("deferred_per_run", bucket(r.Deferred, 1, 10, 50, 200), 1)
		count("expired_per_run", bucket(r.Discarded, 1, 10, 30, 100), 1)
		count("all_expired_batches_per_run", bucket(r.AllExpired, 1, 2, 5, 20), 1)
		for k, n := range r.AllExpSizes {
			count("all_expired_batch_size", k, n)
		}
		count("boundaries_per_run", bucket(r.Boundary, 1, 3, 10, 30), 1)
		count("drain_ms", bucket(int(r.DrainMs), 5, 20, 100, 1000), 1)
		for k, n := range r.BatchSizes {
			count("anchored_batch_size", k, n)
		}
		if len(r.Violations) > 0 {
			count("runs_with_violation", "yes", 1)
		}
		for _, v := range r.Violations {
			addV(v)
		}
		if len(samples) < 3 {
			samples = append(samples, map[string]interface{}{"params": p, "accepted": r.Accepted, "batches": r.Batches, "anchored": r.Anchored,
				"discarded": r.Discarded, "deferred": r.Deferred, "prepare_failed": r.PrepFailed, "anchor_failed": r.AnchorFailed, "drain_ms": r.DrainMs})
		}
	}
	if *outdir != "" {
		_ = os.WriteFile(filepath.Join(*outdir, "gen_writer_race_runs.jsonl"), []byte(strings.Join(runlog, "\n")+"\n"), 0o644)
	}
	extra := map[string]interface{}{
		"tier": *tier, "seed": *seed, "wall_seconds": int(time.Since(t0).Seconds()),
		"coq_case_files":          "none: this generator has no model side; all oracles are evaluated on the implementation alone",
		"race_detector_built":     raceBuilt(),
		"race_detector_effective": raceEffective,
		"oracle_selftest_trips":   selftest,
		"totals":                  totals,
		"not_checked_here":        "undersized batch only on timeout or version boundary (needs the cut's queue snapshot: covered by the deterministic correspondence, cmd/sv c16)",
		"reproducibility":         "parameters and plans follow from the seed; goroutine scheduling and timer phases do not",
		"stop_inflight": map[string]interface{}{
			"what":               "Stop() while a batch is being processed: deferred operations must go back to the queue (repaired by d3715f9: Writer.process re-added them through Writer.Add, which refuses operations once Stopped(); they were lost). A loss is a direct violation.",
			"deterministic_demo": stopDemo(),
			"runs":               totals["stop_inflight_runs"], "accepted": totals["stop_inflight_accepted"], "lost": totals["stop_inflight_lost"], "examples": stopFindings,
		},
	}
	stats := map[string]interface{}{"histograms": hist, "samples": samples, "direct_violations": violations, "extra": extra}
	sj, _ := json.Marshal(stats)
	fmt.Printf("runs=%d accepted=%d batches=%d violations=%d wall=%ds\n", totals["runs"], totals["operations_accepted"], totals["batches_anchored"], len(violations), int(time.Since(t0).Seconds()))
	fmt.Println("STATS " + string(sj))
}
