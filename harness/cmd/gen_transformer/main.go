// Differential generator for C19 (document transformer + metadata).
// Runs the real didtransformer / doctransformer / metadata / dochandler code on generated inputs and writes
// Coq case files for SV.Corr.Transformer.
//
//	go run . -out /tmp/agent_transformer/out -seed 1 -n 3000
package main

import (
	"encoding/base64"
	"encoding/hex"
	"encoding/json"
	"flag"
	"fmt"
	"math"
	"math/rand"
	"os"
	"path/filepath"
	"sort"
	"strings"
	"time"

	"github.com/btcsuite/btcutil/base58"
	"github.com/multiformats/go-multibase"

	"github.com/trustbloc/sidetree-core-go/pkg/api/operation"
	"github.com/trustbloc/sidetree-core-go/pkg/api/protocol"
	"github.com/trustbloc/sidetree-core-go/pkg/dochandler"
	"github.com/trustbloc/sidetree-core-go/pkg/document"
	"github.com/trustbloc/sidetree-core-go/pkg/versions/1_0/doctransformer/didtransformer"
	"github.com/trustbloc/sidetree-core-go/pkg/versions/1_0/doctransformer/doctransformer"
	"github.com/trustbloc/sidetree-core-go/pkg/versions/1_0/doctransformer/metadata"
)

var rng *rand.Rand
var maxOps = 12

// ---------- Gallina emission ----------

func coqBytes(s string) string {
	plain := true
	for _, c := range []byte(s) {
		if c < 0x20 || c > 0x7e || c == '"' {
			plain = false
			break
		}
	}
	if plain {
		return `(bs "` + s + `")`
	}
	return `(unhex "` + hex.EncodeToString([]byte(s)) + `")`
}

func coqList(items []string) string {
	if len(items) == 0 {
		return "[]"
	}
	return "[" + strings.Join(items, "; ") + "]"
}

func coqBytesList(l []string) string {
	items := make([]string, len(l))
	for i, s := range l {
		items[i] = coqBytes(s)
	}
	return coqList(items)
}

func coqBool(b bool) string {
	if b {
		return "true"
	}
	return "false"
}

func coqOpt(present bool, v string) string {
	if !present {
		return "None"
	}
	return "(Some " + v + ")"
}

func coqJSON(v interface{}) string {
	switch t := v.(type) {
	case nil:
		return "JNull"
	case bool:
		return "(JBool " + coqBool(t) + ")"
	case float64:
		return fmt.Sprintf("(JNum %d%%N)", math.Float64bits(t))
	case string:
		return "(JStr " + coqBytes(t) + ")"
	case []interface{}:
		items := make([]string, len(t))
		for i, e := range t {
			items[i] = coqJSON(e)
		}
		return "(JArr " + coqList(items) + ")"
	case map[string]interface{}:
		keys := make([]string, 0, len(t))
		for k := range t {
			keys = append(keys, k)
		}
		sort.Strings(keys)
		// member order is irrelevant to the model; shuffle to make sure
		rng.Shuffle(len(keys), func(i, j int) { keys[i], keys[j] = keys[j], keys[i] })
		items := make([]string, len(keys))
		for i, k := range keys {
			items[i] = "(" + coqBytes(k) + ", " + coqJSON(t[k]) + ")"
		}
		return "(JObj " + coqList(items) + ")"
	default:
		panic(fmt.Sprintf("coqJSON: unexpected %T", v))
	}
}

// JSON image of any Go value (what json.Marshal shows, parsed back)
func image(v interface{}) (interface{}, error) {
	b, err := json.Marshal(v)
	if err != nil {
		return nil, err
	}
	var out interface{}
	if err := json.Unmarshal(b, &out); err != nil {
		return nil, err
	}
	return out, nil
}

type file struct {
	name, typ, check string
	cases            []string
}

func (f *file) write(dir string, perShard int) {
	n := (len(f.cases) + perShard - 1) / perShard
	for s := 0; s < n; s++ {
		lo, hi := s*perShard, (s+1)*perShard
		if hi > len(f.cases) {
			hi = len(f.cases)
		}
		var sb strings.Builder
		sb.WriteString("From Coq Require Import List ZArith NArith String.\nImport ListNotations.\n")
		sb.WriteString("From SV Require Import Base.Bytes Json.Ast Doc.Transformer Corr.Transformer.\n")
		sb.WriteString(fmt.Sprintf("Definition base : nat := %d.\n", lo))
		sb.WriteString("Definition cases : list " + f.typ + " := [\n")
		sb.WriteString(strings.Join(f.cases[lo:hi], ";\n"))
		sb.WriteString("\n].\nDefinition M := Eval vm_compute in " + f.check + " base cases.\nPrint M.\n")
		name := fmt.Sprintf("%s_%03d.v", f.name, s)
		if err := os.WriteFile(filepath.Join(dir, name), []byte(sb.String()), 0o644); err != nil {
			panic(err)
		}
	}
}

// ---------- random material ----------

func pick(l ...string) string { return l[rng.Intn(len(l))] }
func chance(p float64) bool    { return rng.Float64() < p }

var words = []string{"a", "key-1", "k2", "signing", "auth", "svc", "hub", "x", "K_9", "id.1", "ключ", "é", "a b", "q\"uote", "<tag>&", " "}

func word() string { return words[rng.Intn(len(words))] }

func randJSON(depth int) interface{} {
	k := rng.Intn(8)
	if depth <= 0 && k >= 6 {
		k = rng.Intn(6)
	}
	switch k {
	case 0:
		return nil
	case 1:
		return chance(0.5)
	case 2:
		return float64(rng.Intn(2000) - 1000)
	case 3:
		return rng.NormFloat64() * 1e6
	case 4:
		return word()
	case 5:
		return ""
	case 6:
		n := rng.Intn(4)
		a := make([]interface{}, n)
		for i := range a {
			a[i] = randJSON(depth - 1)
		}
		return a
	default:
		n := rng.Intn(4)
		m := map[string]interface{}{}
		for i := 0; i < n; i++ {
			m[word()] = randJSON(depth - 1)
		}
		return m
	}
}

func randBytes(n int) []byte {
	b := make([]byte, n)
	rng.Read(b)
	return b
}

var knownTypes = []string{"Bls12381G2Key2020", "JsonWebKey2020", "EcdsaSecp256k1VerificationKey2019",
	"Ed25519VerificationKey2018", "Ed25519VerificationKey2020", "X25519KeyAgreementKey2019"}
var allPurposes = []string{"authentication", "assertionMethod", "keyAgreement", "capabilityDelegation", "capabilityInvocation"}

func b64(n int) string { return base64.RawURLEncoding.EncodeToString(randBytes(n)) }

func randJWK(malformed bool) interface{} {
	if !malformed {
		switch rng.Intn(4) {
		case 0, 1:
			return map[string]interface{}{"kty": "OKP", "crv": "Ed25519", "x": b64(32)}
		case 2:
			return map[string]interface{}{"kty": "EC", "crv": "P-256", "x": b64(32), "y": b64(32)}
		default:
			return map[string]interface{}{"kty": "EC", "crv": "secp256k1", "x": b64(32), "y": b64(32), "alg": "ES256K"}
		}
	}
	m := map[string]interface{}{"kty": "OKP", "crv": "Ed25519", "x": b64(32)}
	switch rng.Intn(22) {
	case 0:
		m["x"] = b64(rng.Intn(32)) // short
	case 1:
		m["x"] = b64(33 + rng.Intn(40)) // long
	case 2:
		m["x"] = ""
	case 3:
		delete(m, "x")
	case 4:
		m["x"] = b64(32) + "="
	case 5:
		s := b64(32)
		m["x"] = s[:10] + "\n" + s[10:20] + "\r" + s[20:]
	case 6:
		m["x"] = "!!!not base64!!!"
	case 7:
		m["x"] = base64.StdEncoding.EncodeToString(randBytes(32)) // may contain + / =
	case 8:
		m["y"] = "%%%"
	case 9:
		m["y"] = b64(32)
	case 10:
		m["kty"] = pick("okp", "EC", "RSA", "oct", "", "Okp")
	case 11:
		m["crv"] = pick("ed25519", "X25519", "", "P-256", "secp256k1")
	case 12:
		delete(m, "crv")
	case 13:
		delete(m, "kty")
	case 14:
		m["x"] = float64(5)
	case 15:
		return map[string]interface{}{}
	case 16:
		m["d"] = b64(32)
		m["nonce"] = "n"
	case 17:
		s := b64(32)
		m["x"] = s[:len(s)-1] // 42 chars: 31 bytes + leftover 2 chars? (len%4 == 2)
	case 18:
		s := b64(32)
		m["x"] = s[:len(s)-2] // len%4 == 1 -> error
	case 19:
		m["kty"] = float64(1)
	case 20:
		return map[string]interface{}{"kty": "ec", "crv": "SECP256K1", "x": b64(32), "y": b64(32)}
	default:
		m["x"] = b64(32) + " "
	}
	return m
}

func randPurposes() (interface{}, bool) {
	switch rng.Intn(12) {
	case 0:
		return nil, false // absent
	case 1:
		return []interface{}{}, true
	case 2:
		a := make([]interface{}, len(allPurposes))
		for i, p := range allPurposes {
			a[i] = p
		}
		return a, true
	case 3: // duplicates / unknown / non-string
		a := []interface{}{}
		for i := 0; i < 1+rng.Intn(6); i++ {
			switch rng.Intn(5) {
			case 0:
				a = append(a, pick("general", "verificationMethod", "Authentication", ""))
			case 1:
				a = append(a, randJSON(1))
			default:
				a = append(a, allPurposes[rng.Intn(5)])
			}
		}
		return a, true
	case 4:
		return randJSON(1), true // ill-typed
	default:
		a := []interface{}{}
		perm := rng.Perm(5)
		for _, i := range perm[:rng.Intn(6)] {
			a = append(a, allPurposes[i])
		}
		return a, true
	}
}

func randKey(i int, messy bool) interface{} {
	pk := map[string]interface{}{}
	// id
	switch {
	case messy && chance(0.08):
	case messy && chance(0.08):
		pk["id"] = randJSON(1)
	case messy && chance(0.1):
		pk["id"] = "dup"
	default:
		pk["id"] = fmt.Sprintf("%s%d", word(), i)
	}
	// type
	switch {
	case messy && chance(0.06):
	case messy && chance(0.06):
		pk["type"] = randJSON(0)
	case messy && chance(0.08):
		pk["type"] = pick("FooKey2021", "", "ed25519verificationkey2018", "JwsVerificationKey2020")
	default:
		pk["type"] = knownTypes[rng.Intn(len(knownTypes))]
		if chance(0.35) {
			pk["type"] = pick("Ed25519VerificationKey2018", "Ed25519VerificationKey2020")
		}
	}
	// material
	switch r := rng.Intn(20); {
	case r < 9:
		pk["publicKeyJwk"] = randJWK(messy && chance(0.5))
		if t, _ := pk["type"].(string); !messy && strings.HasPrefix(t, "Ed25519") {
			pk["publicKeyJwk"] = map[string]interface{}{"kty": "OKP", "crv": "Ed25519", "x": b64(32)}
		}
	case r < 12:
		pk["publicKeyBase58"] = base58.Encode(randBytes(32))
	case r < 14:
		pk["publicKeyMultibase"] = "z" + base58.Encode(randBytes(32))
	case r < 15: // both
		pk["publicKeyJwk"] = randJWK(false)
		pk["publicKeyBase58"] = base58.Encode(randBytes(32))
	case r < 16: // base58 + multibase
		pk["publicKeyBase58"] = base58.Encode(randBytes(32))
		pk["publicKeyMultibase"] = "z" + base58.Encode(randBytes(32))
	case r < 17: // neither
	case r < 18:
		pk["publicKeyJwk"] = randJSON(0) // non-object (mostly)
		if chance(0.5) {
			pk["publicKeyBase58"] = pick("", "abc")
		}
		if chance(0.5) {
			pk["publicKeyMultibase"] = pick("", "zabc")
		}
	case r < 19:
		pk["publicKeyBase58"] = randJSON(0)
		pk["publicKeyMultibase"] = randJSON(0)
	default:
		pk["publicKeyJwk"] = randJWK(messy)
	}
	if t, _ := pk["type"].(string); !messy && strings.HasPrefix(t, "Ed25519") {
		if _, ok := pk["publicKeyJwk"].(map[string]interface{}); ok {
			j := map[string]interface{}{"kty": "OKP", "crv": "Ed25519", "x": b64(32)}
			switch rng.Intn(14) {
			case 0:
				j["x"] = b64(rng.Intn(32))
			case 1:
				j["x"] = b64(33 + rng.Intn(8))
			case 2:
				j["x"] = ""
			case 3:
				delete(j, "x")
			case 4:
				j["y"] = b64(32)
				j["d"] = b64(32)
			}
			pk["publicKeyJwk"] = j
		}
	}
	if p, ok := randPurposes(); ok {
		pk["purposes"] = p
	}
	if chance(0.2) {
		pk[pick("controller", "extra", "publicKeyHex", "purposes2")] = randJSON(1)
	}
	return pk
}

func randEndpoint() (interface{}, bool) {
	switch rng.Intn(9) {
	case 0:
		return nil, false
	case 1:
		return "https://example.com/" + word(), true
	case 2:
		return map[string]interface{}{"uri": "https://e.com", "routingKeys": []interface{}{"k1", "k2"}}, true
	case 3:
		return []interface{}{"https://a.example", "https://b.example"}, true
	case 4:
		return []interface{}{map[string]interface{}{"uri": "u1"}, map[string]interface{}{"uri": "u2", "n": float64(3)}}, true
	case 5:
		return nil, true
	case 6:
		return float64(rng.Intn(100)), true
	default:
		return randJSON(2), true
	}
}

func randService(i int, messy bool) interface{} {
	sv := map[string]interface{}{}
	switch {
	case messy && chance(0.1):
	case messy && chance(0.1):
		sv["id"] = randJSON(1)
	default:
		sv["id"] = fmt.Sprintf("%s%d", word(), i)
	}
	switch {
	case messy && chance(0.1):
	case messy && chance(0.1):
		sv["type"] = randJSON(1)
	default:
		sv["type"] = pick("LinkedDomains", "DIDCommMessaging", "hub", "")
	}
	if ep, ok := randEndpoint(); ok {
		sv["serviceEndpoint"] = ep
	}
	for j := 0; j < rng.Intn(3); j++ {
		sv[pick("priority", "recipientKeys", "routingKeys", "description", "accept", "ID", "Type")] = randJSON(2)
	}
	return sv
}

func randSection(n int, messy bool, mk func(int, bool) interface{}) (interface{}, bool) {
	if messy && chance(0.06) {
		return randJSON(1), true // ill-typed section
	}
	if n == 0 && chance(0.5) {
		return nil, false
	}
	a := []interface{}{}
	for i := 0; i < n; i++ {
		if messy && chance(0.08) {
			a = append(a, randJSON(0))
			continue
		}
		a = append(a, mk(i, messy))
	}
	return a, true
}

func randDoc(messy bool) map[string]interface{} {
	doc := map[string]interface{}{}
	if s, ok := randSection(rng.Intn(7), messy, randKey); ok {
		doc["publicKey"] = s
	}
	if s, ok := randSection(rng.Intn(4), messy, randService); ok {
		doc["service"] = s
	}
	switch rng.Intn(8) {
	case 0, 1, 2:
	case 3:
		doc["alsoKnownAs"] = []interface{}{}
	case 4:
		if messy {
			doc["alsoKnownAs"] = randJSON(2)
		} else {
			doc["alsoKnownAs"] = []interface{}{"https://blog.example"}
		}
	case 5:
		if messy {
			doc["alsoKnownAs"] = []interface{}{"did:x:1", float64(3), nil, "did:x:2", map[string]interface{}{}}
		} else {
			doc["alsoKnownAs"] = []interface{}{"did:x:1", "did:x:2"}
		}
	default:
		a := []interface{}{}
		for i := 0; i < 1+rng.Intn(3); i++ {
			a = append(a, "https://aka.example/"+word())
		}
		doc["alsoKnownAs"] = a
	}
	for i := 0; i < rng.Intn(3); i++ {
		doc[pick("extra", "verificationMethod", "authentication", "@context", "id", "controller", "created", "assertionMethod")] = randJSON(2)
	}
	return doc
}

func randOps(n int) []*operation.AnchoredOperation {
	var ops []*operation.AnchoredOperation
	for i := 0; i < n; i++ {
		op := &operation.AnchoredOperation{
			Type:              operation.Type(pick("create", "update", "recover", "deactivate")),
			UniqueSuffix:      "suffix",
			TransactionTime:   uint64(rng.Intn(4)),
			TransactionNumber: uint64(rng.Intn(3)),
			ProtocolVersion:   uint64(rng.Intn(2)),
		}
		if chance(0.8) {
			op.OperationRequest = randBytes(rng.Intn(12))
		}
		if chance(0.1) {
			op.TransactionTime = uint64(rng.Int63n(1 << 52))
		}
		if chance(0.7) {
			op.CanonicalReference = pick("ref1", "ref2", "ref3", "ref4")
		}
		if chance(0.4) {
			op.EquivalentReferences = []string{"e1", "e2"}[:rng.Intn(3)]
		}
		if chance(0.5) {
			op.AnchorOrigin = randJSON(1)
		}
		ops = append(ops, op)
	}
	return ops
}

type opts struct {
	base     bool
	mctx     []string
	kctx     map[string]string
	kctxSet  bool
	inclPub  bool
	inclUnp  bool
}

func randOpts() opts {
	o := opts{base: chance(0.5), inclPub: chance(0.5), inclUnp: chance(0.5)}
	switch rng.Intn(4) {
	case 0:
	case 1:
		o.mctx = []string{"https://w3id.org/did/v0.11"}
	case 2:
		o.mctx = []string{"https://trustbloc.dev/ns/a", "https://trustbloc.dev/ns/b"}
	default:
		o.mctx = []string{}
	}
	switch rng.Intn(10) {
	case 0:
		o.kctxSet = true
		o.kctx = map[string]string{}
	case 1:
		o.kctxSet = true
		o.kctx = map[string]string{"Ed25519VerificationKey2018": "https://custom/ed2018", "JsonWebKey2020": "https://custom/jwk",
			"Ed25519VerificationKey2020": "https://custom/ed2018", "": "https://custom/empty", "FooKey2021": "https://custom/foo"}
	case 2:
		o.kctxSet = true
		o.kctx = map[string]string{"JsonWebKey2020": "https://custom/only-jwk"}
	}
	return o
}

func (o opts) coq() string {
	var kc []string
	keys := make([]string, 0)
	for k := range o.kctx {
		keys = append(keys, k)
	}
	sort.Strings(keys)
	for _, k := range keys {
		kc = append(kc, "("+coqBytes(k)+", "+coqBytes(o.kctx[k])+")")
	}
	return fmt.Sprintf("(mk_opts %s %s %s %s %s)", coqBool(o.base), coqBytesList(o.mctx), coqList(kc), coqBool(o.inclPub), coqBool(o.inclUnp))
}

func (o opts) did() []didtransformer.Option {
	l := []didtransformer.Option{didtransformer.WithBase(o.base), didtransformer.WithIncludePublishedOperations(o.inclPub),
		didtransformer.WithIncludeUnpublishedOperations(o.inclUnp)}
	if o.mctx != nil {
		l = append(l, didtransformer.WithMethodContext(o.mctx))
	}
	if o.kctxSet {
		l = append(l, didtransformer.WithKeyContext(o.kctx))
	}
	return l
}

func randRM(messy bool) *protocol.ResolutionModel {
	rm := &protocol.ResolutionModel{Doc: document.Document(randDoc(messy))}
	if chance(0.05) {
		rm.Doc = nil
	}
	if chance(0.7) {
		rm.UpdateCommitment = "EiU" + b64(6)
	}
	if chance(0.7) {
		rm.RecoveryCommitment = "EiR" + b64(6)
	}
	rm.Deactivated = chance(0.25)
	switch rng.Intn(9) {
	case 0:
	case 1:
		rm.AnchorOrigin = "ipfs://anchor"
	case 2:
		rm.AnchorOrigin = ""
	case 3:
		rm.AnchorOrigin = float64(rng.Intn(100))
	case 4:
		rm.AnchorOrigin = chance(0.5)
	case 5:
		rm.AnchorOrigin = []interface{}{"o1", "o2"}
	case 6:
		rm.AnchorOrigin = map[string]interface{}{"origin": "https://o.example", "n": float64(1)}
	case 7:
		rm.AnchorOrigin = map[string]interface{}{}
	default:
		rm.AnchorOrigin = randJSON(2)
	}
	switch rng.Intn(4) {
	case 0:
	case 1:
		rm.CreatedTime = uint64(rng.Int63n(253402300800))
		rm.UpdatedTime = uint64(rng.Int63n(253402300800))
	default:
		rm.CreatedTime = uint64(1500000000 + rng.Int63n(400000000))
		if chance(0.7) {
			rm.UpdatedTime = rm.CreatedTime + uint64(rng.Int63n(10000000))
		}
	}
	if chance(0.6) {
		rm.VersionID = "Ei" + b64(8)
	}
	if chance(0.6) {
		rm.CanonicalReference = "uEi" + b64(5)
	}
	for i := 0; i < rng.Intn(3); i++ {
		rm.EquivalentReferences = append(rm.EquivalentReferences, pick("https:orb.domain1.com", "ipfs", "hl:uEi"+b64(4)))
	}
	if chance(0.5) {
		rm.PublishedOperations = randOps(rng.Intn(maxOps + 1))
	}
	if chance(0.5) {
		rm.UnpublishedOperations = randOps(rng.Intn(maxOps + 1))
	}
	return rm
}

func coqOps(ops []*operation.AnchoredOperation) string {
	items := make([]string, len(ops))
	for i, op := range ops {
		im, err := image(op)
		if err != nil {
			panic(err)
		}
		items[i] = coqJSON(im)
	}
	return coqList(items)
}

func coqRM(rm *protocol.ResolutionModel) string {
	doc := "JNull"
	if rm.Doc != nil {
		doc = coqJSON(map[string]interface{}(rm.Doc))
	}
	return fmt.Sprintf("(mk_rm %s %d%%Z %d%%Z %s %s %s %s %s %s %s %s %s)", doc, rm.CreatedTime, rm.UpdatedTime,
		coqBytes(rm.UpdateCommitment), coqBytes(rm.RecoveryCommitment), coqBool(rm.Deactivated), coqJSON(rm.AnchorOrigin),
		coqBytesList(rm.EquivalentReferences), coqBytes(rm.CanonicalReference), coqBytes(rm.VersionID),
		coqOps(rm.PublishedOperations), coqOps(rm.UnpublishedOperations))
}

func coqInfo(info protocol.TransformationInfo) string {
	id, okID := info[document.IDProperty].(string)
	pub, okPub := info[document.PublishedProperty].(bool)
	can, okCan := info[document.CanonicalIDProperty].(string)
	eq, okEq := info[document.EquivalentIDProperty].([]string)
	for k, v := range map[string]bool{document.IDProperty: okID, document.PublishedProperty: okPub,
		document.CanonicalIDProperty: okCan, document.EquivalentIDProperty: okEq} {
		if _, present := info[k]; present && !v {
			panic("info member of unexpected type: " + k)
		}
	}
	if okEq && eq == nil {
		panic("nil equivalentId slice")
	}
	return fmt.Sprintf("(mk_info %s %s %s %s)", coqOpt(okID, coqBytes(id)), coqOpt(okPub, coqBool(pub)),
		coqOpt(okCan, coqBytes(can)), coqOpt(okEq, coqBytesList(eq)))
}

var namespaces = []string{"did:sidetree", "did:orb", "did:a:b"}

func randInfo(rm *protocol.ResolutionModel) protocol.TransformationInfo {
	ns := pick(namespaces...)
	suffix := "EiD" + b64(6)
	switch rng.Intn(10) {
	case 0, 1, 2, 3:
		id := ns + ":" + suffix
		if chance(0.3) {
			id = ns + ":" + pick("uEiabc", "https:orb.domain1.com:uEixyz") + ":" + suffix
		}
		return dochandler.GetTransformationInfoForPublished(ns, id, suffix, rm)
	case 4, 5, 6:
		return dochandler.GetTransformationInfoForUnpublished(ns, pick("", "https:orb.domain1.com"), pick("", "interim", "https:orb.domain1.com:interim"),
			suffix, pick("", "eyJkZWx0YSI6e319"))
	default:
		info := protocol.TransformationInfo{}
		if chance(0.9) {
			info[document.IDProperty] = ns + ":" + suffix
		}
		if chance(0.9) {
			info[document.PublishedProperty] = chance(0.5)
		}
		if chance(0.5) {
			info[document.CanonicalIDProperty] = ns + ":canon:" + suffix
		}
		switch rng.Intn(3) {
		case 0:
			info[document.EquivalentIDProperty] = []string{}
		case 1:
			info[document.EquivalentIDProperty] = []string{ns + ":e1:" + suffix, ns + ":e2:" + suffix}
		}
		return info
	}
}

// base58 facts read off the output: key bytes -> base58 text, for every publicKeyBase58 / publicKeyMultibase in it
func factsOf(out interface{}) (string, error) {
	var items []string
	m, _ := out.(map[string]interface{})
	doc, _ := m["didDocument"].(map[string]interface{})
	vms, _ := doc["verificationMethod"].([]interface{})
	seen := map[string]bool{}
	for _, e := range vms {
		vm, _ := e.(map[string]interface{})
		var txt string
		if s, ok := vm["publicKeyBase58"].(string); ok {
			txt = s
		} else if s, ok := vm["publicKeyMultibase"].(string); ok && strings.HasPrefix(s, "z") {
			txt = s[1:]
			_, data, err := multibase.Decode(s)
			if err == nil {
				enc, err2 := multibase.Encode(multibase.Base58BTC, data)
				if err2 != nil || enc != "z"+base58.Encode(data) {
					return "", fmt.Errorf("multibase != z+base58 for %x", data)
				}
			}
		} else {
			continue
		}
		ascii := true
		for _, c := range []byte(txt) {
			if c >= 0x80 {
				ascii = false
			}
		}
		if !ascii {
			continue // copied verbatim from the input (base58.Decode panics on non-ASCII text)
		}
		raw := base58.Decode(txt)
		if base58.Encode(raw) != txt || seen[txt] {
			continue // not a canonical base58 text (copied verbatim from the input): no fact
		}
		seen[txt] = true
		items = append(items, "("+coqBytes(string(raw))+", "+coqBytes(txt)+")")
	}
	return coqList(items), nil
}

type stats map[string]int

// classes of input keys / services on the success path
func inputStats(st stats, doc document.Document) {
	keys, _ := doc["publicKey"].([]interface{})
	for _, e := range keys {
		pk, ok := e.(map[string]interface{})
		if !ok {
			st["in: non-object key entry skipped"]++
			continue
		}
		t, _ := pk["type"].(string)
		st["in: key type "+t]++
		jwk, isJwk := pk["publicKeyJwk"].(map[string]interface{})
		b58s, _ := pk["publicKeyBase58"].(string)
		mbs, _ := pk["publicKeyMultibase"].(string)
		switch {
		case isJwk && strings.HasPrefix(t, "Ed25519"):
			x, _ := jwk["x"].(string)
			d, _ := base64.RawURLEncoding.DecodeString(x)
			switch {
			case len(d) == 32:
				st["in: Ed25519 JWK re-encoded, x is 32 bytes"]++
			case len(d) < 32:
				st["in: Ed25519 JWK re-encoded, x shorter than 32 bytes (zero padded)"]++
			default:
				st["in: Ed25519 JWK re-encoded, x longer than 32 bytes (truncated)"]++
			}
		case isJwk:
			st["in: JWK copied"]++
			if b58s != "" || mbs != "" {
				st["in: JWK and base58/multibase both present (JWK wins)"]++
			}
		case b58s != "":
			st["in: base58 copied"]++
		case mbs != "":
			st["in: multibase copied"]++
		default:
			st["in: no key material -> publicKeyJwk null"]++
		}
		ps, isArr := pk["purposes"].([]interface{})
		switch {
		case !isArr:
			st["in: purposes absent or ill-typed"]++
		case len(ps) == 0:
			st["in: purposes empty"]++
		default:
			seen := map[string]bool{}
			dup := false
			for _, p := range ps {
				if s, ok := p.(string); ok {
					if seen[s] {
						dup = true
					}
					seen[s] = true
				}
			}
			if dup {
				st["in: purposes with duplicates"]++
			}
			st[fmt.Sprintf("in: purposes %d entries", len(ps))]++
		}
		if _, ok := pk["id"].(string); !ok {
			st["in: key id absent or ill-typed"]++
		}
	}
	if _, ok := doc["publicKey"]; ok && keys == nil {
		st["in: publicKey section ill-typed"]++
	}
	svcs, _ := doc["service"].([]interface{})
	for _, e := range svcs {
		sv, ok := e.(map[string]interface{})
		if !ok {
			st["in: non-object service entry skipped"]++
			continue
		}
		if _, ok := sv["id"].(string); !ok {
			st["in: service id absent or ill-typed"]++
		}
		if _, ok := sv["type"].(string); !ok {
			st["in: service type absent or ill-typed"]++
		}
		switch sv["serviceEndpoint"].(type) {
		case nil:
			st["in: service endpoint absent/null"]++
		case string:
			st["in: service endpoint string"]++
		case []interface{}:
			st["in: service endpoint array"]++
		case map[string]interface{}:
			st["in: service endpoint object"]++
		default:
			st["in: service endpoint other"]++
		}
		if len(sv) > 3 {
			st["in: service with extra members"]++
		}
	}
	if _, ok := doc["service"]; ok && svcs == nil {
		st["in: service section ill-typed"]++
	}
	if a, ok := doc["alsoKnownAs"]; ok {
		if arr, ok := a.([]interface{}); !ok {
			st["in: alsoKnownAs ill-typed"]++
		} else {
			for _, e := range arr {
				if _, ok := e.(string); !ok {
					st["in: alsoKnownAs with non-string entries"]++
					break
				}
			}
		}
	}
}

func (s stats) String() string {
	keys := make([]string, 0, len(s))
	for k := range s {
		keys = append(keys, k)
	}
	sort.Strings(keys)
	var sb strings.Builder
	for _, k := range keys {
		sb.WriteString(fmt.Sprintf("  %-40s %d\n", k, s[k]))
	}
	return sb.String()
}

func main() {
	out := flag.String("out", "/tmp/agent_transformer/out", "output directory")
	seed := flag.Int64("seed", 1, "seed")
	tier := flag.String("tier", "quick", "quick|thorough")
	per := flag.Int("per", 125, "cases per file")
	nn := 700
	n := &nn
	flag.IntVar(&maxOps, "maxops", 12, "maximum length of the operation lists (sort.Slice is stable only up to 12)")
	probes := flag.Bool("probes", false, "run the ill-typed TransformationInfo / nil model probes and exit")
	flag.Parse()
	if *tier == "thorough" {
		nn = 12000
	}
	if *probes {
		runProbes()
		return
	}
	rng = rand.New(rand.NewSource(*seed))
	if err := os.MkdirAll(*out, 0o755); err != nil {
		panic(err)
	}
	st := stats{}

	// ----- didtransformer -----
	tr := &file{name: "Tr", typ: "trcase", check: "tr_mismatches"}
	for i := 0; i < *n; i++ {
		messy := i%3 == 2
		rm := randRM(messy)
		info := randInfo(rm)
		o := randOpts()
		optsS, rmS, infoS := o.coq(), coqRM(rm), coqInfo(info)
		var res *document.ResolutionResult
		var err error
		panicked := false
		func() {
			defer func() {
				if r := recover(); r != nil {
					panicked = true
					fmt.Printf("PANIC didtransformer case %d: %v\n  opts=%s\n  rm=%s\n  info=%s\n", i, r, optsS, rmS, infoS)
				}
			}()
			res, err = didtransformer.New(o.did()...).TransformDocument(rm, info)
		}()
		expected, facts := "None", "[]"
		switch {
		case panicked:
			st["tr panic"]++
		case err != nil:
			st["tr error: "+strings.SplitN(err.Error(), ":", 2)[0]]++
		default:
			im, ierr := image(res)
			if ierr != nil {
				panic(ierr)
			}
			f, ferr := factsOf(im)
			if ferr != nil {
				fmt.Printf("DEVIATION case %d: %v\n", i, ferr)
				panicked = true
			}
			facts = f
			expected = "(Some " + coqJSON(im) + ")"
			st["tr ok"]++
			if messy {
				st["tr ok (messy documents)"]++
			}
			doc := im.(map[string]interface{})["didDocument"].(map[string]interface{})
			if vms, ok := doc["verificationMethod"].([]interface{}); ok {
				st[fmt.Sprintf("tr ok with %d keys", len(vms))]++
			} else {
				st["tr ok with 0 keys"]++
			}
			if _, ok := doc["service"]; ok {
				st["tr ok with services"]++
			}
			if _, ok := doc["alsoKnownAs"]; ok {
				st["tr ok with alsoKnownAs"]++
			}
			inputStats(st, rm.Doc)
			if facts != "[]" {
				st["tr ok with Ed25519 re-encoding / base58 material"]++
			}
		}
		tr.cases = append(tr.cases, fmt.Sprintf("{| tr_opts := %s; tr_rm := %s; tr_info := %s; tr_b58_facts := %s; tr_expected := %s; tr_panic := %s |}",
			optsS, rmS, infoS, facts, expected, coqBool(panicked)))
	}
	tr.write(*out, *per)

	// ----- metadata alone, generic transformer -----
	md := &file{name: "Md", typ: "mdcase", check: "md_mismatches"}
	g := &file{name: "Gen", typ: "gcase", check: "g_mismatches"}
	for i := 0; i < *n/2; i++ {
		rm := randRM(false)
		if rm.Doc != nil && chance(0.5) {
			rm.Doc = document.Document{"k": randJSON(1)}
		}
		info := randInfo(rm)
		o := randOpts()
		optsS, rmS, infoS := o.coq(), coqRM(rm), coqInfo(info)
		var m document.Metadata
		var err error
		panicked := false
		func() {
			defer func() {
				if r := recover(); r != nil {
					panicked = true
					fmt.Printf("PANIC metadata case %d: %v\n  rm=%s\n  info=%s\n", i, r, rmS, infoS)
				}
			}()
			m, err = metadata.New(metadata.WithIncludePublishedOperations(o.inclPub), metadata.WithIncludeUnpublishedOperations(o.inclUnp)).
				CreateDocumentMetadata(rm, info)
		}()
		expected := "None"
		if !panicked && err == nil {
			im, ierr := image(m)
			if ierr != nil {
				panic(ierr)
			}
			expected = "(Some " + coqJSON(im) + ")"
			st["md ok"]++
		} else if err != nil {
			st["md error: "+err.Error()]++
		}
		md.cases = append(md.cases, fmt.Sprintf("{| md_opts := %s; md_rm := %s; md_info := %s; md_expected := %s; md_panic := %s |}",
			optsS, rmS, infoS, expected, coqBool(panicked)))

		if i%2 == 0 {
			rm2 := randRM(false)
			info2 := randInfo(rm2)
			rmS2, infoS2 := coqRM(rm2), coqInfo(info2)
			var res *document.ResolutionResult
			panicked = false
			func() {
				defer func() {
					if r := recover(); r != nil {
						panicked = true
						fmt.Printf("PANIC doctransformer case %d: %v\n  rm=%s\n  info=%s\n", i, r, rmS2, infoS2)
					}
				}()
				res, err = doctransformer.New(doctransformer.WithIncludePublishedOperations(o.inclPub),
					doctransformer.WithIncludeUnpublishedOperations(o.inclUnp)).TransformDocument(rm2, info2)
			}()
			expected = "None"
			if !panicked && err == nil {
				im, ierr := image(res)
				if ierr != nil {
					panic(ierr)
				}
				expected = "(Some " + coqJSON(im) + ")"
				st["generic ok"]++
			} else if err != nil {
				st["generic error"]++
			}
			g.cases = append(g.cases, fmt.Sprintf("{| g_opts := %s; g_rm := %s; g_info := %s; g_expected := %s; g_panic := %s |}",
				optsS, rmS2, infoS2, expected, coqBool(panicked)))
		}
	}
	md.write(*out, *per)
	g.write(*out, *per)

	// ----- RFC 3339 -----
	t3 := &file{name: "T3339", typ: "tcase3339", check: "t3339_mismatches"}
	addT := func(t int64) {
		t3.cases = append(t3.cases, fmt.Sprintf("{| t_unix := %d%%Z; t_text := %s |}", t, coqBytes(time.Unix(t, 0).UTC().Format(time.RFC3339))))
		st["rfc3339"]++
	}
	for _, t := range []int64{0, 1, 59, 60, 3599, 3600, 86399, 86400, 951782399, 951782400, 951868800, 4107542400, 4102444800,
		253402300799, 253402214400, 68169600, 68256000, 5097600, 13046400, 2147483647, 2147483648, 4294967295, 4294967296, 1709164800, 1709251200} {
		addT(t)
	}
	for y := 1970; y <= 9999; y += 1 + rng.Intn(40) { // year / February / December boundaries
		for _, d := range []time.Time{time.Date(y, 1, 1, 0, 0, 0, 0, time.UTC), time.Date(y, 2, 28, 23, 59, 59, 0, time.UTC),
			time.Date(y, 3, 1, 0, 0, 0, 0, time.UTC), time.Date(y, 12, 31, 23, 59, 59, 0, time.UTC)} {
			addT(d.Unix())
			addT(d.Unix() + 1)
		}
	}
	for i := 0; i < *n; i++ {
		if i%2 == 0 {
			addT(rng.Int63n(253402300800))
		} else {
			addT(rng.Int63n(4102444800))
		}
	}
	t3.write(*out, 1000)

	// ----- transformation info, hints -----
	tip := &file{name: "Tip", typ: "tipcase", check: "tip_mismatches"}
	tiu := &file{name: "Tiu", typ: "tiucase", check: "tiu_mismatches"}
	hint := &file{name: "Hint", typ: "hintcase", check: "hint_mismatches"}
	for i := 0; i < *n/2; i++ {
		rm := randRM(false)
		ns, suffix := pick(namespaces...), "EiD"+b64(4)
		id := ns + ":" + pick("", "hint:", "a:b:") + suffix
		info := dochandler.GetTransformationInfoForPublished(ns, id, suffix, rm)
		tip.cases = append(tip.cases, fmt.Sprintf("{| tip_ns := %s; tip_id := %s; tip_suffix := %s; tip_rm := %s; tip_expected := %s |}",
			coqBytes(ns), coqBytes(id), coqBytes(suffix), coqRM(rm), coqInfo(info)))
		st["tinfo published"]++

		domain := pick("", "https:orb.domain1.com", "interim", "dom")
		label := pick("", "interim", "https:orb.domain1.com:interim", "dom", "xdomx")
		jcs := pick("", "eyJkZWx0YSI6e319", "x")
		info = dochandler.GetTransformationInfoForUnpublished(ns, domain, label, suffix, jcs)
		tiu.cases = append(tiu.cases, fmt.Sprintf("{| tiu_ns := %s; tiu_domain := %s; tiu_label := %s; tiu_suffix := %s; tiu_jcs := %s; tiu_expected := %s |}",
			coqBytes(ns), coqBytes(domain), coqBytes(label), coqBytes(suffix), coqBytes(jcs), coqInfo(info)))
		st["tinfo unpublished"]++

		hid := pick(id, ns+":"+suffix, suffix, ns+suffix, "x", "", ns+":h1:h2:"+suffix+":"+suffix, ns+":"+suffix+":tail", ":"+suffix, "ab"+suffix)
		hns := pick(ns, "", "did", "did:very:long:namespace:longer:than:the:id")
		hsuf := pick(suffix, "", "zzz", "x")
		var h string
		var herr error
		panicked := false
		func() {
			defer func() {
				if r := recover(); r != nil {
					panicked = true
					fmt.Printf("PANIC GetHint(%q,%q,%q): %v\n", hid, hns, hsuf, r)
					st["hint panic"]++
				}
			}()
			h, herr = dochandler.GetHint(hid, hns, hsuf)
		}()
		hint.cases = append(hint.cases, fmt.Sprintf("{| h_id := %s; h_ns := %s; h_suffix := %s; h_expected := %s; h_panic := %s |}",
			coqBytes(hid), coqBytes(hns), coqBytes(hsuf), coqOpt(herr == nil && !panicked, coqBytes(h)), coqBool(panicked)))
		st["hint"]++
	}
	tip.write(*out, *per)
	tiu.write(*out, *per)
	hint.write(*out, 1000)

	// ----- base64url -----
	b := &file{name: "B64", typ: "b64case", check: "b64_mismatches"}
	alphabet := "ABCDEFGHIJKLMNOPQRSTUVWXYZabcdefghijklmnopqrstuvwxyz0123456789-_"
	for i := 0; i < *n; i++ {
		var s string
		switch rng.Intn(4) {
		case 0:
			s = b64(rng.Intn(40))
		case 1:
			l := rng.Intn(50)
			bb := make([]byte, l)
			for j := range bb {
				bb[j] = alphabet[rng.Intn(64)]
			}
			s = string(bb)
		case 2:
			l := rng.Intn(12)
			bb := make([]byte, l)
			for j := range bb {
				bb[j] = (alphabet + "=+/\r\n .")[rng.Intn(71)]
			}
			s = string(bb)
		default:
			s = b64(rng.Intn(20))
			if len(s) > 0 {
				p := rng.Intn(len(s))
				s = s[:p] + pick("\n", "\r", "\r\n", "=", "+", " ", "\x00", "é") + s[p:]
			}
		}
		dec, err := base64.RawURLEncoding.DecodeString(s)
		b.cases = append(b.cases, fmt.Sprintf("{| b64_in := %s; b64_out := %s |}", coqBytes(s), coqOpt(err == nil, coqBytes(string(dec)))))
		st["b64url"]++
	}
	b.write(*out, 1000)

	fmt.Print(st.String())
	direct := []map[string]interface{}{}
	for k, v := range st {
		if strings.Contains(k, "panic") && v > 0 {
			direct = append(direct, map[string]interface{}{"oracle": "transformer_never_panics", "what": fmt.Sprintf("%s: %d", k, v),
				"case": map[string]interface{}{"generator": "gen_transformer", "class": k}})
		}
	}
	samples := []string{}
	if len(tr.cases) > 0 {
		c := tr.cases[0]
		if len(c) > 700 {
			c = c[:700] + "..."
		}
		samples = append(samples, c)
	}
	sj, _ := json.Marshal(map[string]interface{}{"histograms": map[string]interface{}{"classes": st}, "samples": samples,
		"direct_violations": direct, "extra": map[string]interface{}{"max_operation_list": maxOps}})
	fmt.Println("STATS " + string(sj))
}

// inputs outside the tinfo record of the model: ill-typed info members, nil model
func runProbes() {
	try := func(name string, f func() (interface{}, error)) {
		defer func() {
			if r := recover(); r != nil {
				fmt.Printf("%-70s PANIC: %v\n", name, r)
			}
		}()
		v, err := f()
		if err != nil {
			fmt.Printf("%-70s error: %v\n", name, err)
			return
		}
		b, _ := json.Marshal(v)
		fmt.Printf("%-70s ok: %s\n", name, b)
	}
	doc := func() document.Document {
		return document.Document{"publicKey": []interface{}{map[string]interface{}{"id": "k", "type": "JsonWebKey2020",
			"publicKeyJwk": map[string]interface{}{"kty": "EC"}, "purposes": []interface{}{"authentication"}}}}
	}
	for _, base := range []bool{false, true} {
		b := base
		try(fmt.Sprintf("didtransformer base=%v info[id]=42 (number)", b), func() (interface{}, error) {
			return didtransformer.New(didtransformer.WithBase(b)).TransformDocument(&protocol.ResolutionModel{Doc: doc()},
				protocol.TransformationInfo{"id": 42, "published": true})
		})
		try(fmt.Sprintf("didtransformer base=%v info[id]=nil", b), func() (interface{}, error) {
			return didtransformer.New(didtransformer.WithBase(b)).TransformDocument(&protocol.ResolutionModel{Doc: doc()},
				protocol.TransformationInfo{"id": nil, "published": true})
		})
	}
	try("didtransformer info[published]=\"yes\" (string)", func() (interface{}, error) {
		return didtransformer.New().TransformDocument(&protocol.ResolutionModel{Doc: doc()},
			protocol.TransformationInfo{"id": "did:x:1", "published": "yes"})
	})
	try("metadata info[published]=nil", func() (interface{}, error) {
		return metadata.New().CreateDocumentMetadata(&protocol.ResolutionModel{Doc: doc()},
			protocol.TransformationInfo{"id": "did:x:1", "published": nil})
	})
	try("didtransformer rm=nil", func() (interface{}, error) {
		return didtransformer.New().TransformDocument(nil, protocol.TransformationInfo{"id": "did:x:1", "published": true})
	})
	try("didtransformer info=nil", func() (interface{}, error) {
		return didtransformer.New().TransformDocument(&protocol.ResolutionModel{Doc: doc()}, nil)
	})
	try("doctransformer rm.Doc empty map, info ok", func() (interface{}, error) {
		return doctransformer.New().TransformDocument(&protocol.ResolutionModel{Doc: document.Document{}},
			protocol.TransformationInfo{"id": "did:x:1", "published": false})
	})
	try("didtransformer equivalentId = nil []string", func() (interface{}, error) {
		return didtransformer.New().TransformDocument(&protocol.ResolutionModel{Doc: doc()},
			protocol.TransformationInfo{"id": "did:x:1", "published": false, "equivalentId": []string(nil), "canonicalId": 7})
	})
	try("GetTransformationInfoForPublished internalResult=nil", func() (interface{}, error) {
		return dochandler.GetTransformationInfoForPublished("did:x", "did:x:1", "1", nil), nil
	})
	// created time beyond year 9999 / beyond int64
	for _, ct := range []uint64{253402300800, 1 << 62, 1<<63 + 5, math.MaxUint64} {
		c := ct
		try(fmt.Sprintf("metadata CreatedTime=%d", c), func() (interface{}, error) {
			return metadata.New().CreateDocumentMetadata(&protocol.ResolutionModel{Doc: doc(), CreatedTime: c},
				protocol.TransformationInfo{"published": true})
		})
	}
	// invalid UTF-8 in a commitment
	try("metadata UpdateCommitment with invalid UTF-8 (ff fe)", func() (interface{}, error) {
		return metadata.New().CreateDocumentMetadata(&protocol.ResolutionModel{Doc: doc(), UpdateCommitment: "a\xff\xfeb"},
			protocol.TransformationInfo{"published": false})
	})
}
