// Differential generator for C07 (JSON canonicalizer, jsoncanonicalizer.Transform through
// canonicalizer.MarshalCanonical([]byte)).  Writes Coq case files (jcase / ncase of SV.Corr.Json) and prints a
// STATS line with histograms and the violations found by oracles evaluated on the Go implementation alone.
//
//	gen_json -out <dir> -seed <n> -tier quick|thorough
package main

import (
	"encoding/hex"
	"encoding/json"
	"flag"
	"fmt"
	"math"
	"math/rand"
	"os"
	"path/filepath"
	"reflect"
	"sort"
	"strconv"
	"strings"

	"github.com/trustbloc/sidetree-core-go/pkg/canonicalizer"
)

var outDir string
var rng *rand.Rand
var panics int
var perFile = 250

// statistics
var hist = map[string]map[string]int{}
var samples []string
var violations []map[string]interface{}

func count(h, bucket string) {
	if hist[h] == nil {
		hist[h] = map[string]int{}
	}
	hist[h][bucket]++
}

func sample(class string, in []byte, out []byte, ok bool) {
	o := "error"
	if ok {
		o = fmt.Sprintf("%q", out)
	}
	samples = append(samples, fmt.Sprintf("%s: %q -> %s", class, in, o))
}

func violation(oracle, what string, c map[string]interface{}) {
	if len(violations) < 200 {
		violations = append(violations, map[string]interface{}{"oracle": oracle, "what": what, "case": c})
	}
	count("direct_violations", oracle)
}

func logf(format string, a ...interface{}) { fmt.Fprintf(os.Stderr, format, a...) }

func hx(b []byte) string { return `(unhex "` + hex.EncodeToString(b) + `")` }

// run the real implementation; ok=false on error (or panic)
func canon(in []byte) (out []byte, ok bool) {
	defer func() {
		if r := recover(); r != nil {
			panics++
			fmt.Fprintf(os.Stderr, "PANIC on %q: %v\n", in, r)
			out, ok = nil, false
		}
	}()
	cp := append([]byte(nil), in...)
	o, err := canonicalizer.MarshalCanonical(cp)
	if err != nil {
		return nil, false
	}
	return o, true
}

func optBytes(b []byte, ok bool) string {
	if !ok {
		return "None"
	}
	return "(Some " + hx(b) + ")"
}

type file struct {
	name  string
	typ   string
	check string
	cases []string
}

func (f *file) write(_ int) {
	per := perFile
	n := (len(f.cases) + per - 1) / per
	for s := 0; s < n; s++ {
		lo, hi := s*per, (s+1)*per
		if hi > len(f.cases) {
			hi = len(f.cases)
		}
		var sb strings.Builder
		sb.WriteString("From Coq Require Import List ZArith NArith String.\nImport ListNotations.\n")
		sb.WriteString("From SV Require Import Base.Bytes Json.Ast Json.Num Json.Jcs Corr.Json.\n")
		sb.WriteString(fmt.Sprintf("Definition cases : list %s := [\n", f.typ))
		for i := lo; i < hi; i++ {
			sb.WriteString("  " + f.cases[i])
			if i+1 < hi {
				sb.WriteString(";")
			}
			sb.WriteString("\n")
		}
		sb.WriteString("].\n")
		sb.WriteString(fmt.Sprintf("Definition M := Eval vm_compute in %s %d%%nat cases.\nPrint M.\n", f.check, lo))
		name := fmt.Sprintf("%s_%03d.v", f.name, s)
		if err := os.WriteFile(filepath.Join(outDir, name), []byte(sb.String()), 0o644); err != nil {
			panic(err)
		}
	}
	logf("%-12s %6d cases, %d files\n", f.name, len(f.cases), n)
}

func jcase(in []byte) (string, bool) {
	o, ok := canon(in)
	return fmt.Sprintf("Build_jcase %s %s", hx(in), optBytes(o, ok)), ok
}

// ---------------------------------------------------------------- values

type val struct {
	kind int // 0 literal, 1 number, 2 string, 3 array, 4 object
	lit  string
	nums []string // alternative spellings of the same double
	str  string
	arr  []*val
	keys []string
	vals []*val
}

var strs = []string{
	"", "a", "b", "A", "aa", "a\x00", "\x00", "\"", "\\", "/", "\x7f", "\u2028", "\u2029",
	"\U0001F600", "\U00010000", "\U0010FFFF", "\uFB33", "\uFFFF", "\uE000", "\uD7FF", "\u00e9", "\u20ac", "\u0080",
	"\b\f\n\r\t", "\x1f", "\x01", "1", "10", "2", "\uFFFD", "\U0001D11E", "a\U0001F600", "a\uFB33", "\u00e9\U00010000",
	"\uFFFE", "\uFFFC", "</script>", "\u007f\u0080", "key", "Key", "k\"e\\y", "\u0000a", "\u05d0", "\u6c34",
}

// spellings that all denote the same double
var nums = [][]string{
	{"0", "-0", "0.0", "0e0", "-0.0E-5", "0e999", "0.000"},
	{"1", "1.0", "1e0", "10e-1", "0.1E1", "1.000000000000000000000000000001"},
	{"-1", "-1.0", "-100e-2"},
	{"1e21", "1E21", "1e+21", "1000000000000000000000", "1000000000000000000000.0", "0.1e22"},
	{"999999999999999900000", "999999999999999868928", "9.999999999999999e20"},
	{"1e-6", "0.000001", "1E-6", "10e-7", "0.0000010"},
	{"1e-7", "0.0000001", "1E-7", "100e-9"},
	{"5e-324", "4.9406564584124654e-324", "4.94065645841246544e-324", "3e-324", "2.4703282292062328e-324"},
	{"1.7976931348623157e308", "1.7976931348623157E+308", "1.7976931348623158e308", "17976931348623157e292"},
	{"9007199254740992", "9007199254740993", "9.007199254740992e15", "9007199254740992.0"},
	{"9007199254740991", "9007199254740991.0", "9.007199254740991E15"},
	{"9007199254740994", "9007199254740994.9", "9007199254740994.0", "9007199254740993.0000001"},
	{"0.30000000000000004", "3.0000000000000004e-1", "0.3000000000000000444089209850062616169452667236328125"},
	{"0.1", "1e-1", "0.1000000000000000055511151231257827021181583404541015625", "0.10"},
	{"1e-400", "0", "1e-9999", "0.0e-400"},
	{"-1e-400", "-0", "-0.0"},
	{"2.2250738585072014e-308", "2.2250738585072014E-308", "22250738585072014e-324"},
	{"2.225073858507201e-308", "2.2250738585072009e-308"},
	{"2.2250738585072011e-308"},
	{"1e23", "1E23", "100000000000000000000000", "9.999999999999999e22"},
	{"1.5e300", "15e299", "1.5E+300"},
	{"123456789012345680000", "123456789012345678901", "1.2345678901234568e20"},
	{"4.35", "4.3500000000000", "435e-2"},
	{"0.000001234", "1.234e-6"},
	{"1.234e-7", "0.0000001234"},
	{"100", "1e2", "1E+2", "100.000"},
	{"-123.456e5", "-12345600", "-1.23456e7"},
	{"2e-7", "0.0000002"},
	{"12345678901234567890123", "1.2345678901234568e22"},
	{"295147905179352830000", "295147905179352825856"},
	{"4.5", "4.50", "45e-1"},
	{"0.000033", "3.3e-5", "33E-6"},
	{"1e308", "1E308", "10e307"},
	{"8.5e-323", "8.4e-323"},
}

func randNum() []string {
	if rng.Intn(3) > 0 {
		return nums[rng.Intn(len(nums))]
	}
	var x float64
	for {
		x = math.Float64frombits(rng.Uint64())
		if !math.IsNaN(x) && !math.IsInf(x, 0) {
			break
		}
	}
	if rng.Intn(2) == 0 {
		x = float64(rng.Intn(2000000)-1000000) / float64([]int{1, 10, 1000, 1 << 10}[rng.Intn(4)])
	}
	return spellings(x)
}

// several spellings parsing to exactly x
func spellings(x float64) []string {
	out := []string{strconv.FormatFloat(x, 'e', -1, 64), strconv.FormatFloat(x, 'E', 20, 64), strconv.FormatFloat(x, 'g', 17, 64)}
	a := math.Abs(x)
	if a < 1e25 && a > 1e-10 || x == 0 {
		out = append(out, strconv.FormatFloat(x, 'f', -1, 64))
	}
	for _, s := range out {
		y, err := strconv.ParseFloat(s, 64)
		if err != nil || math.Float64bits(y) != math.Float64bits(x) {
			panic("spelling " + s)
		}
	}
	return out
}

func genVal(depth int) *val {
	k := rng.Intn(10)
	if depth <= 0 && k >= 7 {
		k = rng.Intn(7)
	}
	switch {
	case k < 1:
		return &val{kind: 0, lit: []string{"true", "false", "null"}[rng.Intn(3)]}
	case k < 4:
		return &val{kind: 1, nums: randNum()}
	case k < 7:
		return &val{kind: 2, str: randStr()}
	case k < 8:
		v := &val{kind: 3}
		for i, n := 0, rng.Intn(4); i < n; i++ {
			v.arr = append(v.arr, genVal(depth-1))
		}
		return v
	}
	return genObj(depth)
}

func randStr() string {
	if rng.Intn(4) == 0 {
		return strs[rng.Intn(len(strs))] + strs[rng.Intn(len(strs))]
	}
	return strs[rng.Intn(len(strs))]
}

func genObj(depth int) *val {
	v := &val{kind: 4}
	seen := map[string]bool{}
	for i, n := 0, rng.Intn(6); i < n; i++ {
		k := randStr()
		if seen[k] {
			continue
		}
		seen[k] = true
		v.keys = append(v.keys, k)
		v.vals = append(v.vals, genVal(depth-1))
	}
	return v
}

// ---------------------------------------------------------------- serializations

type style struct {
	ws      int // 0 none, 1 some, 2 lots
	shuffle bool
	esc     int // 0 minimal, 1 random, 2 everything escaped
	numAlt  bool
}

func ws(st style) string {
	switch st.ws {
	case 0:
		return ""
	case 1:
		if rng.Intn(2) == 0 {
			return ""
		}
		return " "
	}
	n := rng.Intn(4)
	s := ""
	for i := 0; i < n; i++ {
		s += string(" \n\r\t"[rng.Intn(4)])
	}
	return s
}

func uesc(u uint16, upper bool) string {
	if upper {
		return fmt.Sprintf("\\u%04X", u)
	}
	return fmt.Sprintf("\\u%04x", u)
}

func quote(s string, st style) string {
	var sb strings.Builder
	sb.WriteByte('"')
	for _, r := range s {
		mode := 0 // raw
		switch st.esc {
		case 1:
			mode = rng.Intn(4)
		case 2:
			mode = 1 + rng.Intn(3)
		}
		short := map[rune]string{'"': `\"`, '\\': `\\`, '/': `\/`, '\b': `\b`, '\f': `\f`, '\n': `\n`, '\r': `\r`, '\t': `\t`}
		mustEsc := r < 0x20 || r == '"' || r == '\\'
		if mode == 0 && mustEsc {
			mode = 1
		}
		switch mode {
		case 0:
			sb.WriteRune(r)
		case 1:
			if e, ok := short[r]; ok {
				sb.WriteString(e)
				break
			}
			fallthrough
		default:
			up := mode == 3
			if r >= 0x10000 {
				r -= 0x10000
				sb.WriteString(uesc(uint16(0xD800+(r>>10)), up))
				sb.WriteString(uesc(uint16(0xDC00+(r&0x3ff)), up))
			} else {
				sb.WriteString(uesc(uint16(r), up))
			}
		}
	}
	sb.WriteByte('"')
	return sb.String()
}

func ser(v *val, st style) string {
	switch v.kind {
	case 0:
		return v.lit
	case 1:
		if st.numAlt {
			return v.nums[rng.Intn(len(v.nums))]
		}
		return v.nums[0]
	case 2:
		return quote(v.str, st)
	case 3:
		var sb strings.Builder
		sb.WriteString("[" + ws(st))
		for i, e := range v.arr {
			if i > 0 {
				sb.WriteString(ws(st) + "," + ws(st))
			}
			sb.WriteString(ser(e, st))
		}
		sb.WriteString(ws(st) + "]")
		return sb.String()
	}
	idx := rng.Perm(len(v.keys))
	if !st.shuffle {
		sort.Ints(idx)
	}
	var sb strings.Builder
	sb.WriteString("{" + ws(st))
	for i, j := range idx {
		if i > 0 {
			sb.WriteString(ws(st) + "," + ws(st))
		}
		sb.WriteString(quote(v.keys[j], st) + ws(st) + ":" + ws(st) + ser(v.vals[j], st))
	}
	sb.WriteString(ws(st) + "}")
	return sb.String()
}

func top(depth int) *val {
	if rng.Intn(3) == 0 {
		v := &val{kind: 3}
		for i, n := 0, rng.Intn(5); i < n; i++ {
			v.arr = append(v.arr, genVal(depth))
		}
		return v
	}
	return genObj(depth + 1)
}

var styles = []style{
	{0, false, 0, false}, {2, false, 0, false}, {0, true, 0, false}, {0, false, 1, false}, {0, false, 0, true},
	{1, true, 2, true}, {2, true, 1, true}, {2, true, 1, true},
}

// ---------------------------------------------------------------- classes

// the generated value as encoding/json would decode it
func toIface(v *val) interface{} {
	switch v.kind {
	case 0:
		switch v.lit {
		case "true":
			return true
		case "false":
			return false
		}
		return nil
	case 1:
		x, _ := strconv.ParseFloat(v.nums[0], 64)
		return x
	case 2:
		return v.str
	case 3:
		l := []interface{}{}
		for _, e := range v.arr {
			l = append(l, toIface(e))
		}
		return l
	}
	m := map[string]interface{}{}
	for i, k := range v.keys {
		m[k] = toIface(v.vals[i])
	}
	return m
}

type namedMap map[string]interface{}

func classValues(n int) {
	f := &file{name: "JV", typ: "jcase", check: "j_mismatches"}
	for i := 0; i < n; i++ {
		v := top(2)
		var first []byte
		for si, st := range styles {
			in := []byte(ws(st) + ser(v, st) + ws(st))
			o, ok := canon(in)
			count("value_outcome", map[bool]string{true: "accepted", false: "rejected"}[ok])
			count("value_style", fmt.Sprintf("ws%d_shuffle%v_esc%d_numalt%v", st.ws, st.shuffle, st.esc, st.numAlt))
			if !ok {
				violation("valid_input_accepted", "a serialisation of a generated value was rejected", map[string]interface{}{"input": string(in)})
			}
			if si == 0 {
				first = o
				if i < 3 {
					sample("value", in, o, ok)
				}
				if ok {
					// (b) fixed point
					if o2, ok2 := canon(o); !ok2 || string(o2) != string(o) {
						violation("fixed_point", "canonical output is not a fixed point", map[string]interface{}{"input": string(in), "output": string(o), "second": string(o2)})
					}
					// (d) the Go-value entry points: the same value handed over as map / slice, as a struct and as
					// json.RawMessage must give the bytes the []byte entry point gives
					if val := toIface(v); true {
						for name, gv := range map[string]interface{}{"generic": val, "struct": struct {
							V interface{} `json:"v"`
						}{val}, "raw-message": json.RawMessage(in), "named-map": namedMap{"v": val}} {
							want := o
							if name == "struct" || name == "named-map" {
								want, _ = canon([]byte(`{"v":` + string(in) + `}`))
							}
							var got []byte
							var gerr error
							func() {
								defer func() {
									if r := recover(); r != nil {
										gerr = fmt.Errorf("panic: %v", r)
									}
								}()
								got, gerr = canonicalizer.MarshalCanonical(gv)
							}()
							count("go_value_entry_point", name)
							if gerr != nil || string(got) != string(want) {
								violation("go_value_entry_points_agree", "MarshalCanonical("+name+") differs from MarshalCanonical([]byte)",
									map[string]interface{}{"input": string(in), "entry": name, "bytes_result": string(want), "value_result": string(got), "error": fmt.Sprint(gerr)})
							}
						}
					}
					// (c) same value
					var back interface{}
					if err := json.Unmarshal(o, &back); err != nil || !reflect.DeepEqual(back, toIface(v)) {
						violation("same_value", "output decoded with encoding/json differs from the input value", map[string]interface{}{"input": string(in), "output": string(o)})
					}
				}
			} else if string(first) != string(o) {
				// (a) byte-identical for every serialisation
				violation("reserialisation", "two serialisations of one value give different outputs", map[string]interface{}{"first": string(first), "input": string(in), "output": string(o)})
			}
			f.cases = append(f.cases, fmt.Sprintf("Build_jcase %s %s", hx(in), optBytes(o, ok)))
		}
	}
	f.write(0)
}

func numClass(b uint64) string {
	x := math.Float64frombits(b &^ (1 << 63))
	switch {
	case math.IsNaN(x):
		return "nan"
	case math.IsInf(x, 0):
		return "inf"
	case x == 0:
		return "zero"
	case (b>>52)&0x7ff == 0:
		return "subnormal"
	case x < 1e-6:
		return "below_1e-6"
	case x < 1:
		return "1e-6_to_1"
	case x < 1e21:
		return "1_to_1e21"
	}
	return "from_1e21"
}

func classNumbers(n int, expStep uint64) {
	f := &file{name: "JN", typ: "ncase", check: "n_mismatches"}
	var bitsList []uint64
	for e := uint64(0); e < 2048; e += expStep {
		for _, m := range []uint64{0, 1, 1<<52 - 1} {
			bitsList = append(bitsList, e<<52|m)
		}
		if e%(8*expStep) == 0 {
			bitsList = append(bitsList, 1<<63|e<<52|1<<51)
		}
	}
	for i := 0; i < n; i++ {
		b := rng.Uint64()
		switch rng.Intn(4) {
		case 0, 2: // moderate exponents
			b = b&^(0x7ff<<52) | uint64(1023-70+rng.Intn(140))<<52
		case 1: // few mantissa bits
			b &^= (1<<uint(rng.Intn(52)) - 1)
		}
		bitsList = append(bitsList, b)
	}
	// integers and short decimals
	for i := 0; i < n/4; i++ {
		x := float64(rng.Int63n(1<<uint(1+rng.Intn(62)))) * math.Pow(10, float64(rng.Intn(40)-20))
		bitsList = append(bitsList, math.Float64bits(x))
	}
	for _, t := range []string{"1e21", "1e-6", "1e-7", "999999999999999900000", "1e22", "9.999999999999999e20", "9.999999999999999e-7",
		"0.000001", "1.0000000000000002e-6", "1e23", "5e-324", "1.7976931348623157e308", "2.98023223876953125e-8", "9007199254740993", "1.2e21", "123456e-11"} {
		x, _ := strconv.ParseFloat(t, 64)
		bitsList = append(bitsList, math.Float64bits(x), math.Float64bits(math.Nextafter(x, 0)), math.Float64bits(math.Nextafter(x, math.Inf(1))))
	}
	for _, b := range bitsList {
		count("number_class", numClass(b))
		x := math.Float64frombits(b)
		var text string
		var tok string
		var src string
		switch {
		case math.IsNaN(x):
			src = "NaN"
		case math.IsInf(x, 1):
			src = "Inf"
		case math.IsInf(x, -1):
			src = "-Inf"
		default:
			src = strconv.FormatFloat(x, 'e', 25, 64)
			if y, _ := strconv.ParseFloat(src, 64); math.Float64bits(y) != b {
				panic("src")
			}
		}
		o, ok := canon([]byte("[" + src + "]"))
		if ok {
			text = string(o[1 : len(o)-1])
		}
		// token: one of three spellings (or the special names)
		if math.IsNaN(x) || math.IsInf(x, 0) {
			tok = src
		} else {
			switch rng.Intn(3) {
			case 0:
				tok = strconv.FormatFloat(x, 'e', -1, 64)
			case 1:
				tok = strconv.FormatFloat(x, 'E', 17+rng.Intn(30), 64)
			default:
				if a := math.Abs(x); a < 1e30 && a > 1e-30 {
					tok = strconv.FormatFloat(x, 'f', -1, 64)
				} else {
					tok = strconv.FormatFloat(x, 'g', 17, 64)
				}
			}
		}
		if len(f.cases) < 3 {
			sample("number", []byte(src), []byte(text), ok)
		}
		f.cases = append(f.cases, ncase(b, text, ok, tok))
	}
	f.write(0)
}

func ncase(bits uint64, text string, textOK bool, tok string) string {
	_, ok := canon([]byte("[" + tok + "]"))
	count("token_outcome", map[bool]string{true: "accepted", false: "rejected"}[ok])
	parsed := "None"
	if ok {
		y, err := strconv.ParseFloat(tok, 64)
		if err != nil {
			panic("accepted token that ParseFloat rejects: " + tok)
		}
		parsed = fmt.Sprintf("(Some %d%%N)", math.Float64bits(y))
	}
	return fmt.Sprintf("Build_ncase %d%%N %s %s %s", bits, optBytes([]byte(text), textOK), hx([]byte(tok)), parsed)
}

// tokens around rounding boundaries and outside the JSON grammar
func classTokens(nPerturbed, nMid int) {
	f := &file{name: "JT", typ: "ncase", check: "n_mismatches"}
	toks := []string{"+1", "01", "1.", ".5", "-.5", "0x10", "0x1p4", "0X1P-2", "0x1.8p1", "0x.8p1", "0x1p-1074", "0x1p-1075", "0x1.8p-1075",
		"0x1.0000000000000fp-1075", "0x1p1023", "0x1.fffffffffffffp1023", "0x1.fffffffffffff8p1023", "0x1.fffffffffffff7p1023", "0x1p1024", "0x1p99999", "0x1p-99999",
		"0x1.00000000000008p0", "0x1.00000000000018p0", "0x1.000000000000080000000000001p0", "0x123456789abcdef01234p-30", "0x1p", "0x1", "0x", "0xg", "0x1p+", "0x_1p0", "0x1_0p0",
		"1_0", "1__0", "_1", "1_", "1_000.5", "1e1_0", "1_e5", "1._5", "0_1", "0b1", "0o7", "Inf", "-Infinity", "+inf", "NaN", "nan", "infinityx", "infi",
		"1e", "1e+", "1e-", "--1", "-", "+", ".", "-.", "e5", ".e5", "1e5.5", "1.2.3", "1e5e5", "1E+05", "1e-05", "00", "-00.0", "000001.5", "1.e3", "1.E-3",
		"1e400", "-1e400", "1e309", "1.7976931348623158e308", "1.7976931348623159e308", "1.797693134862315807e308", "1.797693134862315808e308",
		"179769313486231580793728971405303415079934132710037826936173778980444968292764750946649017977587207096330286416692887910946555547851940402630657488671505820681908902000708383676273854845817711531764475730270069855571366959622842914819860834936475292719074168444365510704342711559699508093042880177904174497791",
		"179769313486231580793728971405303415079934132710037826936173778980444968292764750946649017977587207096330286416692887910946555547851940402630657488671505820681908902000708383676273854845817711531764475730270069855571366959622842914819860834936475292719074168444365510704342711559699508093042880177904174497792",
		"2.4703282292062327e-324", "2.4703282292062328e-324", "2.47032822920623272088284396434110686182e-324", "2.47032822920623272088284396434110686183e-324",
		"2.4703282292062327208828439643411068618252990130716238221279284125033775363510437593264991818081799618989828234772285886546332835517796989819938739800539093906315035659515570226392290858392449105184435931802849936536152500319370457678249219365623669863658480757001585769269903706311928279558551332927834338409351978015531246597263579574622766465272827220056374006485499977096599470454020828166226237857393450736339007967761930577506740176324673600968951340535537458516661134223766678604162159680461914467291840300530057530849048765391711386591646239524912623653881879636239373280423891018672348497668235089863388587925628302755995657524455507255189313690836254779186948667994968324049705821028513185451396213837722826145437693412532098591327667236328125e-324",
		"7.4109846876186981626485318930233205854758970392148714663837852375101326090531312779794975454245398856969484704316857659638998506553390969459816219401617281718945106978546710679176872575177347315553307795408549809608457500958111373034747658096871009590975442271004757307809711118935784838675653998783503015228055934046593739791790738723868299395818481660169122019456499931289798411362062484498678713572180352209017023903285791732520220528974020802906854021606612375549983402671300035812486479041385743401875520901590172592547146296175134159774938718574737870961645638908718119841271673056017045493004705269590165763776884908267986972573366521765567941072508764337560846003984904972149117463085539556354188641513168478436313080237596295773983001708984374999e-324",
		"7.4109846876186981626485318930233205854758970392148714663837852375101326090531312779794975454245398856969484704316857659638998506553390969459816219401617281718945106978546710679176872575177347315553307795408549809608457500958111373034747658096871009590975442271004757307809711118935784838675653998783503015228055934046593739791790738723868299395818481660169122019456499931289798411362062484498678713572180352209017023903285791732520220528974020802906854021606612375549983402671300035812486479041385743401875520901590172592547146296175134159774938718574737870961645638908718119841271673056017045493004705269590165763776884908267986972573366521765567941072508764337560846003984904972149117463085539556354188641513168478436313080237596295773983001708984375e-324",
		"9007199254740993", "9007199254740992.9999", "9007199254740993.0000000000000000000000000000001", "9007199254740995", "18014398509481986", "18014398509481990",
		"1.00000000000000011102230246251565404236316680908203125", "1.00000000000000011102230246251565404236316680908203126", "1.00000000000000011102230246251565404236316680908203124",
		"1.00000000000000033306690738754696212708950042724609375", "0.500000000000000166533453693773481063544750213623046875",
		"1e-323", "1.5e-323", "1.48219693752373963e-323", "2.2250738585072011e-308", "2.2250738585072012e-308", "2.2250738585072014e-308", "2.225073858507201136057409796709131975934819546351645648e-308",
		"4.9e-324", "2.5e-324", "2.4e-324", "1e-324", "0.00000000000000000000000000000000000001e-300", "100000000000000000000000000000000000000000e-50",
		"1e9999999999", "1e-9999999999", "0e9999999999", "1e10000", "1e99999", "1e100000", "123456789012345678901234567890e-10005", "0.1e10000",
		"12345678901234567890", "123456789012345678901", "0.12345678901234567890123", "99999999999999999999", "9223372036854775807", "9223372036854775808", "18446744073709551615", "18446744073709551616",
		"1E5", "1e+5", "-1E-5", "1.0E+2", "4.35", "0.1", "0.2", "0.3", "123.456", "1e0", "0e0", "-0e-0", "0.0", "-0.0", "-0", "0",
	}
	for _, t := range toks {
		bits := uint64(0x3ff0000000000000)
		f.cases = append(f.cases, ncase(bits, "1", true, t))
	}
	// random digit strings around halfway points between adjacent doubles
	for i := 0; i < nPerturbed; i++ {
		b := rng.Uint64() &^ (1 << 63)
		if (b>>52)&0x7ff >= 0x7fe {
			b &^= 1 << 62
		}
		x := math.Float64frombits(b)
		y := math.Nextafter(x, math.Inf(1))
		// exact midpoint via big decimal expansion of both (use 'f'/'e' with many digits on (x+y)/2 is not exact); instead
		// perturb a long expansion of x in the last places
		s := strconv.FormatFloat(x, 'e', 30+rng.Intn(30), 64)
		if rng.Intn(2) == 0 {
			s = strconv.FormatFloat(y, 'e', 18, 64)
		}
		bs := []byte(s)
		k := strings.IndexByte(s, 'e')
		p := k - 1 - rng.Intn(6)
		if p > 2 {
			bs[p] = byte('0' + rng.Intn(10))
		}
		f.cases = append(f.cases, ncase(0x3ff0000000000000, "1", true, string(bs)))
	}
	// exact midpoints between adjacent doubles, printed exactly, +/- one unit in the last place
	for i := 0; i < nMid; i++ {
		e := rng.Intn(60) - 30
		m := uint64(1)<<52 | rng.Uint64()&(1<<52-1)
		// midpoint = (2m+1) * 2^(e-53)
		num := 2*m + 1
		// as exact decimal: use strconv on a float is impossible (54 bits): build with big arithmetic
		s := exactDecimal(num, e-53)
		f.cases = append(f.cases, ncase(0x3ff0000000000000, "1", true, s))
		f.cases = append(f.cases, ncase(0x3ff0000000000000, "1", true, s+"0000000001"))
		if s[len(s)-1] == '5' {
			f.cases = append(f.cases, ncase(0x3ff0000000000000, "1", true, s[:len(s)-1]+"4999999"))
		}
	}
	f.write(0)
}

// exact decimal expansion of num * 2^e2 (num < 2^54, |e2| <= 90)
func exactDecimal(num uint64, e2 int) string {
	// digits as big number in base 10 held in a byte slice
	d := []byte(strconv.FormatUint(num, 10))
	mul := func(d []byte, k int) []byte {
		carry := 0
		for i := len(d) - 1; i >= 0; i-- {
			v := int(d[i]-'0')*k + carry
			d[i] = byte('0' + v%10)
			carry = v / 10
		}
		for carry > 0 {
			d = append([]byte{byte('0' + carry%10)}, d...)
			carry /= 10
		}
		return d
	}
	if e2 >= 0 {
		for i := 0; i < e2; i++ {
			d = mul(d, 2)
		}
		return string(d)
	}
	// num * 5^k / 10^k
	k := -e2
	for i := 0; i < k; i++ {
		d = mul(d, 5)
	}
	for len(d) <= k {
		d = append([]byte{'0'}, d...)
	}
	return string(d[:len(d)-k]) + "." + string(d[len(d)-k:])
}

// rej: inputs that the property requires to be rejected (oracle d); other: related inputs without a verdict
type mclass struct {
	name  string
	rej   []string
	other []string
}

func classMalformed() {
	var ctl []string
	for c := 0; c < 0x20; c++ {
		ctl = append(ctl, "[\"a"+string(rune(c))+"b\"]", "{\"k"+string(rune(c))+"\":1}", "{\"k\":\""+string(rune(c))+"\"}")
	}
	deep := strings.Repeat("[", 300) + strings.Repeat("]", 300)
	deepo := strings.Repeat("{\"a\":", 200) + "1" + strings.Repeat("}", 200)
	classes := []mclass{
		{"duplicate", []string{`{"a":1,"a":2}`, `{"a":1,"\u0061":2}`, `{"a":{"b":1,"b":2}}`, `[{"x":1, "x" :1}]`, `{"a":1,"b":2,"a":3}`, `{"b":1,"a":2,"c":3,"a":4}`,
			"{\"\U0001F600\":1,\"\\ud83d\\ude00\":2}", `{"":1,"":2}`, `{"\n":1,"\u000a":2}`, `{"\/":1,"/":2}`, `{"a":1,"aa":2,"a":3}`, `{"\ud800\udc00":1,"\uD800\uDC00":2}`,
			"{\"\u00e9\":1,\"\\u00E9\":2}", `{"a":[{"k":1,"k":1}]}`, `{"1":1,"2":2,"3":3,"4":4,"5":5,"3":6}`},
			[]string{`{"a":1,"A":2}`, `{"a":1,"aa":2}`, `{"a":{"a":1},"b":{"a":2}}`}},
		{"unterminated_string", []string{`["abc`, `{"a`, `{"a":"b`, `["\`, `["\"`, `["a\u00`, `["a","b`, `{"a":1,"b`, `["\\\"]`, `["a\"]`},
			nil},
		{"unterminated_structure", []string{`[1,2`, `{"a":1`, `[`, `{`, `[[]`, `{"a":{}`, `[1,`, `{"a":`, `{"a"`, `["a"`, `[tru`, `[1`, `[1 `, `{"a":1 `, `[[[[`, `[{"a":[1,2]}`, `{"a":[1,2}`, `[1,2}`, `{"a":1]`, ``, ` `, "\n"},
			nil},
		{"invalid_escape", []string{`["\x"]`, `["\u12"]`, `["\u12G4"]`, `["\U0041"]`, `["\ "]`, `["\'"]`, `["\a"]`, `["\v"]`, `["\0"]`, `["\u+123"]`, `["\u 123"]`, `["\u00_1"]`, `["\u-001"]`,
			"[\"\\u00\xe9\xe9\"]", `["\u0x41"]`, `{"\q":1}`, `{"a":"\e"}`, `["\u"]`, `["\u1"]`, `["\u123"]`, `["\N"]`, `["\T"]`},
			[]string{`["\u0041"]`, `["\u00e9\u00E9"]`, `["\b\f\n\r\t\"\\\/"]`, `["\u0000\u001f\u007f\u0080"]`, `["\u2028\u2029"]`, `["\uFFFF\ufffe"]`}},
		{"lone_surrogate", []string{`["\ud800"]`, `["\udc00"]`, `["\ud800x"]`, "[\"\\ud800\n\"]", `["\ud800\u0041"]`, `["\udc00\ud800"]`, `["\ud800\ud800"]`, `["\udbff\udbff"]`, `["\udc00\udc00"]`,
			`["\ud800A"]`, `["\ud800\n"]`, `["\ud800\\u0041"]`, `["\ud800\udc0"]`, `["\ud800\u"]`, `["\ud800\`, `["\ud800\udc00\udc00"]`, `["\ud800\udc00\ud800"]`,
			`{"\ud800":1}`, `{"\udfff\u0000":1}`, `["\udfff\uffff"]`, `["\ud800\ue000"]`, `["a\ud800\udbffb"]`, `["\ud800\U0041"]`, `["\ud800/u0041"]`, `{"a":"\udc00"}`,
			`["\udfff"]`, `["\uDBFF"]`, `["\ud83d"]`, `["\ude00\ud83d"]`, `["x\ud83dy\ude00"]`, `{"\udc00\ud800":1,"\ud800\udc00":2}`, `{"\ud800\u0041":1,"\ufffd":2}`},
			[]string{`["\ud800\udc00"]`, `["\udbff\udfff"]`, `["\ud83d\ude00"]`, `["\uD83D\uDE00"]`, `["\ud7ff\ue000"]`, `{"\ud83d\ude00":"\ud83d\ude00"}`}},
		{"control_char", ctl, []string{"[\"a\x7fb\"]"}},
		{"trailing", []string{`[] x`, `{} {}`, `[1] 2`, `[]]`, `{}}`, `[],`, "[] \x00", "[]\xc2\xa0", `[][]`, `{}"a"`, `[] []`, "[]\x0b", "[]\x0c", `{}:`, `[]0`, "{}\xef\xbb\xbf", `{"a":1}x`, `[1,2]]`, `[1] ,`, "{}\n}"},
			[]string{`[]  `, "{}\n\r\t "}},
		{"toplevel", nil, []string{`1`, `"a"`, `true`, `null`, `-1.5`, ` "a" `, `false`, `]`, `}`, `,`, `:`, "\xef\xbb\xbf[]", "\xef\xbb\xbf{}", "\x00[]", "\x0b[]", "\x0c{}"}},
		{"nonascii", nil, []string{"[\xc3\xa9]", "{\xe2\x80\xa8\"a\":1}", "[1,\xc2\xa01]", "[\"a\"\xc2\xa0]", "{\"a\"\xc2\xa0:1}", "{\"a\":\xc2\xa01}", "[1\xc3\xa9]", "[\xff]", "[\"\xff\"]", "[\"\xc0\x80\"]", "[\"\xed\xa0\x80\"]",
			"[\"\xf4\x90\x80\x80\"]", "[\"\xe2\x82\"]", "{\"\xff\":1}", "{\"\xff\":1,\"\xef\xbf\xbc\":2,\"\xef\xbf\xbe\":3,\"\xf0\x90\x80\x80\":4}", "{\"\xf0\x90\x80\x80\":4,\"\xff\":1,\"a\":0}", "{\"\xc3\":1,\"\xc3\xa9\":2}",
			"{\"\xe2\x82\xac\":1,\"\xe2\x82\":2,\"\xe2\":3}", "[1 \xc3\xa9]", "[true\xc3\xa9]",
			"{\"\xff\":1,\"\xfe\":2}", "{\"\xff\":1,\"\\ufffd\":2}", "{\"\xc0\x80\":1,\"\\ufffd\\ufffd\":2}", "{\"\xed\xa0\x80\":1,\"\xff\xff\xff\":2}", "{\"\xff\":1,\"\xff\xff\":2}"}},
		{"structure", nil, []string{`[1,]`, `[,1]`, `[1 2]`, `{"a" 1}`, `{"a":}`, `{1:2}`, `{"a":1,}`, `[1,,2]`, `{,}`, `[}`, `{]`, `[,]`, `{"a":1 "b":2}`, `{"a"::1}`, `[:]`, `{"a":1:}`, `["a":1]`, `{"a"}`, `{"a",1}`,
			`[[1,2],[3}]`, `{a:1}`, `{'a':1}`, `[ ]`, `{ }`, `[ [ ] , { } ]`, `[1,2 ]`, `[ 1 , 2 ]`, "[1\n,\t2\r]", `[1 ,2]`, `{"a" :1}`, `{"a": 1 }`, `[{}]`, `[[],[]]`, `{"a":[],"b":{}}`,
			`[1"a"]`, `[1[2]]`, `[1{}]`, `["a"1]`, `["a""b"]`, `[{}{}]`, `[[][]]`, `[1:2]`, `{"a":1"b"}`, `[-]`, `["a",]`, `{"a":"b",}`, `[true,]`, `[null null]`, deep, deepo}},
		{"literal", nil, []string{`[tru]`, `[TRUE]`, `[nul]`, `[truee]`, `[true false]`, `[True]`, `[nulL]`, `[true]`, `[false]`, `[null]`, `[true,false,null]`, `[t]`, `[n]`, `[f]`, `[falsee]`, `[true"]`, `[nu ll]`, `{"a":true}`, `{"a":nul}`, `[undefined]`, `[NaN]`, `[Infinity]`, `[-Infinity]`}},
		{"number", nil, []string{`[+1]`, `[01]`, `[1.]`, `[.5]`, `[0x10]`, `[0x1p4]`, `[1_0]`, `[1__0]`, `[_1]`, `[1_]`, `[Inf]`, `[-Infinity]`, `[NaN]`, `[nan]`, `[1e]`, `[1e+]`, `[--1]`, `[-]`, `[1e5.5]`, `[1.2.3]`, `[0x]`, `[0x.8p1]`, `[0X1P-2]`,
			`[1e1_0]`, `[0b1]`, `[0_1]`, `[0x_1p0]`, `[1_000.5]`, `[infinityx]`, `[1E400]`, `[-1E400]`, `[1e-400]`, `[-1e-400]`, `[1e309]`, `[1.7976931348623159e308]`, `{"a":1E400}`, `[- 1]`, `[1 e5]`, `[1e 5]`, `[1.0e+]`, `[0e]`, `[-0]`, `[-0.0]`, `[0.0]`,
			`[1e21]`, `[1e-7]`, `[1.0]`, `[10]`, `[1E2]`, `[123456789012345678901234567890]`, `[0.00000000000000000000000000001]`, `[1e999999999999999999999]`, `[1e-999999999999999999999]`, `[1/2]`, `[1"]`, `[1']`}},
	}
	for _, c := range classes {
		f := &file{name: "JM_" + c.name, typ: "jcase", check: "j_mismatches"}
		for i, in := range append(append([]string(nil), c.rej...), c.other...) {
			o, ok := canon([]byte(in))
			must := i < len(c.rej)
			switch {
			case must && ok:
				count("malformed_"+c.name, "must_reject_but_accepted")
				violation("malformed_rejected", "input of class "+c.name+" is accepted", map[string]interface{}{"input": in, "output": string(o)})
			case must:
				count("malformed_"+c.name, "rejected")
			case ok:
				count("malformed_"+c.name, "other_accepted")
			default:
				count("malformed_"+c.name, "other_rejected")
			}
			if i == 0 {
				sample(c.name, []byte(in), o, ok)
			}
			f.cases = append(f.cases, fmt.Sprintf("Build_jcase %s %s", hx([]byte(in)), optBytes(o, ok)))
		}
		f.write(0)
	}
}

var mutBytes = []byte("\"\\/,:[]{} \n\t\r0123456789eE+-.utrnfbalsx_\x00\x1f\x7f\x80\xc3\xa9\xff\xf0\x9f\x98\xed")

func classFuzz(n int) {
	f := &file{name: "JF", typ: "jcase", check: "j_mismatches"}
	acc := 0
	for i := 0; i < n; i++ {
		v := top(2)
		in := []byte(ser(v, styles[rng.Intn(len(styles))]))
		for k, m := 0, 1+rng.Intn(3); k < m && len(in) > 0; k++ {
			p := rng.Intn(len(in))
			switch rng.Intn(6) {
			case 0:
				in = append(in[:p:p], in[p+1:]...)
			case 1:
				in = append(in[:p:p], append([]byte{mutBytes[rng.Intn(len(mutBytes))]}, in[p:]...)...)
			case 2:
				in[p] = mutBytes[rng.Intn(len(mutBytes))]
			case 3:
				in = in[:p]
			case 4:
				q := p + rng.Intn(len(in)-p)
				in = append(in[:q:q], append(append([]byte(nil), in[p:q]...), in[q:]...)...)
			case 5:
				in = append(in, mutBytes[rng.Intn(len(mutBytes))])
			}
		}
		s, ok := jcase(in)
		count("fuzz_mutated", map[bool]string{true: "accepted", false: "rejected"}[ok])
		if ok {
			acc++
		}
		f.cases = append(f.cases, s)
	}
	// random byte soup over the structural alphabet
	for i := 0; i < n/2; i++ {
		l := rng.Intn(14)
		in := []byte{"[{"[rng.Intn(2)]}
		for j := 0; j < l; j++ {
			in = append(in, mutBytes[rng.Intn(len(mutBytes))])
		}
		s, ok := jcase(in)
		count("fuzz_soup", map[bool]string{true: "accepted", false: "rejected"}[ok])
		if ok {
			acc++
		}
		f.cases = append(f.cases, s)
	}
	logf("fuzz: %d inputs, %d accepted\n", len(f.cases), acc)
	f.write(0)
}

func main() {
	out := flag.String("out", "cases", "output directory")
	seed := flag.Int64("seed", 1, "seed")
	tier := flag.String("tier", "quick", "quick|thorough")
	per := flag.Int("per", 0, "cases per file (default: 40 quick, 250 thorough)")
	flag.Parse()
	outDir = *out
	if err := os.MkdirAll(outDir, 0o755); err != nil {
		panic(err)
	}
	rng = rand.New(rand.NewSource(*seed))
	nValues, nNumbers, expStep, nPert, nMid, nFuzz := 30, 260, uint64(128), 60, 20, 300
	perFile = 40
	if *tier == "thorough" {
		nValues, nNumbers, expStep, nPert, nMid, nFuzz = 400, 2500, 1, 600, 200, 1600
		perFile = 250
	}
	if *per > 0 {
		perFile = *per
	}
	classValues(nValues)
	classNumbers(nNumbers, expStep)
	classTokens(nPert, nMid)
	classMalformed()
	classFuzz(nFuzz)
	if panics > 0 {
		violation("no_panic", fmt.Sprintf("%d inputs made the implementation panic (see stderr)", panics), map[string]interface{}{})
	}
	if violations == nil {
		violations = []map[string]interface{}{}
	}
	sj, _ := json.Marshal(map[string]interface{}{"histograms": hist, "samples": samples, "direct_violations": violations,
		"extra": map[string]interface{}{"tier": *tier, "seed": *seed, "panics": panics, "cases_per_file": perFile,
			"oracles": []string{"reserialisation", "fixed_point", "same_value", "malformed_rejected", "valid_input_accepted", "no_panic"}}})
	fmt.Println("STATS " + string(sj))
}
