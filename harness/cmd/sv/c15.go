package main

import (
	"errors"
	"fmt"
	"strings"

	"github.com/trustbloc/sidetree-core-go/pkg/api/operation"
	"github.com/trustbloc/sidetree-core-go/pkg/api/protocol"
	"github.com/trustbloc/sidetree-core-go/pkg/api/txn"
	"github.com/trustbloc/sidetree-core-go/pkg/dochandler"
	"github.com/trustbloc/sidetree-core-go/pkg/document"
	"github.com/trustbloc/sidetree-core-go/pkg/observer"
	"github.com/trustbloc/sidetree-core-go/pkg/patch"
	"github.com/trustbloc/sidetree-core-go/pkg/versions/1_0/txnprocessor"

	"verif/harness/internal/emit"
	"verif/harness/internal/out"
	"verif/harness/internal/world"
)

func init() { commands["c15"] = runC15 }

type txSpec struct {
	t        txn.SidetreeTxn
	putOK    bool
	delOK    bool
	dup      bool // the provider's answer carries a duplicate suffix
	nsOK     bool
	verOK    bool
	label    string
	expected []*operation.AnchoredOperation
}

type c15Store struct {
	poison string // when the current transaction's store write is to fail: the suffix whose presence makes a Put fail
	ops    []*operation.AnchoredOperation
	puts   [][]int
	cur    *txSpec
	calls  int
}

func (s *c15Store) Put(ops []*operation.AnchoredOperation) error {
	s.calls++
	if s.cur != nil && !s.cur.putOK {
		// the store refuses one particular operation (the last of the transaction): an all-or-nothing write
		// stores nothing, a write split into several calls would leave the earlier ones behind
		for _, o := range ops {
			if s.poison == "" || o.UniqueSuffix == s.poison {
				return errors.New("injected store failure")
			}
		}
	}
	s.ops = append(s.ops, ops...)
	return nil
}

type c15Unpub struct {
	cur *txSpec
}

func (u *c15Unpub) DeleteAll([]*operation.AnchoredOperation) error {
	if u.cur != nil && !u.cur.delOK {
		return errors.New("injected unpublished-store failure")
	}
	return nil
}

type c15Provider struct {
	inner protocol.OperationProvider
	specs map[string]*txSpec
	store *c15Store
	unpub *c15Unpub
}

func (p *c15Provider) GetTxnOperations(t *txn.SidetreeTxn) ([]*operation.AnchoredOperation, error) {
	sp := p.specs[fmt.Sprintf("%d/%d", t.TransactionTime, t.TransactionNumber)]
	p.store.cur, p.unpub.cur = sp, sp
	ops, err := p.inner.GetTxnOperations(t)
	p.store.poison = ""
	if err == nil && len(ops) > 0 {
		p.store.poison = ops[len(ops)-1].UniqueSuffix
	}
	// whatever references the provider's operations already carry, the processor stamps the transaction's
	if err == nil && (t.TransactionNumber+t.TransactionTime)%2 == 0 {
		for _, o := range ops {
			o.CanonicalReference, o.EquivalentReferences = "stale-canonical", []string{"stale-equivalent"}
		}
	}
	if err == nil && sp != nil && sp.dup && len(ops) > 0 {
		c := *ops[0]
		ops = append(ops, &c, ops[len(ops)-1])
	}
	return ops, err
}

type c15ClientProvider struct {
	pc protocol.Client
}

func (c *c15ClientProvider) ForNamespace(ns string) (protocol.Client, error) {
	if ns != "did:sidetree" {
		return nil, errors.New("no client for namespace")
	}
	return c.pc, nil
}

type c15Ledger struct{ ch chan []txn.SidetreeTxn }

func (l *c15Ledger) RegisterForSidetreeTxn() <-chan []txn.SidetreeTxn { return l.ch }

func sopGallina(ids *world.IDs, o *operation.AnchoredOperation) string {
	eq := strings.Join(o.EquivalentReferences, ",")
	return emit.App("Build_sop", tyName2(o.Type), emit.Z(ids.Of(o.UniqueSuffix)), one(world.ReadBack(ids, []*operation.AnchoredOperation{o})),
		emit.Z(int64(o.TransactionTime)), emit.Z(int64(o.TransactionNumber)), emit.Z(int64(o.ProtocolVersion)),
		emit.Z(ids.Of(o.CanonicalReference)), emit.Z(ids.Of(eq)))
}

func one(l string) string { return l[1 : len(l)-1] }

func tyName2(t operation.Type) string {
	return map[operation.Type]string{operation.TypeCreate: "Create", operation.TypeUpdate: "Update", operation.TypeRecover: "Recover", operation.TypeDeactivate: "Deactivate"}[t]
}

func runC15(c *ctx) error {
	r := out.New(c.out)
	g := r.Group("cases_C15", []string{"Resolve.Op", "Batch.Files", "Batch.TxnProc", "Corr.Txn"}, "tcase", "t_mismatches")
	gi := r.Group("cases_C15_intake", []string{"Batch.TxnProc", "Corr.Txn"}, "icase", "i_mismatches")
	e := newBatchEnv(c.seed, 6, 12)
	n := 250
	if c.tier == "thorough" {
		n = 8000
	}
	for i := 0; i < n; i++ {
		nt := 1 + e.rng.Intn(5)
		var specs []*txSpec
		for k := 0; k < nt; k++ {
			sp := &txSpec{putOK: true, delOK: true, nsOK: true, verOK: true}
			sp.t = txn.SidetreeTxn{TransactionTime: uint64(100 + 10*k + e.rng.Intn(5)), TransactionNumber: uint64(k), Namespace: "did:sidetree",
				ProtocolVersion: uint64(e.rng.Intn(5)), CanonicalReference: fmt.Sprintf("canon%d-%d", i, k), EquivalentReferences: []string{fmt.Sprintf("eq%da", k), fmt.Sprintf("eq%db", k)}}
			// transactions of ledgers that do not name a canonical reference, or name no reference at all
			switch e.rng.Intn(6) {
			case 0:
				sp.t.CanonicalReference = ""
			case 1:
				sp.t.CanonicalReference, sp.t.EquivalentReferences = "", nil
			}
			r.Count("transaction_references", fmt.Sprintf("canonical=%v equivalent=%d", sp.t.CanonicalReference != "", len(sp.t.EquivalentReferences)))
			var ops []world.ClientOp
			for len(ops) == 0 {
				for _, o := range e.genBatch(4 + e.rng.Intn(8)) {
					if !o.Expired {
						ops = append(ops, o)
					}
				}
			}
			info, err := e.ver.Handler.PrepareTxnFiles(queued(ops))
			if err != nil {
				return err
			}
			sp.t.AnchorString = info.AnchorString
			sp.label = "valid"
			switch e.rng.Intn(12) {
			case 0:
				sp.t.AnchorString = "1.nowhere"
				sp.label = "unreadable"
			case 1:
				sp.t.AnchorString = "x" + info.AnchorString
				sp.label = "malformed-anchor"
			case 2:
				sp.putOK = false
				sp.label = "store-fails"
			case 3:
				sp.delOK = false
				sp.label = "unpublished-delete-fails"
			case 4:
				sp.dup = true
				sp.label = "duplicate-suffixes"
			case 5:
				sp.t.Namespace = "did:other"
				sp.nsOK = false
				sp.label = "unknown-namespace"
			case 6:
				sp.t.ProtocolVersion = 5 // world client below starts at genesis 10 for this one
				sp.verOK = false
				sp.label = "no-protocol-version"
			case 7:
				// count in the anchor string disagrees with the files
				var cnt int
				fmt.Sscanf(info.AnchorString, "%d.", &cnt)
				sp.t.AnchorString = fmt.Sprintf("%d.%s", cnt+1, info.AnchorString[strings.Index(info.AnchorString, ".")+1:])
				sp.label = "count-mismatch"
			}
			specs = append(specs, sp)
		}
		for mode := 0; mode < 2; mode++ {
			store := &c15Store{}
			unpub := &c15Unpub{}
			prov := &c15Provider{inner: e.ver.Provider, specs: map[string]*txSpec{}, store: store, unpub: unpub}
			for _, sp := range specs {
				prov.specs[fmt.Sprintf("%d/%d", sp.t.TransactionTime, sp.t.TransactionNumber)] = sp
			}
			tp := txnprocessor.New(&txnprocessor.Providers{OpStore: store, OperationProtocolProvider: prov},
				txnprocessor.WithUnpublishedOperationStore(unpub, []operation.Type{operation.TypeCreate, operation.TypeUpdate}))
			p := e.p
			p.GenesisTime = 0
			v := *e.ver
			v.TxnProc = tp
			// versions: genesis 0 handles protocol version 0; version 5 has no protocol (Get fails) -> emulate by a client that refuses 5
			pc := &refusingClient{inner: &world.Client{Versions: []*world.Version{&v}}, refuse: 5}
			var results []string
			var txG []string
			for _, sp := range specs {
				// what the provider answers for this transaction (fact for the model)
				store.cur, unpub.cur = nil, nil
				ans, aerr := e.ver.Provider.GetTxnOperations(&sp.t)
				if aerr == nil && sp.dup && len(ans) > 0 {
					cp := *ans[0]
					ans = append(ans, &cp, ans[len(ans)-1])
				}
				opsG := "None"
				if aerr == nil {
					opsG = "(Some " + world.ReadBack(e.ids, ans) + ")"
				}
				txG = append(txG, "("+emit.App("Build_stxn", emit.Z(int64(sp.t.TransactionTime)), emit.Z(int64(sp.t.TransactionNumber)), emit.Z(int64(sp.t.ProtocolVersion)),
					emit.Z(e.ids.Of(sp.t.CanonicalReference)), emit.Z(e.ids.Of(strings.Join(sp.t.EquivalentReferences, ","))),
					emit.Bool(sp.nsOK), emit.Bool(sp.verOK), opsG)+", "+emit.Bool(sp.putOK)+", "+emit.Bool(sp.delOK)+")")
			}
			if mode == 0 {
				// direct TxnProcessor.Process calls (results observable)
				for _, sp := range specs {
					if !sp.nsOK || !sp.verOK {
						results = append(results, "skip")
						continue
					}
					nproc, err := tp.Process(sp.t)
					if err != nil {
						results = append(results, "err")
					} else {
						results = append(results, fmt.Sprint(nproc))
					}
				}
			} else {
				// through the observer
				ch := make(chan []txn.SidetreeTxn)
				obs := observer.New(&observer.Providers{Ledger: &c15Ledger{ch: ch}, ProtocolClientProvider: &c15ClientProvider{pc: pc}})
				obs.Start()
				var ts []txn.SidetreeTxn
				for _, sp := range specs {
					ts = append(ts, sp.t)
				}
				ch <- ts
				ch <- nil // returns once the first batch has been processed
				obs.Stop()
			}
			var labels []string
			for _, sp := range specs {
				labels = append(labels, sp.label)
				r.Count("txn_kind", sp.label)
			}
			var stored []string
			perSuffix := map[string]map[string]bool{}
			for _, o := range store.ops {
				stored = append(stored, sopGallina(e.ids, o))
				key := fmt.Sprintf("%d/%d", o.TransactionTime, o.TransactionNumber)
				if perSuffix[key] == nil {
					perSuffix[key] = map[string]bool{}
				}
				if perSuffix[key][o.UniqueSuffix] {
					r.Direct = append(r.Direct, out.Direct{Oracle: "one_operation_per_suffix_per_transaction", What: o.UniqueSuffix, Case: labels})
				}
				perSuffix[key][o.UniqueSuffix] = true
			}
			desc := map[string]interface{}{"transactions": labels, "mode": []string{"direct", "observer"}[mode], "results": results, "stored": len(store.ops)}
			// oracle on the implementation: every stored operation carries its transaction's references
			for _, o := range store.ops {
				var sp *txSpec
				for _, x := range specs {
					if x.t.TransactionTime == o.TransactionTime && x.t.TransactionNumber == o.TransactionNumber {
						sp = x
					}
				}
				if sp == nil || o.CanonicalReference != sp.t.CanonicalReference || strings.Join(o.EquivalentReferences, ",") != strings.Join(sp.t.EquivalentReferences, ",") ||
					o.ProtocolVersion != sp.t.ProtocolVersion {
					r.Direct = append(r.Direct, out.Direct{Oracle: "stored_operation_stamped_with_transaction",
						What: fmt.Sprintf("stored op (%d,%d) canonical=%q equivalent=%v", o.TransactionTime, o.TransactionNumber, o.CanonicalReference, o.EquivalentReferences), Case: desc})
					break
				}
			}
			var resG []string
			for _, x := range results {
				switch x {
				case "skip":
					resG = append(resG, "RSkip")
				case "err":
					resG = append(resG, "RErr")
				default:
					var k int
					fmt.Sscan(x, &k)
					resG = append(resG, emit.App("ROk", emit.Nat(k)))
				}
			}
			r.Add(g, emit.App("Build_tcase", emit.Bool(mode == 1), emit.List(txG), emit.List(stored), emit.List(resG)), desc,
				fmt.Sprint(i, mode, labels), len(specs) > 1)
		}
	}
	c15Intake(r, gi, e, c.tier == "thorough")
	return r.Finish(100)
}

type refusingClient struct {
	inner  *world.Client
	refuse uint64
}

func (c *refusingClient) Current() (protocol.Version, error) { return c.inner.Current() }
func (c *refusingClient) Get(t uint64) (protocol.Version, error) {
	if t == c.refuse {
		return nil, errors.New("no protocol version")
	}
	return c.inner.Get(t)
}

// ---- intake ----------------------------------------------------------------------------------

type iUnpub struct {
	ids    []int64
	putOK  bool
	lookup func([]byte) int64
}

func (u *iUnpub) Put(op *operation.AnchoredOperation) error {
	if !u.putOK {
		return errors.New("injected unpublished Put failure")
	}
	u.ids = append(u.ids, u.lookup(op.OperationRequest))
	return nil
}

func (u *iUnpub) Delete(op *operation.AnchoredOperation) error {
	id := u.lookup(op.OperationRequest)
	for i, x := range u.ids {
		if x == id {
			u.ids = append(u.ids[:i], u.ids[i+1:]...)
			break
		}
	}
	return nil
}

type iWriter struct {
	ids    []int64
	addOK  bool
	lookup func([]byte) int64
}

func (w *iWriter) Add(op *operation.QueuedOperation, _ uint64) error {
	if !w.addOK {
		return errors.New("injected batch writer failure")
	}
	w.ids = append(w.ids, w.lookup(op.OperationRequest))
	return nil
}

type iProcessor struct{ deactivated map[string]bool }

func (p *iProcessor) Resolve(suffix string, _ ...document.ResolutionOption) (*protocol.ResolutionModel, error) {
	return &protocol.ResolutionModel{Doc: document.Document{}, Deactivated: p.deactivated[suffix]}, nil
}

// unanswerableCreate builds a create request whose only key is typed Ed25519VerificationKey2018 but carries an EC
// P-256 JWK: the patch validator and the document validator accept it, the document transformer cannot render it.
func unanswerableCreate(e *batchEnv, n int) []byte {
	p, err := patch.NewAddPublicKeysPatch(fmt.Sprintf(`[{"id":"u%d","type":"Ed25519VerificationKey2018","purposes":["authentication"],"publicKeyJwk":{"kty":"EC","crv":"P-256","x":"PUymIqdtF_qxaAqPABSw-C-owT1KYYQbsMKFM-L9fJA","y":"nM84jDHCMOTGTh_ZdHq4dBBdo4Z5PkEOW9jA8z8IsGc"}}]`, n))
	world.Must(err)
	ks := e.kp.Keys
	op := world.Build(world.Spec{Type: operation.TypeCreate, NextUpd: ks[n%len(ks)].Commitment(world.SHA256), NextRec: ks[(n+1)%len(ks)].Commitment(world.SHA256),
		DeltaID: int64(n), Patches: []patch.Patch{p}, PatchOK: true, DValid: true, Origin: world.OriginValue(1), OriginID: 1})
	return op.Request
}

func c15Intake(r *out.Run, g *out.Group, e *batchEnv, thorough bool) {
	n := 300
	if thorough {
		n = 6000
	}
	reqIDs := map[string]int64{}
	lookup := func(b []byte) int64 {
		if v, ok := reqIDs[string(b)]; ok {
			return v
		}
		v := int64(len(reqIDs) + 1)
		reqIDs[string(b)] = v
		return v
	}
	for i := 0; i < n; i++ {
		unpub := &iUnpub{putOK: true, lookup: lookup}
		w := &iWriter{addOK: true, lookup: lookup}
		proc := &iProcessor{deactivated: map[string]bool{}}
		dh := dochandler.New("did:sidetree", nil, &world.Client{Versions: []*world.Version{e.ver}}, w, proc, world.NoopMetrics{},
			dochandler.WithUnpublishedOperationStore(unpub, []operation.Type{operation.TypeCreate, operation.TypeUpdate}))
		k := 1 + e.rng.Intn(6)
		var reqG []string
		var labels []string
		for j := 0; j < k; j++ {
			op := e.randomOp("")
			for op.Expired {
				op = e.randomOp("")
			}
			req := op.Request
			accepted := true
			label := string(op.Type)
			switch e.rng.Intn(7) {
			case 0:
				req = append([]byte(`{"broken":`), req...)
				accepted = false
				label += ":unparseable"
			case 1:
				if op.Type != operation.TypeCreate {
					proc.deactivated[op.Suffix] = true
					accepted = false
					label += ":deactivated-did"
				}
			case 2:
				// a create that passes the parser and the document validator but for which no response document can be
				// built (a key declared Ed25519VerificationKey2018 over a P-256 JWK): answered with an error = refused
				req = unanswerableCreate(e, i*10+j)
				accepted = false
				label = "create:unanswerable"
			}
			if accepted && op.Type != operation.TypeCreate && proc.deactivated[op.Suffix] {
				accepted = false
			}
			isCreate := op.Type == operation.TypeCreate || label == "create:unanswerable"
			qBefore, uBefore := len(w.ids), len(unpub.ids)
			unpub.putOK = e.rng.Intn(5) != 0
			w.addOK = e.rng.Intn(4) != 0
			unpubType := isCreate || op.Type == operation.TypeUpdate
			_, err := dh.ProcessOperation(req, 0)
			id := lookup(req)
			// whatever the reason: a call answered with an error has left nothing behind
			if err != nil && (len(w.ids) != qBefore || len(unpub.ids) != uBefore) {
				r.Direct = append(r.Direct, out.Direct{Oracle: "refused_at_intake_leaves_no_trace",
					What: fmt.Sprintf("%s: ProcessOperation returned %q but the queue grew by %d and the unpublished store by %d", label, err.Error(), len(w.ids)-qBefore, len(unpub.ids)-uBefore),
					Case: map[string]interface{}{"label": label, "request": string(req), "put_ok": unpub.putOK, "add_ok": w.addOK}})
			}
			labels = append(labels, fmt.Sprintf("%s put=%v add=%v -> err=%v", label, unpub.putOK, w.addOK, err != nil))
			r.Count("intake", fmt.Sprintf("accepted=%v put=%v add=%v", accepted, unpub.putOK, w.addOK))
			reqG = append(reqG, "("+emit.App("Build_intake_req", emit.Z(id), emit.Bool(accepted), emit.Bool(unpubType), emit.Bool(unpub.putOK), emit.Bool(w.addOK))+", "+emit.Bool(err == nil)+")")
		}
		r.Add(g, emit.App("Build_icase", emit.List(reqG), zl(w.ids), zl(unpub.ids)), map[string]interface{}{"requests": labels, "queue": w.ids, "unpublished": unpub.ids},
			fmt.Sprint(labels), true)
	}
}
