package main

import (
	"encoding/base64"
	"fmt"
	"reflect"

	"github.com/trustbloc/sidetree-core-go/pkg/api/operation"
	"github.com/trustbloc/sidetree-core-go/pkg/versions/1_0/client"

	"verif/harness/internal/out"
	"verif/harness/internal/world"
)

var b64raw = base64.RawURLEncoding

// refState is the intended state after a sequence of built requests (the caller's expectation).
type refState struct {
	ids      []int64
	upd, rec string
	deact    bool
}

type builtDID struct {
	code   uint
	keys   []*world.Key // chain of keys: rec0, upd0, then fresh ones
	nextK  int
	suffix string
	curRec *world.Key
	curUpd *world.Key
	nextID int64
}

func (d *builtDID) fresh() *world.Key {
	k := d.keys[d.nextK%len(d.keys)]
	d.nextK++
	return k
}

func wrapOp(ty operation.Type, req []byte, suffix string, id int64, from, until int64, originID int64, reveal *world.Key, updC, recC string, code uint, label string) *world.Op {
	op := &world.Op{Spec: world.Spec{Label: label, Type: ty, DeltaID: id, From: from, Until: until, Origin: world.OriginValue(originID), OriginID: originID, Code: code},
		Request: req, ParseOK: true, SigOK: true, SfxOK: true, DHashOK: true, DValid: true, PatchOK: true, UpdC: updC, RecC: recC, UniqueSuffix: suffix}
	if reveal != nil {
		op.RevealC = reveal.Commitment(code)
	}
	return op
}

// effects: build whole DID lives with the client library, anchor them, resolve with the real processor;
// compare with the intended state (oracle) and with the resolution model (case file).
func (x *c11) effects(c *ctx, kp *world.KeyPool) {
	r := x.r
	g := r.Group("cases_C11_effect", resolveImports, "rcase", "mismatches")
	env := newResolveEnv(c.seed, 5)
	env.kp = kp
	scripts := [][]string{
		{}, {"U"}, {"U", "U"}, {"U", "U", "U"}, {"R"}, {"U", "R"}, {"R", "U"}, {"U", "R", "U", "U"}, {"D"}, {"U", "D"}, {"R", "D"},
		{"Uearly"}, {"Ulate"}, {"Udefault-in"}, {"Udefault-late"}, {"U", "Ulate", "U"}, {"Rlate"}, {"Dlate"}, {"Dearly"}, {"R", "R"}, {"U", "R", "R", "U"},
	}
	reps := 1
	if c.tier == "thorough" {
		reps = 6
	}
	oid := int64(0)
	for rep := 0; rep < reps; rep++ {
		for kt := 0; kt < int(world.NumKeyTypes); kt++ {
			for _, code := range []uint{world.SHA256, world.SHA512} {
				for si, script := range scripts {
					// keys: all of one type first (so that every algorithm signs), then mixed
					var keys, others []*world.Key
					for i := range kp.Keys {
						k := kp.Keys[(i+rep)%len(kp.Keys)]
						if int(k.Type) == kt {
							keys = append(keys, k)
						} else {
							others = append(others, k)
						}
					}
					keys = append(keys, others...)
					if world.KeyType(kt) == world.Secp256k1 && len(keys) > 1 {
						// the first update key has a short coordinate
						keys = append([]*world.Key{keys[0], world.ShortCoordinateKey()}, keys[1:]...)
					}
					d := &builtDID{code: code, keys: keys, nextID: int64(10 + si)}
					d.curRec, d.curUpd = d.fresh(), d.fresh()
					id := d.nextID
					d.nextID++
					creq, err := client.NewCreateRequest(&client.CreateRequestInfo{Patches: world.DefaultPatches(id), RecoveryCommitment: d.curRec.Commitment(code),
						UpdateCommitment: d.curUpd.Commitment(code), AnchorOrigin: world.OriginValue(1), MultihashCode: code})
					world.Must(err)
					d.suffix = world.SuffixOfCreate(creq, code)
					ref := refState{ids: []int64{id}, upd: d.curUpd.Commitment(code), rec: d.curRec.Commitment(code)}
					t := uint64(1000)
					oid++
					h := &world.History{Level: 1}
					h.Pub = append(h.Pub, world.Placed{Op: wrapOp(operation.TypeCreate, creq, d.suffix, id, 0, 0, 1, nil, ref.upd, ref.rec, code, "create"),
						OID: oid, Time: t, Num: 1, CRef: oid, PVer: t})
					exact := true // the direct oracle states the intended state only for in-window scripts
					for _, step := range script {
						t += 10
						oid++
						kind := step[:1]
						wk := world.WIn
						switch step[1:] {
						case "early":
							wk = world.WEarly
						case "late":
							wk = world.WLate
						case "default-in":
							wk = world.WDefaultIn
						case "default-late":
							wk = world.WDefaultLate
						}
						from, until := world.WindowFor(wk, int64(t), env.dl)
						inWin := wk == world.WIn || wk == world.WDefaultIn
						id := d.nextID
						d.nextID++
						var op *world.Op
						switch kind {
						case "U":
							next := d.fresh()
							req, err := client.NewUpdateRequest(&client.UpdateRequestInfo{DidSuffix: d.suffix, Patches: world.DefaultPatches(id), UpdateCommitment: next.Commitment(code),
								UpdateKey: d.curUpd.JWK, MultihashCode: code, Signer: d.curUpd.Signer, RevealValue: d.curUpd.Reveal(code), AnchorFrom: from, AnchorUntil: until})
							world.Must(err)
							op = wrapOp(operation.TypeUpdate, req, d.suffix, id, from, until, 0, d.curUpd, next.Commitment(code), "", code, step)
							op.NextC = op.UpdC
							d.curUpd = next
							ref.upd = next.Commitment(code)
							if inWin {
								ref.ids = append(ref.ids, id)
							}
						case "R":
							nr, nu := d.fresh(), d.fresh()
							org := int64(2 + len(h.Pub)%3)
							req, err := client.NewRecoverRequest(&client.RecoverRequestInfo{DidSuffix: d.suffix, RecoveryKey: d.curRec.JWK, Patches: world.DefaultPatches(id),
								RecoveryCommitment: nr.Commitment(code), UpdateCommitment: nu.Commitment(code), AnchorOrigin: world.OriginValue(org), AnchorFrom: from, AnchorUntil: until,
								MultihashCode: code, Signer: d.curRec.Signer, RevealValue: d.curRec.Reveal(code)})
							world.Must(err)
							op = wrapOp(operation.TypeRecover, req, d.suffix, id, from, until, org, d.curRec, nu.Commitment(code), nr.Commitment(code), code, step)
							op.NextC = op.RecC
							d.curRec, d.curUpd = nr, nu
							ref.rec, ref.upd = nr.Commitment(code), nu.Commitment(code)
							if inWin {
								ref.ids = []int64{id}
							} else {
								ref.ids = nil
							}
						case "D":
							req, err := client.NewDeactivateRequest(&client.DeactivateRequestInfo{DidSuffix: d.suffix, RecoveryKey: d.curRec.JWK, Signer: d.curRec.Signer,
								RevealValue: d.curRec.Reveal(code), AnchorFrom: from, AnchorUntil: until})
							world.Must(err)
							op = wrapOp(operation.TypeDeactivate, req, d.suffix, 0, from, until, 0, d.curRec, "", "", code, step)
							if inWin {
								ref.deact, ref.ids, ref.upd, ref.rec = true, nil, "", ""
							}
						}
						h.Pub = append(h.Pub, world.Placed{Op: op, OID: oid, Time: t, Num: 1, CRef: oid, PVer: t})
					}
					oc := h.Run(env.pc, env.tb, oidOf)
					desc := descHistory(h, nil, oc)
					desc["script"] = fmt.Sprint(script)
					desc["key_type"] = world.KeyType(kt).Crv()
					desc["code"] = code
					r.Count("effect-script", fmt.Sprint(script))
					r.Count("effect-key-type", world.KeyType(kt).Crv()+"/"+fmt.Sprint(code))
					r.Count("effect-outcome", outcomeBucket(oc))
					if exact {
						got := refState{ids: oc.Doc, deact: oc.Deact}
						ok := oc.Err == "" && oc.Panic == "" && reflect.DeepEqual(append([]int64{}, got.ids...), append([]int64{}, ref.ids...)) &&
							oc.Upd == env.tb.ID(ref.upd) && oc.Rec == env.tb.ID(ref.rec) && oc.Deact == ref.deact
						if !ok {
							r.Direct = append(r.Direct, out.Direct{Oracle: "built_requests_take_effect", What: fmt.Sprintf("intended ids=%v upd=%d rec=%d deact=%v, resolved %s",
								ref.ids, env.tb.ID(ref.upd), env.tb.ID(ref.rec), ref.deact, coreKey(oc)), Case: desc})
						}
					}
					r.Add(g, h.CaseGallina(env.tb, env.md, oc), desc, fmt.Sprintf("%d|%d|%v|%d", kt, code, script, rep), len(script) > 0)
				}
			}
		}
	}
}
