// Command sv is the correspondence harness: it runs the real implementation on generated inputs
// and writes Gallina case files that the Coq model is evaluated against.
package main

import (
	"flag"
	"fmt"
	"os"

	"github.com/trustbloc/logutil-go/pkg/log"
)

type cmdFn func(c *ctx) error

type ctx struct {
	out  string
	seed int64
	tier string
	args []string
}

var commands = map[string]cmdFn{}

func main() {
	log.SetDefaultLevel(log.PANIC)
	if len(os.Args) < 2 {
		fmt.Fprintln(os.Stderr, "usage: sv <command> -out dir [-seed n] [-tier quick|thorough]")
		os.Exit(2)
	}
	name := os.Args[1]
	fn, ok := commands[name]
	if !ok {
		fmt.Fprintln(os.Stderr, "unknown command", name)
		os.Exit(2)
	}
	fs := flag.NewFlagSet(name, flag.ExitOnError)
	c := &ctx{}
	fs.StringVar(&c.out, "out", "", "output directory")
	fs.Int64Var(&c.seed, "seed", 1, "PRNG seed")
	fs.StringVar(&c.tier, "tier", "quick", "quick|thorough")
	fs.Parse(os.Args[2:])
	c.args = fs.Args()
	if c.out == "" {
		fmt.Fprintln(os.Stderr, "-out required")
		os.Exit(2)
	}
	if err := os.MkdirAll(c.out, 0o755); err != nil {
		fmt.Fprintln(os.Stderr, err)
		os.Exit(2)
	}
	if err := fn(c); err != nil {
		fmt.Fprintln(os.Stderr, "harness error:", err)
		os.Exit(3)
	}
}
