package main

import (
	"fmt"

	"github.com/trustbloc/sidetree-core-go/pkg/api/operation"
	"github.com/trustbloc/sidetree-core-go/pkg/api/protocol"
	"github.com/trustbloc/sidetree-core-go/pkg/versions/1_0/operationparser"

	"verif/harness/internal/emit"
	"verif/harness/internal/out"
	"verif/harness/internal/world"
)

func init() { commands["c05"] = runC05 }

type recTV struct {
	called      bool
	from, until int64
}

func (r *recTV) Validate(from, until int64) error {
	r.called, r.from, r.until = true, from, until
	return nil
}

type c05cfg struct {
	name string
	p    protocol.Protocol
}

func c05Configs() []c05cfg {
	base := world.DefaultProtocol()
	mk := func(name string, f func(p *protocol.Protocol)) c05cfg {
		p := base
		f(&p)
		return c05cfg{name, p}
	}
	return []c05cfg{
		mk("default", func(p *protocol.Protocol) {}),
		mk("delta50", func(p *protocol.Protocol) { p.MaxOperationTimeDelta = 50 }),
		mk("maxdelta2500", func(p *protocol.Protocol) { p.MaxDeltaSize = 2500 }),
		mk("opsize7000_hash110", func(p *protocol.Protocol) { p.MaxOperationSize = 7000; p.MaxOperationHashLength = 110 }),
		mk("delta0", func(p *protocol.Protocol) { p.MaxOperationTimeDelta = 0 }),
		mk("nonce20_count9", func(p *protocol.Protocol) { p.NonceSize = 20; p.MaxOperationCount = 9 }),
	}
}

// numeric parameters whose values could be confused with the time delta
func numericParams(p protocol.Protocol) []int64 {
	return []int64{int64(p.MaxOperationTimeDelta), int64(p.MaxDeltaSize), int64(p.MaxOperationSize),
		int64(p.MaxOperationHashLength), int64(p.NonceSize), int64(p.MaxOperationCount), int64(p.MaxCasURILength),
		int64(p.MaxMemoryDecompressionFactor)}
}

func runC05(c *ctx) error {
	r := out.New(c.out)
	gRes := r.Group("cases_C05_resolve", []string{"Resolve.Op", "Resolve.Process", "Corr.Resolve"}, "rcase", "mismatches")
	gWin := r.Group("cases_C05_intake", []string{"Corr.Resolve", "Corr.Window"}, "wcase", "wmismatches")

	const F = 100000
	type win struct{ from, until int64 }
	wins := []win{{0, 0}, {F, 0}, {F, F + 100}, {0, F + 100}, {F, F}, {F, F - 10}, {F, 1}}
	types := []operation.Type{operation.TypeUpdate, operation.TypeRecover, operation.TypeDeactivate}
	cfgs := c05Configs()
	nKT := int(world.NumKeyTypes)
	if c.tier == "quick" {
		// all key types are still covered: the type rotates with the window index
	}

	tb := world.NewTable()
	caseNo := 0
	type metaEntry struct{ cfg, core string }
	meta := map[string]metaEntry{}
	r.Extra["metamorphic_pairs"] = 0
	for kt := 0; kt < nKT; kt++ {
		recK := world.NewKey(0, world.KeyType(kt))
		updK := world.NewKey(1, world.KeyType((kt+1)%nKT))
		next1 := world.NewKey(2, world.KeyType((kt+2)%nKT))
		next2 := world.NewKey(3, world.KeyType((kt+3)%nKT))
		tb.ID(recK.Commitment(world.SHA256))
		tb.ID(updK.Commitment(world.SHA256))
		tb.ID(next1.Commitment(world.SHA256))
		tb.ID(next2.Commitment(world.SHA256))
		create := world.Build(world.Spec{Label: "create", Type: operation.TypeCreate, NextUpd: updK.Commitment(world.SHA256),
			NextRec: recK.Commitment(world.SHA256), DeltaID: 1})
		for wi, w := range wins {
			if c.tier == "quick" && (wi+kt)%2 == 1 && wi > 1 {
				continue
			}
			for _, ty := range types {
				spec := world.Spec{Label: fmt.Sprintf("%s from=%d until=%d", ty, w.from, w.until), Type: ty, Suffix: create.UniqueSuffix,
					From: w.from, Until: w.until, DeltaID: 2}
				switch ty {
				case operation.TypeUpdate:
					spec.RevealKey, spec.SignedKey, spec.SignWith = updK, updK, updK
					spec.NextUpd = next1.Commitment(world.SHA256)
				case operation.TypeRecover:
					spec.RevealKey, spec.SignedKey, spec.SignWith = recK, recK, recK
					spec.NextUpd = next1.Commitment(world.SHA256)
					spec.NextRec = next2.Commitment(world.SHA256)
				case operation.TypeDeactivate:
					spec.RevealKey, spec.SignedKey, spec.SignWith = recK, recK, recK
				}
				op := world.Build(spec)
				for _, cfg := range cfgs {
					ver := world.NewVersion("1.0", cfg.p, world.VersionOpts{})
					pc := &world.Client{Versions: []*world.Version{ver}}
					// the server-time validator is an intake device: a node whose clock refuses everything must resolve alike
					verR := world.NewVersion("1.0", cfg.p, world.VersionOpts{ParserOpts: []operationparser.Option{operationparser.WithAnchorTimeValidator(okTV{false})}})
					pcR := &world.Client{Versions: []*world.Version{verR}}
					md := func(uint64) (int64, bool) { return int64(cfg.p.MaxOperationTimeDelta), true }

					// intake: arguments handed to the time validator
					tv := &recTV{}
					pv := world.NewVersion("1.0", cfg.p, world.VersionOpts{ParserOpts: []operationparser.Option{operationparser.WithAnchorTimeValidator(tv)}})
					_, perr := pv.Parser.ParseOperation("did:sidetree", op.Request, false)
					r.Count("intake_outcome", fmt.Sprint(perr == nil))
					wc := emit.App("Build_wcase", emit.Z(int64(cfg.p.MaxOperationTimeDelta)), emit.Z(w.from), emit.Z(w.until),
						emit.Bool(tv.called), emit.Z(tv.from), emit.Z(tv.until))
					r.Add(gWin, wc, map[string]interface{}{"kind": "intake", "cfg": cfg.name, "type": ty, "from": w.from, "until": w.until,
						"called": tv.called, "obs_from": tv.from, "obs_until": tv.until, "request": string(op.Request)},
						fmt.Sprintf("%s|%d|%d|%s", ty, w.from, w.until, cfg.name), w.from != 0 || w.until != 0)

					// anchoring times around every boundary
					anchors := map[int64]bool{}
					addB := func(b int64) {
						for _, d := range []int64{-1, 0, 1} {
							if b+d > 10 {
								anchors[b+d] = true
							}
						}
					}
					addB(F)
					addB(w.until)
					for _, other := range cfgs {
						for _, v := range numericParams(other.p) {
							addB(w.from + v)
							if c.tier == "thorough" {
								addB(w.until + v)
							}
						}
					}
					addB(F + 100)
					if c.tier == "thorough" {
						addB(20)
						addB(4000000000)
					}
					for a := range anchors {
						caseNo++
						h := &world.History{Level: 1, Pub: []world.Placed{
							{Op: create, OID: 1, Time: 5, Num: 0, CRef: 1, PVer: 5},
							{Op: op, OID: 2, Time: uint64(a), Num: 1, CRef: 2, PVer: uint64(a)},
						}}
						usePC, tvKind := pc, "none"
						if caseNo%2 == 1 {
							usePC, tvKind = pcR, "refusing"
						}
						oc := h.Run(usePC, tb, oidOf)
						r.Count("resolution_time_validator", tvKind)
						in := "out"
						if len(oc.Doc) == 2 || oc.Deact {
							in = "in"
						}
						if ty == operation.TypeRecover && len(oc.Doc) == 1 && oc.Doc[0] == 2 {
							in = "in"
						}
						r.Count("window_outcome", string(ty)+":"+in)
						r.Count("config", cfg.name)
						r.Count("key_type", world.KeyType(kt).Crv())
						desc := map[string]interface{}{"kind": "resolve", "cfg": cfg.name, "type": ty, "from": w.from, "until": w.until, "anchor": a,
							"key_type": world.KeyType(kt).Crv(), "impl": oc, "create": string(create.Request), "request": string(op.Request)}
						r.Add(gRes, h.CaseGallina(tb, md, oc), desc,
							fmt.Sprintf("%s|%d|%d|%d|%s", ty, w.from, w.until, a, cfg.name), w.from != 0 || w.until != 0)
						// metamorphic oracle on the implementation alone: configurations that differ only in
						// parameters other than MaxOperationTimeDelta must agree
						mk := fmt.Sprintf("%d|%s|%d|%d|%d|%d", kt, ty, w.from, w.until, a, cfg.p.MaxOperationTimeDelta)
						core := fmt.Sprintf("%v|%v|%d|%d|%v|%s", oc.HasDoc, oc.Doc, oc.Upd, oc.Rec, oc.Deact, oc.Err)
						if prev, ok := meta[mk]; ok {
							r.Extra["metamorphic_pairs"] = r.Extra["metamorphic_pairs"].(int) + 1
							if prev.core != core {
								r.Direct = append(r.Direct, out.Direct{Oracle: "window_param_only",
									What: fmt.Sprintf("configs %s and %s (same MaxOperationTimeDelta) disagree: %s vs %s", prev.cfg, cfg.name, prev.core, core), Case: desc})
							}
						} else {
							meta[mk] = metaEntry{cfg.name, core}
						}
					}
				}
			}
		}
	}
	r.Extra["key_types"] = nKT
	return r.Finish(600)
}

func oidOf(o *operation.AnchoredOperation) int64 {
	for _, e := range o.EquivalentReferences {
		var v int64
		if _, err := fmt.Sscanf(e, "oid:%d", &v); err == nil {
			return v
		}
	}
	return -1
}
