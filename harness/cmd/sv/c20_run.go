package main

// C20 workloads, observation, oracles on the implementation, emission of cases.

import (
	"fmt"
	"math/rand"
	"reflect"
	"sort"
	"strings"

	"github.com/trustbloc/sidetree-core-go/pkg/api/operation"
	"github.com/trustbloc/sidetree-core-go/pkg/patch"
	"github.com/trustbloc/sidetree-core-go/pkg/versions/1_0/client"

	"verif/harness/internal/emit"
	"verif/harness/internal/out"
	"verif/harness/internal/world"
)

func init() { commands["c20"] = runC20 }

// ---- client side: one DID ---------------------------------------------------------------------

type c20State struct {
	keys  []int64
	svcs  []int64
	upd   string
	rec   string
	deact bool
}

type c20DID struct {
	idx      int
	sfxID    int64
	suffix   string
	keys     []*world.Key
	nextK    int
	curRec   *world.Key
	curUpd   *world.Key
	prevUpd  []*world.Key
	create   *c20Req
	plan     []string
	pos      int
	exact    bool // the intended state is determined (no windowed / expiring operation so far)
	intended c20State
	respView *c20View
	longView *c20View
	shortOK  bool
	created  bool
	accepted []*c20Req
}

func (d *c20DID) fresh() *world.Key {
	k := d.keys[d.nextK%len(d.keys)]
	d.nextK++
	return k
}

func c20Patches(id int64, services bool) []patch.Patch {
	p := world.DefaultPatches(id)
	if services {
		sp, err := patch.NewAddServiceEndpointsPatch(fmt.Sprintf(`[{"id":"svc%d","type":"LinkedDomains","serviceEndpoint":"https://example%d.com"}]`, id, id))
		world.Must(err)
		p = append(p, sp)
	}
	return p
}

type c20Gen struct {
	rng       *rand.Rand
	kp        *world.KeyPool
	w         *c20World
	dids      []*c20DID
	nextID    int64
	nextDelta int64
	steps     []string
	trace     []interface{}
	r         *out.Run
	desc      map[string]interface{}
	observed  uint64 // transactions handed to the observer so far
	devs      []map[string]interface{}
	direct    bool
	seq       int
	nSubmit   int
	nRefused  int
	nFlush    int
	nNoAnchor int    // all-expired batches (committed without an anchor write) seen so far
	nextNum   uint64 // the ledger's next transaction number after the last flush
}

func (g *c20Gen) newDID(plan []string) *c20DID {
	idx := len(g.dids)
	off := g.rng.Intn(len(g.kp.Keys))
	ks := make([]*world.Key, len(g.kp.Keys))
	for i := range ks {
		ks[i] = g.kp.Keys[(i+off)%len(g.kp.Keys)]
	}
	d := &c20DID{idx: idx, keys: ks, plan: plan, exact: true}
	d.curRec, d.curUpd = d.fresh(), d.fresh()
	g.dids = append(g.dids, d)
	// the create request exists from the start (the suffix is derived from it), submitted when the plan says so
	g.nextDelta++
	id := g.nextDelta
	svc := g.rng.Intn(2) == 0
	req, err := client.NewCreateRequest(&client.CreateRequestInfo{Patches: c20Patches(id, svc), RecoveryCommitment: d.curRec.Commitment(world.SHA256),
		UpdateCommitment: d.curUpd.Commitment(world.SHA256), AnchorOrigin: world.OriginValue(1), MultihashCode: world.SHA256})
	world.Must(err)
	d.suffix = world.SuffixOfCreate(req, world.SHA256)
	d.sfxID = int64(idx + 1)
	d.create = &c20Req{DID: idx, SfxID: d.sfxID, Suffix: d.suffix, Type: operation.TypeCreate, Request: req, Label: "create", IntakeOK: true,
		ParseOK: true, SigOK: true, SfxOK: true, DHashOK: true, DValid: true, PatchOK: true, UpdC: d.curUpd.Commitment(world.SHA256),
		RecC: d.curRec.Commitment(world.SHA256), DeltaID: id, Services: svc, OriginID: 1}
	return d
}

func (d *c20DID) shortDID() string { return c20NS + ":" + d.suffix }
func (d *c20DID) longDID() string {
	_, seg, _ := longFormOf(d.create.Request)
	return c20NS + ":" + d.suffix + ":" + seg
}

// build makes the next request of the given kind against the client's own view of the DID.
// advance tells whether the client moves its keys if the request is accepted.
func (g *c20Gen) build(d *c20DID, kind string) (rq *c20Req, advance func()) {
	now := int64(g.w.clk.now)
	from, until := int64(0), int64(0)
	switch {
	case strings.HasSuffix(kind, "win"): // explicit window around now
		from, until = now-1, now+int64(3+g.rng.Intn(40))
	case strings.HasSuffix(kind, "def"): // default window: anchorFrom only
		from = now
	}
	code := uint(world.SHA256)
	base := func(ty operation.Type, req []byte, label string) *c20Req {
		return &c20Req{DID: d.idx, SfxID: d.sfxID, Suffix: d.suffix, Type: ty, Request: req, Label: label, IntakeOK: true,
			ParseOK: true, SigOK: true, SfxOK: true, DHashOK: true, DValid: true, PatchOK: true, From: from, Until: until}
	}
	switch kind[:1] {
	case "C":
		c := *d.create
		return &c, func() {
			d.created = true
			d.intended = c20State{keys: []int64{c.DeltaID}, upd: c.UpdC, rec: c.RecC}
			if c.Services {
				d.intended.svcs = []int64{c.DeltaID}
			}
		}
	case "U":
		g.nextDelta++
		id := g.nextDelta
		switch kind {
		case "Uforged", "Ureveal", "Ustale":
			stranger := d.keys[len(d.keys)-1]
			next := d.keys[len(d.keys)-2]
			s := world.Spec{Label: kind, Type: operation.TypeUpdate, Suffix: d.suffix, RevealKey: d.curUpd, SignedKey: d.curUpd, SignWith: d.curUpd,
				NextUpd: next.Commitment(code), DeltaID: id, Code: code}
			switch kind {
			case "Uforged":
				s.SignWith = stranger
			case "Ureveal":
				s.RevealKey = stranger
			case "Ustale":
				old := d.prevUpd[len(d.prevUpd)-1]
				s.RevealKey, s.SignedKey, s.SignWith = old, old, old
			}
			op := world.Build(s)
			rq = base(operation.TypeUpdate, op.Request, kind)
			rq.ParseOK, rq.SigOK, rq.RevealC, rq.UpdC, rq.DeltaID = op.ParseOK, op.SigOK, op.RevealC, op.UpdC, id
			rq.IntakeOK = op.ParseOK
			return rq, func() {}
		}
		next := d.fresh()
		req, err := client.NewUpdateRequest(&client.UpdateRequestInfo{DidSuffix: d.suffix, Patches: c20Patches(id, false), UpdateCommitment: next.Commitment(code),
			UpdateKey: d.curUpd.JWK, MultihashCode: code, Signer: d.curUpd.Signer, RevealValue: d.curUpd.Reveal(code), AnchorFrom: from, AnchorUntil: until})
		world.Must(err)
		rq = base(operation.TypeUpdate, req, kind)
		rq.RevealC, rq.UpdC, rq.DeltaID = d.curUpd.Commitment(code), next.Commitment(code), id
		return rq, func() {
			d.prevUpd = append(d.prevUpd, d.curUpd)
			d.curUpd = next
			d.intended.upd = rq.UpdC
			d.intended.keys = append(d.intended.keys, id)
		}
	case "R":
		g.nextDelta++
		id := g.nextDelta
		nr, nu := d.fresh(), d.fresh()
		svc := g.rng.Intn(2) == 0
		req, err := client.NewRecoverRequest(&client.RecoverRequestInfo{DidSuffix: d.suffix, RecoveryKey: d.curRec.JWK, Patches: c20Patches(id, svc),
			RecoveryCommitment: nr.Commitment(code), UpdateCommitment: nu.Commitment(code), AnchorOrigin: world.OriginValue(2), AnchorFrom: from, AnchorUntil: until,
			MultihashCode: code, Signer: d.curRec.Signer, RevealValue: d.curRec.Reveal(code)})
		world.Must(err)
		rq = base(operation.TypeRecover, req, kind)
		rq.RevealC, rq.UpdC, rq.RecC, rq.DeltaID, rq.Services, rq.OriginID = d.curRec.Commitment(code), nu.Commitment(code), nr.Commitment(code), id, svc, 2
		return rq, func() {
			d.prevUpd = append(d.prevUpd, d.curUpd)
			d.curRec, d.curUpd = nr, nu
			d.intended = c20State{keys: []int64{id}, upd: rq.UpdC, rec: rq.RecC}
			if svc {
				d.intended.svcs = []int64{id}
			}
		}
	case "D":
		req, err := client.NewDeactivateRequest(&client.DeactivateRequestInfo{DidSuffix: d.suffix, RecoveryKey: d.curRec.JWK, Signer: d.curRec.Signer,
			RevealValue: d.curRec.Reveal(code), AnchorFrom: from, AnchorUntil: until})
		world.Must(err)
		rq = base(operation.TypeDeactivate, req, kind)
		rq.RevealC = d.curRec.Commitment(code)
		return rq, func() { d.intended = c20State{deact: true} }
	}
	panic("c20: unknown kind " + kind)
}

// ---- emission ---------------------------------------------------------------------------------

func c20Ty(t operation.Type) string { return tyName2(t) }

func (g *c20Gen) reqGallina(q *c20Req) string {
	tb := g.w.tb
	aop := emit.App("mk_aop", emit.Z(q.ID), c20Ty(q.Type), emit.Z(0), emit.Z(0), emit.Z(0), "None",
		emit.Bool(q.ParseOK), emit.Z(tb.ID(q.RevealC)), emit.Bool(q.SigOK), emit.Bool(q.SfxOK), emit.Bool(q.DHashOK), emit.Bool(q.DValid), emit.Bool(q.PatchOK),
		emit.Z(q.From), emit.Z(q.Until), emit.Z(q.DeltaID), emit.Z(tb.ID(q.UpdC)), emit.Z(tb.ID(q.RecC)), emit.Z(q.OriginID))
	return emit.App("mk_req", emit.Z(q.SfxID), emit.Z(q.Key), emit.Bool(q.IntakeOK), aop)
}

func viewGallina(v c20View) string {
	if v.Err != "" {
		return emit.App("RView", "[]", emit.Z(-1), emit.Z(-1), "false", "false")
	}
	if !v.Found {
		return "RNotFound"
	}
	return emit.App("RView", zl(v.Doc), emit.Z(v.Upd), emit.Z(v.Rec), emit.Bool(v.Deact), emit.Bool(v.Pub))
}

func (g *c20Gen) addStep(ev string, obs []string, label interface{}) {
	g.steps = append(g.steps, "("+ev+", "+emit.List(obs)+")")
	g.trace = append(g.trace, label)
}

// ---- independent reference (oracle i) ---------------------------------------------------------

type c20Anch struct {
	q      *c20Req
	time   uint64
	num    uint64
	mdelta int64
	hasVer bool
}

func inWindowRef(mdelta, from, until, anchor int64) bool {
	if from == 0 && until == 0 {
		return true
	}
	if from > anchor {
		return false
	}
	if from != 0 && until == 0 {
		until = from + mdelta
	}
	return until >= anchor
}

// c20Reference: the Sidetree state machine over anchored operations in anchoring order (the order
// of the slice).  Earliest create; recovery lineage (earliest operation revealing the recovery
// commitment in force); then the update lineage over updates anchored after the last recovery.
func c20Reference(ops []c20Anch) (st c20State, found bool) {
	var lastT, lastN uint64
	ci := -1
	for i, o := range ops {
		if o.q.Type == operation.TypeCreate && o.q.ParseOK && o.hasVer {
			ci = i
			break
		}
	}
	if ci < 0 {
		return st, false
	}
	c := ops[ci]
	st.rec = c.q.RecC
	lastT, lastN = c.time, c.num
	if c.q.DHashOK && c.q.DValid {
		st.upd = c.q.UpdC
		if c.q.PatchOK {
			st.keys = []int64{c.q.DeltaID}
			if c.q.Services {
				st.svcs = []int64{c.q.DeltaID}
			}
		}
	}
	next := func(o c20Anch) string {
		switch o.q.Type {
		case operation.TypeUpdate:
			return o.q.UpdC
		case operation.TypeRecover:
			return o.q.RecC
		}
		return ""
	}
	signed := func(o c20Anch) bool { return o.q.ParseOK && o.q.SigOK && o.hasVer }
	// recovery lineage
	consumed := map[string]bool{}
	for st.rec != "" {
		cur := st.rec
		applied := false
		for _, o := range ops {
			if (o.q.Type != operation.TypeRecover && o.q.Type != operation.TypeDeactivate) || !o.q.ParseOK || !o.hasVer || o.q.RevealC != cur {
				continue
			}
			n := next(o)
			if n == cur || (n != "" && consumed[n]) || !signed(o) {
				continue
			}
			inWin := inWindowRef(o.mdelta, o.q.From, o.q.Until, int64(o.time))
			if o.q.Type == operation.TypeDeactivate {
				if !o.q.SfxOK || !inWin {
					continue
				}
				st = c20State{deact: true}
			} else {
				st = c20State{rec: o.q.RecC}
				if o.q.DHashOK && o.q.DValid {
					st.upd = o.q.UpdC
					if inWin && o.q.PatchOK {
						st.keys = []int64{o.q.DeltaID}
						if o.q.Services {
							st.svcs = []int64{o.q.DeltaID}
						}
					}
				}
			}
			lastT, lastN = o.time, o.num
			applied = true
			break
		}
		if !applied {
			break
		}
		consumed[cur] = true
	}
	if st.deact {
		return st, true
	}
	consumed = map[string]bool{}
	for st.upd != "" {
		cur := st.upd
		applied := false
		for _, o := range ops {
			if o.q.Type != operation.TypeUpdate || !o.q.ParseOK || !o.hasVer || o.q.RevealC != cur {
				continue
			}
			if o.time < lastT || (o.time == lastT && o.num <= lastN) {
				continue
			}
			n := next(o)
			if n == cur || (n != "" && consumed[n]) || !signed(o) || !o.q.DHashOK || !o.q.DValid {
				continue
			}
			st.upd = o.q.UpdC
			if inWindowRef(o.mdelta, o.q.From, o.q.Until, int64(o.time)) && o.q.PatchOK {
				st.keys = append(st.keys, o.q.DeltaID)
			}
			applied = true
			break
		}
		if !applied {
			break
		}
		consumed[cur] = true
	}
	return st, true
}

func sameIDs(a, b []int64) bool {
	if len(a) == 0 && len(b) == 0 {
		return true
	}
	return reflect.DeepEqual(a, b)
}

func (g *c20Gen) viewMatches(v c20View, st c20State, found bool) bool {
	if v.Err != "" {
		return false
	}
	if !found {
		return !v.Found
	}
	return v.Found && sameIDs(v.Doc, st.keys) && sameIDs(v.Svc, st.svcs) && v.Upd == g.w.tb.ID(st.upd) && v.Rec == g.w.tb.ID(st.rec) && v.Deact == st.deact
}

func (g *c20Gen) deviation(oracle, what string, extra interface{}) {
	g.r.Count("deviation", oracle)
	d := map[string]interface{}{"oracle": oracle, "what": what, "detail": extra}
	if len(g.devs) < 4 {
		g.devs = append(g.devs, d)
	}
}

func (g *c20Gen) violation(oracle, what string) {
	g.r.Direct = append(g.r.Direct, out.Direct{Oracle: oracle, What: what, Case: g.desc})
}

// ---- observation ------------------------------------------------------------------------------

func (g *c20Gen) mdeltaAt(pver uint64) (int64, bool) {
	vs := g.w.cfg.Versions
	for i := len(vs) - 1; i >= 0; i-- {
		if pver >= vs[i].Genesis {
			return int64(vs[i].MDelta), true
		}
	}
	return 0, false
}

func (g *c20Gen) fullObservation(final bool) []string {
	w := g.w
	obs := []string{"(OQueue " + zl(w.queue.content()) + ")"}
	// pending transactions
	var pend []string
	inLedger := map[int64]bool{}
	for _, b := range w.batches {
		if b.Num >= g.observed {
			pend = append(pend, fmt.Sprintf("(%s, %s, %s, %s)", emit.Z(int64(b.Time)), emit.Z(int64(b.Num)), emit.Z(int64(w.txnPver[b.Num])), zl(b.Included)))
			for _, id := range b.Included {
				inLedger[id] = true
			}
		}
	}
	obs = append(obs, "(OLedger "+emit.List(pend)+")")
	obs = append(obs, "(OExpired "+zl(w.expired)+")")
	// (iii) conservation on the implementation
	count := map[int64]int{}
	for _, id := range w.queue.content() {
		count[id]++
	}
	for id := range inLedger {
		count[id]++
	}
	for _, id := range w.expired {
		count[id]++
	}
	for _, d := range g.dids {
		var rows []string
		var anch []c20Anch
		for _, e := range w.store.m[d.suffix] {
			count[e.ID]++
			rows = append(rows, fmt.Sprintf("(%s, %s, %s, %s, %s)", emit.Z(e.ID), emit.Z(int64(e.Op.TransactionTime)), emit.Z(int64(e.Op.TransactionNumber)),
				emit.Z(crefNum(e.Op.CanonicalReference)), emit.Z(int64(e.Op.ProtocolVersion))))
		}
		obs = append(obs, "(OStore "+emit.Z(d.sfxID)+" "+emit.List(rows)+")")
		var uids []int64
		for _, e := range w.unpub.m[d.suffix] {
			uids = append(uids, e.ID)
		}
		obs = append(obs, "(OUnpub "+emit.Z(d.sfxID)+" "+zl(uids)+")")
		v := w.resolve(d.shortDID())
		obs = append(obs, "(OShort "+emit.Z(d.sfxID)+" "+viewGallina(v)+")")
		if v.Err != "" {
			g.violation("resolution_without_unexpected_error", fmt.Sprintf("DID %d: %s", d.idx, v.Err))
		}
		if final && d.create.ID != 0 {
			lv := w.resolve(d.longDID())
			obs = append(obs, "(OLong "+g.reqGallina(d.create)+" "+viewGallina(lv)+")")
		}
		// (i) independent reference over the harness' own record of what was anchored and observed
		for _, b := range w.batches {
			if b.Num >= g.observed {
				continue
			}
			for _, id := range b.Included {
				if q := w.reqs[id]; q.DID == d.idx {
					md, ok := g.mdeltaAt(w.txnPver[b.Num])
					anch = append(anch, c20Anch{q: q, time: b.Time, num: b.Num, mdelta: md, hasVer: ok})
				}
			}
		}
		if len(uids) == 0 {
			st, found := c20Reference(anch)
			g.r.Count("reference_checks", fmt.Sprint(found))
			if !g.viewMatches(v, st, found) {
				g.violation("resolved_state_is_reference_over_anchored_operations",
					fmt.Sprintf("DID %d: resolved %+v, reference found=%v keys=%v svcs=%v upd=%d rec=%d deact=%v", d.idx, v, found, st.keys, st.svcs, g.w.tb.ID(st.upd), g.w.tb.ID(st.rec), st.deact))
			}
			if found && v.Found && !v.Pub {
				g.violation("anchored_did_is_published", fmt.Sprintf("DID %d resolved from the operation store only but published=false", d.idx))
			}
		}
		// (ii) third view: the create alone is anchored
		if d.respView != nil && !d.shortOK && len(anch) == 1 && anch[0].q.ID == d.create.ID && len(uids) == 0 && len(w.store.m[d.suffix]) == 1 {
			d.shortOK = true
			g.r.Count("three_views", "short_form_compared")
			if v.Normal != d.respView.Normal || !sameView(v, *d.respView) {
				g.violation("create_views_agree", fmt.Sprintf("DID %d: short form after anchoring %s differs from immediate response %s", d.idx, v.Normal, d.respView.Normal))
			}
		}
	}
	for id, q := range w.reqs {
		if q.Accepted && count[id] != 1 {
			g.violation("nothing_lost_or_duplicated", fmt.Sprintf("accepted request %d (%s of DID %d) is in %d places", id, q.Label, q.DID, count[id]))
		}
		if !q.Accepted && count[id] != 0 {
			g.violation("refused_request_leaves_no_trace", fmt.Sprintf("refused request %d is in %d places", id, count[id]))
		}
	}
	for id := range count {
		if _, ok := w.reqs[id]; !ok {
			g.violation("nothing_else_is_stored", fmt.Sprintf("unknown id %d", id))
		}
	}
	return obs
}

func sameView(a, b c20View) bool {
	return a.Found == b.Found && sameIDs(a.Doc, b.Doc) && sameIDs(a.Svc, b.Svc) && a.Upd == b.Upd && a.Rec == b.Rec && a.Deact == b.Deact
}

func crefNum(s string) int64 {
	var v int64
	if s == "" {
		return 0
	}
	fmt.Sscanf(s, "ref%d", &v)
	return v
}

// ---- events -----------------------------------------------------------------------------------

func (g *c20Gen) doSubmit(d *c20DID, rq *c20Req, advance func()) {
	w := g.w
	g.nextID++
	rq.ID = g.nextID
	rq.Key = w.keyOf(rq.Request)
	// time verdict of the anchor-time validator at submission, by construction
	if rq.windowed() && rq.IntakeOK {
		cur, _ := w.client.Current()
		md := int64(cur.Protocol().MaxOperationTimeDelta)
		rq.IntakeOK = inWindowRef(md, rq.From, rq.Until, int64(w.clk.now))
	}
	if rq.Type == operation.TypeCreate && rq.Label == "create" {
		d.create.ID = rq.ID
		d.create.Key = rq.Key
	}
	var pre c20View
	if rq.Type != operation.TypeCreate {
		pre = w.resolve(d.shortDID())
	}
	// now and then the operation queue refuses the operation: the handler answers with an error and the request must
	// leave no trace (for the model this is a request refused at intake)
	// (not for a re-submission of a request that is still pending: the handler's compensation deletes by request, so
	// what happens to the pending copy depends on the caller's unpublished store - outside the property)
	if g.rng.Intn(10) == 0 && !strings.HasPrefix(rq.Label, "duplicate") && rq.Type != operation.TypeCreate {
		w.queue.failNext = true
		rq.IntakeOK = false
		rq.Label += ":queue-refuses"
		g.r.Count("injected", "operation-queue-refuses")
	}
	res, err := w.submit(rq)
	w.queue.failNext = false
	g.nSubmit++
	// (iv) the decorator, on the implementation alone: what ResolveDocument showed just before decides
	if rq.Type != operation.TypeCreate && pre.Err == "" {
		if (!pre.Found || pre.Deact) && err == nil {
			g.violation("non_create_on_unknown_or_deactivated_did_is_refused", fmt.Sprintf("request %d (%s of DID %d) accepted while the DID resolved as %+v", rq.ID, rq.Label, d.idx, pre))
		}
		if pre.Found && !pre.Deact && rq.IntakeOK && err != nil {
			g.violation("well_formed_operation_on_active_did_is_accepted", fmt.Sprintf("request %d (%s of DID %d) refused: %v", rq.ID, rq.Label, d.idx, err))
		}
	}
	obs := []string{"(OAccept " + emit.Bool(err == nil) + ")"}
	label := map[string]interface{}{"submit": rq.Label, "did": d.idx, "id": rq.ID, "accepted": err == nil, "request": string(rq.Request), "clock": w.clk.now}
	if err != nil {
		g.nRefused++
		label["error"] = err.Error()
		g.r.Count("refused", refusalClass(err.Error()))
	} else {
		g.seq++
		rq.Seq = g.seq
		d.accepted = append(d.accepted, rq)
		if !d.intended.deact { // a deactivated DID stays as it is whatever is accepted afterwards
			advance()
		}
		if rq.windowed() {
			d.exact = false
		}
		g.r.Count("accepted", rq.Label)
	}
	if err == nil && rq.Type == operation.TypeCreate {
		v := w.viewOf(res, nil)
		obs = append(obs, "(OResp "+viewGallina(v)+")")
		lv := w.resolve(d.longDID())
		obs = append(obs, "(OLong "+g.reqGallina(rq)+" "+viewGallina(lv)+")")
		if d.respView == nil {
			d.respView, d.longView = &v, &lv
			g.r.Count("three_views", "response_and_long_form_compared")
			// (ii) immediate response == long-form resolution before anchoring (content; the DID string differs)
			if len(w.store.m[d.suffix]) == 0 && len(w.unpub.m[d.suffix]) <= 1 {
				if !sameView(v, lv) || v.Normal != lv.Normal {
					g.violation("create_views_agree", fmt.Sprintf("DID %d: immediate response %s differs from long-form resolution %s", d.idx, v.Normal, lv.Normal))
				}
			}
		}
	}
	obs = append(obs, "(OQueue "+zl(w.queue.content())+")")
	g.addStep(emit.App("ESubmit", g.reqGallina(rq), emit.Z(rq.Wall)), obs, label)
}

func refusalClass(s string) string {
	switch {
	case strings.Contains(s, "deactivated"):
		return "deactivated"
	case strings.Contains(s, "create operation not found"):
		return "unknown-did"
	case strings.Contains(s, "expired"), strings.Contains(s, "early"):
		return "anchor-time"
	case strings.Contains(s, "empty document"):
		return "create-empty-document"
	case strings.Contains(s, "bad request"):
		return "bad-request"
	}
	return "other"
}

func (g *c20Gen) doFlush(force bool) {
	w := g.w
	before := len(w.batches)
	ex := w.expiredNow()
	w.flush(force)
	g.nFlush++
	g.r.Count("flush", fmt.Sprintf("force=%v batches=%d", force, len(w.batches)-before))
	// F16: batches whose operations have all expired: committed without an anchor write (no transaction, no number)
	beforeNo := g.nNoAnchor
	nextBefore := g.nextNum
	g.nNoAnchor = len(w.noAnchor)
	g.nextNum = w.ledger.next
	g.r.Count("all_expired_batches_per_flush", fmt.Sprint(g.nNoAnchor-beforeNo))
	for _, b := range w.noAnchor[beforeNo:] {
		g.r.Count("all_expired_batch_size", fmt.Sprint(len(b.Removed)))
		if len(b.Expired) != len(b.Removed) || len(b.Additional) != 0 || len(b.Included) != 0 {
			g.violation("all_expired_batch_discards_the_whole_batch", fmt.Sprint(*b))
		}
		if uint(len(b.Removed)) > b.CurMax {
			g.violation("batch_not_larger_than_current_max", fmt.Sprint(*b))
		}
		for _, id := range b.Removed {
			if w.reqs[id].AcceptVer != b.Version {
				g.violation("batch_does_not_mix_protocol_versions", fmt.Sprint(*b))
			}
		}
	}
	// one transaction (one number) per batch with included operations, none for an all-expired batch
	if int(g.nextNum-nextBefore) != len(w.batches)-before {
		g.violation("one_transaction_per_batch_with_included_operations", fmt.Sprintf("%d transaction numbers consumed, %d batches anchored, %d batches entirely expired",
			g.nextNum-nextBefore, len(w.batches)-before, g.nNoAnchor-beforeNo))
	}
	for _, m := range w.internal {
		g.violation("anchor_write_iff_included_operations", m)
	}
	w.internal = nil
	for _, b := range w.batches[before:] {
		if len(b.Included) == 0 {
			g.violation("no_empty_transaction", fmt.Sprint(*b))
		}
		g.r.Count("batch_size_removed", fmt.Sprint(len(b.Removed)))
		g.r.Count("batch_size_included", fmt.Sprint(len(b.Included)))
		if len(b.Additional) > 0 {
			g.r.Count("batch_with_deferred_operations", fmt.Sprint(len(b.Additional)))
		}
		if len(b.Expired) > 0 {
			g.r.Count("batch_with_expired_operations", fmt.Sprint(len(b.Expired)))
		}
		if uint(len(b.Removed)) > b.CurMax {
			g.violation("batch_not_larger_than_current_max", fmt.Sprint(*b))
		}
		if uint(len(b.Removed)) > b.OwnMax {
			g.deviation("batch_within_own_version_limit", fmt.Sprintf("batch of %d operations accepted under version %d (MaxOperationCount %d) cut under the current version's limit %d",
				len(b.Removed), b.Version, b.OwnMax, b.CurMax), b)
		}
		sfx := map[string]bool{}
		for _, id := range b.Included {
			if sfx[w.reqs[id].Suffix] {
				g.violation("one_operation_per_did_per_batch", fmt.Sprint(*b))
			}
			sfx[w.reqs[id].Suffix] = true
		}
		for _, id := range b.Removed {
			if w.reqs[id].AcceptVer != b.Version {
				g.violation("batch_does_not_mix_protocol_versions", fmt.Sprint(*b))
			}
		}
	}
	for _, b := range w.failed {
		g.violation("no_batch_error", b.Err)
	}
	w.failed = nil
	bs := []c20Batch{}
	for _, b := range w.batches[before:] {
		bs = append(bs, *b)
	}
	for _, b := range w.noAnchor[beforeNo:] {
		bs = append(bs, *b)
	}
	g.addStep(emit.App("EFlush", emit.Bool(force), zl(ex)), g.fullObservation(false),
		map[string]interface{}{"flush": force, "expired_by_construction": ex, "clock": w.clk.now, "batches": bs})
}

func (g *c20Gen) doObserve() {
	n := len(g.w.ledger.pending)
	g.w.observe()
	g.observed = g.w.ledger.next
	g.r.Count("observe", fmt.Sprintf("transactions=%d", n))
	g.addStep("EObserve", g.fullObservation(false), map[string]interface{}{"observe": n})
}

func (g *c20Gen) doTime(dt uint64) {
	g.w.clk.now += dt
	g.addStep(emit.App("ETime", emit.Z(int64(g.w.clk.now))), nil, map[string]interface{}{"clock": g.w.clk.now})
}

// ---- end of run: relational oracles on the whole run -------------------------------------------

func (g *c20Gen) finish() {
	w := g.w
	// drain
	for i := 0; i < 12 && (w.queue.Len() > 0 || len(w.ledger.pending) > 0); i++ {
		g.doTime(1)
		g.doFlush(true)
		g.doObserve()
	}
	w.observe()
	g.observed = w.ledger.next
	g.addStep("EObserve", g.fullObservation(true), map[string]interface{}{"observe": 0, "final": true})
	if w.queue.Len() > 0 {
		g.violation("queue_drains", fmt.Sprintf("%d operations still queued after 12 forced steps", w.queue.Len()))
	}
	// anchoring order per DID vs submission order
	for _, d := range g.dids {
		var order []*c20Req
		for _, b := range w.batches {
			for _, id := range b.Included {
				if q := w.reqs[id]; q.DID == d.idx {
					order = append(order, q)
				}
			}
		}
		inverted := false
		for i := 1; i < len(order); i++ {
			if order[i].Seq < order[i-1].Seq {
				inverted = true
			}
		}
		g.r.Count("per_did_anchoring_order", map[bool]string{false: "submission order", true: "REORDERED"}[inverted])
		if inverted {
			var ls []string
			for _, q := range order {
				ls = append(ls, fmt.Sprintf("#%d:%s", q.Seq, q.Label))
			}
			g.deviation("per_did_submission_order", fmt.Sprintf("DID %d anchored in the order %v", d.idx, ls), nil)
		}
		// the client's intended state (submission order), only when nothing windowed / expired is involved
		if d.exact && len(d.accepted) > 0 && w.queue.Len() == 0 {
			v := w.resolve(d.shortDID())
			found := d.created
			ok := g.viewMatches(v, d.intended, found)
			g.r.Count("client_intended_state", map[bool]string{true: "reached", false: "NOT reached"}[ok])
			if !ok {
				g.deviation("client_sequence_takes_effect", fmt.Sprintf("DID %d: resolved %+v, intended keys=%v svcs=%v upd=%d rec=%d deact=%v (reordered=%v)", d.idx, v,
					d.intended.keys, d.intended.svcs, w.tb.ID(d.intended.upd), w.tb.ID(d.intended.rec), d.intended.deact, inverted), nil)
				if !inverted {
					g.violation("client_sequence_takes_effect_when_anchored_in_submission_order", fmt.Sprintf("DID %d: resolved %+v", d.idx, v))
				}
			}
		}
	}
}

// ---- workloads --------------------------------------------------------------------------------

var c20Plans = [][]string{
	{"C"}, {"C", "U"}, {"C", "U", "U"}, {"C", "U", "U", "U"}, {"C", "R"}, {"C", "U", "R", "U"}, {"C", "R", "U"}, {"C", "U", "R", "U", "U"},
	{"C", "D"}, {"C", "U", "D"}, {"C", "R", "D"}, {"C", "D", "U"}, {"C", "U", "D", "R"}, {"C", "R", "R", "U"}, {"C", "U", "U", "R", "D", "U"},
	{"C", "Uwin", "U"}, {"C", "Udef", "U"}, {"C", "Uwin", "Uwin"}, {"C", "Rdef", "U"}, {"C", "U", "Dwin"}, {"C", "Udef", "Rwin", "Udef"},
}

func c20RandomConfig(rng *rand.Rand) c20Config {
	cfg := c20Config{T0: uint64(1000 + rng.Intn(50)), ExactHashLimit: rng.Intn(3) == 0}
	cfg.Versions = []c20Version{{Genesis: 0, MDelta: 7200, Max: uint(2 + rng.Intn(3))}}
	if rng.Intn(2) == 0 {
		cfg.Versions = append(cfg.Versions, c20Version{Genesis: cfg.T0 + uint64(10+rng.Intn(80)), MDelta: uint(8 + rng.Intn(30)), Max: uint(2 + rng.Intn(3))})
		cfg.ByTime = rng.Intn(2) == 0
	}
	switch rng.Intn(5) {
	case 0:
		cfg.Unpub = []operation.Type{operation.TypeCreate}
	case 1:
		cfg.Unpub = []operation.Type{operation.TypeCreate, operation.TypeUpdate}
	case 2:
		cfg.Unpub = []operation.Type{operation.TypeCreate, operation.TypeUpdate, operation.TypeRecover, operation.TypeDeactivate}
	}
	return cfg
}

func (g *c20Gen) randomRun() {
	rng := g.rng
	nd := 2 + rng.Intn(3)
	for i := 0; i < nd; i++ {
		g.newDID(c20Plans[rng.Intn(len(c20Plans))])
	}
	unknown := g.newDID([]string{"U", "D"}) // its create is never submitted
	nev := 14 + rng.Intn(22)
	for e := 0; e < nev; e++ {
		x := rng.Intn(100)
		switch {
		case x < 52:
			var cands []*c20DID
			for _, d := range g.dids[:nd] {
				if d.pos < len(d.plan) && d.nextK < len(d.keys)-5 {
					cands = append(cands, d)
				}
			}
			if len(cands) == 0 {
				g.doFlush(rng.Intn(3) > 0)
				continue
			}
			d := cands[rng.Intn(len(cands))]
			// a burst: the same DID submits several operations in a row (inside one batch window)
			burst := 1
			if rng.Intn(3) == 0 {
				burst = 2 + rng.Intn(2)
			}
			for b := 0; b < burst && d.pos < len(d.plan); b++ {
				rq, adv := g.build(d, d.plan[d.pos])
				d.pos++
				g.doSubmit(d, rq, adv)
			}
		case x < 62:
			d := g.dids[rng.Intn(nd)]
			if d.nextK >= len(d.keys)-5 {
				g.doTime(1)
				continue
			}
			switch k := rng.Intn(6); {
			case k == 0 && len(d.accepted) > 0: // the same bytes again
				old := d.accepted[rng.Intn(len(d.accepted))]
				c := *old
				c.Label = "duplicate:" + old.Label
				c.Wall, c.Accepted = 0, false
				c.IntakeOK = old.Type == operation.TypeCreate || c.ParseOK
				g.doSubmit(d, &c, func() {})
			case k == 1:
				rq, _ := g.build(unknown, unknown.plan[rng.Intn(2)])
				rq.Label = "unknown-did:" + rq.Label
				g.doSubmit(unknown, rq, func() {})
			case k == 2 && d.pos > 0:
				rq, _ := g.build(d, "U")
				rq.Request = append([]byte(`{"broken":`), rq.Request...)
				rq.Label, rq.IntakeOK, rq.ParseOK = "malformed", false, false
				g.doSubmit(d, rq, func() {})
			case k == 3 && d.pos > 0:
				rq, adv := g.build(d, "Uforged")
				g.doSubmit(d, rq, adv)
			case k == 4 && d.pos > 0 && len(d.prevUpd) > 0:
				rq, adv := g.build(d, "Ustale")
				g.doSubmit(d, rq, adv)
			case k == 5 && d.pos > 0:
				rq, adv := g.build(d, "Ureveal")
				g.doSubmit(d, rq, adv)
			default:
				g.doTime(uint64(1 + rng.Intn(10)))
			}
		case x < 67:
			// F16: a burst of windowed operations that have all expired when their batch is cut.  Starting from an empty
			// queue the batches of the next step are entirely expired (no transaction); otherwise partly
			if rng.Intn(2) == 0 {
				g.doFlush(true)
				g.doObserve()
			}
			for _, d := range g.dids[:nd] {
				if d.created && !d.intended.deact && d.nextK < len(d.keys)-5 && rng.Intn(3) > 0 {
					rq, adv := g.build(d, []string{"Uwin", "Uwin", "Rwin"}[rng.Intn(3)])
					g.doSubmit(d, rq, adv)
				}
			}
			g.doTime(uint64(45 + rng.Intn(20))) // every explicit window (at most now+42) has passed
			g.doFlush(rng.Intn(4) > 0)
		case x < 80:
			g.doFlush(rng.Intn(5) > 1)
		case x < 90:
			g.doObserve()
		default:
			g.doTime(uint64(1 + rng.Intn(40)))
		}
	}
	g.finish()
}

// directed scenarios (each is a finding or a boundary of the property text; see the report)
func (g *c20Gen) directed(name string) {
	switch name {
	case "reorder": // update, recover, update-on-top-of-recover with a window of 2
		d := g.newDID([]string{"C", "U", "R", "U"})
		rq, adv := g.build(d, "C")
		g.doSubmit(d, rq, adv)
		g.doFlush(true)
		g.doObserve()
		g.doTime(1)
		for _, k := range []string{"U", "R", "U"} {
			rq, adv := g.build(d, k)
			g.doSubmit(d, rq, adv)
		}
		g.doFlush(true)
		g.doObserve()
	case "big-batch": // operations accepted under version 1 (limit 2) cut under version 2's limit
		var ds []*c20DID
		for i := 0; i < 4; i++ {
			ds = append(ds, g.newDID([]string{"C"}))
		}
		for i := 0; i < 3; i++ {
			rq, adv := g.build(ds[i], "C")
			g.doSubmit(ds[i], rq, adv)
		}
		g.doTime(200)
		rq, adv := g.build(ds[3], "C")
		g.doSubmit(ds[3], rq, adv)
		g.doFlush(false)
		g.doObserve()
	case "duplicates": // the same DID four times inside one batch window
		d := g.newDID([]string{"C", "U", "U", "U"})
		e := g.newDID([]string{"C"})
		for _, k := range d.plan {
			rq, adv := g.build(d, k)
			g.doSubmit(d, rq, adv)
		}
		rq, adv := g.build(e, "C")
		g.doSubmit(e, rq, adv)
		g.doFlush(false)
		g.doObserve()
		g.doFlush(true)
		g.doObserve()
	case "expiry": // accepted inside its window, expired when the batch is cut
		d := g.newDID([]string{"C", "Uwin"})
		rq, adv := g.build(d, "C")
		g.doSubmit(d, rq, adv)
		g.doFlush(true)
		g.doObserve()
		rq, adv = g.build(d, "Uwin")
		g.doSubmit(d, rq, adv)
		g.doTime(100)
		g.doFlush(true)
		g.doObserve()
	case "all-expired": // F16: whole batches of expired operations (no transaction), then a partly expired one
		var ds []*c20DID
		for i := 0; i < 3; i++ {
			d := g.newDID([]string{"C", "Uwin", "U"})
			ds = append(ds, d)
			rq, adv := g.build(d, "C")
			g.doSubmit(d, rq, adv)
		}
		g.doFlush(true)
		g.doObserve()
		for _, d := range ds {
			rq, adv := g.build(d, "Uwin")
			g.doSubmit(d, rq, adv)
		}
		g.doTime(100)
		g.doFlush(false) // limit 2: the drain loop cuts [Uwin; Uwin] - entirely expired
		g.doObserve()
		e := g.newDID([]string{"C"})
		rq, adv := g.build(e, "C")
		g.doSubmit(e, rq, adv)
		g.doFlush(true) // [Uwin; C]: partly expired - one transaction holding the create
		g.doObserve()
		for _, d := range ds {
			rq, adv := g.build(d, "U")
			g.doSubmit(d, rq, adv)
		}
		g.doFlush(true)
		g.doObserve()
	case "deactivated": // operations after a deactivation: refused once it is visible, inert before
		d := g.newDID([]string{"C", "D", "U", "R"})
		for i, k := range d.plan {
			rq, adv := g.build(d, k)
			g.doSubmit(d, rq, adv)
			if i == 0 || i == 2 {
				g.doFlush(true)
				g.doObserve()
			}
		}
	}
	g.finish()
}

func runC20(c *ctx) error {
	r := out.New(c.out)
	grp := r.Group("cases_C20", []string{"Resolve.Op", "Resolve.Process", "Corr.Resolve", "Pipeline.Model", "Corr.Pipeline"}, "pcase", "pl_mismatches")
	r.MaxSamples = 1
	rng := rand.New(rand.NewSource(c.seed))
	kp := world.NewKeyPool(25)
	n := 220
	if c.tier == "thorough" {
		n = 3600
	}
	direct := false
	for _, a := range c.args {
		if a == "deviations=direct" {
			direct = true
		}
	}
	var allDevs []interface{}
	one := func(cfg c20Config, name string) {
		tb := world.NewTable()
		g := &c20Gen{rng: rng, kp: kp, r: r, direct: direct}
		g.w = newC20World(cfg, tb)
		g.desc = map[string]interface{}{"config": cfg, "scenario": name}
		panicked := ""
		func() {
			defer func() {
				if x := recover(); x != nil {
					panicked = fmt.Sprint(x)
				}
			}()
			if name == "random" {
				g.randomRun()
			} else {
				g.directed(name)
			}
		}()
		g.w.close()
		g.desc["events"] = g.trace
		if panicked != "" {
			g.desc["panic"] = panicked
			g.violation("no_panic", panicked)
		}
		if len(g.devs) > 0 {
			g.desc["deviations"] = g.devs
			for _, d := range g.devs {
				if len(allDevs) < 12 {
					allDevs = append(allDevs, map[string]interface{}{"deviation": d, "case": g.desc})
				}
				if direct {
					r.Direct = append(r.Direct, out.Direct{Oracle: d["oracle"].(string), What: d["what"].(string), Case: g.desc})
				}
			}
		}
		var vs []string
		for _, v := range cfg.Versions {
			vs = append(vs, emit.App("mk_pver", emit.Z(int64(v.Genesis)), emit.Z(int64(v.MDelta)), emit.Nat(int(v.Max))))
		}
		var un []string
		for _, t := range cfg.Unpub {
			un = append(un, c20Ty(t))
		}
		r.Count("events_per_run", fmt.Sprint(len(g.steps)/10*10)+"+")
		r.Count("flushes_per_run", fmt.Sprint(g.nFlush))
		r.Count("submissions_per_run", fmt.Sprint(g.nSubmit/5*5)+"+")
		r.Count("refused_per_run", fmt.Sprint(g.nRefused))
		r.Count("batches_per_run", fmt.Sprint(len(g.w.batches)))
		r.Count("all_expired_batches_per_run", fmt.Sprint(len(g.w.noAnchor)))
		r.Count("versions", fmt.Sprintf("%d by_time=%v", len(cfg.Versions), cfg.ByTime))
		var us []string
		for _, t := range cfg.Unpub {
			us = append(us, string(t))
		}
		sort.Strings(us)
		r.Count("unpublished_store", strings.Join(us, ","))
		r.Count("scenario", name)
		gal := emit.App("Build_pcase", emit.App("mk_cfg", emit.List(vs), emit.List(un), emit.Bool(cfg.ByTime)), emit.Z(int64(cfg.T0)), emit.List(g.steps), emit.Bool(panicked != ""))
		r.Add(grp, gal, g.desc, fmt.Sprint(name, len(r.Samples), g.trace), len(g.w.batches) > 0)
	}
	two := []c20Version{{Genesis: 0, MDelta: 7200, Max: 2}, {Genesis: 1100, MDelta: 600, Max: 4}}
	oneV := []c20Version{{Genesis: 0, MDelta: 7200, Max: 2}}
	all := []operation.Type{operation.TypeCreate, operation.TypeUpdate, operation.TypeRecover, operation.TypeDeactivate}
	for _, name := range []string{"reorder", "big-batch", "duplicates", "expiry", "all-expired", "deactivated"} {
		one(c20Config{Versions: oneV, T0: 1000}, name)
		one(c20Config{Versions: two, T0: 1000, Unpub: all}, name)
		one(c20Config{Versions: two, T0: 1000, ByTime: true, Unpub: []operation.Type{operation.TypeCreate}}, name)
	}
	for i := 0; i < n; i++ {
		one(c20RandomConfig(rng), "random")
	}
	r.Extra["deviations_from_the_property_text"] = allDevs
	return r.Finish(40)
}
