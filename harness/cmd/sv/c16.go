package main

import (
	"errors"
	"fmt"
	"math/rand"
	"sort"
	"strings"

	"github.com/trustbloc/sidetree-core-go/pkg/api/operation"
	"github.com/trustbloc/sidetree-core-go/pkg/api/protocol"
	"github.com/trustbloc/sidetree-core-go/pkg/api/txn"
	"github.com/trustbloc/sidetree-core-go/pkg/batch"
	"github.com/trustbloc/sidetree-core-go/pkg/batch/cutter"
	"github.com/trustbloc/sidetree-core-go/pkg/batch/opqueue"
	"github.com/trustbloc/sidetree-core-go/pkg/mocks"
	"github.com/trustbloc/sidetree-core-go/pkg/versions/1_0/operationparser"

	"verif/harness/internal/emit"
	"verif/harness/internal/out"
	"verif/harness/internal/world"
)

func init() { commands["c16"] = runC16 }

// ---- instrumented collaborators --------------------------------------------------------------

type wEvent struct {
	Kind    string  `json:"k"`
	ID      int64   `json:"id,omitempty"`
	OK      bool    `json:"ok,omitempty"`
	Expired []int64 `json:"expired,omitempty"`
	Batch   []int64 `json:"batch,omitempty"`
	// prepare: the handler returned no anchor string (every operation of the batch has expired: nothing to anchor)
	NoAnchor bool `json:"no_anchor,omitempty"`
	// prepare: a CAS write failed during the call and the handler still reported success
	CASFailureIgnored bool `json:"cas_failure_ignored,omitempty"`
	// anchor (written): the anchored batch could not be read back from the CAS / reads back another number of operations
	ReadBack string `json:"read_back,omitempty"`
}

type wRecorder struct {
	events []wEvent
}

func (r *wRecorder) add(e wEvent) { r.events = append(r.events, e) }

func opID(q *operation.QueuedOperation) int64 {
	for _, p := range q.Properties {
		if p.Key == "verif-id" {
			return p.Value.(int64)
		}
	}
	return -1
}

// wQueue wraps the real MemQueue: records every call and lets the scheduler inject client Adds
// immediately before a given call of the current tick.
type wQueue struct {
	inner     *opqueue.MemQueue
	rec       *wRecorder
	calls     int
	inject    map[int][]func()
	injecting bool
}

func (q *wQueue) before() {
	fs := q.inject[q.calls]
	delete(q.inject, q.calls)
	q.calls++
	for _, f := range fs {
		f()
	}
}

func (q *wQueue) Add(data *operation.QueuedOperation, pv uint64) (uint, error) {
	if q.injecting {
		q.rec.add(wEvent{Kind: "add", ID: opID(data)})
		return q.inner.Add(data, pv)
	}
	q.before()
	q.rec.add(wEvent{Kind: "readd", ID: opID(data)})
	return q.inner.Add(data, pv)
}

func (q *wQueue) Remove(num uint) (operation.QueuedOperationsAtTime, func() uint, func(error), error) {
	q.before()
	q.rec.add(wEvent{Kind: "remove"})
	ops, ack, nack, err := q.inner.Remove(num)
	return ops, func() uint {
			q.before()
			q.rec.add(wEvent{Kind: "ack"})
			return ack()
		}, func(e error) {
			q.before()
			q.rec.add(wEvent{Kind: "nack"})
			nack(e)
		}, err
}

func (q *wQueue) Peek(num uint) (operation.QueuedOperationsAtTime, error) {
	q.before()
	q.rec.add(wEvent{Kind: "peek"})
	return q.inner.Peek(num)
}

func (q *wQueue) Len() uint {
	q.before()
	q.rec.add(wEvent{Kind: "len"})
	return q.inner.Len()
}

func (q *wQueue) content() []int64 {
	items, _ := q.inner.Peek(q.inner.Len())
	var ids []int64
	for _, it := range items {
		ids = append(ids, opID(&it.QueuedOperation))
	}
	return ids
}

type failingCAS struct {
	inner  *mocks.MockCasClient
	writes int
	failed int // injected failures so far
	failAt map[int]bool
}

func (c *failingCAS) Write(b []byte) (string, error) {
	c.writes++
	if c.failAt[c.writes] {
		c.failed++
		return "", errors.New("injected CAS write failure")
	}
	return c.inner.Write(b)
}

func (c *failingCAS) Read(a string) ([]byte, error) { return c.inner.Read(a) }

type wHandler struct {
	inner protocol.OperationHandler
	rec   *wRecorder
	cas   *failingCAS
}

func (h *wHandler) PrepareTxnFiles(ops []*operation.QueuedOperation) (*protocol.AnchoringInfo, error) {
	failedBefore := 0
	if h.cas != nil {
		failedBefore = h.cas.failed
	}
	info, err := h.inner.PrepareTxnFiles(ops)
	e := wEvent{Kind: "prepare", OK: err == nil}
	// a batch one of whose files could not be written must not be reported as prepared (it would be anchored
	// with a file missing): every CAS write failure fails the batch
	if h.cas != nil && h.cas.failed > failedBefore && err == nil {
		e.CASFailureIgnored = true
	}
	for _, x := range ops {
		e.Batch = append(e.Batch, opID(x))
	}
	if err == nil {
		for _, x := range info.ExpiredOperations {
			e.Expired = append(e.Expired, opID(x))
		}
		e.NoAnchor = info.AnchorString == ""
	}
	h.rec.add(e)
	return info, err
}

// wClient is the protocol client of the writer; a failed look-up of the batch's protocol version fails the batch like a
// failed PrepareTxnFiles does (the batch goes back to the head of the queue): recorded as an unsuccessful prepare.
type wClient struct {
	inner  *world.Client
	rec    *wRecorder
	gets   int
	failAt map[int]bool
}

func (c *wClient) Current() (protocol.Version, error) { return c.inner.Current() }
func (c *wClient) Get(v uint64) (protocol.Version, error) {
	c.gets++
	if c.failAt[c.gets] {
		c.rec.add(wEvent{Kind: "prepare", OK: false})
		return nil, errors.New("injected protocol version look-up failure")
	}
	return c.inner.Get(v)
}

type anchorEntry struct {
	Version uint64
	Refs    []string // "suffix|type", sorted
	Count   int
}

type wAnchor struct {
	rec    *wRecorder
	calls  int
	failAt map[int]bool
	log    []anchorEntry
	// the operation providers of the protocol versions (they read from the same CAS): what is anchored must read back
	providers []protocol.OperationProvider
}

func (a *wAnchor) WriteAnchor(anchor string, _ []*protocol.AnchorDocument, refs []*operation.Reference, pv uint64) error {
	a.calls++
	if a.failAt[a.calls] {
		a.rec.add(wEvent{Kind: "anchor", OK: false})
		return errors.New("injected anchor write failure")
	}
	var rs []string
	for _, r := range refs {
		rs = append(rs, r.UniqueSuffix+"|"+string(r.Type))
	}
	sort.Strings(rs)
	n := 0
	fmt.Sscanf(anchor, "%d.", &n)
	a.log = append(a.log, anchorEntry{Version: pv, Refs: rs, Count: n})
	// successfully anchored means readable: the files the anchor string refers to are all in the CAS
	rb := ""
	if len(a.providers) > 0 {
		rb = "no provider could read it"
		for _, p := range a.providers {
			ops, err := p.GetTxnOperations(&txn.SidetreeTxn{AnchorString: anchor, Namespace: "did:sidetree", ProtocolVersion: pv})
			if err == nil {
				rb = ""
				if len(ops) != len(refs) {
					rb = fmt.Sprintf("%d operations read back, %d references anchored", len(ops), len(refs))
				}
				break
			}
			rb = err.Error()
		}
	}
	a.rec.add(wEvent{Kind: "anchor", OK: true, ReadBack: rb})
	return nil
}

func (a *wAnchor) Read(int) (bool, *txn.SidetreeTxn) { return false, nil }

type wContext struct {
	pc protocol.Client
	a  batch.AnchorWriter
	q  cutter.OperationQueue
}

func (c *wContext) Protocol() protocol.Client             { return c.pc }
func (c *wContext) Anchor() batch.AnchorWriter            { return c.a }
func (c *wContext) OperationQueue() cutter.OperationQueue { return c.q }

// expiry is signalled through the anchoring window: anchorFrom == 424242 means "expired"
type expiryValidator struct{}

func (expiryValidator) Validate(from, _ int64) error {
	if from == 424242 {
		return operationparser.ErrOperationExpired
	}
	if from == 515151 {
		return operationparser.ErrOperationEarly // not yet valid: the handler must fail the batch, not drop the operation
	}
	return nil
}

// ---- request bank ----------------------------------------------------------------------------

type wOp struct {
	sfxID   int64
	ty      operation.Type
	req     []byte
	suffix  string
	expired bool
}

func tyCode(t operation.Type) int64 {
	switch t {
	case operation.TypeCreate:
		return 1
	case operation.TypeUpdate:
		return 2
	case operation.TypeRecover:
		return 3
	}
	return 4
}

func buildWriterBank(kp *world.KeyPool, nDID int) []wOp {
	var bank []wOp
	for i := 0; i < nDID; i++ {
		rec, upd, n1, n2 := kp.Keys[(4*i)%len(kp.Keys)], kp.Keys[(4*i+1)%len(kp.Keys)], kp.Keys[(4*i+2)%len(kp.Keys)], kp.Keys[(4*i+3)%len(kp.Keys)]
		c := world.Build(world.Spec{Type: operation.TypeCreate, NextUpd: upd.Commitment(world.SHA256), NextRec: rec.Commitment(world.SHA256), DeltaID: int64(10 + i)})
		sfx := c.UniqueSuffix
		bank = append(bank, wOp{sfxID: int64(i + 1), ty: operation.TypeCreate, req: c.Request, suffix: sfx})
		u := world.Build(world.Spec{Type: operation.TypeUpdate, Suffix: sfx, RevealKey: upd, SignedKey: upd, SignWith: upd, NextUpd: n1.Commitment(world.SHA256), DeltaID: int64(100 + i)})
		bank = append(bank, wOp{sfxID: int64(i + 1), ty: operation.TypeUpdate, req: u.Request, suffix: sfx})
		ue := world.Build(world.Spec{Type: operation.TypeUpdate, Suffix: sfx, RevealKey: upd, SignedKey: upd, SignWith: upd, NextUpd: n1.Commitment(world.SHA256), DeltaID: int64(200 + i), From: 424242, Until: 424243})
		bank = append(bank, wOp{sfxID: int64(i + 1), ty: operation.TypeUpdate, req: ue.Request, suffix: sfx, expired: true})
		if i%2 == 1 {
			uy := world.Build(world.Spec{Type: operation.TypeUpdate, Suffix: sfx, RevealKey: upd, SignedKey: upd, SignWith: upd, NextUpd: n1.Commitment(world.SHA256), DeltaID: int64(250 + i), From: 515151, Until: 515152})
			bank = append(bank, wOp{sfxID: int64(i + 1), ty: operation.TypeUpdate, req: uy.Request, suffix: sfx})
		}
		r := world.Build(world.Spec{Type: operation.TypeRecover, Suffix: sfx, RevealKey: rec, SignedKey: rec, SignWith: rec, NextUpd: n1.Commitment(world.SHA256), NextRec: n2.Commitment(world.SHA256), DeltaID: int64(300 + i)})
		bank = append(bank, wOp{sfxID: int64(i + 1), ty: operation.TypeRecover, req: r.Request, suffix: sfx})
		dd := world.Build(world.Spec{Type: operation.TypeDeactivate, Suffix: sfx, RevealKey: rec, SignedKey: rec, SignWith: rec})
		bank = append(bank, wOp{sfxID: int64(i + 1), ty: operation.TypeDeactivate, req: dd.Request, suffix: sfx})
	}
	return bank
}

// ---- schedules -------------------------------------------------------------------------------

type wAdd struct {
	id   int64
	bank int
	ver  uint64
}

type wTick struct {
	force   bool
	inject  map[int][]wAdd // before queue call #i of this tick
	pre     []wAdd         // adds between ticks (before this tick)
	casFail []int          // CAS write numbers (within the tick) that fail
	ancFail []int          // anchor write numbers (within the tick) that fail
	getFail []int          // protocol-version look-ups (within the tick) that fail
}

type wSchedule struct {
	max      uint
	versions []uint64
	ticks    []wTick
}

func (s *wSchedule) describe(bank []wOp) interface{} {
	var ts []interface{}
	adds := func(as []wAdd) []string {
		var o []string
		for _, a := range as {
			o = append(o, fmt.Sprintf("id%d:sfx%d:%s:v%d", a.id, bank[a.bank].sfxID, bank[a.bank].ty, a.ver))
		}
		return o
	}
	for _, t := range s.ticks {
		inj := map[string][]string{}
		for k, v := range t.inject {
			inj[fmt.Sprint(k)] = adds(v)
		}
		ts = append(ts, map[string]interface{}{"force": t.force, "adds_before": adds(t.pre), "adds_before_queue_call": inj, "cas_fail": t.casFail, "anchor_fail": t.ancFail, "version_lookup_fail": t.getFail})
	}
	return map[string]interface{}{"max_operation_count": s.max, "ticks": ts}
}

// expiredBank: indices of the operations of the bank that are expired by construction
func expiredBank(bank []wOp) []int {
	var ix []int
	for i, b := range bank {
		if b.expired {
			ix = append(ix, i)
		}
	}
	return ix
}

func genSchedule(rng *rand.Rand, bank []wOp, nextID *int64, withZero bool, expiredRun bool) *wSchedule {
	s := &wSchedule{max: uint(2 + rng.Intn(3))}
	vers := []uint64{100, 200}
	if withZero {
		vers = []uint64{0, 100}
	}
	s.versions = vers
	curV := vers[0]
	mk := func() wAdd {
		if rng.Intn(6) == 0 {
			curV = vers[1]
		}
		*nextID++
		// repeated suffixes are frequent: few DIDs
		return wAdd{id: *nextID, bank: rng.Intn(len(bank)), ver: curV}
	}
	nt := 1 + rng.Intn(4)
	exIx := expiredBank(bank)
	for i := 0; i < nt; i++ {
		t := wTick{force: rng.Intn(3) > 0, inject: map[int][]wAdd{}}
		if expiredRun && i == 0 {
			// a run of expired-by-construction operations at the head of the queue (1 .. 2*max+1 of them): whole batches
			// of expired operations, full ones cut by the drain loop and a last small one cut on timeout (F16)
			t.force = rng.Intn(4) > 0
			for k := 1 + rng.Intn(2*int(s.max)+1); k > 0; k-- {
				a := mk()
				a.bank = exIx[rng.Intn(len(exIx))]
				t.pre = append(t.pre, a)
			}
		}
		for k := rng.Intn(5); k > 0; k-- {
			t.pre = append(t.pre, mk())
		}
		for k := rng.Intn(3); k > 0; k-- {
			at := rng.Intn(14)
			t.inject[at] = append(t.inject[at], mk())
		}
		if rng.Intn(4) == 0 {
			t.casFail = append(t.casFail, 1+rng.Intn(8))
		}
		if rng.Intn(5) == 0 {
			t.ancFail = append(t.ancFail, 1+rng.Intn(2))
		}
		if rng.Intn(6) == 0 {
			t.getFail = append(t.getFail, 1+rng.Intn(2))
		}
		s.ticks = append(s.ticks, t)
	}
	// final forced ticks without faults to let things drain (not necessarily to empty)
	for i := rng.Intn(3); i > 0; i-- {
		s.ticks = append(s.ticks, wTick{force: true, inject: map[int][]wAdd{}})
	}
	return s
}

type wResult struct {
	Events   []wEvent
	Queue    []int64
	Log      []anchorEntry
	Accepted []int64
	Panic    string
	Returns  []uint
}

func runSchedule(s *wSchedule, bank []wOp, ids map[int64]wAdd) (res wResult) {
	defer func() {
		if r := recover(); r != nil {
			res.Panic = fmt.Sprint(r)
		}
	}()
	rec := &wRecorder{}
	cas := &failingCAS{inner: mocks.NewMockCasClient(nil), failAt: map[int]bool{}}
	anc := &wAnchor{rec: rec, failAt: map[int]bool{}}
	q := &wQueue{inner: &opqueue.MemQueue{}, rec: rec, inject: map[int][]func(){}}
	cl := &world.Client{}
	for _, g := range s.versions {
		p := world.DefaultProtocol()
		p.GenesisTime = g
		p.MaxOperationCount = s.max
		v := world.NewVersion(fmt.Sprint(g), p, world.VersionOpts{CAS: cas, ParserOpts: []operationparser.Option{operationparser.WithAnchorTimeValidator(expiryValidator{})}})
		v.HandlerOverride = &wHandler{inner: v.Handler, rec: rec, cas: cas}
		anc.providers = append(anc.providers, v.Provider)
		cl.Versions = append(cl.Versions, v)
	}
	wcl := &wClient{inner: cl, rec: rec, failAt: map[int]bool{}}
	w, err := batch.New("did:sidetree", &wContext{pc: wcl, a: anc, q: q})
	world.Must(err)
	doAdd := func(a wAdd) {
		ids[a.id] = a
		b := bank[a.bank]
		q.injecting = true
		err := w.Add(&operation.QueuedOperation{Type: b.ty, OperationRequest: b.req, UniqueSuffix: b.suffix, Namespace: "did:sidetree",
			Properties: []operation.Property{{Key: "verif-id", Value: a.id}}}, a.ver)
		q.injecting = false
		world.Must(err)
		res.Accepted = append(res.Accepted, a.id)
	}
	for _, t := range s.ticks {
		for _, a := range t.pre {
			doAdd(a)
		}
		q.calls = 0
		q.inject = map[int][]func(){}
		for at, as := range t.inject {
			for _, a := range as {
				a := a
				q.inject[at] = append(q.inject[at], func() { doAdd(a) })
			}
		}
		cas.failAt = map[int]bool{}
		for _, k := range t.casFail {
			cas.failAt[cas.writes+k] = true
		}
		anc.failAt = map[int]bool{}
		for _, k := range t.ancFail {
			anc.failAt[anc.calls+k] = true
		}
		wcl.failAt = map[int]bool{}
		for _, k := range t.getFail {
			wcl.failAt[wcl.gets+k] = true
		}
		rec.add(wEvent{Kind: "tick", OK: t.force})
		res.Returns = append(res.Returns, w.VerifStep(t.force))
	}
	res.Events = rec.events
	res.Queue = q.content()
	res.Log = anc.log
	return res
}

func zl(v []int64) string {
	items := make([]string, len(v))
	for i, x := range v {
		items[i] = emit.Z(x)
	}
	return emit.List(items)
}

func runC16(c *ctx) error {
	r := out.New(c.out)
	g := r.Group("cases_C16", []string{"Writer.Machine", "Corr.Writer"}, "wrcase", "wr_mismatches")
	rng := rand.New(rand.NewSource(c.seed))
	kp := world.NewKeyPool(12)
	bank := buildWriterBank(kp, 3)
	n := 700
	if c.tier == "thorough" {
		n = 20000
	}
	var nextID int64
	for i := 0; i < n; i++ {
		s := genSchedule(rng, bank, &nextID, i%3 == 0, i%5 == 2)
		ids := map[int64]wAdd{}
		res := runSchedule(s, bank, ids)
		desc := map[string]interface{}{"schedule": s.describe(bank), "impl": res}
		// --- oracle on the implementation alone: conservation / exactly once on the anchor log ---
		nExp := 0
		// F16: what follows a successful PrepareTxnFiles.  A batch whose operations have all expired gets no anchor
		// string and is committed (Ack) without an anchor write and without re-queued operations; every other
		// batch is followed by exactly one anchor write.  [settledExpired]: expired operations of committed batches.
		var pending *wEvent
		nAllExpired, settledExpired, anchorsOK := 0, 0, 0
		var discarded []int64 // expired operations of committed batches, in the order they were discarded
		for k := range res.Events {
			e := &res.Events[k]
			switch e.Kind {
			case "add":
				continue
			case "prepare":
				pending = nil
				if e.CASFailureIgnored {
					r.Direct = append(r.Direct, out.Direct{Oracle: "cas_write_failure_fails_the_batch",
						What: fmt.Sprintf("a CAS write failed while batch %v was prepared and PrepareTxnFiles reported success", e.Batch), Case: desc})
				}
				if e.OK {
					pending = e
					allExp := len(e.Expired) == len(e.Batch)
					if allExp != e.NoAnchor {
						r.Direct = append(r.Direct, out.Direct{Oracle: "no_anchor_string_iff_every_operation_expired",
							What: fmt.Sprintf("batch %v, expired %v, anchor string empty: %v", e.Batch, e.Expired, e.NoAnchor), Case: desc})
					}
					if allExp {
						nAllExpired++
						r.Count("all_expired_batch_size", fmt.Sprint(len(e.Batch)))
					}
				}
			case "anchor":
				if e.OK && e.ReadBack != "" {
					r.Direct = append(r.Direct, out.Direct{Oracle: "anchored_batch_reads_back", What: e.ReadBack, Case: desc})
				}
				if pending == nil || len(pending.Expired) == len(pending.Batch) {
					r.Direct = append(r.Direct, out.Direct{Oracle: "anchor_write_only_after_prepare_with_included_operations",
						What: fmt.Sprintf("WriteAnchor after %+v", pending), Case: desc})
				} else if e.OK {
					settledExpired += len(pending.Expired)
					discarded = append(discarded, pending.Expired...)
					anchorsOK++
				}
				if !e.OK {
					pending = nil
				}
			case "readd":
				if pending == nil || len(pending.Expired) == len(pending.Batch) {
					r.Direct = append(r.Direct, out.Direct{Oracle: "nothing_requeued_from_an_all_expired_batch", What: fmt.Sprintf("re-add after %+v", pending), Case: desc})
				}
			case "ack":
				if pending == nil {
					r.Direct = append(r.Direct, out.Direct{Oracle: "ack_follows_successful_prepare", What: "Ack without a successful PrepareTxnFiles before it", Case: desc})
				} else if len(pending.Expired) == len(pending.Batch) {
					settledExpired += len(pending.Expired) // committed without an anchor write
					discarded = append(discarded, pending.Expired...)
				}
				pending = nil
			case "nack":
				pending = nil
			}
		}
		r.Count("all_expired_batches_per_schedule", fmt.Sprint(nAllExpired))
		if nAllExpired > 0 {
			r.Count("special", "schedule-with-all-expired-batch")
		}
		for _, e := range res.Events {
			r.Count("events", e.Kind)
			if e.Kind == "prepare" && !e.OK {
				r.Count("faults", "prepare_failed")
			}
			if e.Kind == "anchor" && !e.OK {
				r.Count("faults", "anchor_failed")
			}
			if e.Kind == "prepare" {
				nExp += len(e.Expired)
				for _, id := range e.Batch {
					if ids[id].ver != ids[e.Batch[0]].ver {
						r.Direct = append(r.Direct, out.Direct{Oracle: "batch_does_not_mix_protocol_versions",
							What: fmt.Sprintf("batch %v contains operations queued under versions %d and %d", e.Batch, ids[e.Batch[0]].ver, ids[id].ver), Case: desc})
						break
					}
				}
				if uint(len(e.Batch)) > s.max {
					r.Direct = append(r.Direct, out.Direct{Oracle: "batch_not_larger_than_max", What: fmt.Sprint(e.Batch), Case: desc})
				}
			}
		}
		anchoredCount := 0
		for _, b := range res.Log {
			anchoredCount += len(b.Refs)
			if uint(len(b.Refs)) > s.max {
				r.Direct = append(r.Direct, out.Direct{Oracle: "batch_not_larger_than_max", What: fmt.Sprint(b), Case: desc})
			}
			if b.Count != len(b.Refs) {
				r.Direct = append(r.Direct, out.Direct{Oracle: "anchor_count_matches_references", What: fmt.Sprint(b), Case: desc})
			}
		}
		if res.Panic != "" {
			r.Direct = append(r.Direct, out.Direct{Oracle: "no_panic", What: res.Panic, Case: desc})
		}
		// one log entry per successful anchor write, none for an all-expired batch
		if anchorsOK != len(res.Log) {
			r.Direct = append(r.Direct, out.Direct{Oracle: "one_anchor_per_prepare_with_included_operations",
				What: fmt.Sprintf("%d successful anchor writes recorded as events, %d entries in the anchor log", anchorsOK, len(res.Log)), Case: desc})
		}
		// conservation on the implementation alone (every tick has returned: nothing is in flight): every accepted
		// operation is in the queue, in an anchored batch, or was discarded as expired with a committed batch
		if res.Panic == "" && len(res.Accepted) != len(res.Queue)+anchoredCount+settledExpired {
			r.Direct = append(r.Direct, out.Direct{Oracle: "every_accepted_operation_is_queued_anchored_or_discarded",
				What: fmt.Sprintf("accepted %d, queued %d, anchored %d, discarded as expired %d", len(res.Accepted), len(res.Queue), anchoredCount, settledExpired), Case: desc})
		}
		_ = nExp
		r.Count("ticks", fmt.Sprint(len(s.ticks)))
		r.Count("accepted", fmt.Sprint(len(res.Accepted)))
		r.Count("batches", fmt.Sprint(len(res.Log)))
		// Gallina
		var evs []string
		for _, e := range res.Events {
			switch e.Kind {
			case "add":
				a := ids[e.ID]
				b := bank[a.bank]
				evs = append(evs, emit.App("EAdd", emit.App("mkq", emit.Z(e.ID), emit.Z(b.sfxID), emit.Z(tyCode(b.ty)), emit.Z(int64(a.ver)))))
			case "tick":
				evs = append(evs, emit.App("ETick", emit.Bool(e.OK)))
			case "len":
				evs = append(evs, "ELen")
			case "peek":
				evs = append(evs, "EPeek")
			case "remove":
				evs = append(evs, "ERemove")
			case "prepare":
				// which operations are expired is known by construction (the bank), not taken from the handler's answer
				var exp []int64
				for _, id := range e.Batch {
					if bank[ids[id].bank].expired {
						exp = append(exp, id)
					}
				}
				if e.OK && fmt.Sprint(exp) != fmt.Sprint(e.Expired) {
					r.Direct = append(r.Direct, out.Direct{Oracle: "handler_discards_exactly_the_expired_operations",
						What: fmt.Sprintf("expired by construction %v, discarded by the handler %v", exp, e.Expired), Case: desc})
				}
				if !e.OK {
					exp = nil
				}
				evs = append(evs, emit.App("EPrepare", emit.Bool(e.OK), zl(exp)))
			case "anchor":
				evs = append(evs, emit.App("EAnchor", emit.Bool(e.OK)))
			case "readd":
				evs = append(evs, "EReAdd")
			case "ack":
				evs = append(evs, "EAck")
			case "nack":
				evs = append(evs, "ENack")
			}
		}
		var logs []string
		for _, b := range res.Log {
			var codes []int64
			for _, rf := range b.Refs {
				parts := strings.Split(rf, "|")
				var sid int64
				for _, bo := range bank {
					if bo.suffix == parts[0] {
						sid = bo.sfxID
					}
				}
				codes = append(codes, sid*10+tyCode(operation.Type(parts[1])))
			}
			sort.Slice(codes, func(a, b int) bool { return codes[a] < codes[b] })
			logs = append(logs, "("+emit.Z(int64(b.Version))+", "+zl(codes)+")")
		}
		key := fmt.Sprint(s.describe(bank))
		r.Add(g, emit.App("Build_wrcase", emit.Nat(int(s.max)), emit.List(evs), zl(res.Queue), emit.List(logs), zl(discarded), emit.Bool(res.Panic != "")), desc,
			key, len(res.Log) > 0)
	}
	return r.Finish(100)
}
