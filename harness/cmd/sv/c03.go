package main

import (
	"fmt"
	"math/rand"
	"strings"

	"verif/harness/internal/out"
	"verif/harness/internal/world"
)

func init() { commands["c03"] = runC03 }

// resolveEnv is the shared environment of the resolution-engine commands.
type resolveEnv struct {
	kp  *world.KeyPool
	tb  *world.Table
	pc  *world.Client
	md  world.MDelta
	rng *rand.Rand
	dl  int64
}

func newResolveEnv(seed int64, nkeys int) *resolveEnv {
	p := world.DefaultProtocol()
	// "add-also-known-as" stays disabled so that DisabledPatches() is an invalid delta
	p.Patches = []string{"replace", "add-public-keys", "remove-public-keys", "add-services", "remove-services", "ietf-json-patch"}
	ver := world.NewVersion("1.0", p, world.VersionOpts{})
	return &resolveEnv{kp: world.NewKeyPool(nkeys), tb: world.NewTable(), pc: &world.Client{Versions: []*world.Version{ver}},
		md:  func(uint64) (int64, bool) { return int64(p.MaxOperationTimeDelta), true },
		rng: rand.New(rand.NewSource(seed)), dl: int64(p.MaxOperationTimeDelta)}
}

func labels(evs []world.Event) string {
	var l []string
	for _, e := range evs {
		l = append(l, e.Label)
	}
	return strings.Join(l, ",")
}

func descHistory(h *world.History, evs []world.Event, oc world.Outcome) map[string]interface{} {
	ps := func(l []world.Placed) []map[string]interface{} {
		var o []map[string]interface{}
		for _, p := range l {
			o = append(o, map[string]interface{}{"oid": p.OID, "time": p.Time, "num": p.Num, "cref": p.CRef, "label": p.Op.Spec.Label,
				"type": p.Op.Spec.Type, "request": string(p.Op.Request)})
		}
		return o
	}
	return map[string]interface{}{"events": labels(evs), "published": ps(h.Pub), "unpublished": ps(h.Unpub), "additional": ps(h.Additional),
		"version_id": h.VersionID, "version_time": h.VersionTime, "impl": oc, "note": h.Note}
}

func runC03(c *ctx) error {
	r := out.New(c.out)
	g := r.Group("cases_C03", []string{"Resolve.Op", "Resolve.Process", "Corr.Resolve"}, "rcase", "mismatches")
	env := newResolveEnv(c.seed, 40)
	n := 1500
	if c.tier == "thorough" {
		n = 30000
	}
	for i := 0; i < n; i++ {
		code := uint(world.SHA256)
		if i%5 == 4 {
			code = world.SHA512
		}
		d := world.NewDID(env.kp, env.tb, env.rng, code)
		o := world.GenOpts{RecoverOldUpd: i%2 == 0, MinLen: 1, MaxLen: 9, Forged: i%3 == 0, DupCreates: i%4 == 1, Forks: true, BadDeltas: true, Windows: true,
			Cycles: true, Replays: i%2 == 0, Unpublished: 0, EndDeactivate: 15, TimeDelta: env.dl}
		if i%10 == 9 {
			o.MaxLen = 30
		}
		if i%7 == 3 {
			o.Unpublished = 2
		}
		evs := d.GenEvents(o)
		pub, unpub := d.Place(evs, o)
		h := &world.History{Level: 1, Pub: pub, Unpub: unpub}
		if i%3 == 1 {
			r.Count("via_additional_operations_option", fmt.Sprint(h.ViaOption(env.rng) > 0))
		}
		oc := h.Run(env.pc, env.tb, oidOf)
		r.Count("length", fmt.Sprint(len(evs)))
		for _, e := range evs {
			r.Count("letters", strings.SplitN(e.Label, ":", 2)[0])
		}
		out := "ok"
		if oc.Err != "" {
			out = oc.Err
		} else if oc.Deact {
			out = "deactivated"
		}
		r.Count("outcome", out)
		r.Add(g, h.CaseGallina(env.tb, env.md, oc), descHistory(h, evs, oc), labels(evs)+fmt.Sprint(oc.Doc, oc.Upd, oc.Rec), len(evs) > 2)
	}
	return r.Finish(250)
}
