package main

import (
	"encoding/json"
	"fmt"
	"math/rand"
	"reflect"
	"sort"
	"strings"

	"github.com/trustbloc/sidetree-core-go/pkg/api/operation"
	"github.com/trustbloc/sidetree-core-go/pkg/api/protocol"
	"github.com/trustbloc/sidetree-core-go/pkg/canonicalizer"
	"github.com/trustbloc/sidetree-core-go/pkg/commitment"
	"github.com/trustbloc/sidetree-core-go/pkg/jws"
	"github.com/trustbloc/sidetree-core-go/pkg/patch"
	"github.com/trustbloc/sidetree-core-go/pkg/versions/1_0/client"
	"github.com/trustbloc/sidetree-core-go/pkg/versions/1_0/model"
	"github.com/trustbloc/sidetree-core-go/pkg/versions/1_0/operationparser"
	"github.com/trustbloc/sidetree-core-go/pkg/versions/1_0/operationparser/patchvalidator"

	"verif/harness/internal/emit"
	"verif/harness/internal/out"
	"verif/harness/internal/world"
)

func init() { commands["c11"] = runC11 }

// testSigner wraps a real signer and lets the harness alter the protected headers.
type testSigner struct {
	inner   client.Signer
	headers jws.Headers
	fail    bool
}

func (s *testSigner) Sign(data []byte) ([]byte, error) {
	if s.fail {
		return nil, fmt.Errorf("signer refused")
	}
	return s.inner.Sign(data)
}
func (s *testSigner) Headers() jws.Headers { return s.headers }

type c11 struct {
	r   *out.Run
	gb  *out.Group
	rng *rand.Rand
}

func jwkViewG(k *jws.JWK) string {
	if k == nil {
		return "no_jwk"
	}
	c, _ := canonicalizer.MarshalCanonical(k)
	return emit.App("Build_jwk_view", "true", emit.Hex([]byte(k.Kty)), emit.Hex([]byte(k.Crv)), emit.Hex([]byte(k.X)), emit.Hex([]byte(k.Y)),
		emit.Hex([]byte(k.Nonce)), emit.Hex(c))
}

func deltaViewG(commit string, patches []patch.Patch) string {
	d := &model.DeltaModel{UpdateCommitment: commit, Patches: patches}
	var acts, valid []string
	for _, p := range patches {
		a, err := p.GetAction()
		if err != nil {
			acts = append(acts, "None")
		} else {
			acts = append(acts, "(Some "+emit.Hex([]byte(a))+")")
		}
		ok := false
		func() {
			defer func() { recover() }() //nolint:errcheck
			ok = patchvalidator.Validate(p) == nil
		}()
		valid = append(valid, emit.Bool(ok))
	}
	c, _ := canonicalizer.MarshalCanonical(d)
	return emit.App("Build_delta_view", "true", emit.List(acts), emit.List(valid), emit.Hex([]byte(commit)), emit.Hex(c))
}

// signerG renders the signer facts; sig/header are taken from the emitted JWS when there is one.
func signerG(s client.Signer, compact string) string {
	if s == nil {
		return emit.App("Build_signer", "false", "false", "None", "[]", "[]", "false", "[]")
	}
	h := s.Headers()
	if h == nil {
		return emit.App("Build_signer", "true", "false", "None", "[]", "[]", "false", "[]")
	}
	alg := "None"
	if a, ok := h.Algorithm(); ok {
		alg = "(Some " + emit.Hex([]byte(a)) + ")"
	}
	var hdrJSON, sig []byte
	signOK := false
	var names []string
	if parts := strings.Split(compact, "."); len(parts) == 3 {
		hdrJSON, _ = b64raw.DecodeString(parts[0])
		sig, _ = b64raw.DecodeString(parts[2])
		signOK = true
		// names in the order the parser's view lists them (go-jose map iteration is re-done on the view side)
	}
	if ts, ok := s.(*testSigner); ok && ts.fail {
		signOK = false
	}
	var ks []string
	for k := range h {
		ks = append(ks, k)
	}
	sort.Strings(ks)
	for _, k := range ks {
		names = append(names, emit.Hex([]byte(k)))
	}
	return emit.App("Build_signer", "true", "true", alg, emit.List(names), emit.Hex(hdrJSON), emit.Bool(signOK), emit.Hex(sig))
}

func payloadOf(compact string) []byte {
	if parts := strings.Split(compact, "."); len(parts) == 3 {
		b, _ := b64raw.DecodeString(parts[1])
		return b
	}
	return nil
}

func signedDataOf(req []byte) string {
	var m struct {
		SignedData string `json:"signedData"`
	}
	_ = json.Unmarshal(req, &m)
	return m.SignedData
}

type buildResult struct {
	req []byte
	err error
	pan string
}

func (c *c11) emitBuild(p protocol.Protocol, cfg, label, info string, br buildResult, valid bool, expect func(*model.Operation) string) {
	originOK := func(interface{}) bool { return true }
	view := "None"
	parsed := "None"
	outcome := "builder-error"
	desc := map[string]interface{}{"label": label, "config": cfg, "valid_inputs": valid}
	if br.err != nil {
		desc["builder_error"] = br.err.Error()
	}
	if br.pan != "" {
		desc["panic"] = br.pan
		c.r.Direct = append(c.r.Direct, out.Direct{Oracle: "builders_never_panic", What: br.pan, Case: desc})
	}
	if br.err == nil && br.pan == "" {
		desc["request"] = string(br.req)
		view = "(Some " + world.ReqView(br.req, originOK) + ")"
		// a node with a server clock (3000): every window used by the generator contains it, so a builder-made
		// request must pass; the validator sees the EFFECTIVE window (default anchorUntil applied by the parser)
		parser := operationparser.New(p, operationparser.WithAnchorTimeValidator(clockTV{now: 3000}))
		var op *operation.Operation
		var perr error
		ppan := guard(func() { op, perr = parser.Parse("did:sidetree", br.req) })
		outcome = "rejected"
		if ppan != "" {
			desc["panic"] = ppan
			br.pan = ppan
		} else if perr == nil {
			// every limit is inclusive: the same request under a protocol whose maximum operation size is exactly its size
			pe := p
			pe.MaxOperationSize = uint(len(br.req))
			if _, e := operationparser.New(pe, operationparser.WithAnchorTimeValidator(clockTV{now: 3000})).Parse("did:sidetree", br.req); e != nil {
				c.r.Direct = append(c.r.Direct, out.Direct{Oracle: "accepted_at_exactly_the_maximum_operation_size", What: e.Error(), Case: desc})
			}
			outcome = "accepted"
			parsed = "(Some " + emit.App("ROp", tyName2(op.Type), emit.Hex([]byte(op.UniqueSuffix))) + ")"
			mop, merr := parser.ParseOperation("did:sidetree", br.req, false)
			if merr != nil {
				c.r.Direct = append(c.r.Direct, out.Direct{Oracle: "parses_back_to_what_the_caller_supplied", What: "ParseOperation: " + merr.Error(), Case: desc})
			} else if why := expect(mop); why != "" {
				c.r.Direct = append(c.r.Direct, out.Direct{Oracle: "parses_back_to_what_the_caller_supplied", What: why, Case: desc})
			}
		} else {
			desc["parser_error"] = perr.Error()
		}
	}
	desc["outcome"] = outcome
	// configurations that tighten a size limit below what the centre request needs say nothing about completeness
	// (the model comparison still applies to them)
	if strings.HasPrefix(cfg, "hashlen=") || strings.HasPrefix(cfg, "deltasize=") || strings.HasPrefix(cfg, "opsize=") {
		valid = false
	}
	if valid && outcome != "accepted" {
		c.r.Direct = append(c.r.Direct, out.Direct{Oracle: "built_from_valid_inputs_is_accepted", What: outcome, Case: desc})
	}
	c.r.Count("build:"+strings.SplitN(label, ":", 2)[0], outcome)
	c.r.Count("build-config", cfg+":"+outcome)
	bytesG, validG := "None", "[]"
	if view != "None" {
		bytesG = "(Some " + emit.Hex(br.req) + ")"
		var vs []string
		for _, v := range world.PatchVerdicts(br.req) {
			vs = append(vs, emit.Bool(v))
		}
		validG = emit.List(vs)
	}
	c.r.Add(c.gb, emit.App("Build_bcase", world.ProtoGallina(p), info, view, parsed, emit.Bool(br.pan != ""), bytesG, validG), desc, label+"|"+cfg+"|"+info[:min(len(info), 4000)], true)
}

type clockTV struct{ now int64 }

func (c clockTV) Validate(from, until int64) error {
	if from == 0 && until == 0 {
		return nil
	}
	if c.now < from {
		return operationparser.ErrOperationEarly
	}
	if c.now > until {
		return operationparser.ErrOperationExpired
	}
	return nil
}

func min(a, b int) int {
	if a < b {
		return a
	}
	return b
}

func jsonEq(a, b interface{}) bool {
	x, _ := json.Marshal(a)
	y, _ := json.Marshal(b)
	var u, v interface{}
	if json.Unmarshal(x, &u) != nil || json.Unmarshal(y, &v) != nil {
		return false
	}
	return reflect.DeepEqual(u, v)
}

// ---- builder inputs ----

type keyUse struct {
	key    *world.Key
	nonce  string
	signer client.Signer
	label  string
}

func (c *c11) signerVariants(k *world.Key, tier string) []keyUse {
	alg := k.Type.Alg()
	vs := []keyUse{{k, "", k.Signer, "signer:real"}}
	hs := func(label string, h jws.Headers, fail bool) {
		vs = append(vs, keyUse{k, "", &testSigner{inner: k.Signer, headers: h, fail: fail}, label})
	}
	hs("signer:alg+kid", jws.Headers{"alg": alg, "kid": "key-1"}, false)
	hs("signer:extra-header", jws.Headers{"alg": alg, "typ": "JWT"}, false)
	hs("signer:no-alg", jws.Headers{"kid": "key-1"}, false)
	hs("signer:empty-alg", jws.Headers{"alg": ""}, false)
	hs("signer:alg-not-string", jws.Headers{"alg": 5}, false)
	hs("signer:nil-headers", nil, false)
	hs("signer:other-alg", jws.Headers{"alg": "HS256"}, false)
	hs("signer:sign-fails", jws.Headers{"alg": alg}, true)
	vs = append(vs, keyUse{k, "", nil, "signer:nil"})
	vs = append(vs, keyUse{k, "AAECAwQFBgcICQoLDA0ODw", k.Signer, "nonce:16-bytes"})
	vs = append(vs, keyUse{k, "AAECAwQFBgcICQoLDA0O", k.Signer, "nonce:15-bytes"})
	vs = append(vs, keyUse{k, "***", k.Signer, "nonce:garbage"})
	return vs
}

func withNonce(k *jws.JWK, nonce string) *jws.JWK {
	if k == nil {
		return nil
	}
	c := *k
	c.Nonce = nonce
	return &c
}

type patchShape struct {
	label   string
	patches []patch.Patch
	opaque  string
}

func patchShapes(id int64) []patchShape {
	svc, _ := patch.NewAddServiceEndpointsPatch(fmt.Sprintf(`[{"id":"svc%d","type":"LinkedDomains","serviceEndpoint":"https://example%d.com"}]`, id, id))
	rm, _ := patch.NewRemovePublicKeysPatch(`["k1"]`)
	jp, _ := patch.NewJSONPatch(`[{"op":"add","path":"/note","value":"x"}]`)
	aka, _ := patch.NewAddAlsoKnownAs(`["https://alias.example/` + fmt.Sprint(id) + `"]`)
	def := world.DefaultPatches(id)
	doc := fmt.Sprintf(`{"publicKey":[{"id":"k%d","type":"JsonWebKey2020","purposes":["authentication"],"publicKeyJwk":{"kty":"EC","crv":"P-256","x":"PUymIqdtF_qxaAqPABSw-C-owT1KYYQbsMKFM-L9fJA","y":"nM84jDHCMOTGTh_ZdHq4dBBdo4Z5PkEOW9jA8z8IsGc"}}],"service":[{"id":"svc%d","type":"LinkedDomains","serviceEndpoint":"https://example.com"}]}`, id, id)
	return []patchShape{
		{"patches:add-key", def, ""},
		{"patches:add-key+service", append(append([]patch.Patch{}, def...), svc), ""},
		{"patches:add-key+remove+json-patch", append(append([]patch.Patch{}, def...), rm, jp), ""},
		{"patches:also-known-as(disabled)", []patch.Patch{aka}, ""},
		{"patches:opaque-document", nil, doc},
		{"patches:opaque-document-invalid", nil, `{"publicKey":"oops"`},
		{"patches:both", def, doc},
		{"patches:none", nil, ""},
	}
}

func patchInputG(ps patchShape) (string, []patch.Patch) {
	eff := ps.patches
	fromDocOK := false
	if ps.opaque != "" {
		if p, err := patch.PatchesFromDocument(ps.opaque); err == nil {
			fromDocOK = true
			if len(ps.patches) == 0 {
				eff = p
			}
		}
	}
	return emit.App("Build_patch_input", emit.Bool(ps.opaque != ""), emit.Bool(len(ps.patches) > 0), emit.Bool(fromDocOK)), eff
}

type window struct {
	label       string
	from, until int64
}

var windows = []window{{"window:none", 0, 0}, {"window:both", 1000, 5000}, {"window:from-only", 1000, 0}, {"window:until-only", 0, 5000}}

func (c *c11) protocols(base protocol.Protocol, tier string) []c10cfg {
	cfgs := []c10cfg{{"base", base}}
	mk := func(name string, f func(p *protocol.Protocol)) {
		p := base
		f(&p)
		cfgs = append(cfgs, c10cfg{name, p})
	}
	mk("sig-algs-ES256-only", func(p *protocol.Protocol) { p.SignatureAlgorithms = []string{"ES256"} })
	mk("key-algs-P256-only", func(p *protocol.Protocol) { p.KeyAlgorithms = []string{"P-256"} })
	mk("sha256-only", func(p *protocol.Protocol) { p.MultihashAlgorithms = []uint{world.SHA256} })
	mk("sha512-first", func(p *protocol.Protocol) { p.MultihashAlgorithms = []uint{world.SHA512, world.SHA256} })
	if tier == "thorough" {
		mk("hashlen=60", func(p *protocol.Protocol) { p.MaxOperationHashLength = 60 })
		mk("deltasize=300", func(p *protocol.Protocol) { p.MaxDeltaSize = 300 })
		mk("opsize=900", func(p *protocol.Protocol) { p.MaxOperationSize = 900 })
	}
	return cfgs
}

func enabled(p protocol.Protocol, code uint, k *world.Key) bool {
	has := func(l []string, s string) bool {
		for _, x := range l {
			if x == s {
				return true
			}
		}
		return false
	}
	hc := false
	for _, a := range p.MultihashAlgorithms {
		if a == code {
			hc = true
		}
	}
	return hc && (k == nil || (has(p.SignatureAlgorithms, k.Type.Alg()) && has(p.KeyAlgorithms, k.Type.Crv())))
}

func (c *c11) builders(kp *world.KeyPool, tier string) {
	base := world.DefaultProtocol()
	base.Patches = []string{"replace", "add-public-keys", "remove-public-keys", "add-services", "remove-services", "ietf-json-patch"}
	base.MaxOperationSize, base.MaxDeltaSize = 8000, 4000
	cfgs := c.protocols(base, tier)
	nk := int(world.NumKeyTypes)
	if tier == "thorough" {
		nk = 2 * int(world.NumKeyTypes)
	}
	id := int64(1)
	keysUnderTest := append([]*world.Key{}, kp.Keys[:nk]...)
	keysUnderTest = append(keysUnderTest, world.ShortCoordinateKey()) // secp256k1 key with a leading zero byte in a coordinate
	for ki, k := range keysUnderTest {
		next, next2 := kp.Keys[(ki+7)%len(kp.Keys)], kp.Keys[(ki+11)%len(kp.Keys)]
		for _, code := range []uint{world.SHA256, world.SHA512} {
			suffix := "EiAsuffix-of-" + fmt.Sprint(ki)
			uses := c.signerVariants(k, tier)
			shapes := patchShapes(id)
			id++
			// one axis at a time around the valid centre, plus random combinations
			type combo struct {
				use keyUse
				ps  patchShape
				w   window
				org interface{}
				mut string
			}
			var combos []combo
			for _, u := range uses {
				combos = append(combos, combo{u, shapes[0], windows[0], "origin1", ""})
			}
			for _, ps := range shapes[1:] {
				combos = append(combos, combo{uses[0], ps, windows[0], "origin1", ""})
			}
			for _, w := range windows[1:] {
				combos = append(combos, combo{uses[0], shapes[0], w, "origin1", ""})
			}
			for _, o := range world.Origins {
				combos = append(combos, combo{uses[0], shapes[0], windows[0], o, ""})
			}
			for _, m := range []string{"empty-suffix", "empty-reveal", "nil-key", "key-without-x", "reuse-key", "next-other-code", "equal-commitments", "reveal-of-other-key", "unsupported-code", "unknown-code", "garbage-commitment"} {
				combos = append(combos, combo{uses[0], shapes[0], windows[0], "origin1", m})
			}
			nr := 6
			if tier == "thorough" {
				nr = 40
			}
			for i := 0; i < nr; i++ {
				combos = append(combos, combo{uses[c.rng.Intn(len(uses))], shapes[c.rng.Intn(len(shapes))], windows[c.rng.Intn(len(windows))],
					world.Origins[c.rng.Intn(len(world.Origins))], ""})
			}
			if tier != "thorough" && (ki+int(code))%5 != 0 {
				// quick tier: the full one-axis sweep for two of the ten (key type, hash code) pairs, a core set for the others
				combos = []combo{{uses[0], shapes[0], windows[0], "origin1", ""}, {uses[1], shapes[1], windows[1], world.Origins[4], ""},
					{uses[0], shapes[4], windows[2], world.Origins[5], ""}, {uses[10], shapes[2], windows[3], nil, ""},
					{uses[0], shapes[0], windows[0], "origin1", "reuse-key"}, {uses[2], shapes[0], windows[0], "origin1", ""}}
			}
			for _, cb := range combos {
				for ci, cfg := range cfgs {
					if ci > 0 && (cb.mut != "" || cb.use.label != "signer:real") && tier != "thorough" {
						continue
					}
					c.oneUpdate(cfg, k, next, code, suffix, cb.use, cb.ps, cb.w, cb.mut)
					c.oneRecover(cfg, k, next, next2, code, suffix, cb.use, cb.ps, cb.w, cb.org, cb.mut)
					if cb.ps.label == "patches:add-key" {
						c.oneDeactivate(cfg, k, code, suffix, cb.use, cb.w, cb.mut)
					}
					if cb.use.label == "signer:real" {
						c.oneCreate(cfg, next, next2, code, cb.ps, cb.org, cb.mut)
					}
				}
			}
		}
	}
}

func labelOf(kind string, k *world.Key, code uint, parts ...string) string {
	kt := "none"
	if k != nil {
		kt = k.Type.Crv()
	}
	return kind + ":" + kt + ":" + fmt.Sprint(code) + ":" + strings.Join(parts, ",")
}

func (c *c11) oneUpdate(cfg c10cfg, k, next *world.Key, code uint, suffix string, use keyUse, ps patchShape, w window, mut string) {
	if ps.opaque != "" {
		return // updates take patches only
	}
	key := withNonce(k.JWK, use.nonce)
	reveal, _ := commitment.GetRevealValue(key, code)
	nextC := next.Commitment(code)
	valid := use.label == "signer:real" || use.label == "signer:alg+kid" || use.label == "nonce:16-bytes"
	valid = valid && (ps.label == "patches:add-key" || ps.label == "patches:add-key+service" || ps.label == "patches:add-key+remove+json-patch")
	switch mut {
	case "empty-suffix":
		suffix, valid = "", false
	case "empty-reveal":
		reveal, valid = "", false
	case "nil-key":
		key, valid = nil, false
	case "key-without-x":
		kk := *key
		kk.X = ""
		key, valid = &kk, false
	case "reuse-key":
		nextC, _ = commitment.GetCommitment(key, code)
		valid = false
	case "next-other-code":
		nextC = next.Commitment(otherCode(code))
		valid = false // accepted only when both codes are enabled; not claimed
	case "reveal-of-other-key":
		reveal, valid = next.Reveal(code), false
	case "unsupported-code":
		code, valid = 0x16, false
	case "unknown-code":
		code, valid = 999, false
	case "garbage-commitment":
		nextC, valid = "!!!", false
	case "equal-commitments":
		return
	}
	info := &client.UpdateRequestInfo{DidSuffix: suffix, Patches: ps.patches, UpdateCommitment: nextC, UpdateKey: key, MultihashCode: code,
		Signer: use.signer, RevealValue: reveal, AnchorFrom: w.from, AnchorUntil: w.until}
	if use.signer == nil {
		info.Signer = nil
	}
	var br buildResult
	br.pan = guard(func() { br.req, br.err = client.NewUpdateRequest(info) })
	sd := signedDataOf(br.req)
	g := emit.App("BUpdate", emit.App("Build_update_info", emit.Hex([]byte(suffix)), emit.Hex([]byte(reveal)), deltaViewG(nextC, ps.patches),
		jwkViewG(key), emit.N(uint64(code)), emit.Z(w.from), emit.Z(w.until), signerG(info.Signer, sd), "true", emit.Hex(payloadOf(sd)), emit.Z(int64(len(br.req)))))
	valid = valid && enabled(cfg.p, code, k)
	c.emitBuild(cfg.p, cfg.name, labelOf("update", k, code, use.label, ps.label, w.label, mut), g, br, valid, func(op *model.Operation) string {
		var m model.UpdateRequest
		if json.Unmarshal(op.OperationRequest, &m) != nil {
			return "request does not decode"
		}
		var sdm model.UpdateSignedDataModel
		if json.Unmarshal(payloadOf(m.SignedData), &sdm) != nil {
			return "signed data does not decode"
		}
		switch {
		case op.Type != operation.TypeUpdate || op.UniqueSuffix != suffix || m.DidSuffix != suffix:
			return "suffix / type differ"
		case m.RevealValue != reveal || op.RevealValue != reveal:
			return "reveal value differs"
		case m.Delta == nil || m.Delta.UpdateCommitment != nextC:
			return "update commitment differs"
		case !jsonEq(m.Delta.Patches, ps.patches):
			return "patches differ"
		case sdm.AnchorFrom != w.from || sdm.AnchorUntil != w.until:
			return "window differs"
		case !reflect.DeepEqual(sdm.UpdateKey, key):
			return "signed key differs"
		}
		return ""
	})
}

func otherCode(code uint) uint {
	if code == world.SHA256 {
		return world.SHA512
	}
	return world.SHA256
}

func (c *c11) oneRecover(cfg c10cfg, k, next, next2 *world.Key, code uint, suffix string, use keyUse, ps patchShape, w window, origin interface{}, mut string) {
	key := withNonce(k.JWK, use.nonce)
	reveal, _ := commitment.GetRevealValue(key, code)
	nextRec, nextUpd := next.Commitment(code), next2.Commitment(code)
	valid := use.label == "signer:real" || use.label == "signer:alg+kid" || use.label == "nonce:16-bytes"
	valid = valid && (ps.label == "patches:add-key" || ps.label == "patches:add-key+service" || ps.label == "patches:add-key+remove+json-patch" || ps.label == "patches:opaque-document")
	switch mut {
	case "empty-suffix":
		suffix, valid = "", false
	case "empty-reveal":
		reveal, valid = "", false
	case "nil-key":
		key, valid = nil, false
	case "key-without-x":
		kk := *key
		kk.X = ""
		key, valid = &kk, false
	case "reuse-key":
		nextRec, _ = commitment.GetCommitment(key, code)
		valid = false
	case "next-other-code":
		nextRec = next.Commitment(otherCode(code))
		valid = false
	case "equal-commitments":
		nextUpd, valid = nextRec, false
	case "reveal-of-other-key":
		reveal, valid = next.Reveal(code), false
	case "unsupported-code":
		code, valid = 0x16, false
	case "unknown-code":
		code, valid = 999, false
	case "garbage-commitment":
		nextRec, valid = "!!!", false
	}
	pin, eff := patchInputG(ps)
	info := &client.RecoverRequestInfo{DidSuffix: suffix, RecoveryKey: key, OpaqueDocument: ps.opaque, Patches: ps.patches, RecoveryCommitment: nextRec,
		UpdateCommitment: nextUpd, AnchorOrigin: origin, AnchorFrom: w.from, AnchorUntil: w.until, MultihashCode: code, Signer: use.signer, RevealValue: reveal}
	if use.signer == nil {
		info.Signer = nil
	}
	var br buildResult
	br.pan = guard(func() { br.req, br.err = client.NewRecoverRequest(info) })
	sd := signedDataOf(br.req)
	g := emit.App("BRecover", emit.App("Build_recover_info", emit.Hex([]byte(suffix)), emit.Hex([]byte(reveal)), pin, deltaViewG(nextUpd, eff),
		jwkViewG(key), emit.Hex([]byte(nextRec)), emit.N(uint64(code)), emit.Z(w.from), emit.Z(w.until), signerG(info.Signer, sd), "true",
		emit.Hex(payloadOf(sd)), emit.Z(int64(len(br.req)))))
	valid = valid && enabled(cfg.p, code, k)
	c.emitBuild(cfg.p, cfg.name, labelOf("recover", k, code, use.label, ps.label, w.label, fmt.Sprintf("origin-%T", origin), mut), g, br, valid, func(op *model.Operation) string {
		var m model.RecoverRequest
		if json.Unmarshal(op.OperationRequest, &m) != nil {
			return "request does not decode"
		}
		var sdm model.RecoverSignedDataModel
		if json.Unmarshal(payloadOf(m.SignedData), &sdm) != nil {
			return "signed data does not decode"
		}
		switch {
		case op.Type != operation.TypeRecover || op.UniqueSuffix != suffix || m.DidSuffix != suffix:
			return "suffix / type differ"
		case m.RevealValue != reveal || op.RevealValue != reveal:
			return "reveal value differs"
		case m.Delta == nil || m.Delta.UpdateCommitment != nextUpd || sdm.RecoveryCommitment != nextRec:
			return "commitments differ"
		case !jsonEq(m.Delta.Patches, eff):
			return "patches differ"
		case sdm.AnchorFrom != w.from || sdm.AnchorUntil != w.until:
			return "window differs"
		case !jsonEq(sdm.AnchorOrigin, origin) || !jsonEq(op.AnchorOrigin, origin):
			return "anchor origin differs"
		case !reflect.DeepEqual(sdm.RecoveryKey, key):
			return "signed key differs"
		}
		return ""
	})
}

func (c *c11) oneDeactivate(cfg c10cfg, k *world.Key, code uint, suffix string, use keyUse, w window, mut string) {
	key := withNonce(k.JWK, use.nonce)
	reveal, _ := commitment.GetRevealValue(key, code)
	valid := use.label == "signer:real" || use.label == "signer:alg+kid" || use.label == "nonce:16-bytes"
	switch mut {
	case "empty-suffix":
		suffix, valid = "", false
	case "empty-reveal":
		reveal, valid = "", false
	case "nil-key":
		key, valid = nil, false
	case "key-without-x":
		kk := *key
		kk.X = ""
		key, valid = &kk, false
	case "reveal-of-other-key":
		valid = false
		reveal = "EiBvbm90LXRoZS1oYXNoLW9mLXRoZS1rZXktYXQtYWxsISEh"
	case "":
	default:
		return
	}
	info := &client.DeactivateRequestInfo{DidSuffix: suffix, RecoveryKey: key, Signer: use.signer, RevealValue: reveal, AnchorFrom: w.from, AnchorUntil: w.until}
	if use.signer == nil {
		info.Signer = nil
	}
	var br buildResult
	br.pan = guard(func() { br.req, br.err = client.NewDeactivateRequest(info) })
	sd := signedDataOf(br.req)
	g := emit.App("BDeactivate", emit.App("Build_deactivate_info", emit.Hex([]byte(suffix)), emit.Hex([]byte(reveal)), jwkViewG(key), emit.Z(w.from), emit.Z(w.until),
		signerG(info.Signer, sd), emit.Hex(payloadOf(sd)), emit.Z(int64(len(br.req)))))
	valid = valid && enabled(cfg.p, code, k)
	c.emitBuild(cfg.p, cfg.name, labelOf("deactivate", k, code, use.label, w.label, mut), g, br, valid, func(op *model.Operation) string {
		var m model.DeactivateRequest
		if json.Unmarshal(op.OperationRequest, &m) != nil {
			return "request does not decode"
		}
		var sdm model.DeactivateSignedDataModel
		if json.Unmarshal(payloadOf(m.SignedData), &sdm) != nil {
			return "signed data does not decode"
		}
		switch {
		case op.Type != operation.TypeDeactivate || op.UniqueSuffix != suffix || m.DidSuffix != suffix || sdm.DidSuffix != suffix:
			return "suffix / type differ"
		case m.RevealValue != reveal || op.RevealValue != reveal:
			return "reveal value differs"
		case sdm.AnchorFrom != w.from || sdm.AnchorUntil != w.until:
			return "window differs"
		case !reflect.DeepEqual(sdm.RecoveryKey, key):
			return "signed key differs"
		}
		return ""
	})
}

func (c *c11) oneCreate(cfg c10cfg, rec, upd *world.Key, code uint, ps patchShape, origin interface{}, mut string) {
	recC, updC := rec.Commitment(code), upd.Commitment(code)
	valid := ps.label == "patches:add-key" || ps.label == "patches:add-key+service" || ps.label == "patches:add-key+remove+json-patch" || ps.label == "patches:opaque-document"
	known := true
	switch mut {
	case "equal-commitments":
		updC, valid = recC, false
	case "next-other-code":
		updC, valid = upd.Commitment(otherCode(code)), false
	case "unsupported-code":
		code, valid = 0x16, false // a multihash code the table knows but the library cannot compute
	case "unknown-code":
		code, valid, known = 999, false, false
	case "garbage-commitment":
		recC, valid = "!!!", false
	case "":
	default:
		return
	}
	pin, eff := patchInputG(ps)
	info := &client.CreateRequestInfo{OpaqueDocument: ps.opaque, Patches: ps.patches, RecoveryCommitment: recC, UpdateCommitment: updC, AnchorOrigin: origin, MultihashCode: code}
	var br buildResult
	br.pan = guard(func() { br.req, br.err = client.NewCreateRequest(info) })
	var sdCanon []byte
	if br.err == nil && br.req != nil {
		var cr model.CreateRequest
		if json.Unmarshal(br.req, &cr) == nil && cr.SuffixData != nil {
			sdCanon, _ = canonicalizer.MarshalCanonical(cr.SuffixData)
		}
	}
	g := emit.App("BCreate", emit.App("Build_create_info", pin, deltaViewG(updC, eff), emit.Hex([]byte(recC)), emit.N(uint64(code)), emit.Bool(known), "true",
		"(fun _ => "+emit.Hex(sdCanon)+")", emit.Z(int64(len(br.req)))))
	valid = valid && len(cfg.p.MultihashAlgorithms) > 0 && cfg.p.MultihashAlgorithms[0] == code
	c.emitBuild(cfg.p, cfg.name, labelOf("create", nil, code, ps.label, fmt.Sprintf("origin-%T", origin), mut), g, br, valid, func(op *model.Operation) string {
		var m model.CreateRequest
		if json.Unmarshal(op.OperationRequest, &m) != nil {
			return "request does not decode"
		}
		want, _ := model.GetUniqueSuffix(m.SuffixData, []uint{code})
		switch {
		case op.Type != operation.TypeCreate:
			return "type differs"
		case m.Delta == nil || m.SuffixData == nil || m.Delta.UpdateCommitment != updC || m.SuffixData.RecoveryCommitment != recC:
			return "commitments differ"
		case !jsonEq(m.Delta.Patches, eff):
			return "patches differ"
		case !jsonEq(m.SuffixData.AnchorOrigin, origin) || !jsonEq(op.AnchorOrigin, origin):
			return "anchor origin differs"
		case enabledFirst(cfg.p, code) && op.UniqueSuffix != want:
			return "suffix is not the hash of the suffix data"
		}
		return ""
	})
}

func enabledFirst(p protocol.Protocol, code uint) bool {
	return len(p.MultihashAlgorithms) > 0 && p.MultihashAlgorithms[0] == code
}

func runC11(c *ctx) error {
	r := out.New(c.out)
	x := &c11{r: r, rng: rand.New(rand.NewSource(c.seed))}
	x.gb = r.Group("cases_C11_build", []string{"Base.Bytes", "Resolve.Op", "Jws.Compact", "Parser.Accept", "Parser.Builder", "Corr.Parser", "Corr.Builder"}, "bcase", "b_mismatches")
	kp := world.NewKeyPool(20)
	x.builders(kp, c.tier)
	x.effects(c, kp)
	return r.Finish(100)
}
