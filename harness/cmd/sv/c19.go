package main

import (
	"encoding/json"
	"fmt"
	"math/rand"

	"github.com/trustbloc/sidetree-core-go/pkg/api/operation"
	"github.com/trustbloc/sidetree-core-go/pkg/api/protocol"
	"github.com/trustbloc/sidetree-core-go/pkg/dochandler"
	"github.com/trustbloc/sidetree-core-go/pkg/document"
	"github.com/trustbloc/sidetree-core-go/pkg/processor"
	"github.com/trustbloc/sidetree-core-go/pkg/versions/1_0/doctransformer/didtransformer"

	"verif/harness/internal/out"
	"verif/harness/internal/world"
)

// c19: the parts of the external projection that live outside the pure transformer function and are
// therefore not covered by the model cases of gen_transformer: (1) a transformer INSTANCE used for many
// documents (nothing may be shared between results), (2) the document handler's decision which
// transformation info (published / unpublished) a resolution gets.  Oracles on the implementation only.
func init() { commands["c19"] = runC19 }

func c19Doc(i int) document.Document {
	kts := []string{"Ed25519VerificationKey2018", "JsonWebKey2020", "EcdsaSecp256k1VerificationKey2019", "X25519KeyAgreementKey2019", "Ed25519VerificationKey2020"}
	var keys []interface{}
	for k := 0; k < i%4; k++ {
		kt := kts[(i+k)%len(kts)]
		purposes := []interface{}{"authentication"}
		if kt == "X25519KeyAgreementKey2019" {
			purposes = []interface{}{"keyAgreement"}
		}
		keys = append(keys, map[string]interface{}{"id": fmt.Sprintf("k%d", k), "type": kt, "purposes": purposes,
			"publicKeyJwk": map[string]interface{}{"kty": "OKP", "crv": "Ed25519", "x": "o1bG1U7G3CNbtALMafUiFOq8ODraTyVTmPtRDO1QUWg"}})
	}
	d := document.Document{}
	if keys != nil {
		d["publicKey"] = keys
	}
	if i%3 == 0 {
		d["service"] = []interface{}{map[string]interface{}{"id": fmt.Sprintf("svc%d", i), "type": "t", "serviceEndpoint": "https://example.com/" + fmt.Sprint(i)}}
	}
	return d
}

func runC19(c *ctx) error {
	r := out.New(c.out)
	rng := rand.New(rand.NewSource(c.seed))
	rounds := 40
	if c.tier == "thorough" {
		rounds = 600
	}
	// ---- (1) one transformer instance, many documents ----
	optSets := map[string][]didtransformer.Option{
		"plain":            nil,
		"two-method-ctx":   {didtransformer.WithMethodContext([]string{"https://ctx.example/a", "https://ctx.example/b"})},
		"two-ctx+base":     {didtransformer.WithMethodContext([]string{"https://ctx.example/a", "https://ctx.example/b"}), didtransformer.WithBase(true)},
		"one-ctx+base":     {didtransformer.WithMethodContext([]string{"https://ctx.example/a"}), didtransformer.WithBase(true)},
		"three-ctx":        {didtransformer.WithMethodContext([]string{"https://ctx.example/a", "https://ctx.example/b", "https://ctx.example/c"})},
		"ops-lists":        {didtransformer.WithIncludePublishedOperations(true), didtransformer.WithIncludeUnpublishedOperations(true)},
		"key-ctx-override": {didtransformer.WithKeyContext(map[string]string{"JsonWebKey2020": "https://keys.example/jwk"}), didtransformer.WithBase(true)},
	}
	for name, opts := range optSets {
		shared := didtransformer.New(opts...)
		type kept struct {
			res   *document.ResolutionResult
			first string
			desc  map[string]interface{}
		}
		var all []kept
		for i := 0; i < rounds; i++ {
			n := rng.Intn(40)
			suffix := fmt.Sprintf("EiSuffix%03d", n)
			mk := func() (*protocol.ResolutionModel, protocol.TransformationInfo) {
				// equivalent references: none, others, and (every third) one that equals the canonical reference
				var eqRefs []string
				switch n % 3 {
				case 1:
					eqRefs = []string{fmt.Sprintf("eqA%d", n), fmt.Sprintf("eqB%d", n)}
				case 2:
					eqRefs = []string{fmt.Sprintf("eqA%d", n), fmt.Sprintf("ref%d", n), fmt.Sprintf("eqB%d", n)}
				}
				rm := &protocol.ResolutionModel{Doc: c19Doc(n), RecoveryCommitment: "rc", UpdateCommitment: "uc", CreatedTime: 1700000000, UpdatedTime: uint64(1700000000 + n),
					VersionID: fmt.Sprintf("v%d", n), CanonicalReference: fmt.Sprintf("ref%d", n), EquivalentReferences: eqRefs,
					PublishedOperations: []*operation.AnchoredOperation{{Type: operation.TypeCreate, UniqueSuffix: suffix, CanonicalReference: fmt.Sprintf("ref%d", n), TransactionTime: 1}}}
				return rm, dochandler.GetTransformationInfoForPublished("did:sidetree", "did:sidetree:"+suffix, suffix, rm)
			}
			rm, ti := mk()
			res, err := shared.TransformDocument(rm, ti)
			rm2, ti2 := mk()
			fresh, err2 := didtransformer.New(opts...).TransformDocument(rm2, ti2)
			desc := map[string]interface{}{"options": name, "call": i, "suffix": suffix}
			r.Count("instance_reuse", name)
			if (err == nil) != (err2 == nil) {
				r.Direct = append(r.Direct, out.Direct{Oracle: "transformer_instance_has_no_memory", What: fmt.Sprintf("errors differ: %v / %v", err, err2), Case: desc})
				continue
			}
			if err != nil {
				continue
			}
			// the metadata's equivalentId mirrors the model: the canonical id, then one id per equivalent reference, in order
			{
				want := []string{"did:sidetree:" + rm.CanonicalReference + ":" + suffix}
				for _, e := range rm.EquivalentReferences {
					want = append(want, "did:sidetree:"+e+":"+suffix)
				}
				rawMD, _ := json.Marshal(res.DocumentMetadata)
				var md struct {
					EquivalentID []string `json:"equivalentId"`
				}
				_ = json.Unmarshal(rawMD, &md)
				if fmt.Sprint(md.EquivalentID) != fmt.Sprint(want) {
					r.Direct = append(r.Direct, out.Direct{Oracle: "equivalent_ids_mirror_the_model", What: fmt.Sprintf("equivalentId %v, expected %v", md.EquivalentID, want), Case: desc})
				}
			}
			a, _ := json.Marshal(res)
			b, _ := json.Marshal(fresh)
			if string(a) != string(b) {
				r.Direct = append(r.Direct, out.Direct{Oracle: "transformer_instance_has_no_memory", What: "a used instance answers differently from a fresh one: " + string(a) + " vs " + string(b), Case: desc})
			}
			all = append(all, kept{res, string(a), desc})
		}
		// earlier results must not change when later documents are transformed
		for _, k := range all {
			now, _ := json.Marshal(k.res)
			if string(now) != k.first {
				r.Direct = append(r.Direct, out.Direct{Oracle: "results_are_not_shared", What: "a result changed after later transformations: " + k.first + " became " + string(now), Case: k.desc})
				break
			}
		}
	}
	// ---- (2) the handler's published / unpublished decision ----
	env := newResolveEnv(c.seed, 20)
	nh := 30
	if c.tier == "thorough" {
		nh = 400
	}
	for i := 0; i < nh; i++ {
		d := world.NewDID(env.kp, env.tb, env.rng, world.SHA256)
		o := world.GenOpts{MinLen: 1, MaxLen: 4, Unpublished: 2, TimeDelta: env.dl}
		evs := d.GenEvents(o)
		pub, unpub := d.Place(evs, o)
		if i%5 == 4 && len(pub) > 0 {
			// nothing anchored yet: the create itself is only in the unpublished store
			unpub = append(append([]world.Placed{}, pub...), unpub...)
			for k := range unpub {
				unpub[k].CRef = 0
			}
			pub = nil
		}
		proc := processor.New("verif", world.SliceStore(pub), env.pc, processor.WithUnpublishedOperationStore(world.SliceStore(unpub)))
		dh := dochandler.New("did:sidetree", nil, env.pc, world.NoopWriter{}, proc, world.NoopMetrics{})
		did := "did:sidetree:" + d.Suffix
		var res *document.ResolutionResult
		var err error
		pan := guard(func() { res, err = dh.ResolveDocument(did) })
		desc := map[string]interface{}{"did": did, "events": labels(evs), "published": len(pub), "unpublished": len(unpub)}
		r.Count("handler_resolution", fmt.Sprintf("published=%v unpublished=%v err=%v", len(pub) > 0, len(unpub) > 0, err != nil))
		if pan != "" {
			r.Direct = append(r.Direct, out.Direct{Oracle: "resolution_never_panics", What: pan, Case: desc})
			continue
		}
		if err != nil || res == nil {
			continue
		}
		raw, _ := json.Marshal(res.DocumentMetadata)
		var md struct {
			CanonicalID  string   `json:"canonicalId"`
			EquivalentID []string `json:"equivalentId"`
			Method       struct {
				Published bool `json:"published"`
			} `json:"method"`
		}
		_ = json.Unmarshal(raw, &md)
		desc["metadata"] = string(raw)
		wantPublished := len(pub) > 0
		switch {
		case md.Method.Published != wantPublished:
			r.Direct = append(r.Direct, out.Direct{Oracle: "published_iff_anchored", What: fmt.Sprintf("published=%v but %d anchored operations", md.Method.Published, len(pub)), Case: desc})
		case wantPublished && md.CanonicalID == "":
			r.Direct = append(r.Direct, out.Direct{Oracle: "published_has_canonical_id", What: "canonicalId missing for an anchored DID", Case: desc})
		case !wantPublished && md.CanonicalID != "":
			r.Direct = append(r.Direct, out.Direct{Oracle: "unpublished_has_no_canonical_id", What: md.CanonicalID, Case: desc})
		}
	}
	r.Extra["note"] = "implementation-only oracles; the transformer function itself is compared with the Coq model by gen_transformer"
	return r.Finish(200)
}
