package main

import (
	"bytes"
	"compress/gzip"
	"crypto/sha256"
	"encoding/json"
	"fmt"
	"github.com/trustbloc/sidetree-core-go/pkg/patch"
	"io"
	"math/rand"
	"reflect"
	"strings"

	"github.com/trustbloc/sidetree-core-go/pkg/api/operation"
	"github.com/trustbloc/sidetree-core-go/pkg/api/protocol"
	"github.com/trustbloc/sidetree-core-go/pkg/api/txn"
	"github.com/trustbloc/sidetree-core-go/pkg/compression"
	"github.com/trustbloc/sidetree-core-go/pkg/versions/1_0/operationparser"
	"github.com/trustbloc/sidetree-core-go/pkg/versions/1_0/txnprovider"

	"verif/harness/internal/emit"
	"verif/harness/internal/out"
	"verif/harness/internal/world"
)

func init() {
	commands["c13"] = runC13
	commands["c14"] = runC14
}

type expiryTV struct{}

func (expiryTV) Validate(from, _ int64) error {
	if from == world.ExpiryMarker {
		return operationparser.ErrOperationExpired
	}
	return nil
}

type batchEnv struct {
	p    protocol.Protocol
	cas  *world.MapCAS
	ver  *world.Version
	ids  *world.IDs
	dids []*world.ClientDID
	rng  *rand.Rand
	kp   *world.KeyPool
}

func newBatchEnv(seed int64, nDID int, maxOps uint) *batchEnv {
	rng := rand.New(rand.NewSource(seed))
	p := world.DefaultProtocol()
	p.MultihashAlgorithms = []uint{world.SHA256}
	p.MaxOperationCount = maxOps
	p.Patches = []string{"replace", "add-public-keys", "remove-public-keys", "add-services", "remove-services", "ietf-json-patch"}
	cas := world.NewMapCAS()
	ver := world.NewVersion("1.0", p, world.VersionOpts{CAS: cas, ParserOpts: []operationparser.Option{operationparser.WithAnchorTimeValidator(expiryTV{})}})
	kp := world.NewKeyPool(15)
	e := &batchEnv{p: p, cas: cas, ver: ver, ids: world.NewIDs(), rng: rng, kp: kp}
	for i := 0; i < nDID; i++ {
		e.dids = append(e.dids, world.NewClientDID(kp, i, rng, world.Origins[i%len(world.Origins)]))
	}
	return e
}

// randomOp picks a client-built operation; the same DID may appear several times in a batch.
func (e *batchEnv) randomOp(onlyType operation.Type) world.ClientOp {
	d := e.dids[e.rng.Intn(len(e.dids))]
	k := e.rng.Intn(10)
	if onlyType != "" {
		switch onlyType {
		case operation.TypeUpdate:
			k = 3
		case operation.TypeDeactivate:
			k = 9
		}
	}
	switch {
	case k < 3:
		return d.Create
	case k < 6:
		return d.Update(e.rng.Intn(3), false)
	case k == 6:
		return d.Update(e.rng.Intn(3), true)
	case k < 9:
		return d.Recover(e.rng.Intn(3), world.Origins[e.rng.Intn(len(world.Origins))])
	}
	return d.Deactivate()
}

func queued(ops []world.ClientOp) []*operation.QueuedOperation {
	var q []*operation.QueuedOperation
	for i, o := range ops {
		q = append(q, &operation.QueuedOperation{Type: o.Type, OperationRequest: o.Request, UniqueSuffix: o.Suffix, Namespace: "did:sidetree",
			AnchorOrigin: o.Origin, Properties: []operation.Property{{Key: "verif-id", Value: int64(i + 1)}}})
	}
	return q
}

func jsonEqual(a, b []byte) bool {
	var x, y interface{}
	if json.Unmarshal(a, &x) != nil || json.Unmarshal(b, &y) != nil {
		return false
	}
	return reflect.DeepEqual(x, y)
}

func tyRank(t operation.Type) int {
	switch t {
	case operation.TypeCreate:
		return 0
	case operation.TypeRecover:
		return 1
	case operation.TypeUpdate:
		return 2
	}
	return 3
}

// qbopGallina renders a client op as the model's queued-operation record.
func (e *batchEnv) qbopGallina(i int, o world.ClientOp) string {
	var req map[string]interface{}
	_ = json.Unmarshal(o.Request, &req)
	str := func(k string) string { s, _ := req[k].(string); return s }
	var delta, sdata int64
	if d, ok := req["delta"]; ok && d != nil {
		delta = e.ids.OfJSON(d)
	}
	if d, ok := req["suffixData"]; ok && d != nil {
		sdata = e.ids.OfJSON(d)
	}
	origin := int64(0)
	if o.Type == operation.TypeCreate || o.Type == operation.TypeRecover {
		origin = e.ids.OfJSON(o.Origin)
	}
	ty := map[operation.Type]string{operation.TypeCreate: "Create", operation.TypeUpdate: "Update", operation.TypeRecover: "Recover", operation.TypeDeactivate: "Deactivate"}[o.Type]
	return emit.App("Build_qbop", emit.Z(int64(i+1)), ty, emit.Z(e.ids.Of(o.Suffix)), emit.Z(int64(len(o.Suffix))),
		emit.Z(e.ids.Of(str("revealValue"))), emit.Z(int64(len(str("revealValue")))), emit.Z(e.ids.Of(str("signedData"))),
		emit.Z(delta), emit.Z(sdata), emit.Z(origin), emit.Bool(o.Expired))
}

func (e *batchEnv) genBatch(shape int) []world.ClientOp {
	var ops []world.ClientOp
	n := 1 + e.rng.Intn(9)
	switch shape % 8 {
	case 0:
		n = 1
	case 1: // deactivate only
		for i := 0; i < n; i++ {
			ops = append(ops, e.randomOp(operation.TypeDeactivate))
		}
		return ops
	case 2: // update only
		for i := 0; i < n; i++ {
			ops = append(ops, e.randomOp(operation.TypeUpdate))
		}
		return ops
	case 3:
		n = int(e.p.MaxOperationCount)
	}
	for i := 0; i < n; i++ {
		ops = append(ops, e.randomOp(""))
	}
	return ops
}

func runC13(c *ctx) error {
	r := out.New(c.out)
	g := r.Group("cases_C13", []string{"Resolve.Op", "Batch.Files", "Batch.Handler", "Corr.Batch"}, "bcase", "b_mismatches")
	e := newBatchEnv(c.seed, 6, 12)
	n := 500
	if c.tier == "thorough" {
		n = 15000
	}
	for i := 0; i < n; i++ {
		ops := e.genBatch(i)
		desc := map[string]interface{}{}
		var labels []string
		for _, o := range ops {
			labels = append(labels, fmt.Sprintf("did%d:%s%s", o.DID, o.Label, map[bool]string{true: "(expired)", false: ""}[o.Expired]))
		}
		desc["batch"] = labels
		q := queued(ops)
		info, err := e.ver.Handler.PrepareTxnFiles(q)
		if err != nil {
			r.Direct = append(r.Direct, out.Direct{Oracle: "prepare_succeeds_on_valid_batch", What: err.Error(), Case: desc})
			continue
		}
		desc["anchor_string"] = info.AnchorString
		rb, rerr := e.ver.Provider.GetTxnOperations(&txn.SidetreeTxn{AnchorString: info.AnchorString, Namespace: "did:sidetree"})
		// --- expected read-back, independent of the model ---
		var expected []world.ClientOp
		seen := map[string]bool{}
		nExpired, nAdditional := 0, 0
		for _, o := range ops {
			switch {
			case o.Expired:
				nExpired++
			case seen[o.Suffix]:
				nAdditional++
			default:
				seen[o.Suffix] = true
				expected = append(expected, o)
			}
		}
		var ordered []world.ClientOp
		for rank := 0; rank < 4; rank++ {
			for _, o := range expected {
				if tyRank(o.Type) == rank {
					ordered = append(ordered, o)
				}
			}
		}
		r.Count("batch_size", fmt.Sprint(len(ops)))
		r.Count("included", fmt.Sprint(len(expected)))
		r.Count("deferred", fmt.Sprint(nAdditional))
		r.Count("expired", fmt.Sprint(nExpired))
		for _, o := range ops {
			r.Count("types", string(o.Type))
		}
		fail := func(oracle, what string) {
			r.Direct = append(r.Direct, out.Direct{Oracle: oracle, What: what, Case: desc})
		}
		if len(expected) == 0 {
			// every queued operation has expired: either nothing is anchored (no anchor string, no files), or what is
			// anchored reads back as zero operations - never an anchor string that the library itself cannot read
			r.Count("special", "all-expired-batch")
			if info.AnchorString != "" && (rerr != nil || len(rb) != 0) {
				fail("all_expired_batch_anchors_nothing_unreadable", fmt.Sprintf("anchor string %q: read back %d operations, err=%v", info.AnchorString, len(rb), rerr))
			}
		} else if rerr != nil {
			fail("read_back_succeeds", rerr.Error())
		} else {
			if len(rb) != len(ordered) {
				fail("one_operation_per_suffix_read_back", fmt.Sprintf("read back %d, expected %d", len(rb), len(ordered)))
			} else {
				for k := range rb {
					x, y := rb[k], ordered[k]
					if x.Type != y.Type || x.UniqueSuffix != y.Suffix {
						fail("read_back_order_and_identity", fmt.Sprintf("position %d: got %s %s, want %s %s", k, x.Type, x.UniqueSuffix, y.Type, y.Suffix))
						break
					}
					if !jsonEqual(x.OperationRequest, y.Request) {
						fail("request_json_equal", fmt.Sprintf("position %d: %s vs %s", k, x.OperationRequest, y.Request))
						break
					}
					if y.Type == operation.TypeCreate || y.Type == operation.TypeRecover {
						a, _ := json.Marshal(x.AnchorOrigin)
						b, _ := json.Marshal(y.Origin)
						if !jsonEqual(a, b) {
							fail("anchor_origin_preserved", fmt.Sprintf("position %d: %s vs %s", k, a, b))
							break
						}
					}
				}
			}
			var cnt int
			fmt.Sscanf(info.AnchorString, "%d.", &cnt)
			if cnt != len(rb) {
				fail("anchor_count_equals_read_back", fmt.Sprintf("anchor count %d, read back %d", cnt, len(rb)))
			}
		}
		if len(info.OperationReferences)+len(info.AdditionalOperations)+len(info.ExpiredOperations) != len(ops) ||
			len(info.AdditionalOperations) != nAdditional || len(info.ExpiredOperations) != nExpired {
			fail("accounting", fmt.Sprintf("refs %d additional %d expired %d of %d", len(info.OperationReferences), len(info.AdditionalOperations), len(info.ExpiredOperations), len(ops)))
		}
		// --- model case ---
		var qs []string
		for k, o := range ops {
			qs = append(qs, e.qbopGallina(k, o))
		}
		idsOf := func(l []*operation.QueuedOperation) []int64 {
			var v []int64
			for _, x := range l {
				v = append(v, opID(x))
			}
			return v
		}
		rbG := "None"
		if rerr == nil {
			rbG = "(Some " + world.ReadBack(e.ids, rb) + ")"
		}
		var cnt int64
		fmt.Sscanf(info.AnchorString, "%d.", &cnt)
		uriLen := int64(len(info.AnchorString) - strings.Index(info.AnchorString, ".") - 1)
		r.Add(g, emit.App("Build_bcase", world.Limits(e.p), emit.Z(uriLen), emit.List(qs), rbG, zl(idsOf(info.AdditionalOperations)), zl(idsOf(info.ExpiredOperations)), emit.Z(cnt)),
			desc, strings.Join(labels, ","), len(ops) > 1)
	}
	c13Large(r)
	return r.Finish(100)
}

// c13Large: what the small batches above cannot show - operation counts with many digits in the anchor string and batch
// files beyond a megabyte (both well inside what a deployment configures).  Oracles on the implementation only.
func c13Large(r *out.Run) {
	// (a) the count in an anchor string is a positive decimal number of any length
	for _, n := range []int{1, 9, 10, 99, 100, 9999, 10000, 65536, 1000000, 123456789} {
		ad, err := txnprovider.ParseAnchorData(fmt.Sprintf("%d.QmCoreIndexFileURI", n))
		r.Count("anchor_count_digits", fmt.Sprint(len(fmt.Sprint(n))))
		if err != nil || ad.NumberOfOperations != n || ad.CoreIndexFileURI != "QmCoreIndexFileURI" {
			r.Direct = append(r.Direct, out.Direct{Oracle: "anchor_string_count_reads_back", What: fmt.Sprintf("count %d: %+v, err %v", n, ad, err),
				Case: map[string]interface{}{"anchor_string": fmt.Sprintf("%d.QmCoreIndexFileURI", n)}})
		}
		if s := (&txnprovider.AnchorData{NumberOfOperations: n, CoreIndexFileURI: "u"}).GetAnchorString(); s != fmt.Sprintf("%d.u", n) {
			r.Direct = append(r.Direct, out.Direct{Oracle: "anchor_string_count_reads_back", What: "GetAnchorString wrote " + s, Case: map[string]interface{}{"count": n}})
		}
	}
	// (b) a batch whose chunk file is larger than a megabyte: eight creates with deltas of about 150 KB
	p := world.DefaultProtocol()
	p.MultihashAlgorithms = []uint{world.SHA256}
	p.MaxDeltaSize, p.MaxOperationSize = 400000, 500000
	p.MaxChunkFileSize, p.MaxCoreIndexFileSize, p.MaxProvisionalIndexFileSize, p.MaxProofFileSize = 20000000, 1000000, 1000000, 1000000
	p.MaxMemoryDecompressionFactor = 50
	p.Patches = []string{"replace", "add-public-keys", "remove-public-keys", "add-services", "remove-services", "ietf-json-patch"}
	cas := world.NewMapCAS()
	ver := world.NewVersion("large", p, world.VersionOpts{CAS: cas})
	kp := world.NewKeyPool(18)
	var q []*operation.QueuedOperation
	var reqs [][]byte
	for i := 0; i < 8; i++ {
		blob := strings.Repeat(fmt.Sprintf("%04d-incompressible-%d-", i, i*7919), 150000/24)
		// vary the content so that gzip cannot fold the file to nothing
		var sb strings.Builder
		for k := 0; k < len(blob); k += 64 {
			sb.WriteString(fmt.Sprintf("%x", sha256.Sum256([]byte(fmt.Sprint(i, k)))))
		}
		jp, err := patch.NewJSONPatch(`[{"op":"add","path":"/blob","value":"` + sb.String() + `"}]`)
		world.Must(err)
		op := world.Build(world.Spec{Type: operation.TypeCreate, NextUpd: kp.Keys[2*i].Commitment(world.SHA256), NextRec: kp.Keys[2*i+1].Commitment(world.SHA256),
			DeltaID: int64(i + 1), Patches: []patch.Patch{jp}, PatchOK: true, DValid: true, Origin: world.OriginValue(1), OriginID: 1})
		reqs = append(reqs, op.Request)
		q = append(q, &operation.QueuedOperation{Type: operation.TypeCreate, OperationRequest: op.Request, UniqueSuffix: op.UniqueSuffix, Namespace: "did:sidetree"})
	}
	desc := map[string]interface{}{"batch": "8 creates with deltas of about 150 KB each"}
	info, err := ver.Handler.PrepareTxnFiles(q)
	if err != nil {
		r.Direct = append(r.Direct, out.Direct{Oracle: "prepare_succeeds_on_valid_batch", What: "large batch: " + err.Error(), Case: desc})
		return
	}
	rb, rerr := ver.Provider.GetTxnOperations(&txn.SidetreeTxn{AnchorString: info.AnchorString, Namespace: "did:sidetree"})
	r.Count("large_batch", fmt.Sprintf("read_back_ok=%v", rerr == nil))
	if rerr != nil || len(rb) != len(q) {
		r.Direct = append(r.Direct, out.Direct{Oracle: "read_back_succeeds", What: fmt.Sprintf("large batch: %d operations read back, err %v", len(rb), rerr), Case: desc})
		return
	}
	for i := range rb {
		if !jsonEqual(rb[i].OperationRequest, reqs[i]) {
			r.Direct = append(r.Direct, out.Direct{Oracle: "request_json_equal", What: fmt.Sprintf("large batch: operation %d differs after the round trip", i), Case: desc})
			break
		}
	}
	// (c) limits are inclusive on the reading side too: a node whose decompressed-size limit for the chunk file is
	// EXACTLY the size of this chunk file reads the batch back
	for _, a := range info.Artifacts {
		if a.Desc != "chunk file" {
			continue
		}
		raw, err := cas.Read(a.ID)
		if err != nil {
			break
		}
		zr, err := gzip.NewReader(bytes.NewReader(raw))
		if err != nil {
			break
		}
		content, _ := io.ReadAll(zr)
		pe := p
		pe.MaxMemoryDecompressionFactor = 1
		pe.MaxChunkFileSize = uint(len(content))
		verE := world.NewVersion("exact", pe, world.VersionOpts{CAS: cas})
		rbE, errE := verE.Provider.GetTxnOperations(&txn.SidetreeTxn{AnchorString: info.AnchorString, Namespace: "did:sidetree"})
		r.Count("chunk_file_exactly_at_the_decompressed_limit", fmt.Sprintf("read_back_ok=%v", errE == nil))
		if errE != nil || len(rbE) != len(q) {
			r.Direct = append(r.Direct, out.Direct{Oracle: "read_back_succeeds", What: fmt.Sprintf("chunk file of %d bytes under a decompressed-size limit of %d: %d operations, err %v", len(content), len(content), len(rbE), errE), Case: desc})
		}
	}
	// (d) a handler is used for one batch after another: a batch that failed because of a CAS error is prepared again
	// (it went back to the queue) and must come out as if the failure had not happened
	fc := &flakyCAS{inner: world.NewMapCAS()}
	verF := world.NewVersion("retry", p, world.VersionOpts{CAS: fc})
	small := q[:3]
	fc.failAt = 2
	if _, err := verF.Handler.PrepareTxnFiles(small); err == nil {
		r.Direct = append(r.Direct, out.Direct{Oracle: "cas_write_failure_fails_the_batch", What: "PrepareTxnFiles succeeded although a CAS write failed", Case: desc})
	}
	info2, err2 := verF.Handler.PrepareTxnFiles(small)
	r.Count("prepare_retried_after_cas_failure", fmt.Sprintf("ok=%v", err2 == nil))
	if err2 != nil || len(info2.OperationReferences) != len(small) || len(info2.AdditionalOperations) != 0 || len(info2.ExpiredOperations) != 0 {
		what := fmt.Sprint(err2)
		if err2 == nil {
			what = fmt.Sprintf("references %d, deferred %d, expired %d of %d", len(info2.OperationReferences), len(info2.AdditionalOperations), len(info2.ExpiredOperations), len(small))
		}
		r.Direct = append(r.Direct, out.Direct{Oracle: "retried_batch_is_prepared_like_a_first_attempt", What: what, Case: desc})
	} else if rb2, e := verF.Provider.GetTxnOperations(&txn.SidetreeTxn{AnchorString: info2.AnchorString, Namespace: "did:sidetree"}); e != nil || len(rb2) != len(small) {
		r.Direct = append(r.Direct, out.Direct{Oracle: "read_back_succeeds", What: fmt.Sprintf("retried batch: %d operations read back, err %v", len(rb2), e), Case: desc})
	}
}

// flakyCAS fails its failAt-th write (once).
type flakyCAS struct {
	inner  *world.MapCAS
	writes int
	failAt int
}

func (c *flakyCAS) Write(b []byte) (string, error) {
	c.writes++
	if c.writes == c.failAt {
		return "", fmt.Errorf("injected CAS write failure")
	}
	return c.inner.Write(b)
}
func (c *flakyCAS) Read(k string) ([]byte, error) { return c.inner.Read(k) }

// ---------------------------------------------------------------------------------------------
// C14: mutated file sets.

type fileSet struct {
	anchorCount string
	core        map[string]interface{}
	coreProof   map[string]interface{}
	provIndex   map[string]interface{}
	provProof   map[string]interface{}
	chunk       map[string]interface{}
	// transport-level mutations per file kind: "", "raw" (not compressed), "pad-raw", "pad-decomp", "flip", "fail", "longuri"
	transport map[string]string
	// the anchor string is the count alone: no delimiter, no core index URI
	countOnly bool
}

func gz(b []byte) []byte {
	var buf bytes.Buffer
	w := gzip.NewWriter(&buf)
	w.Write(b) //nolint:errcheck
	w.Close()
	return buf.Bytes()
}

func (e *batchEnv) loadJSON(uri string) map[string]interface{} {
	if uri == "" {
		return nil
	}
	b, err := e.cas.Read(uri)
	if err != nil {
		return nil
	}
	zr, err := gzip.NewReader(bytes.NewReader(b))
	if err != nil {
		return nil
	}
	var buf bytes.Buffer
	buf.ReadFrom(zr) //nolint:errcheck
	var m map[string]interface{}
	if json.Unmarshal(buf.Bytes(), &m) != nil {
		return nil
	}
	return m
}

// chunkURIOf follows core index -> provisional index -> first chunk entry of a stored batch.
func (e *batchEnv) chunkURIOf(anchor string) string {
	parts := strings.SplitN(anchor, ".", 2)
	if len(parts) != 2 {
		return ""
	}
	core := e.loadJSON(parts[1])
	if core == nil {
		return ""
	}
	pu, _ := core["provisionalIndexFileUri"].(string)
	pi := e.loadJSON(pu)
	if pi == nil {
		return ""
	}
	if ch, ok := pi["chunks"].([]interface{}); ok && len(ch) > 0 {
		if cm, ok := ch[0].(map[string]interface{}); ok {
			u, _ := cm["chunkFileUri"].(string)
			return u
		}
	}
	return ""
}

func (e *batchEnv) loadSet(anchor string) *fileSet {
	parts := strings.SplitN(anchor, ".", 2)
	fs := &fileSet{anchorCount: parts[0], transport: map[string]string{}}
	fs.core = e.loadJSON(parts[1])
	s := func(m map[string]interface{}, k string) string {
		if m == nil {
			return ""
		}
		v, _ := m[k].(string)
		return v
	}
	fs.coreProof = e.loadJSON(s(fs.core, "coreProofFileUri"))
	fs.provIndex = e.loadJSON(s(fs.core, "provisionalIndexFileUri"))
	fs.provProof = e.loadJSON(s(fs.provIndex, "provisionalProofFileUri"))
	if fs.provIndex != nil {
		if ch, ok := fs.provIndex["chunks"].([]interface{}); ok && len(ch) > 0 {
			if cm, ok := ch[0].(map[string]interface{}); ok {
				fs.chunk = e.loadJSON(s(cm, "chunkFileUri"))
			}
		}
	}
	return fs
}

func (e *batchEnv) storeFile(kind string, m map[string]interface{}, fs *fileSet, limit uint) string {
	b, _ := json.Marshal(m)
	mode := fs.transport[kind]
	var stored []byte
	switch mode {
	case "raw":
		stored = b
	case "pad-decomp": // small on the wire, larger than limit*factor after decompression
		pad := strings.Repeat(" ", int(limit*e.p.MaxMemoryDecompressionFactor)+10)
		stored = gz(append(b[:len(b)-1], []byte(pad+"}")...))
	case "pad-decomp-ok": // just within limit*factor
		room := int(limit*e.p.MaxMemoryDecompressionFactor) - len(b)
		if room < 0 {
			room = 0
		}
		stored = gz(append(b[:len(b)-1], []byte(strings.Repeat(" ", room)+"}")...))
	case "pad-raw": // larger than the limit on the wire (incompressible padding inside a JSON string member)
		noise := make([]byte, limit)
		for i := range noise {
			noise[i] = "abcdefghijklmnopqrstuvwxyzABCDEFGHIJKLMNOPQRSTUVWXYZ0123456789"[e.rng.Intn(62)]
		}
		mm := map[string]interface{}{}
		for k, v := range m {
			mm[k] = v
		}
		mm["padding"] = string(noise)
		bb, _ := json.Marshal(mm)
		stored = gz(bb)
	case "flip":
		stored = gz(b)
		stored[len(stored)/2] ^= 0x55
	case "flip-json":
		bb := append([]byte{}, b...)
		bb[e.rng.Intn(len(bb))] ^= byte(1 << uint(e.rng.Intn(7)))
		stored = gz(bb)
	default:
		stored = gz(b)
	}
	uri, _ := e.cas.Write(stored)
	if mode == "fail" {
		e.cas.FailKey[uri] = true
	}
	if mode == "longuri" {
		long := uri + strings.Repeat("x", int(e.p.MaxCasURILength))
		e.cas.Put(long, stored)
		return long
	}
	if mode == "longuri-multibyte" {
		// as many CHARACTERS as the limit allows, more BYTES than it allows: the limit is on the length of the string
		long := uri + strings.Repeat("é", int(e.p.MaxCasURILength)-len(uri))
		e.cas.Put(long, stored)
		return long
	}
	if mode == "maxuri" {
		long := uri + strings.Repeat("x", int(e.p.MaxCasURILength)-len(uri))
		e.cas.Put(long, stored)
		return long
	}
	return uri
}

// store writes the (mutated) file set bottom-up and returns the anchor string.
func (e *batchEnv) store(fs *fileSet) string {
	if fs.chunk != nil && fs.provIndex != nil {
		uri := e.storeFile("chunk", fs.chunk, fs, e.p.MaxChunkFileSize)
		if _, keep := fs.provIndex["_keepchunks"]; !keep {
			fs.provIndex["chunks"] = []interface{}{map[string]interface{}{"chunkFileUri": uri}}
		}
		if _, two := fs.provIndex["_twochunks"]; two {
			// two chunk entries, the first (the one that is read) under a URI longer than the limit
			if stored, err := e.cas.Read(uri); err == nil {
				long := uri + strings.Repeat("y", int(e.p.MaxCasURILength))
				e.cas.Put(long, stored)
				fs.provIndex["chunks"] = []interface{}{map[string]interface{}{"chunkFileUri": long}, map[string]interface{}{"chunkFileUri": uri}}
			}
			delete(fs.provIndex, "_twochunks")
		}
	}
	if fs.provIndex != nil {
		delete(fs.provIndex, "_keepchunks")
		if fs.provProof != nil {
			if _, keep := fs.provIndex["_keepproof"]; !keep {
				fs.provIndex["provisionalProofFileUri"] = e.storeFile("provProof", fs.provProof, fs, e.p.MaxProofFileSize)
			}
		}
		delete(fs.provIndex, "_keepproof")
	}
	if fs.countOnly {
		return fs.anchorCount
	}
	if fs.core == nil {
		return fs.anchorCount + ".missing"
	}
	if fs.provIndex != nil {
		if _, keep := fs.core["_keepprov"]; !keep {
			fs.core["provisionalIndexFileUri"] = e.storeFile("provIndex", fs.provIndex, fs, e.p.MaxProvisionalIndexFileSize)
		}
	}
	delete(fs.core, "_keepprov")
	if fs.coreProof != nil {
		if _, keep := fs.core["_keepcproof"]; !keep {
			fs.core["coreProofFileUri"] = e.storeFile("coreProof", fs.coreProof, fs, e.p.MaxProofFileSize)
		}
	}
	delete(fs.core, "_keepcproof")
	return fs.anchorCount + "." + e.storeFile("core", fs.core, fs, e.p.MaxCoreIndexFileSize)
}

func listAt(m map[string]interface{}, path ...string) ([]interface{}, func([]interface{})) {
	cur := m
	for i, k := range path {
		if cur == nil {
			return nil, nil
		}
		if i == len(path)-1 {
			l, _ := cur[k].([]interface{})
			parent := cur
			return l, func(n []interface{}) { parent[k] = n }
		}
		next, _ := cur[k].(map[string]interface{})
		cur = next
	}
	return nil, nil
}

type mutation struct {
	name string
	f    func(e *batchEnv, fs *fileSet) bool
}

func listMut(name, file string, path ...string) []mutation {
	get := func(fs *fileSet) map[string]interface{} {
		switch file {
		case "core":
			return fs.core
		case "coreProof":
			return fs.coreProof
		case "provIndex":
			return fs.provIndex
		case "provProof":
			return fs.provProof
		}
		return fs.chunk
	}
	mk := func(kind string, g func(e *batchEnv, l []interface{}) []interface{}) mutation {
		return mutation{name: name + ":" + kind, f: func(e *batchEnv, fs *fileSet) bool {
			l, set := listAt(get(fs), path...)
			if set == nil || len(l) == 0 {
				return false
			}
			set(g(e, l))
			return true
		}}
	}
	return []mutation{
		mk("drop", func(e *batchEnv, l []interface{}) []interface{} {
			i := e.rng.Intn(len(l))
			return append(append([]interface{}{}, l[:i]...), l[i+1:]...)
		}),
		mk("dup", func(e *batchEnv, l []interface{}) []interface{} {
			i := e.rng.Intn(len(l))
			return append(append([]interface{}{}, l...), l[i])
		}),
		mk("null", func(e *batchEnv, l []interface{}) []interface{} {
			n := append([]interface{}{}, l...)
			n[e.rng.Intn(len(n))] = nil
			return n
		}),
		mk("swap", func(e *batchEnv, l []interface{}) []interface{} {
			n := append([]interface{}{}, l...)
			if len(n) > 1 {
				n[0], n[len(n)-1] = n[len(n)-1], n[0]
			}
			return n
		}),
		mk("empty", func(e *batchEnv, l []interface{}) []interface{} { return []interface{}{} }),
	}
}

func allMutations() []mutation {
	var ms []mutation
	ms = append(ms, listMut("core.create", "core", "operations", "create")...)
	ms = append(ms, listMut("core.recover", "core", "operations", "recover")...)
	ms = append(ms, listMut("core.deactivate", "core", "operations", "deactivate")...)
	ms = append(ms, listMut("coreProof.recover", "coreProof", "operations", "recover")...)
	ms = append(ms, listMut("coreProof.deactivate", "coreProof", "operations", "deactivate")...)
	ms = append(ms, listMut("provIndex.update", "provIndex", "operations", "update")...)
	ms = append(ms, listMut("provProof.update", "provProof", "operations", "update")...)
	ms = append(ms, listMut("chunk.deltas", "chunk", "deltas")...)
	ms = append(ms, listMut("provIndex.chunks", "provIndex", "chunks")...)
	// a delta that is well-formed but uses a patch action the protocol does not enable / an unknown action
	for _, pj := range []string{`{"action":"add-also-known-as","uris":["https://alias.example"]}`, `{"action":"frobnicate","x":1}`} {
		pj := pj
		ms = append(ms, mutation{name: "chunk.deltas:disabled-action", f: func(e *batchEnv, fs *fileSet) bool {
			l, set := listAt(fs.chunk, "deltas")
			if set == nil || len(l) == 0 {
				return false
			}
			n := append([]interface{}{}, l...)
			i := e.rng.Intn(len(n))
			d, ok := n[i].(map[string]interface{})
			if !ok {
				return false
			}
			var pv interface{}
			world.Must(json.Unmarshal([]byte(pj), &pv))
			nd := map[string]interface{}{}
			for k, v := range d {
				nd[k] = v
			}
			nd["patches"] = []interface{}{pv}
			n[i] = nd
			set(n)
			return true
		}})
	}
	setField := func(name, file, field string, val interface{}, keep string) mutation {
		return mutation{name: name, f: func(e *batchEnv, fs *fileSet) bool {
			m := map[string]map[string]interface{}{"core": fs.core, "provIndex": fs.provIndex}[file]
			if m == nil {
				return false
			}
			if val == nil {
				delete(m, field)
			} else {
				m[field] = val
			}
			m[keep] = true
			return true
		}}
	}
	ms = append(ms,
		setField("core.noProofRef", "core", "coreProofFileUri", nil, "_keepcproof"),
		setField("core.noProvRef", "core", "provisionalIndexFileUri", nil, "_keepprov"),
		setField("core.danglingProofRef", "core", "coreProofFileUri", "nowhere", "_keepcproof"),
		setField("core.danglingProvRef", "core", "provisionalIndexFileUri", "nowhere", "_keepprov"),
		setField("core.superfluousProofRef", "core", "coreProofFileUri", "cas0001", "_keepcproof"),
		setField("core.proofRefWrongType", "core", "coreProofFileUri", float64(7), "_keepcproof"),
		setField("provIndex.noProofRef", "provIndex", "provisionalProofFileUri", nil, "_keepproof"),
		setField("provIndex.danglingProofRef", "provIndex", "provisionalProofFileUri", "nowhere", "_keepproof"),
		setField("provIndex.superfluousProofRef", "provIndex", "provisionalProofFileUri", "cas0001", "_keepproof"),
		setField("provIndex.noChunks", "provIndex", "chunks", []interface{}{}, "_keepchunks"),
		setField("provIndex.chunksNull", "provIndex", "chunks", nil, "_keepchunks"),
		setField("core.operationsNull", "core", "operations", nil, "_x"),
		setField("core.operationsString", "core", "operations", "oops", "_x"),
		setField("provIndex.operationsList", "provIndex", "operations", []interface{}{"x"}, "_x"),
	)
	for _, kind := range []string{"core", "coreProof", "provIndex", "provProof", "chunk"} {
		for _, mode := range []string{"raw", "pad-decomp", "pad-decomp-ok", "pad-raw", "flip", "flip-json", "fail", "longuri", "longuri-multibyte", "maxuri"} {
			kind, mode := kind, mode
			ms = append(ms, mutation{name: "transport:" + kind + ":" + mode, f: func(e *batchEnv, fs *fileSet) bool {
				present := map[string]bool{"core": fs.core != nil, "coreProof": fs.coreProof != nil, "provIndex": fs.provIndex != nil, "provProof": fs.provProof != nil, "chunk": fs.chunk != nil}[kind]
				if !present {
					return false
				}
				fs.transport[kind] = mode
				return true
			}})
		}
	}
	// retarget / tamper entries
	tamperRef := func(name, file string, field string, val func(e *batchEnv) interface{}, path ...string) mutation {
		return mutation{name: name, f: func(e *batchEnv, fs *fileSet) bool {
			m := map[string]map[string]interface{}{"core": fs.core, "provIndex": fs.provIndex}[file]
			l, _ := listAt(m, path...)
			if len(l) == 0 {
				return false
			}
			em, ok := l[e.rng.Intn(len(l))].(map[string]interface{})
			if !ok {
				return false
			}
			em[field] = val(e)
			return true
		}}
	}
	otherSuffix := func(e *batchEnv) interface{} { return e.dids[e.rng.Intn(len(e.dids))].Suffix }
	ms = append(ms,
		tamperRef("core.recover.retarget", "core", "didSuffix", otherSuffix, "operations", "recover"),
		tamperRef("core.deactivate.retarget", "core", "didSuffix", otherSuffix, "operations", "deactivate"),
		tamperRef("provIndex.update.retarget", "provIndex", "didSuffix", otherSuffix, "operations", "update"),
		tamperRef("core.recover.emptySuffix", "core", "didSuffix", func(*batchEnv) interface{} { return "" }, "operations", "recover"),
		tamperRef("provIndex.update.longReveal", "provIndex", "revealValue", func(e *batchEnv) interface{} { return strings.Repeat("A", int(e.p.MaxOperationHashLength)+1) }, "operations", "update"),
		tamperRef("provIndex.update.maxReveal", "provIndex", "revealValue", func(e *batchEnv) interface{} { return strings.Repeat("A", int(e.p.MaxOperationHashLength)) }, "operations", "update"),
		tamperRef("core.deactivate.numberSuffix", "core", "didSuffix", func(*batchEnv) interface{} { return float64(5) }, "operations", "deactivate"),
		tamperRef("core.create.badSuffixData", "core", "suffixData", func(*batchEnv) interface{} {
			return map[string]interface{}{"deltaHash": "x", "recoveryCommitment": "y"}
		}, "operations", "create"),
	)
	// anchor string
	for _, a := range []string{"0", "-1", "01", "+1", "1e1", "", "99999999999999999999999", "x"} {
		a := a
		ms = append(ms, mutation{name: "anchor:count=" + a, f: func(e *batchEnv, fs *fileSet) bool { fs.anchorCount = a; return true }})
	}
	ms = append(ms,
		mutation{name: "anchor:count+1", f: func(e *batchEnv, fs *fileSet) bool {
			var n int
			fmt.Sscanf(fs.anchorCount, "%d", &n)
			fs.anchorCount = fmt.Sprint(n + 1)
			return true
		}},
		mutation{name: "anchor:count-1", f: func(e *batchEnv, fs *fileSet) bool {
			var n int
			fmt.Sscanf(fs.anchorCount, "%d", &n)
			fs.anchorCount = fmt.Sprint(n - 1)
			return true
		}},
		mutation{name: "anchor:extra-part", f: func(e *batchEnv, fs *fileSet) bool { fs.anchorCount += ".1"; return true }},
		mutation{name: "provIndex.chunks:two-entries-first-uri-too-long", f: func(e *batchEnv, fs *fileSet) bool {
			if fs.provIndex == nil || fs.chunk == nil {
				return false
			}
			fs.provIndex["_twochunks"] = true
			return true
		}},
		mutation{name: "coreProof.deactivate:superfluous-proof-without-deactivate", f: func(e *batchEnv, fs *fileSet) bool {
			if fs.coreProof == nil || fs.core == nil {
				return false
			}
			if l, _ := listAt(fs.core, "operations", "deactivate"); len(l) > 0 {
				return false
			}
			rec, _ := listAt(fs.coreProof, "operations", "recover")
			if len(rec) == 0 {
				return false
			}
			ops, _ := fs.coreProof["operations"].(map[string]interface{})
			if ops == nil {
				return false
			}
			ops["deactivate"] = []interface{}{rec[0]}
			return true
		}},
		mutation{name: "anchor:count-only", f: func(e *batchEnv, fs *fileSet) bool { fs.countOnly = true; return true }},
		mutation{name: "anchor:count-only-large", f: func(e *batchEnv, fs *fileSet) bool { fs.countOnly, fs.anchorCount = true, "12345"; return true }},
	)
	return ms
}

func runC14(c *ctx) error {
	r := out.New(c.out)
	g := r.Group("cases_C14", []string{"Resolve.Op", "Batch.Files", "Corr.Batch"}, "pcase", "p_mismatches")
	e := newBatchEnv(c.seed, 6, 12)
	muts := allMutations()
	n := 1500
	if c.tier == "thorough" {
		n = 40000
	}
	vb := world.NewViewBuilder(e.cas, e.p, e.ver.Parser, e.ids)
	altProv := txnprovider.NewOperationProvider(e.p, e.ver.Parser, mirrorCAS{e.cas}, compression.New(compression.WithDefaultAlgorithms()),
		txnprovider.WithSourceCASURIFormatter(func(uri, source string) (string, error) { return source + "/" + uri, nil }))
	for i := 0; i < n; i++ {
		// a fresh valid file set
		var ops []world.ClientOp
		for len(ops) == 0 {
			for _, o := range e.genBatch(4 + i) {
				if !o.Expired {
					ops = append(ops, o)
				}
			}
		}
		info, err := e.ver.Handler.PrepareTxnFiles(queued(ops))
		if err != nil {
			return fmt.Errorf("prepare: %w", err)
		}
		fs := e.loadSet(info.AnchorString)
		var applied []string
		k := 0
		if i%10 != 0 {
			k = 1 + e.rng.Intn(3)
		}
		// count-consistent pairs are frequent: apply the same kind of list mutation to related lists
		for tries := 0; len(applied) < k && tries < 40; tries++ {
			m := muts[e.rng.Intn(len(muts))]
			if m.f(e, fs) {
				applied = append(applied, m.name)
			}
		}
		anchor := e.store(fs)
		// every third case: the local CAS read fails and the content comes from an alternate source
		var alt []string
		prov := e.ver.Provider
		if i%3 == 1 {
			alt = []string{"dead", "mirror"}
			prov = altProv
		}
		view := vb.Anchor(anchor)
		desc := map[string]interface{}{"mutations": applied, "anchor_string": anchor}
		// run the provider, crash isolated by recover
		var rb []*operation.AnchoredOperation
		var rerr error
		pan := ""
		func() {
			defer func() {
				if x := recover(); x != nil {
					pan = fmt.Sprint(x)
				}
			}()
			rb, rerr = prov.GetTxnOperations(&txn.SidetreeTxn{AnchorString: anchor, Namespace: "did:sidetree", AlternateSources: alt})
		}()
		desc["alternate_sources"] = alt
		r.Count("cas_source", map[bool]string{true: "alternate", false: "local"}[alt != nil])
		outcome := "ok"
		rbG := "None"
		switch {
		case pan != "":
			outcome = "panic"
			r.Direct = append(r.Direct, out.Direct{Oracle: "no_panic", What: pan, Case: desc})
		case rerr != nil:
			outcome = "error:" + errClass(rerr.Error())
		default:
			rbG = "(Some " + world.ReadBack(e.ids, rb) + ")"
			// well-formedness oracle on the implementation's own answer
			seen := map[string]bool{}
			for _, o := range rb {
				var rq struct {
					Delta *struct {
						Patches []map[string]interface{} `json:"patches"`
					} `json:"delta"`
				}
				if json.Unmarshal(o.OperationRequest, &rq) == nil && rq.Delta != nil {
					for _, pt := range rq.Delta.Patches {
						a, _ := pt["action"].(string)
						enabled := false
						for _, x := range e.p.Patches {
							if x == a {
								enabled = true
							}
						}
						if !enabled {
							r.Direct = append(r.Direct, out.Direct{Oracle: "returned_deltas_use_enabled_actions", What: "action " + a, Case: desc})
						}
					}
				}
				if seen[o.UniqueSuffix] {
					r.Direct = append(r.Direct, out.Direct{Oracle: "distinct_suffixes", What: o.UniqueSuffix, Case: desc})
				}
				seen[o.UniqueSuffix] = true
			}
			var cnt int
			fmt.Sscanf(anchor, "%d.", &cnt)
			if cnt != len(rb) {
				r.Direct = append(r.Direct, out.Direct{Oracle: "count_matches_anchor", What: fmt.Sprintf("%d vs %d", cnt, len(rb)), Case: desc})
			}
		}
		desc["impl"] = outcome
		r.Count("outcome", outcome)
		r.Count("mutations", fmt.Sprint(len(applied)))
		for _, a := range applied {
			r.Count("mutation_kind", strings.SplitN(a, ":", 2)[0])
		}
		r.Add(g, emit.App("Build_pcase", world.Limits(e.p), view, rbG, emit.Bool(pan != "")), desc, strings.Join(applied, "+")+outcome, len(applied) > 0)
		// one object in two roles on one provider: the chunk file is first named as a core index file (whose limit it meets)
		// and then read as the chunk file of its own batch under a chunk-file limit one byte below its size. The limits are
		// per file type and hold on every read, whatever the provider has read before.
		if k == 0 && i%20 == 0 {
			if curi := e.chunkURIOf(anchor); curi != "" {
				comp, _ := e.cas.Read(curi)
				p2 := e.p
				p2.MaxChunkFileSize = uint(len(comp)) - 1
				if len(comp) > 1 && p2.MaxCoreIndexFileSize > p2.MaxChunkFileSize {
					prov2 := txnprovider.NewOperationProvider(p2, e.ver.Parser, e.cas, compression.New(compression.WithDefaultAlgorithms()))
					desc2 := map[string]interface{}{"mutations": []string{"two_roles:chunk_as_core_index_first"}, "anchor_string": anchor,
						"first_anchor_string": "1." + curi, "max_chunk_file_size": p2.MaxChunkFileSize}
					var rb2 []*operation.AnchoredOperation
					var err1, err2, err3 error
					pan2 := ""
					func() {
						defer func() {
							if x := recover(); x != nil {
								pan2 = fmt.Sprint(x)
							}
						}()
						_, err1 = prov2.GetTxnOperations(&txn.SidetreeTxn{AnchorString: "1." + curi, Namespace: "did:sidetree"})
						rb2, err2 = prov2.GetTxnOperations(&txn.SidetreeTxn{AnchorString: anchor, Namespace: "did:sidetree"})
						_, err3 = prov2.GetTxnOperations(&txn.SidetreeTxn{AnchorString: anchor, Namespace: "did:sidetree"})
					}()
					rb2G := "None"
					switch {
					case pan2 != "":
						r.Direct = append(r.Direct, out.Direct{Oracle: "no_panic", What: pan2, Case: desc2})
					case err1 == nil:
						r.Direct = append(r.Direct, out.Direct{Oracle: "chunk_file_is_no_core_index_file", What: "accepted", Case: desc2})
					case err2 == nil || err3 == nil:
						r.Direct = append(r.Direct, out.Direct{Oracle: "size_limit_holds_on_every_read",
							What: fmt.Sprintf("chunk file of %d bytes accepted under MaxChunkFileSize %d after the same provider had read it as a core index file", len(comp), p2.MaxChunkFileSize), Case: desc2})
						if err2 == nil {
							rb2G = "(Some " + world.ReadBack(e.ids, rb2) + ")"
						}
					}
					r.Count("two_roles", map[bool]string{true: "refused", false: "accepted"}[err2 != nil && err3 != nil])
					r.Add(g, emit.App("Build_pcase", world.Limits(p2), view, rb2G, emit.Bool(pan2 != "")), desc2, "two_roles", true)
				}
			}
		}
	}
	return r.Finish(100)
}

func errClass(s string) string {
	for _, k := range []string{"parse anchor data", "error reading core index", "error reading core proof", "error reading provisional index",
		"error reading provisional proof", "error reading chunk", "failed to parse content", "core index file[", "core proof file[",
		"provisional index file[", "provisional proof file[", "chunk file[", "number of", "duplicate", "missing chunk", "parse core index operations", "failed to validate signed data"} {
		if strings.Contains(s, k) {
			return k
		}
	}
	return "other"
}

// mirrorCAS fails every local read; the same content is reachable through the alternate source "mirror".
type mirrorCAS struct{ inner *world.MapCAS }

func (m mirrorCAS) Write(b []byte) (string, error) { return m.inner.Write(b) }
func (m mirrorCAS) Read(k string) ([]byte, error) {
	if !strings.HasPrefix(k, "mirror/") {
		return nil, fmt.Errorf("local CAS unavailable")
	}
	return m.inner.Read(strings.TrimPrefix(k, "mirror/"))
}
