package main

import (
	"encoding/json"
	"fmt"
	"github.com/trustbloc/sidetree-core-go/pkg/patch"
	"math/rand"
	"strings"

	"github.com/trustbloc/sidetree-core-go/pkg/api/operation"
	"github.com/trustbloc/sidetree-core-go/pkg/api/protocol"
	"github.com/trustbloc/sidetree-core-go/pkg/dochandler"
	"github.com/trustbloc/sidetree-core-go/pkg/processor"
	"github.com/trustbloc/sidetree-core-go/pkg/versions/1_0/operationparser"

	"verif/harness/internal/emit"
	"verif/harness/internal/out"
	"verif/harness/internal/world"
)

func init() { commands["c10"] = runC10 }

type okTV struct{ ok bool }

func (t okTV) Validate(_, _ int64) error {
	if t.ok {
		return nil
	}
	return operationparser.ErrOperationEarly
}

type reqMut struct {
	name string
	f    func(m map[string]interface{}, rng *rand.Rand) bool
}

func nested(m map[string]interface{}, k string) map[string]interface{} {
	x, _ := m[k].(map[string]interface{})
	return x
}

func reqMutations() []reqMut {
	set := func(name, field string, v interface{}) reqMut {
		return reqMut{name, func(m map[string]interface{}, _ *rand.Rand) bool {
			if _, ok := m[field]; !ok {
				return false
			}
			if v == "__delete__" {
				delete(m, field)
			} else {
				m[field] = v
			}
			return true
		}}
	}
	sub := func(name, parent, field string, v interface{}) reqMut {
		return reqMut{name, func(m map[string]interface{}, _ *rand.Rand) bool {
			pm := nested(m, parent)
			if pm == nil {
				return false
			}
			if v == "__delete__" {
				delete(pm, field)
			} else {
				pm[field] = v
			}
			return true
		}}
	}
	long := strings.Repeat("A", 200)
	return []reqMut{
		set("type:unknown", "type", "upsert"), set("type:number", "type", float64(1)), set("type:missing", "type", "__delete__"),
		set("didSuffix:empty", "didSuffix", ""), set("didSuffix:missing", "didSuffix", "__delete__"), set("didSuffix:number", "didSuffix", float64(3)),
		set("reveal:empty", "revealValue", ""), set("reveal:long", "revealValue", long), set("reveal:garbage", "revealValue", "!!!"),
		set("reveal:other-hash", "revealValue", "EiBvbm90LXRoZS1oYXNoLW9mLXRoZS1rZXktYXQtYWxsISEh"),
		set("reveal:unsupported-code", "revealValue", "ESBvbm90LXRoZS1oYXNoLW9mLXRoZS1rZXktYXQtYWxsISEh"),
		set("signedData:empty", "signedData", ""), set("signedData:missing", "signedData", "__delete__"), set("signedData:two-parts", "signedData", "e30.e30"),
		set("signedData:number", "signedData", float64(1)),
		set("delta:missing", "delta", "__delete__"), set("delta:null", "delta", nil), set("delta:string", "delta", "x"),
		sub("delta.patches:empty", "delta", "patches", []interface{}{}), sub("delta.patches:missing", "delta", "patches", "__delete__"),
		sub("delta.patches:no-action", "delta", "patches", []interface{}{map[string]interface{}{"publicKeys": []interface{}{}}}),
		sub("delta.patches:unknown-action", "delta", "patches", []interface{}{map[string]interface{}{"action": "frobnicate", "x": 1}}),
		sub("delta.patches:invalid-patch", "delta", "patches", []interface{}{map[string]interface{}{"action": "add-public-keys", "publicKeys": []interface{}{map[string]interface{}{"id": "bad id!"}}}}),
		sub("delta.updateCommitment:empty", "delta", "updateCommitment", ""), sub("delta.updateCommitment:long", "delta", "updateCommitment", long),
		sub("delta.updateCommitment:garbage", "delta", "updateCommitment", "%%%"),
		sub("suffixData.deltaHash:garbage", "suffixData", "deltaHash", "zz"), sub("suffixData.deltaHash:missing", "suffixData", "deltaHash", "__delete__"),
		sub("suffixData.recoveryCommitment:empty", "suffixData", "recoveryCommitment", ""),
		set("suffixData:missing", "suffixData", "__delete__"), set("suffixData:null", "suffixData", nil),
		set("extra-member", "extra", "ignored"),
	}
}

// signed-data level variants are built with the request builder
func signedVariants(d *world.DID, rng *rand.Rand) []*world.Op {
	var ops []*world.Op
	cur := d.CurUpd
	next := d.Keys[5]
	mk := func(label string, f func(s *world.Spec)) {
		s := d.ValidUpdate(next, label)
		f(&s)
		ops = append(ops, world.Build(s))
	}
	mk("update:valid", func(s *world.Spec) {})
	mk("update:nonce-ok", func(s *world.Spec) { s.Nonce = "AAECAwQFBgcICQoLDA0ODw" })
	mk("update:nonce-short", func(s *world.Spec) { s.Nonce = "AAECAwQFBgcICQoLDA0O" })
	mk("update:nonce-garbage", func(s *world.Spec) { s.Nonce = "***" })
	mk("update:alg-lowercase", func(s *world.Spec) { s.HeaderAlg = strings.ToLower(s.SignWith.Type.Alg()) })
	mk("update:alg-other-case", func(s *world.Spec) { a := s.SignWith.Type.Alg(); s.HeaderAlg = strings.ToLower(a[:1]) + a[1:] })
	mk("update:crv-lowercase", func(s *world.Spec) { s.CrvSpell = strings.ToLower(s.SignedKey.Type.Crv()) })
	mk("update:crv-uppercase", func(s *world.Spec) { s.CrvSpell = strings.ToUpper(s.SignedKey.Type.Crv()) })
	mk("update:reuse-key", func(s *world.Spec) { s.NextUpd = cur.Commitment(d.Code) })
	mk("update:reveal-other-key", func(s *world.Spec) { s.RevealKey = d.Stranger(0) })
	mk("update:window", func(s *world.Spec) { s.From, s.Until = 1000, 2000 })
	mk("update:disabled-action", func(s *world.Spec) { s.Patches, s.DValid, s.PatchOK = world.DisabledPatches(), false, true })
	// a delta whose canonical form has far more BYTES than characters: the size limit is in bytes
	mk("update:non-ascii-delta", func(s *world.Spec) {
		p, err := patch.NewJSONPatch(`[{"op":"add","path":"/note","value":"héllo wörld 日本語のテキスト 😀😀😀 ñandú"}]`)
		world.Must(err)
		s.Patches, s.DValid, s.PatchOK = []patch.Patch{p}, true, true
	})
	mk("update:hash-mismatch", func(s *world.Spec) { s.Tamper = world.TSwapDelta })
	mk("update:no-delta", func(s *world.Spec) { s.Tamper = world.TNoDelta })
	rec := func(label string, f func(s *world.Spec)) {
		s := d.ValidRecover(d.Keys[6], d.Keys[7], label)
		f(&s)
		ops = append(ops, world.Build(s))
	}
	rec("recover:valid", func(s *world.Spec) {})
	rec("recover:equal-commitments", func(s *world.Spec) { s.NextUpd = s.NextRec })
	rec("recover:reuse-key", func(s *world.Spec) { s.NextRec = d.CurRec.Commitment(d.Code) })
	rec("recover:no-delta", func(s *world.Spec) { s.Tamper = world.TNoDelta })
	rec("recover:reveal-other-key", func(s *world.Spec) { s.RevealKey = d.Stranger(1) })
	de := func(label string, f func(s *world.Spec)) {
		s := d.ValidDeactivate(label)
		f(&s)
		ops = append(ops, world.Build(s))
	}
	de("deactivate:valid", func(s *world.Spec) {})
	de("deactivate:other-suffix", func(s *world.Spec) { s.SignedSfx = "EiOtherSuffix" })
	de("deactivate:reveal-other-key", func(s *world.Spec) { s.RevealKey = d.Stranger(2) })
	// the request reveals another key; the reveal value INSIDE the signed data is the signing key's own
	de("deactivate:reveal-other-key-signed-reveal-own", func(s *world.Spec) { s.RevealKey, s.SignedReveal = d.Stranger(2), s.SignedKey })
	ops = append(ops, d.Create)
	cs := d.Create.Spec
	cs.Tamper = world.TSwapDelta
	cs.Label = "create:hash-mismatch"
	ops = append(ops, world.Build(cs))
	cs2 := d.Create.Spec
	cs2.NextUpd = cs2.NextRec
	cs2.Label = "create:equal-commitments"
	ops = append(ops, world.Build(cs2))
	return ops
}

type c10cfg struct {
	name string
	p    protocol.Protocol
}

func runC10(c *ctx) error {
	r := out.New(c.out)
	g := r.Group("cases_C10", []string{"Base.Bytes", "Resolve.Op", "Jws.Compact", "Parser.Accept", "Corr.Parser"}, "qcase", "q_mismatches")
	rng := rand.New(rand.NewSource(c.seed))
	kp := world.NewKeyPool(20)
	tb := world.NewTable()
	muts := reqMutations()
	base := world.DefaultProtocol()
	base.Patches = []string{"replace", "add-public-keys", "remove-public-keys", "add-services", "remove-services", "ietf-json-patch"}
	nDID := 2
	if c.tier == "thorough" {
		nDID = 6 // ~20,000 cases per DID in this tier (every mutation x every entry point, boundary configurations on a quarter of them)
	}
	originOK := func(interface{}) bool { return true }
	for di := 0; di < nDID; di++ {
		code := uint(world.SHA256)
		if di%3 == 2 {
			code = world.SHA512
		}
		d := world.NewDID(kp, tb, rng, code)
		d.Create.Spec.Label = "create:valid"
		for _, op := range signedVariants(d, rng) {
			var generic map[string]interface{}
			world.Must(json.Unmarshal(op.Request, &generic))
			variants := map[string][]byte{op.Spec.Label: op.Request}
			nm := 3
			if c.tier == "thorough" {
				nm = len(muts)
			}
			for k := 0; k < nm; k++ {
				m := muts[rng.Intn(len(muts))]
				if c.tier == "thorough" {
					m = muts[k]
				}
				var cp map[string]interface{}
				world.Must(json.Unmarshal(op.Request, &cp))
				if m.f(cp, rng) {
					b, _ := json.Marshal(cp)
					variants[op.Spec.Label+"+"+m.name] = b
				}
			}
			for label, req := range variants {
				// configurations: base, and each limit placed exactly at / just below the actual value
				var cfgs []c10cfg
				mkc := func(name string, f func(p *protocol.Protocol)) {
					p := base
					f(&p)
					cfgs = append(cfgs, c10cfg{name, p})
				}
				mkc("base", func(p *protocol.Protocol) {})
				if !strings.Contains(label, "+") || (c.tier == "thorough" && len(label)%4 == 0) {
					mkc("opsize=len", func(p *protocol.Protocol) { p.MaxOperationSize = uint(len(req)) })
					mkc("opsize=len-1", func(p *protocol.Protocol) { p.MaxOperationSize = uint(len(req) - 1) })
					dl := canonicalDeltaLen(req)
					if dl > 0 {
						mkc("deltasize=len", func(p *protocol.Protocol) { p.MaxDeltaSize = uint(dl) })
						mkc("deltasize=len-1", func(p *protocol.Protocol) { p.MaxDeltaSize = uint(dl - 1) })
					}
					hl := len(d.CurUpd.Commitment(code))
					mkc("hashlen=len", func(p *protocol.Protocol) { p.MaxOperationHashLength = uint(hl) })
					mkc("hashlen=len-1", func(p *protocol.Protocol) { p.MaxOperationHashLength = uint(hl - 1) })
					mkc("nonce=15", func(p *protocol.Protocol) { p.NonceSize = 15 })
					mkc("nonce=17", func(p *protocol.Protocol) { p.NonceSize = 17 })
					mkc("sha256-only", func(p *protocol.Protocol) { p.MultihashAlgorithms = []uint{world.SHA256} })
					mkc("sig-algs-ES256", func(p *protocol.Protocol) { p.SignatureAlgorithms = []string{"ES256"} })
					mkc("key-algs-P256", func(p *protocol.Protocol) { p.KeyAlgorithms = []string{"P-256"} })
					mkc("patches-minimal", func(p *protocol.Protocol) { p.Patches = []string{"replace"} })
					mkc("key-algs-none-matching", func(p *protocol.Protocol) { p.KeyAlgorithms = []string{"X-448"} })
					mkc("sig-algs-none-matching", func(p *protocol.Protocol) { p.SignatureAlgorithms = []string{"HS256"} })
					mkc("time-delta-1", func(p *protocol.Protocol) { p.MaxOperationTimeDelta = 1 })
				}
				for _, cfg := range cfgs {
					for _, mode := range []string{"intake", "intake-time-refused", "batch", "reveal", "commitment"} {
						if mode == "intake-time-refused" && cfg.name != "base" {
							continue
						}
						runParserCase(r, g, cfg, mode, label, req, originOK)
					}
				}
			}
		}
	}
	// the document handler validates under the protocol version the caller names (ProcessOperation's second
	// argument), not under whatever is current: two versions that differ in one limit, both directions
	for di := 0; di < 4; di++ {
		d := world.NewDID(kp, tb, rng, world.SHA256)
		req := d.Create.Request
		for _, dir := range []string{"old-strict", "new-strict"} {
			strict, lax := base, base
			strict.MaxOperationSize = uint(len(req) - 1)
			lax.MaxOperationSize = uint(len(req) + 100)
			pOld, pNew := strict, lax
			if dir == "new-strict" {
				pOld, pNew = lax, strict
			}
			pOld.GenesisTime, pNew.GenesisTime = 0, 100
			pc := &world.Client{Versions: []*world.Version{world.NewVersion("old", pOld, world.VersionOpts{}), world.NewVersion("new", pNew, world.VersionOpts{})}}
			proc := processor.New("verif", world.EmptyStore{}, pc)
			dh := dochandler.New("did:sidetree", nil, pc, world.NoopWriter{}, proc, world.NoopMetrics{})
			for _, ver := range []uint64{0, 100} {
				var err error
				pan := guard(func() { _, err = dh.ProcessOperation(req, ver) })
				wantReject := (ver == 0) == (dir == "old-strict")
				r.Count("intake_named_version", fmt.Sprintf("%s/version=%d/rejected=%v", dir, ver, err != nil))
				if pan != "" || (err != nil) != wantReject {
					r.Direct = append(r.Direct, out.Direct{Oracle: "intake_validates_under_the_named_protocol_version",
						What: fmt.Sprintf("%s, ProcessOperation(create of %d bytes, version %d): err=%v panic=%q, expected rejected=%v", dir, len(req), ver, err, pan, wantReject),
						Case: map[string]interface{}{"direction": dir, "version": ver, "request": string(req)}})
				}
			}
		}
	}
	// arbitrary bytes
	nb := 300
	if c.tier == "thorough" {
		nb = 5000
	}
	alphabet := `{}[]":,\ntruefalsenull0123456789.eE-+ typeupdatecreaterecoverdeactivatedeltasignedDatasuffixData`
	for i := 0; i < nb; i++ {
		b := make([]byte, rng.Intn(80))
		for j := range b {
			if rng.Intn(10) == 0 {
				b[j] = byte(rng.Intn(256))
			} else {
				b[j] = alphabet[rng.Intn(len(alphabet))]
			}
		}
		for _, mode := range []string{"intake", "batch", "reveal", "commitment"} {
			runParserCase(r, g, c10cfg{"base", base}, mode, "arbitrary-bytes", b, originOK)
		}
	}
	return r.Finish(150)
}

func canonicalDeltaLen(req []byte) int {
	var m struct {
		Delta json.RawMessage `json:"delta"`
	}
	if json.Unmarshal(req, &m) != nil || len(m.Delta) == 0 {
		return 0
	}
	var v interface{}
	if json.Unmarshal(m.Delta, &v) != nil {
		return 0
	}
	b, _ := json.Marshal(v)
	return len(b)
}

var (
	c10Parsers = map[string]*operationparser.Parser{}
	c10Calls   int
)

func runParserCase(r *out.Run, g *out.Group, cfg c10cfg, mode, label string, req []byte, originOK func(interface{}) bool) {
	timeOK := mode != "intake-time-refused"
	// one parser per configuration for the whole run, as in a node; nothing it remembers from earlier calls may
	// change a verdict, so for every other case the remaining entry points see the request first
	pkey := fmt.Sprintf("%+v|%v", cfg.p, timeOK) // the configuration's values (several share a name)
	parser := c10Parsers[pkey]
	if parser == nil {
		parser = operationparser.New(cfg.p, operationparser.WithAnchorTimeValidator(okTV{timeOK}))
		c10Parsers[pkey] = parser
	}
	c10Calls++
	if c10Calls%2 == 0 {
		func() {
			defer func() { _ = recover() }()
			if mode != "batch" {
				_, _ = parser.ParseOperation("did:sidetree", req, true)
			}
			_, _ = parser.GetRevealValue(req)
			_, _ = parser.GetCommitment(req)
			if mode == "batch" {
				_, _ = parser.Parse("did:sidetree", req)
			}
		}()
		r.Count("parser_warmed_by_other_entry_points", mode)
	}
	var ty operation.Type
	var suffix, str string
	var err error
	pan := ""
	func() {
		defer func() {
			if x := recover(); x != nil {
				pan = fmt.Sprint(x)
			}
		}()
		switch mode {
		case "intake", "intake-time-refused":
			var op *operation.Operation
			op, err = parser.Parse("did:sidetree", req)
			if err == nil {
				ty, suffix = op.Type, op.UniqueSuffix
			}
		case "batch":
			o, e := parser.ParseOperation("did:sidetree", req, true)
			err = e
			if e == nil {
				ty, suffix = o.Type, o.UniqueSuffix
			}
		case "reveal":
			str, err = parser.GetRevealValue(req)
		case "commitment":
			str, err = parser.GetCommitment(req)
		}
	}()
	outcome := "accepted"
	if pan != "" {
		outcome = "panic"
	} else if err != nil {
		outcome = "rejected"
	}
	desc := map[string]interface{}{"label": label, "config": cfg.name, "mode": mode, "request": string(req), "outcome": outcome}
	if err != nil {
		desc["error"] = err.Error()
	}
	if pan != "" {
		desc["panic"] = pan
		r.Direct = append(r.Direct, out.Direct{Oracle: "parser_entry_points_never_panic", What: mode + ": " + pan, Case: desc})
	}
	r.Count("outcome:"+mode, outcome)
	r.Count("label", strings.SplitN(label, "+", 2)[0])
	exp := "None"
	if outcome == "accepted" {
		switch mode {
		case "reveal", "commitment":
			exp = "(Some (RStr " + emit.Hex([]byte(str)) + "))"
		default:
			exp = "(Some " + emit.App("ROp", tyName2(ty), emit.Hex([]byte(suffix))) + ")"
		}
	}
	modeG := map[string]string{"intake": "MIntake", "intake-time-refused": "MIntakeRefused", "batch": "MBatch", "reveal": "MReveal", "commitment": "MCommitment"}[mode]
	r.Add(g, emit.App("Build_qcase", world.ProtoGallina(cfg.p), modeG, world.ReqView(req, originOK), exp, emit.Bool(pan != "")), desc,
		label+"|"+cfg.name+"|"+mode, label != "arbitrary-bytes" || outcome != "rejected")
}
