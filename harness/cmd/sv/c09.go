package main

import (
	"crypto"
	"crypto/ecdsa"
	"crypto/ed25519"
	_ "crypto/sha256"
	_ "crypto/sha512"
	"encoding/base64"
	"fmt"
	"math/big"
	"math/rand"
	"strings"

	josejson "github.com/square/go-jose/v3/json"

	"github.com/trustbloc/sidetree-core-go/pkg/jws"
	"github.com/trustbloc/sidetree-core-go/pkg/verifhooks"

	"verif/harness/internal/emit"
	"verif/harness/internal/out"
	"verif/harness/internal/world"
)

func init() { commands["c09"] = runC09 }

var rawURL = base64.RawURLEncoding

// cryptoVerify checks sig over msg with the public key object directly (no JWK, no library code of
// the repository involved).
func cryptoVerify(k *world.Key, msg, sig []byte) bool {
	switch p := k.Pub.(type) {
	case ed25519.PublicKey:
		return ed25519.Verify(p, msg, sig)
	case *ecdsa.PublicKey:
		h := crypto.SHA256
		switch k.Type {
		case world.P384:
			h = crypto.SHA384
		case world.P521:
			h = crypto.SHA512
		}
		if len(sig)%2 != 0 || len(sig) == 0 {
			return false
		}
		hh := h.New()
		hh.Write(msg)
		n := len(sig) / 2
		return ecdsa.Verify(p, hh.Sum(nil), new(big.Int).SetBytes(sig[:n]), new(big.Int).SetBytes(sig[n:]))
	}
	return false
}

type hdrFacts struct {
	jsonOK  bool
	hasAlg  bool
	b64     string
	marshal []byte
}

func headerFacts(part string) hdrFacts {
	hf := hdrFacts{b64: "B64Absent"}
	raw, err := rawURL.DecodeString(part)
	if err != nil {
		return hf
	}
	var m map[string]interface{}
	if josejson.Unmarshal(raw, &m) != nil || m == nil {
		// a JSON null decodes into a nil map: checkJWSHeaders then fails on the missing alg
		if josejson.Unmarshal(raw, &m) == nil && m == nil {
			hf.jsonOK = true
		}
		return hf
	}
	hf.jsonOK = true
	_, hf.hasAlg = m["alg"]
	if v, ok := m["b64"]; ok {
		switch b := v.(type) {
		case bool:
			if b {
				hf.b64 = "B64True"
			} else {
				hf.b64 = "B64False"
			}
		default:
			hf.b64 = "B64NotBool"
		}
	}
	hf.marshal, _ = josejson.Marshal(m)
	return hf
}

func (h hdrFacts) gallina() string {
	return emit.App("Build_hdr_facts", emit.Bool(h.jsonOK), emit.Bool(h.hasAlg), h.b64, emit.Hex(h.marshal))
}

// modelSigningInput is what the model computes; the crypto fact is evaluated on exactly these bytes.
func modelSigningInput(h hdrFacts, compact string) ([]byte, []byte, bool) {
	parts := strings.Split(compact, ".")
	if len(parts) != 3 {
		return nil, nil, false
	}
	payload, err := rawURL.DecodeString(parts[1])
	if err != nil {
		return nil, nil, false
	}
	sig, err := rawURL.DecodeString(parts[2])
	if err != nil {
		return nil, nil, false
	}
	hs := rawURL.EncodeToString(h.marshal)
	switch h.b64 {
	case "B64NotBool":
		return nil, sig, false
	case "B64False":
		return []byte(hs + "." + string(payload)), sig, true
	}
	return []byte(hs + "." + rawURL.EncodeToString(payload)), sig, true
}

type jwkVariant struct {
	label   string
	jwk     *jws.JWK
	key     *world.Key // public key object the coordinates belong to (nil = none)
	onCurve bool
}

func declen(s string) int64 {
	if s == "" {
		return -1
	}
	b, err := rawURL.DecodeString(s)
	if err != nil {
		return -1
	}
	return int64(len(b))
}

func (v jwkVariant) gallina() string {
	joseOK := false
	func() {
		defer func() { recover() }() //nolint:errcheck
		b, _ := josejson.Marshal(v.jwk)
		joseOK = verifhooks.ParseInternalJWK(b) == nil
	}()
	// for OKP keys go-jose does not check the length; the repository code does (len == 32)
	if v.jwk.Kty == "OKP" && joseOK && declen(v.jwk.X) != 32 {
		joseOK = false
	}
	// kind check: an EC JWK must yield an ECDSA key, an OKP JWK an Ed25519 key
	return emit.App("Build_jwk", emit.Hex([]byte(v.jwk.Kty)), emit.Hex([]byte(v.jwk.Crv)), emit.Z(declen(v.jwk.X)), emit.Z(declen(v.jwk.Y)),
		emit.Bool(v.onCurve), emit.Bool(joseOK))
}

func keyVariants(k *world.Key, others []*world.Key, rng *rand.Rand) []jwkVariant {
	vs := []jwkVariant{{label: "matching", jwk: k.JWK, key: k, onCurve: true}}
	for _, o := range others {
		vs = append(vs, jwkVariant{label: "foreign:" + o.Type.Crv(), jwk: o.JWK, key: o, onCurve: true})
	}
	mod := func(label string, f func(j *jws.JWK), onCurve bool) {
		c := *k.JWK
		f(&c)
		vs = append(vs, jwkVariant{label: label, jwk: &c, key: k, onCurve: onCurve})
	}
	mod("unknown-kty", func(j *jws.JWK) { j.Kty = "RSA" }, true)
	mod("empty-kty", func(j *jws.JWK) { j.Kty = "" }, true)
	mod("lowercase-kty", func(j *jws.JWK) { j.Kty = strings.ToLower(j.Kty) }, true)
	mod("unknown-crv", func(j *jws.JWK) { j.Crv = "P-999" }, true)
	mod("other-crv", func(j *jws.JWK) {
		if j.Crv == "P-256" {
			j.Crv = "P-384"
		} else {
			j.Crv = "P-256"
		}
	}, true)
	mod("short-x", func(j *jws.JWK) { b, _ := rawURL.DecodeString(j.X); j.X = rawURL.EncodeToString(b[1:]) }, false)
	mod("long-x", func(j *jws.JWK) {
		b, _ := rawURL.DecodeString(j.X)
		j.X = rawURL.EncodeToString(append([]byte{0}, b...))
	}, k.Type != world.Ed25519)
	mod("missing-x", func(j *jws.JWK) { j.X = "" }, false)
	if k.Type != world.Ed25519 {
		mod("missing-y", func(j *jws.JWK) { j.Y = "" }, false)
		mod("off-curve", func(j *jws.JWK) {
			b, _ := rawURL.DecodeString(j.Y)
			b[len(b)-1] ^= 1
			j.Y = rawURL.EncodeToString(b)
		}, false)
		mod("swapped-xy", func(j *jws.JWK) { j.X, j.Y = j.Y, j.X }, false)
		// same point, coordinate spelt with leading zero bytes (only the length rule can refuse it)
		mod("long-y", func(j *jws.JWK) {
			b, _ := rawURL.DecodeString(j.Y)
			j.Y = rawURL.EncodeToString(append([]byte{0}, b...))
		}, true)
		mod("double-length-y", func(j *jws.JWK) {
			b, _ := rawURL.DecodeString(j.Y)
			j.Y = rawURL.EncodeToString(append(make([]byte, len(b)), b...))
		}, true)
		mod("short-y", func(j *jws.JWK) { b, _ := rawURL.DecodeString(j.Y); j.Y = rawURL.EncodeToString(b[1:]) }, false)
		mod("long-x-and-y", func(j *jws.JWK) {
			b, _ := rawURL.DecodeString(j.Y)
			j.Y = rawURL.EncodeToString(append([]byte{0}, b...))
			a, _ := rawURL.DecodeString(j.X)
			j.X = rawURL.EncodeToString(append([]byte{0}, a...))
		}, true)
	}
	return vs
}

func curveOrder(k *world.Key) *big.Int {
	if p, ok := k.Pub.(*ecdsa.PublicKey); ok {
		return p.Curve.Params().N
	}
	return nil
}

func runC09(c *ctx) error {
	r := out.New(c.out)
	g := r.Group("cases_C09", []string{"Base.Bytes", "Jws.Compact", "Corr.Jws"}, "wcase9", "w9_mismatches")
	rng := rand.New(rand.NewSource(c.seed))
	var keys []*world.Key
	for t := 0; t < int(world.NumKeyTypes); t++ {
		keys = append(keys, world.NewKey(t, world.KeyType(t)), world.NewKey(10+t, world.KeyType(t)))
	}
	// a secp256k1 key with a coordinate whose minimal big-endian form is shorter than 32 bytes: the library's JWK
	// for it (pubkey.GetPublicKeyJWK) must still be the matching key of what it signs
	keys = append(keys, world.ShortCoordinateKey())
	thorough := c.tier == "thorough"
	// addD: detached == nil is the plain call. With a non-empty detached payload D the library is called with
	// WithJWSDetachedPayload(D), and the model is asked about the compact JWS whose payload segment IS D: the option means
	// "the payload is D, whatever the payload segment holds" (oracle detached_payload_overrides_embedded: the real verifier
	// gives the same verdict on that equivalent compact form).
	var addD func(label string, compact string, detached []byte, v jwkVariant, expect string)
	add := func(label string, compact string, v jwkVariant, expect string) { addD(label, compact, nil, v, expect) }
	addD = func(label string, given string, detached []byte, v jwkVariant, expect string) {
		compact := given
		if len(detached) > 0 {
			gp := strings.Split(given, ".")
			if len(gp) != 3 {
				return
			}
			compact = gp[0] + "." + rawURL.EncodeToString(detached) + "." + gp[2]
		}
		hf := hdrFacts{b64: "B64Absent"}
		parts := strings.Split(compact, ".")
		if len(parts) == 3 {
			hf = headerFacts(parts[0])
		}
		msg, sig, ok := modelSigningInput(hf, compact)
		cryptoOK := false
		if ok && v.key != nil && v.onCurve {
			cryptoOK = cryptoVerify(v.key, msg, sig)
		}
		var verr error
		pan := ""
		func() {
			defer func() {
				if x := recover(); x != nil {
					pan = fmt.Sprint(x)
				}
			}()
			if len(detached) > 0 {
				var got []byte
				_, got, verr = verifhooks.VerifyJWSDetached(given, v.jwk, detached)
				if verr == nil && string(got) != string(detached) {
					r.Direct = append(r.Direct, out.Direct{Oracle: "detached_payload_is_the_payload", What: fmt.Sprintf("returned %q", got),
						Case: map[string]interface{}{"class": label, "given": given, "detached": string(detached)}})
				}
				_, _, eerr := verifhooks.VerifyJWS(compact, v.jwk)
				if (eerr == nil) != (verr == nil) {
					r.Direct = append(r.Direct, out.Direct{Oracle: "detached_payload_overrides_embedded",
						What: fmt.Sprintf("with the option: %v; equivalent compact form: %v", verr, eerr),
						Case: map[string]interface{}{"class": label, "jwk": v.label, "given": given, "detached": string(detached), "equivalent": compact}})
				}
				return
			}
			_, _, verr = verifhooks.VerifyJWS(compact, v.jwk)
		}()
		accepted := verr == nil && pan == ""
		desc := map[string]interface{}{"class": label, "jwk": v.label, "compact": compact, "jwk_value": v.jwk, "accepted": accepted, "panic": pan}
		if len(detached) > 0 {
			desc["given"] = given
			desc["detached_payload"] = string(detached)
		}
		if verr != nil {
			desc["error"] = verr.Error()
		}
		r.Count("class", strings.SplitN(label, ":", 2)[0])
		r.Count("verdict", fmt.Sprint(accepted))
		if pan != "" {
			r.Direct = append(r.Direct, out.Direct{Oracle: "no_panic", What: pan, Case: desc})
		}
		switch expect {
		case "accept":
			if !accepted {
				r.Direct = append(r.Direct, out.Direct{Oracle: "genuine_jws_verifies", What: fmt.Sprint(verr), Case: desc})
			}
		case "reject":
			if accepted {
				r.Direct = append(r.Direct, out.Direct{Oracle: "altered_or_foreign_jws_rejected", What: label + " / " + v.label, Case: desc})
			}
		}
		r.Add(g, emit.App("Build_wcase9", emit.Hex([]byte(compact)), hf.gallina(), v.gallina(), emit.Bool(cryptoOK), emit.Bool(accepted), emit.Bool(pan != "")),
			desc, label+"|"+v.label+"|"+compact, label != "genuine")
	}
	for ki, k := range keys {
		if !thorough && ki%2 == 1 {
			continue
		}
		var others []*world.Key
		for _, o := range keys {
			if o != k {
				others = append(others, o)
			}
		}
		variants := keyVariants(k, others, rng)
		matching := variants[0]
		payloads := [][]byte{[]byte(`{"a":1}`), []byte("x"), []byte(strings.Repeat("payload-", 20))}
		payloads0 := payloads[0]
		headers := []string{fmt.Sprintf(`{"alg":"%s"}`, k.Type.Alg()), fmt.Sprintf(`{"alg":"%s","kid":"key-1"}`, k.Type.Alg())}
		// compact, sorted headers with a NUMERIC member (iat and the like), signed over the header as spelled - what this
		// library's own signing code and any RFC 7515 signer produce.  The verifier rebuilds the signing input from the
		// DECODED header, and go-jose re-marshals numbers through float64 with the 'g' format: from 1e6 on (and below
		// 1e-4) the text changes and a genuine JWS no longer verifies (known finding F20); below that it must verify.
		for _, num := range []string{"0", "7", "999999", "0.5", "-12.25"} {
			add("genuine:numeric-header-member-kept-by-the-decoder", world.CompactJWS(fmt.Sprintf(`{"alg":"%s","iat":%s}`, k.Type.Alg(), num), payloads0, k), matching, "accept")
		}
		for _, num := range []string{"1000000", "1700000000", "12345678.5", "0.00001"} {
			add("genuine:numeric-header-member-reformatted-by-the-decoder", world.CompactJWS(fmt.Sprintf(`{"alg":"%s","iat":%s}`, k.Type.Alg(), num), payloads0, k), matching, "accept")
		}
		// header members with a null value are members: a genuine JWS carrying one verifies, and adding one to the header of a
		// genuine JWS (signature kept) is an alteration
		for _, extra := range []string{`"crit":null`, `"kid":null`, `"x5u":null,"zzz":null`} {
			hN := fmt.Sprintf(`{"alg":"%s",%s}`, k.Type.Alg(), extra)
			add("genuine:null-valued-header-member", world.CompactJWS(hN, payloads0, k), matching, "accept")
			gen := strings.Split(world.CompactJWS(fmt.Sprintf(`{"alg":"%s"}`, k.Type.Alg()), payloads0, k), ".")
			add("tamper:null-valued-header-member-added", rawURL.EncodeToString([]byte(hN))+"."+gen[1]+"."+gen[2], matching, "reject")
		}
		// "alg" present but not a string: decided by the model (presence is all the JWS layer asks for), never a panic
		for _, v := range []string{`null`, `1`, `true`, `[]`, `{}`, `""`, `1.5e3`} {
			add("header:alg-not-a-string", world.CompactJWS(fmt.Sprintf(`{"alg":%s}`, v), payloads0, k), matching, "")
		}
		for hi, hdr := range headers {
			for pi, pl := range payloads {
				if !thorough && (hi+pi)%2 == 1 {
					continue
				}
				genuine := world.CompactJWS(hdr, pl, k)
				add("genuine", genuine, matching, "accept")
				// the detached-payload option: the payload is what the caller supplies, whatever the payload segment holds
				{
					gp := strings.Split(genuine, ".")
					other := append([]byte("other-"), pl...)
					addD("detached:same-payload", genuine, pl, matching, "accept")
					addD("detached:empty-segment", gp[0]+".."+gp[2], pl, matching, "accept")
					addD("detached:segment-holds-another-payload", gp[0]+"."+rawURL.EncodeToString(other)+"."+gp[2], pl, matching, "accept")
					addD("detached:segment-not-base64", gp[0]+".@@."+gp[2], pl, matching, "accept")
					addD("detached:payload-never-signed", genuine, other, matching, "reject")
					addD("detached:payload-never-signed-empty-segment", gp[0]+".."+gp[2], other, matching, "reject")
					addD("detached:foreign-key", genuine, pl, variants[len(variants)-1], "reject")
				}
				// the library's own signing utilities
				if s, err := verifhooks.SignPayload(pl, k.Signer); err == nil {
					add("genuine:library-signed", s, matching, "accept")
				}
				for _, v := range variants[1:] {
					add("key:"+v.label, genuine, v, "reject")
				}
				parts := strings.Split(genuine, ".")
				hb, _ := rawURL.DecodeString(parts[0])
				pb, _ := rawURL.DecodeString(parts[1])
				sb, _ := rawURL.DecodeString(parts[2])
				// every byte of the decoded header and payload altered (two masks)
				step := 1
				if !thorough {
					step = 3
				}
				for i := 0; i < len(hb); i += step {
					for _, m := range []byte{0x01, 0x20} {
						x := append([]byte{}, hb...)
						x[i] ^= m
						exp := "reject"
						add("tamper:header", rawURL.EncodeToString(x)+"."+parts[1]+"."+parts[2], matching, exp)
					}
				}
				for i := 0; i < len(pb); i += step {
					for _, m := range []byte{0x01, 0x80} {
						x := append([]byte{}, pb...)
						x[i] ^= m
						add("tamper:payload", parts[0]+"."+rawURL.EncodeToString(x)+"."+parts[2], matching, "reject")
					}
				}
				for i := 0; i < len(sb); i += step {
					x := append([]byte{}, sb...)
					x[i] ^= 0x04
					add("tamper:signature-bit", parts[0]+"."+parts[1]+"."+rawURL.EncodeToString(x), matching, "reject")
				}
				sigVariants := map[string][]byte{
					"truncated":     sb[:len(sb)-1],
					"half":          sb[:len(sb)/2],
					"extended":      append(append([]byte{}, sb...), 0),
					"zero-prefixed": append([]byte{0}, sb...),
					"zeros":         make([]byte, len(sb)),
					"doubled":       append(append([]byte{}, sb...), sb...),
				}
				for name, sv := range sigVariants {
					add("signature:"+name, parts[0]+"."+parts[1]+"."+rawURL.EncodeToString(sv), matching, "reject")
				}
				add("signature:empty", parts[0]+"."+parts[1]+".", matching, "reject")
				if n := curveOrder(k); n != nil {
					half := len(sb) / 2
					s := new(big.Int).SetBytes(sb[half:])
					twin := new(big.Int).Sub(n, s).Bytes()
					tw := append(append([]byte{}, sb[:half]...), make([]byte, half-len(twin))...)
					tw = append(tw, twin...)
					add("signature:ecdsa-twin", parts[0]+"."+parts[1]+"."+rawURL.EncodeToString(tw), matching, "") // tolerated
					// r + n and s + n (same residues, other numbers) where they fit into the fixed-size encoding (P-521: 66 bytes
					// hold 528 bits, the order has 521): not the signature and not its twin
					r := new(big.Int).SetBytes(sb[:half])
					for which, v := range map[string][2]*big.Int{"r-plus-n": {new(big.Int).Add(r, n), s}, "s-plus-n": {r, new(big.Int).Add(s, n)}} {
						rb, sbb := v[0].Bytes(), v[1].Bytes()
						if len(rb) > half || len(sbb) > half {
							continue
						}
						enc := append(append(make([]byte, half-len(rb)), rb...), append(make([]byte, half-len(sbb)), sbb...)...)
						add("signature:ecdsa-"+which, parts[0]+"."+parts[1]+"."+rawURL.EncodeToString(enc), matching, "reject")
					}
				}
				// header spellings: the verifier re-serialises the parsed header
				alt := map[string]string{
					"unsorted":   fmt.Sprintf(`{"kid":"key-1","alg":"%s"}`, k.Type.Alg()),
					"whitespace": fmt.Sprintf(`{ "alg" : "%s" }`, k.Type.Alg()),
					"b64-true":   fmt.Sprintf(`{"alg":"%s","b64":true}`, k.Type.Alg()),
					"escaped":    fmt.Sprintf(`{"alg":"%s","kid":"a<b"}`, k.Type.Alg()),
				}
				for name, h := range alt {
					// signed over the header as spelled (what a generic JWS library would do)
					add("header:"+name+":signed-as-spelled", world.CompactJWS(h, pl, k), matching, "")
					// signed over the re-serialised header (what this library's verifier expects)
					hf := headerFacts(rawURL.EncodeToString([]byte(h)))
					msg := rawURL.EncodeToString(hf.marshal) + "." + rawURL.EncodeToString(pl)
					add("header:"+name+":signed-reserialised", rawURL.EncodeToString([]byte(h))+"."+rawURL.EncodeToString(pl)+"."+rawURL.EncodeToString(k.RawSign([]byte(msg))), matching, "accept")
				}
				// unencoded payload option
				hU := fmt.Sprintf(`{"alg":"%s","b64":false}`, k.Type.Alg())
				msgU := rawURL.EncodeToString([]byte(hU)) + "." + string(pl)
				add("header:b64-false", rawURL.EncodeToString([]byte(hU))+"."+rawURL.EncodeToString(pl)+"."+rawURL.EncodeToString(k.RawSign([]byte(msgU))), matching, "accept")
				add("header:b64-false:signed-encoded", world.CompactJWS(hU, pl, k), matching, "reject")
				// "b64" must be a JSON boolean: look-alikes are refused whichever way the payload was signed
				for _, v := range []string{`"false"`, `"true"`, `0`, `1`, `"0"`, `"1"`, `"T"`, `"F"`, `"t"`, `"f"`, `"TRUE"`, `"False"`, `null`, `2`, `[]`, `{}`, `[true]`} {
					hN := fmt.Sprintf(`{"alg":"%s","b64":%s}`, k.Type.Alg(), v)
					add("malformed-header:b64-look-alike:signed-encoded", world.CompactJWS(hN, pl, k), matching, "reject")
					msgN := rawURL.EncodeToString([]byte(hN)) + "." + string(pl)
					add("malformed-header:b64-look-alike:signed-unencoded",
						rawURL.EncodeToString([]byte(hN))+"."+rawURL.EncodeToString(pl)+"."+rawURL.EncodeToString(k.RawSign([]byte(msgN))), matching, "reject")
				}
				for name, h := range map[string]string{
					"b64-not-bool": fmt.Sprintf(`{"alg":"%s","b64":"no"}`, k.Type.Alg()),
					"missing-alg":  `{"kid":"k"}`,
					"array":        `["alg"]`,
					"null":         `null`,
					"not-json":     `{alg}`,
					"duplicate":    fmt.Sprintf(`{"alg":"%s","alg":"%s"}`, k.Type.Alg(), k.Type.Alg()),
					"empty":        ``,
				} {
					add("malformed-header:"+name, world.CompactJWS(h, pl, k), matching, "reject")
				}
				// repeated member names are refused even when the signature covers what a lenient decoder (last or first
				// occurrence wins) would re-serialise the header to
				for _, dup := range [][3]string{
					{fmt.Sprintf(`{"alg":"%s","alg":"%s"}`, k.Type.Alg(), k.Type.Alg()), fmt.Sprintf(`{"alg":"%s"}`, k.Type.Alg()), fmt.Sprintf(`{"alg":"%s"}`, k.Type.Alg())},
					{fmt.Sprintf(`{"alg":"none","alg":"%s","kid":"key-1"}`, k.Type.Alg()), fmt.Sprintf(`{"alg":"%s","kid":"key-1"}`, k.Type.Alg()), `{"alg":"none","kid":"key-1"}`},
					{fmt.Sprintf(`{"alg":"%s","kid":"a","kid":"b"}`, k.Type.Alg()), fmt.Sprintf(`{"alg":"%s","kid":"b"}`, k.Type.Alg()), fmt.Sprintf(`{"alg":"%s","kid":"a"}`, k.Type.Alg())},
					{fmt.Sprintf(`{"b64":true,"alg":"%s","b64":true}`, k.Type.Alg()), fmt.Sprintf(`{"alg":"%s","b64":true}`, k.Type.Alg()), fmt.Sprintf(`{"alg":"%s","b64":true}`, k.Type.Alg())},
				} {
					for wi, which := range []string{"last-wins", "first-wins"} {
						msg := rawURL.EncodeToString([]byte(dup[1+wi])) + "." + rawURL.EncodeToString(pl)
						add("malformed-header:duplicate:signed-"+which,
							rawURL.EncodeToString([]byte(dup[0]))+"."+rawURL.EncodeToString(pl)+"."+rawURL.EncodeToString(k.RawSign([]byte(msg))), matching, "reject")
					}
				}
			}
		}
		// malformed compact strings
		good := world.CompactJWS(headers[0], payloads[0], k)
		gp := strings.Split(good, ".")
		for name, s := range map[string]string{
			"two-parts": gp[0] + "." + gp[1], "four-parts": good + ".x", "empty": "", "dots": "..", "no-header": "." + gp[1] + "." + gp[2],
			"no-payload": gp[0] + ".." + gp[2], "bad-b64-header": "!!!." + gp[1] + "." + gp[2], "bad-b64-payload": gp[0] + ".%%%." + gp[2],
			"bad-b64-sig": gp[0] + "." + gp[1] + ".***", "json-serialization": `{"payload":"x"}`, "padding": gp[0] + "=." + gp[1] + "." + gp[2],
			"newline-in-part": gp[0] + "." + gp[1][:2] + "\n" + gp[1][2:] + "." + gp[2], "one-char-part": gp[0] + ".A." + gp[2],
			"trailing-bits": gp[0] + "." + gp[1] + "." + gp[2][:len(gp[2])-1] + altLast(gp[2]),
		} {
			exp := "reject"
			if name == "newline-in-part" || name == "trailing-bits" {
				exp = "" // Go's lenient base64 decoding: decided by the model
			}
			add("malformed-compact:"+name, s, matching, exp)
		}
		for i := 0; i < 20; i++ {
			b := make([]byte, rng.Intn(60))
			for j := range b {
				b[j] = "ABCabc019-_.{}\"=\n "[rng.Intn(18)]
			}
			add("malformed-compact:random", string(b), matching, "reject")
		}
	}
	return r.Finish(250)
}

// altLast changes the unused low bits of the last base64 character when there are any.
func altLast(s string) string {
	const alphabet = "ABCDEFGHIJKLMNOPQRSTUVWXYZabcdefghijklmnopqrstuvwxyz0123456789-_"
	last := strings.IndexByte(alphabet, s[len(s)-1])
	switch len(s) % 4 {
	case 2:
		return string(alphabet[last^1])
	case 3:
		return string(alphabet[last^1])
	}
	return string(s[len(s)-1])
}
