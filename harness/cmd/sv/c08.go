package main

import (
	"bytes"
	"crypto/sha256"
	"crypto/sha512"
	"encoding/base64"
	"encoding/json"
	"fmt"
	"github.com/trustbloc/sidetree-core-go/pkg/docutil"
	"math/rand"
	"reflect"
	"sort"
	"strings"

	"github.com/trustbloc/sidetree-core-go/pkg/api/protocol"
	"github.com/trustbloc/sidetree-core-go/pkg/canonicalizer"
	"github.com/trustbloc/sidetree-core-go/pkg/commitment"
	"github.com/trustbloc/sidetree-core-go/pkg/dochandler"
	"github.com/trustbloc/sidetree-core-go/pkg/encoder"
	"github.com/trustbloc/sidetree-core-go/pkg/hashing"
	"github.com/trustbloc/sidetree-core-go/pkg/jws"
	"github.com/trustbloc/sidetree-core-go/pkg/processor"
	"github.com/trustbloc/sidetree-core-go/pkg/versions/1_0/model"

	"verif/harness/internal/emit"
	"verif/harness/internal/out"
	"verif/harness/internal/world"
)

func init() { commands["c08"] = runC08 }

const ns08 = "did:sidetree"

func optStr(s string, err error) string {
	if err != nil {
		return "None"
	}
	return "(Some " + emit.Hex([]byte(s)) + ")"
}

func nlist(codes []uint) string {
	var l []string
	for _, c := range codes {
		l = append(l, emit.N(uint64(c)))
	}
	return emit.List(l)
}

// guard runs f and reports a panic as text.
func guard(f func()) (pan string) {
	defer func() {
		if x := recover(); x != nil {
			pan = fmt.Sprint(x)
		}
	}()
	f()
	return ""
}

type c08 struct {
	r   *out.Run
	gh  *out.Group
	gl  *out.Group
	rng *rand.Rand
}

func (c *c08) hcase(kind, query, observed string, desc map[string]interface{}, pan string, nontrivial bool) {
	desc["kind"] = kind
	if pan != "" {
		desc["panic"] = pan
		c.r.Direct = append(c.r.Direct, out.Direct{Oracle: "hash_functions_never_panic", What: kind + ": " + pan, Case: desc})
	}
	c.r.Count("hash-query", kind)
	key, _ := json.Marshal(desc)
	c.r.Add(c.gh, emit.App("Build_hcase", query, observed, emit.Bool(pan != "")), desc, string(key), nontrivial)
}

// mhMutations: malformed / altered multihash strings derived from a genuine one.
func mhMutations(mh string, rng *rand.Rand) map[string]string {
	m := map[string]string{"genuine": mh}
	raw, _ := base64.RawURLEncoding.DecodeString(mh)
	enc := base64.RawURLEncoding.EncodeToString
	const alpha = "ABCDEFGHIJKLMNOPQRSTUVWXYZabcdefghijklmnopqrstuvwxyz0123456789-_"
	if len(mh) > 3 {
		i := rng.Intn(len(mh))
		b := []byte(mh)
		for {
			ch := alpha[rng.Intn(64)]
			if ch != b[i] {
				b[i] = ch
				break
			}
		}
		m["char-substituted"] = string(b)
		m["truncated-1"] = mh[:len(mh)-1]
		m["truncated-2"] = mh[:len(mh)-2]
		m["appended-A"] = mh + "A"
		m["padded"] = mh + "="
		m["with-newline"] = mh[:2] + "\n" + mh[2:]
		m["std-alphabet"] = strings.NewReplacer("-", "+", "_", "/").Replace(mh)
		// same significant bits, non-zero trailing bits in the last character
		if len(mh)%4 != 0 {
			v := strings.IndexByte(alpha, mh[len(mh)-1])
			m["trailing-bits"] = mh[:len(mh)-1] + string(alpha[v|1])
		}
	}
	if len(raw) > 2 {
		m["code-sha1"] = enc(append([]byte{0x11}, raw[1:]...))
		m["code-sha3-256"] = enc(append([]byte{0x16}, raw[1:]...))
		m["code-identity"] = enc(append([]byte{0x00}, raw[1:]...))
		m["code-two-byte"] = enc(append([]byte{0x80 | raw[0], 0x00}, raw[1:]...)) // non-minimal varint
		m["code-large"] = enc(append([]byte{0xb2, 0x40}, raw[1:]...))             // 0x2032? blake2b range
		m["len-minus-1"] = enc(append([]byte{raw[0], raw[1] - 1}, raw[2:]...))
		m["len-plus-1"] = enc(append([]byte{raw[0], raw[1] + 1}, raw[2:]...))
		m["digest-truncated"] = enc(raw[:len(raw)-1])
		m["digest-extended"] = enc(append(append([]byte{}, raw...), 0x00))
		m["len-two-byte"] = enc(append([]byte{raw[0], 0x80 | raw[1], 0x00}, raw[2:]...))
		m["other-alg"] = enc(append([]byte{raw[0] ^ 1}, raw[1:]...))
		m["varint-overflow"] = enc(append([]byte{0xff, 0xff, 0xff, 0xff, 0xff, 0xff, 0xff, 0xff, 0xff, 0x7f}, raw[1:]...))
		m["varint-unterminated"] = enc([]byte{0x92})
		m["header-only"] = enc(raw[:2])
		m["code-only"] = enc(raw[:1])
	}
	m["empty"] = ""
	m["garbage"] = "!!not base64!!"
	return m
}

// reserialise produces texts denoting the same JSON value as v.
func reserialise(v interface{}, rng *rand.Rand, style int) []byte {
	var b bytes.Buffer
	ws := func() {
		if style&1 != 0 {
			b.WriteString([]string{"", " ", "\n", "\t ", "\r\n  "}[rng.Intn(5)])
		}
	}
	var w func(x interface{})
	wstr := func(s string) {
		b.WriteByte('"')
		for _, r := range s {
			switch {
			case r == '"' || r == '\\':
				b.WriteByte('\\')
				b.WriteRune(r)
			case r < 0x20:
				fmt.Fprintf(&b, `\u%04x`, r)
			case style&2 != 0 && rng.Intn(4) == 0 && r < 0x10000 && (r < 0xd800 || r > 0xdfff):
				fmt.Fprintf(&b, `\u%04X`, r)
			case style&2 != 0 && r >= 0x10000 && rng.Intn(2) == 0:
				r2 := r - 0x10000
				fmt.Fprintf(&b, `\u%04x\u%04x`, 0xd800+(r2>>10), 0xdc00+(r2&0x3ff))
			case style&2 != 0 && r == '/' && rng.Intn(2) == 0:
				b.WriteString(`\/`)
			default:
				b.WriteRune(r)
			}
		}
		b.WriteByte('"')
	}
	w = func(x interface{}) {
		ws()
		switch t := x.(type) {
		case map[string]interface{}:
			keys := make([]string, 0, len(t))
			for k := range t {
				keys = append(keys, k)
			}
			sort.Strings(keys)
			if style&4 != 0 {
				rng.Shuffle(len(keys), func(i, j int) { keys[i], keys[j] = keys[j], keys[i] })
			}
			b.WriteByte('{')
			for i, k := range keys {
				if i > 0 {
					b.WriteByte(',')
				}
				ws()
				wstr(k)
				ws()
				b.WriteByte(':')
				w(t[k])
			}
			ws()
			b.WriteByte('}')
		case []interface{}:
			b.WriteByte('[')
			for i, e := range t {
				if i > 0 {
					b.WriteByte(',')
				}
				w(e)
			}
			ws()
			b.WriteByte(']')
		case string:
			wstr(t)
		case float64:
			if style&8 != 0 && t == float64(int64(t)) && t > -1e9 && t < 1e9 {
				switch rng.Intn(4) {
				case 0:
					fmt.Fprintf(&b, "%d.0", int64(t))
				case 1:
					fmt.Fprintf(&b, "%de0", int64(t))
				case 2:
					fmt.Fprintf(&b, "%d0e-1", int64(t))
				default:
					fmt.Fprintf(&b, "%d.000E+0", int64(t))
				}
			} else {
				jb, _ := json.Marshal(t)
				b.Write(jb)
			}
		default:
			jb, _ := json.Marshal(t)
			b.Write(jb)
		}
		ws()
	}
	w(v)
	return b.Bytes()
}

// independent multihash (stdlib only) used by the self-certification oracle.
func refMultihash(canonical []byte, code byte) string {
	var d []byte
	switch code {
	case 0x12:
		x := sha256.Sum256(canonical)
		d = x[:]
	case 0x13:
		x := sha512.Sum512(canonical)
		d = x[:]
	default:
		return ""
	}
	return base64.RawURLEncoding.EncodeToString(append([]byte{code, byte(len(d))}, d...))
}

func randomValue(rng *rand.Rand, depth int) interface{} {
	strs := []string{"", "a", "id", "key-1", "héllo", "日本", "\U0001F600 smile", "line\nbreak", "quote\"back\\slash", "a/b", "<tag>&", " ", "\u007f", "\u0001", "€uro"}
	switch k := rng.Intn(10); {
	case depth > 0 && k < 3:
		m := map[string]interface{}{}
		for i, n := 0, rng.Intn(4); i < n; i++ {
			m[strs[rng.Intn(len(strs))]+fmt.Sprint(rng.Intn(3))] = randomValue(rng, depth-1)
		}
		return m
	case depth > 0 && k < 5:
		var l []interface{}
		for i, n := 0, rng.Intn(4); i < n; i++ {
			l = append(l, randomValue(rng, depth-1))
		}
		if l == nil {
			l = []interface{}{}
		}
		return l
	case k < 7:
		return strs[rng.Intn(len(strs))]
	case k == 7:
		return float64(rng.Intn(2000) - 1000)
	case k == 8:
		return []interface{}{true, false, nil}[rng.Intn(3)]
	}
	return []float64{0.5, 1e21, 1e-7, 123456789012, 0.1, -0.0, 4.5e-10, 1.7976931348623157e308, 5e-324, 295147905179352830000}[rng.Intn(10)]
}

func (c *c08) hashFunctions(kp *world.KeyPool, dids []*world.DID, tier string) {
	codes := []uint{world.SHA256, world.SHA512, 0x11, 0x16, 0, 999}
	// canonical contents: JWKs, suffix data, deltas, random values
	type content struct {
		label string
		val   interface{}
	}
	var contents []content
	for i, k := range kp.Keys {
		if i < 6 || tier == "thorough" {
			contents = append(contents, content{"jwk", k.JWK})
		}
	}
	// keys that carry the optional nonce member (it is part of the key: commitment and reveal value must both cover it)
	for i, k := range kp.Keys {
		if i < 5 || tier == "thorough" {
			kn := *k.JWK
			kn.Nonce = []string{"bm9uY2U", "AAAAAAAAAAAAAAAAAAAAAA", "n"}[i%3]
			contents = append(contents, content{"jwk-with-nonce", &kn})
		}
	}
	// member names of which one is a prefix of another (the canonical order puts the shorter first; only a text that
	// lists them in another order exercises that rule)
	for _, names := range [][]string{{"a", "ab", "abc"}, {"origin", "originHint"}, {"uri", "uris", "ur"}, {"", "x", "xx"}, {"k1", "k", "k10", "k11"},
		{"é", "éé", "e"}, {"id", "ids", "i", "idx"}} {
		m := map[string]interface{}{}
		for j, n := range names {
			m[n] = float64(j)
		}
		contents = append(contents, content{"prefix-names", m}, content{"prefix-names", map[string]interface{}{"outer": m, "out": []interface{}{m}}})
	}
	for _, d := range dids {
		var req model.CreateRequest
		world.Must(json.Unmarshal(d.Create.Request, &req))
		contents = append(contents, content{"suffix-data", req.SuffixData}, content{"delta", req.Delta})
		// suffix data whose optional members hold values that a non-canonical JSON encoder writes differently
		// (HTML characters, a small number, nested members in non-alphabetical order)
		for oi, origin := range []interface{}{"https://a.example/?x=1&y=<2>", 1e-7, map[string]interface{}{"b": "<", "a": []interface{}{"&", 1e21}}, "\u2028"} {
			sd := *req.SuffixData
			sd.AnchorOrigin = origin
			if oi%2 == 0 {
				sd.Type = "R&D"
			}
			contents = append(contents, content{"suffix-data", &sd})
		}
	}
	nr := 20
	if tier == "thorough" {
		nr = 300
	}
	for i := 0; i < nr; i++ {
		contents = append(contents, content{"random-value", randomValue(c.rng, 3)})
	}
	seen := map[string]string{}
	for _, ct := range contents {
		canon, err := canonicalizer.MarshalCanonical(ct.val)
		if err != nil {
			continue
		}
		base := func() map[string]interface{} {
			return map[string]interface{}{"content": ct.label, "canonical": string(canon)}
		}
		for _, code := range codes {
			var s string
			var e error
			pan := guard(func() { s, e = hashing.CalculateModelMultihash(ct.val, code) })
			d := base()
			d["code"] = code
			c.hcase("calculate", emit.App("HCalc", emit.Hex(canon), emit.N(uint64(code))), emit.App("HStr", optStr(s, e)), d, pan, e == nil)
			if e == nil && (code == world.SHA256 || code == world.SHA512) {
				// binding: equal multihash implies equal canonical content
				if prev, ok := seen[s]; ok && prev != string(canon) {
					c.r.Direct = append(c.r.Direct, out.Direct{Oracle: "hash_binds_content", What: "two contents share multihash " + s, Case: d})
				}
				seen[s] = string(canon)
				if ref := refMultihash(canon, byte(code)); ref != s {
					c.r.Direct = append(c.r.Direct, out.Direct{Oracle: "multihash_is_hash_of_canonical_form", What: "got " + s + " want " + ref, Case: d})
				}
				muts := mhMutations(s, c.rng)
				names := make([]string, 0, len(muts))
				for n := range muts {
					names = append(names, n)
				}
				sort.Strings(names)
				for _, n := range names {
					mh := muts[n]
					var ve error
					pan := guard(func() { ve = hashing.IsValidModelMultihash(ct.val, mh) })
					dd := base()
					dd["multihash"], dd["mutation"], dd["valid"] = mh, n, ve == nil
					c.r.Count("multihash-mutation", n)
					c.r.Count("is-valid", fmt.Sprint(ve == nil))
					c.hcase("is-valid", emit.App("HValid", emit.Hex(canon), emit.Hex([]byte(mh))), emit.App("HBool", emit.Bool(ve == nil)), dd, pan, true)
					if ve == nil && mh != s {
						c.r.Direct = append(c.r.Direct, out.Direct{Oracle: "only_the_computed_multihash_validates", What: n + " accepted: " + mh, Case: dd})
					}
					var code64 uint64
					var ce error
					pan = guard(func() { code64, ce = hashing.GetMultihashCode(mh) })
					obs := "None"
					if ce == nil {
						obs = "(Some " + emit.N(code64) + ")"
					}
					c.hcase("code", emit.App("HCode", emit.Hex([]byte(mh))), emit.App("HNum", obs), dd, pan, true)
					for _, set := range [][]uint{{world.SHA256}, {world.SHA256, world.SHA512}, {}} {
						var ok bool
						pan = guard(func() { ok = hashing.IsComputedUsingMultihashAlgorithms(mh, set) })
						c.hcase("computed-using", emit.App("HComputedUsing", emit.Hex([]byte(mh)), nlist(set)), emit.App("HBool", emit.Bool(ok)), dd, pan, true)
					}
					var cm string
					pan = guard(func() { cm, ce = commitment.GetCommitmentFromRevealValue(mh) })
					c.hcase("commitment-from-reveal", emit.App("HFromReveal", emit.Hex([]byte(mh))), emit.App("HStr", optStr(cm, ce)), dd, pan, true)
				}
			}
		}
		if k, ok := ct.val.(*jws.JWK); ok {
			for _, code := range codes {
				var cm, rv, cm2 string
				var e1, e2, e3 error
				pan := guard(func() {
					cm, e1 = commitment.GetCommitment(k, code)
					rv, e2 = commitment.GetRevealValue(k, code)
					if e2 == nil {
						cm2, e3 = commitment.GetCommitmentFromRevealValue(rv)
					}
				})
				d := base()
				d["code"] = code
				c.hcase("commitment", emit.App("HCommit", emit.Hex(canon), emit.N(uint64(code))), emit.App("HStr", optStr(cm, e1)), d, pan, e1 == nil)
				c.hcase("reveal", emit.App("HReveal", emit.Hex(canon), emit.N(uint64(code))), emit.App("HStr", optStr(rv, e2)), d, "", e2 == nil)
				if e1 == nil && e2 == nil && (e3 != nil || cm != cm2) {
					c.r.Direct = append(c.r.Direct, out.Direct{Oracle: "commitment_is_hash_of_reveal", What: cm + " vs " + cm2, Case: d})
				}
			}
		}
		if sd, ok := ct.val.(*model.SuffixDataModel); ok {
			for _, algs := range [][]uint{{world.SHA256}, {world.SHA512, world.SHA256}, {}, {999}} {
				var s string
				var e error
				pan := guard(func() { s, e = model.GetUniqueSuffix(sd, algs) })
				d := base()
				d["algs"] = algs
				c.hcase("unique-suffix", emit.App("HSuffix", emit.Hex(canon), nlist(algs)), emit.App("HStr", optStr(s, e)), d, pan, e == nil)
				// docutil.CalculateID is the same hash with the namespace in front
				if e == nil && len(algs) > 0 {
					id, ie := docutil.CalculateID("did:sidetree", sd, algs[0])
					if ie != nil || id != "did:sidetree:"+s {
						c.r.Direct = append(c.r.Direct, out.Direct{Oracle: "calculate_id_is_namespace_plus_unique_suffix",
							What: fmt.Sprintf("CalculateID = %q (err %v), unique suffix = %q", id, ie, s), Case: d})
					}
				}
			}
		}
		// value-only dependence: re-serialisations of the same JSON value
		var generic interface{}
		raw, _ := json.Marshal(ct.val)
		world.Must(json.Unmarshal(raw, &generic))
		ref, err := hashing.CalculateModelMultihash(raw, world.SHA256)
		if err != nil {
			continue
		}
		// the whole path inside the model: canonicalizer (C07 model) then multihash, on two spellings of the value
		for _, style := range []int{0, 1 + c.rng.Intn(15)} {
			txt := reserialise(generic, c.rng, style)
			got, err := hashing.CalculateModelMultihash(txt, world.SHA256)
			d := base()
			d["text"] = string(txt)
			c.hcase("text-hash", emit.App("HText", emit.Hex(txt), emit.N(uint64(world.SHA256))), emit.App("HStr", optStr(got, err)), d, "", true)
		}
		for style := 1; style < 16; style++ {
			txt := reserialise(generic, c.rng, style)
			var back interface{}
			if json.Unmarshal(txt, &back) != nil || !reflect.DeepEqual(back, generic) {
				c.r.Count("reserialisation", "generator-skip")
				continue
			}
			c.r.Count("reserialisation", fmt.Sprintf("style-%02d", style))
			got, err := hashing.CalculateModelMultihash(txt, world.SHA256)
			d := base()
			d["text"], d["style"] = string(txt), style
			if err != nil || got != ref {
				c.r.Direct = append(c.r.Direct, out.Direct{Oracle: "hash_depends_only_on_json_value", What: fmt.Sprintf("re-serialised text hashes to %q (err %v), original to %q", got, err, ref), Case: d})
			}
			if k, ok := ct.val.(*jws.JWK); ok {
				var k2 jws.JWK
				if json.Unmarshal(txt, &k2) == nil {
					a, _ := commitment.GetCommitment(k, world.SHA256)
					b, e := commitment.GetCommitment(&k2, world.SHA256)
					if e != nil || a != b {
						c.r.Direct = append(c.r.Direct, out.Direct{Oracle: "hash_depends_only_on_json_value", What: "commitment moved under re-serialisation of the JWK", Case: d})
					}
				}
			}
		}
	}
	// numbers that differ in value must hash differently (the hash is over the exact JCS number form)
	for _, pair := range [][2]string{{"16777216", "16777217"}, {"0.1", "0.10000000149011612"}, {"1e21", "1000000000000000100000"},
		{"9007199254740992", "9007199254740994"}, {"1.7976931348623157e308", "1.7976931348623155e308"}, {"5e-324", "1e-323"}, {"0.30000000000000004", "0.3"}} {
		var hs [2]string
		for i, n := range pair {
			txt := []byte(`{"n":` + n + `}`)
			var err error
			hs[i], err = hashing.CalculateModelMultihash(txt, world.SHA256)
			d := map[string]interface{}{"text": string(txt)}
			c.hcase("text-hash", emit.App("HText", emit.Hex(txt), emit.N(uint64(world.SHA256))), emit.App("HStr", optStr(hs[i], err)), d, "", true)
		}
		if hs[0] == hs[1] {
			c.r.Direct = append(c.r.Direct, out.Direct{Oracle: "hash_binds_content", What: "different numbers " + pair[0] + " / " + pair[1] + " share a multihash",
				Case: map[string]interface{}{"a": pair[0], "b": pair[1]}})
		}
	}
	// base64url layer
	nb := 150
	if tier == "thorough" {
		nb = 3000
	}
	const alpha = "ABCDEFGHIJKLMNOPQRSTUVWXYZabcdefghijklmnopqrstuvwxyz0123456789-_"
	for i := 0; i < nb; i++ {
		n := c.rng.Intn(12)
		b := make([]byte, n)
		for j := range b {
			switch {
			case c.rng.Intn(25) == 0:
				b[j] = "=+/ \n.\x00\xff"[c.rng.Intn(8)]
			default:
				b[j] = alpha[c.rng.Intn(64)]
			}
		}
		dec, err := encoder.DecodeString(string(b))
		c.r.Count("b64-decode", fmt.Sprint(err == nil))
		c.hcase("b64-decode", emit.App("HB64Decode", emit.Hex(b)), emit.App("HStr", optStr(string(dec), err)), map[string]interface{}{"text": string(b)}, "", true)
		rb := make([]byte, c.rng.Intn(10))
		c.rng.Read(rb)
		c.hcase("b64-encode", emit.App("HB64Encode", emit.Hex(rb)), emit.App("HStr", optStr(encoder.EncodeToString(rb), nil)), map[string]interface{}{"bytes": fmt.Sprintf("%x", rb)}, "", true)
	}
}

// ---- long-form DIDs ----

type lfVariant struct {
	label string
	did   string
	// exempt from the "altered is rejected" oracle: suffix and state are still self-consistent
	// (a re-derived suffix = another DID, or extra path segments before the suffix)
	rederived bool
}

func longFormOf(createReq []byte) (suffix, seg string, generic map[string]interface{}) {
	var g map[string]interface{}
	world.Must(json.Unmarshal(createReq, &g))
	delete(g, "type")
	b, err := canonicalizer.MarshalCanonical(g)
	world.Must(err)
	return "", encoder.EncodeToString(b), g
}

func clone(g map[string]interface{}) map[string]interface{} {
	b, _ := json.Marshal(g)
	var o map[string]interface{}
	world.Must(json.Unmarshal(b, &o))
	return o
}

func segOfJSON(text []byte) string { return encoder.EncodeToString(text) }

func segOfValue(v interface{}) string {
	b, err := canonicalizer.MarshalCanonical(v)
	world.Must(err)
	return encoder.EncodeToString(b)
}

func lfVariants(d, other *world.DID, rng *rand.Rand, tier string) []lfVariant {
	_, seg, g := longFormOf(d.Create.Request)
	_, oseg, og := longFormOf(other.Create.Request)
	sfx := d.Suffix
	mk := func(s, sg string) string { return ns08 + ":" + s + ":" + sg }
	vs := []lfVariant{{"genuine", mk(sfx, seg), false}, {"short-form", ns08 + ":" + sfx, false}}
	add := func(label, did string) { vs = append(vs, lfVariant{label, did, false}) }
	const alpha = "ABCDEFGHIJKLMNOPQRSTUVWXYZabcdefghijklmnopqrstuvwxyz0123456789-_"
	// character substitutions
	positions := rng.Perm(len(seg))
	np, alts := 25, 1
	if tier == "thorough" {
		np, alts = len(seg), 2
	}
	for _, i := range positions[:np] {
		for a := 0; a < alts; a++ {
			b := []byte(seg)
			for {
				ch := alpha[rng.Intn(64)]
				if ch != b[i] {
					b[i] = ch
					break
				}
			}
			add("segment:char-substituted", mk(sfx, string(b)))
		}
	}
	add("segment:truncated-1", mk(sfx, seg[:len(seg)-1]))
	add("segment:truncated-4", mk(sfx, seg[:len(seg)-4]))
	add("segment:appended", mk(sfx, seg+"A"))
	add("segment:padded", mk(sfx, seg+"="))
	add("segment:empty", mk(sfx, ""))
	add("segment:garbage", mk(sfx, "!!!"))
	add("segment:other-did", mk(sfx, oseg))
	if len(seg)%4 != 0 {
		v := strings.IndexByte(alpha, seg[len(seg)-1])
		add("segment:trailing-bits", mk(sfx, seg[:len(seg)-1]+string(alpha[v|1])))
	}
	// JSON level: same value, other text
	canon, _ := encoder.DecodeString(seg)
	add("json:leading-space", mk(sfx, segOfJSON(append([]byte(" "), canon...))))
	add("json:trailing-newline", mk(sfx, segOfJSON(append(append([]byte{}, canon...), '\n'))))
	for style := 1; style < 16; style++ {
		txt := reserialise(map[string]interface{}(g), rng, style)
		if !bytes.Equal(txt, canon) {
			add(fmt.Sprintf("json:reserialised-%02d", style), mk(sfx, segOfJSON(txt)))
		}
	}
	// members reordered (suffixData first)
	dj, _ := canonicalizer.MarshalCanonical(g["delta"])
	sj, _ := canonicalizer.MarshalCanonical(g["suffixData"])
	add("json:members-reordered", mk(sfx, segOfJSON([]byte(`{"suffixData":`+string(sj)+`,"delta":`+string(dj)+`}`))))
	add("json:duplicate-member", mk(sfx, segOfJSON([]byte(`{"delta":`+string(dj)+`,"delta":`+string(dj)+`,"suffixData":`+string(sj)+`}`))))
	// JSON level: other value
	alt := func(label string, f func(m map[string]interface{})) {
		m := clone(g)
		f(m)
		add(label, mk(sfx, segOfValue(m)))
	}
	alt("value:extra-member", func(m map[string]interface{}) { m["extra"] = "x" })
	alt("value:type-create", func(m map[string]interface{}) { m["type"] = "create" })
	alt("value:type-update", func(m map[string]interface{}) { m["type"] = "update" })
	alt("value:type-free-text", func(m map[string]interface{}) { m["type"] = "anything at all" })
	alt("value:delta-other", func(m map[string]interface{}) { m["delta"] = og["delta"] })
	alt("value:delta-commitment-other", func(m map[string]interface{}) {
		m["delta"].(map[string]interface{})["updateCommitment"] = og["delta"].(map[string]interface{})["updateCommitment"]
	})
	alt("value:delta-patch-edited", func(m map[string]interface{}) {
		ps := m["delta"].(map[string]interface{})["patches"].([]interface{})
		p0 := ps[0].(map[string]interface{})
		if ks, ok := p0["publicKeys"].([]interface{}); ok && len(ks) > 0 {
			ks[0].(map[string]interface{})["id"] = "intruder"
		} else {
			p0["x"] = 1
		}
	})
	alt("value:delta-null", func(m map[string]interface{}) { m["delta"] = nil })
	alt("value:delta-missing", func(m map[string]interface{}) { delete(m, "delta") })
	alt("value:suffix-data-other", func(m map[string]interface{}) { m["suffixData"] = og["suffixData"] })
	alt("value:recovery-commitment-other", func(m map[string]interface{}) {
		m["suffixData"].(map[string]interface{})["recoveryCommitment"] = og["suffixData"].(map[string]interface{})["recoveryCommitment"]
	})
	alt("value:delta-hash-other", func(m map[string]interface{}) {
		m["suffixData"].(map[string]interface{})["deltaHash"] = og["suffixData"].(map[string]interface{})["deltaHash"]
	})
	alt("value:suffix-data-extra-member", func(m map[string]interface{}) { m["suffixData"].(map[string]interface{})["type"] = "x" })
	alt("value:suffix-data-null", func(m map[string]interface{}) { m["suffixData"] = nil })
	alt("value:suffix-data-missing", func(m map[string]interface{}) { delete(m, "suffixData") })
	add("value:empty-object", mk(sfx, segOfJSON([]byte(`{}`))))
	add("value:null", mk(sfx, segOfJSON([]byte(`null`))))
	add("value:array", mk(sfx, segOfJSON([]byte(`[]`))))
	add("value:string", mk(sfx, segOfJSON([]byte(`"x"`))))
	// consistent re-derivation: delta edited and delta hash + suffix recomputed = another DID
	{
		m := clone(g)
		m["delta"] = og["delta"]
		sd := m["suffixData"].(map[string]interface{})
		sd["deltaHash"] = og["suffixData"].(map[string]interface{})["deltaHash"]
		sdc, _ := canonicalizer.MarshalCanonical(sd)
		nsfx := refMultihash(sdc, byte(d.Code))
		vs = append(vs, lfVariant{"rederived:delta-and-hash-and-suffix", mk(nsfx, segOfValue(m)), true})
		add("rederived:delta-and-hash-only", mk(sfx, segOfValue(m)))
	}
	// DID level
	b := []byte(sfx)
	i := rng.Intn(len(b))
	if b[i] == 'A' {
		b[i] = 'B'
	} else {
		b[i] = 'A'
	}
	add("did:suffix-char-substituted", mk(string(b), seg))
	add("did:suffix-of-other-did", mk(other.Suffix, seg))
	add("did:suffix-empty", mk("", seg))
	add("did:suffix-truncated", mk(sfx[:len(sfx)-1], seg))
	add("did:suffix-first-char-deleted", mk(sfx[1:], seg))
	add("did:suffix-tail", mk(sfx[len(sfx)-10:], seg))
	add("did:suffix-last-char", mk(sfx[len(sfx)-1:], seg))
	add("did:suffix-extended-front", mk("x"+sfx, seg))
	add("did:suffix-extended-back", mk(sfx+"A", seg))
	add("did:suffix-case-changed", mk(strings.ToLower(sfx), seg))
	add("did:extra-segment", ns08+":"+sfx+":"+seg+":"+seg)
	vs = append(vs, lfVariant{"did:hint-segment", ns08 + ":hint:" + sfx + ":" + seg, true}) // a legitimate form: same suffix, same state
	add("did:namespace-repeated", ns08+":"+ns08+":"+sfx)
	vs = append(vs, lfVariant{"did:namespace-repeated-long", ns08 + ":" + ns08 + ":" + sfx + ":" + seg, true})
	add("did:trailing-colon", ns08+":"+sfx+":"+seg+":")
	add("did:other-namespace", "did:other:"+sfx+":"+seg)
	return vs
}

type lfConfig struct {
	name string
	p    protocol.Protocol
}

func (c *c08) longForm(dids []*world.DID, tier string) {
	base := world.DefaultProtocol()
	base.Patches = []string{"replace", "add-public-keys", "remove-public-keys", "add-services", "remove-services", "ietf-json-patch"}
	originOK := func(interface{}) bool { return true }
	for di, d := range dids {
		other := dids[(di+1)%len(dids)]
		for _, v := range lfVariants(d, other, c.rng, tier) {
			base := base
			if d.Code == world.SHA512 {
				base.MultihashAlgorithms = []uint{world.SHA512, world.SHA256}
			}
			cfgs := []lfConfig{{"base", base}}
			if !strings.HasPrefix(v.label, "segment:char") {
				cr, _ := canonicalizer.MarshalCanonical(json.RawMessage(d.Create.Request))
				mkc := func(name string, f func(p *protocol.Protocol)) {
					p := base
					f(&p)
					cfgs = append(cfgs, lfConfig{name, p})
				}
				if v.label == "genuine" || tier == "thorough" {
					mkc("opsize=len", func(p *protocol.Protocol) { p.MaxOperationSize = uint(len(cr)) })
					mkc("opsize=len-1", func(p *protocol.Protocol) { p.MaxOperationSize = uint(len(cr) - 1) })
					dl := canonicalDeltaLen(d.Create.Request)
					mkc("deltasize=len", func(p *protocol.Protocol) { p.MaxDeltaSize = uint(dl) })
					mkc("deltasize=len-1", func(p *protocol.Protocol) { p.MaxDeltaSize = uint(dl - 1) })
					mkc("sha256-only", func(p *protocol.Protocol) { p.MultihashAlgorithms = []uint{world.SHA256} })
					mkc("sha512-first", func(p *protocol.Protocol) { p.MultihashAlgorithms = []uint{world.SHA512, world.SHA256} })
					mkc("patches-minimal", func(p *protocol.Protocol) { p.Patches = []string{"replace"} })
				}
			}
			for _, cfg := range cfgs {
				c.longFormCase(d, v, cfg, originOK)
			}
		}
	}
}

func (c *c08) longFormCase(d *world.DID, v lfVariant, cfg lfConfig, originOK func(interface{}) bool) {
	ver := world.NewVersion("1.0", cfg.p, world.VersionOpts{})
	pc := &world.Client{Versions: []*world.Version{ver}}
	proc := processor.New("verif", world.EmptyStore{}, pc)
	dh := dochandler.New(ns08, nil, pc, world.NoopWriter{}, proc, world.NoopMetrics{})

	// facts
	did := v.did
	hasState := strings.Contains(strings.ReplaceAll(did, ns08+":", ""), ":")
	seg := did[strings.LastIndex(did, ":")+1:]
	jsonOK := false
	var reenc, reqBytes []byte
	if dec, err := encoder.DecodeString(seg); err == nil {
		var cr model.CreateRequest
		if json.Unmarshal(dec, &cr) == nil {
			if b, err := canonicalizer.MarshalCanonical(cr); err == nil {
				jsonOK, reenc = true, b
				cr.Operation = "create"
				reqBytes, _ = canonicalizer.MarshalCanonical(cr)
			}
		}
	}
	applies := true
	if reqBytes != nil {
		_ = guard(func() {
			op, err := ver.Parser.Parse(ns08, reqBytes)
			if err != nil {
				return
			}
			applies = false
			rm, err := dochandler.GetCreateResult(op, ver)
			if err != nil {
				return
			}
			docBytes, err := canonicalizer.MarshalCanonical(rm.Doc)
			if err != nil || ver.Validator.IsValidOriginalDocument(docBytes) != nil {
				return
			}
			ti := dochandler.GetTransformationInfoForUnpublished(ns08, "", "", op.UniqueSuffix, seg)
			if _, err := ver.Transf.TransformDocument(rm, ti); err != nil {
				return
			}
			applies = true
		})
	}
	view := emit.App("Build_longform_view", emit.Hex([]byte(did)), emit.Bool(hasState), emit.Bool(jsonOK), emit.Hex(reenc),
		world.ReqView(reqBytes, originOK), emit.Bool(applies))

	// observation
	outcome, observed := "rejected", "LReject"
	var resErr error
	var short string
	var createReq []byte
	pan := guard(func() {
		if !strings.HasPrefix(did, ns08+":") {
			_, resErr = dh.ResolveDocument(did)
			return
		}
		var perr error
		short, createReq, perr = ver.Parser.ParseDID(ns08, did)
		res, err := dh.ResolveDocument(did)
		resErr = err
		switch {
		case perr == nil && createReq == nil:
			outcome, observed = "short-form", "LShort"
			if err == nil {
				c.r.Direct = append(c.r.Direct, out.Direct{Oracle: "unanchored_short_form_does_not_resolve", What: did, Case: map[string]interface{}{"did": did}})
			}
		case err == nil && res != nil:
			outcome = "resolved"
			observed = emit.App("LAccept", emit.Hex([]byte(short[strings.LastIndex(short, ":")+1:])))
		}
	})
	desc := map[string]interface{}{"label": v.label, "config": cfg.name, "did": did, "outcome": outcome, "code": d.Code}
	if resErr != nil {
		desc["error"] = resErr.Error()
	}
	if pan != "" {
		desc["panic"], outcome = pan, "panic"
		c.r.Direct = append(c.r.Direct, out.Direct{Oracle: "resolution_never_panics", What: pan, Case: desc})
	}
	c.r.Count("long-form:"+strings.SplitN(v.label, ":", 2)[0], outcome)
	c.r.Count("long-form-config", cfg.name+":"+outcome)
	// self-certification oracle, recomputed with the standard library only
	if outcome == "resolved" {
		if why := selfCertified(did); why != "" {
			c.r.Direct = append(c.r.Direct, out.Direct{Oracle: "resolved_long_form_is_self_certified", What: why, Case: desc})
		}
		if v.label != "genuine" && !v.rederived {
			if strings.HasPrefix(v.label, "value:type-") {
				// known finding F18: a "type" member added to the embedded initial state is accepted
				desc["class"] = "long_form_initial_state_with_an_added_type_member_resolves"
			}
			c.r.Direct = append(c.r.Direct, out.Direct{Oracle: "altered_long_form_is_rejected", What: v.label + " resolved", Case: desc})
		}
	}
	if v.label == "genuine" && cfg.name == "base" && outcome != "resolved" {
		c.r.Direct = append(c.r.Direct, out.Direct{Oracle: "genuine_long_form_resolves", What: fmt.Sprint(resErr), Case: desc})
	}
	if !strings.HasPrefix(did, ns08+":") {
		return // outside the model: refused by the namespace check of the handler
	}
	c.r.Add(c.gl, emit.App("Build_lcase", world.ProtoGallina(cfg.p), view, observed, emit.Bool(pan != "")), desc, v.label+"|"+cfg.name+"|"+did, true)
}

// selfCertified re-derives the three conditions of the property from the DID text alone.
func selfCertified(did string) string {
	i := strings.LastIndex(did, ":")
	seg, short := did[i+1:], did[:i]
	sfx := short[strings.LastIndex(short, ":")+1:]
	dec, err := base64.RawURLEncoding.Strict().DecodeString(seg)
	if err != nil {
		return "segment is not strict base64url: " + err.Error()
	}
	var g map[string]json.RawMessage
	if err := json.Unmarshal(dec, &g); err != nil {
		return "segment is not a JSON object"
	}
	for k := range g {
		if k != "delta" && k != "suffixData" && k != "type" {
			return "unexpected member " + k
		}
	}
	canon, err := canonicalizer.MarshalCanonical(dec)
	if err != nil || !bytes.Equal(canon, dec) {
		return "initial state is not in canonical form"
	}
	sd, err := canonicalizer.MarshalCanonical([]byte(g["suffixData"]))
	if err != nil {
		return "suffix data unreadable"
	}
	raw, err := base64.RawURLEncoding.DecodeString(sfx)
	if err != nil || len(raw) < 2 {
		return "suffix is not a multihash"
	}
	if refMultihash(sd, raw[0]) != sfx {
		return "suffix is not the hash of the suffix data"
	}
	var sdm struct {
		DeltaHash string `json:"deltaHash"`
	}
	if json.Unmarshal(sd, &sdm) != nil {
		return "suffix data unreadable"
	}
	dl, err := canonicalizer.MarshalCanonical([]byte(g["delta"]))
	if err != nil {
		return "delta unreadable"
	}
	hraw, err := base64.RawURLEncoding.DecodeString(sdm.DeltaHash)
	if err != nil || len(hraw) < 2 || refMultihash(dl, hraw[0]) != sdm.DeltaHash {
		return "delta does not match the delta hash"
	}
	return ""
}

func runC08(c *ctx) error {
	r := out.New(c.out)
	x := &c08{r: r, rng: rand.New(rand.NewSource(c.seed))}
	x.gh = r.Group("cases_C08_hash", []string{"Base.Bytes", "Hash.Multihash", "Hash.ValueOnly", "Corr.Hash"}, "hcase", "h_mismatches")
	x.gl = r.Group("cases_C08_longform", []string{"Base.Bytes", "Resolve.Op", "Jws.Compact", "Parser.Accept", "Parser.LongForm", "Corr.Hash"}, "lcase", "l_mismatches")
	kp := world.NewKeyPool(20)
	tb := world.NewTable()
	nd := 3
	if c.tier == "thorough" {
		nd = 12
	}
	var dids []*world.DID
	for i := 0; i < nd; i++ {
		code := uint(world.SHA256)
		if i%3 == 2 {
			code = world.SHA512
		}
		// distinct DIDs (two DIDs built from the same keys are the same DID, and "the other DID's state" would be no alteration)
		for {
			d := world.NewDID(kp, tb, x.rng, code)
			if i%3 == 1 {
				// an anchor origin that a normalising parser might touch (trailing slash, upper case, escapes): the suffix is
				// the hash of the suffix data exactly as submitted
				sp := d.Create.Spec
				sp.Origin = []interface{}{"https://Origin.Example/path/", "https://origin.example/a%2Fb/"}[len(dids)%2]
				d.Create = world.Build(sp)
				d.Suffix = d.Create.UniqueSuffix
			}
			dup := false
			for _, o := range dids {
				// (also when only one commitment coincides: "the other DID's delta / recovery commitment" must be another value)
				if o.Suffix == d.Suffix || o.Create.Spec.NextUpd == d.Create.Spec.NextUpd || o.Create.Spec.NextRec == d.Create.Spec.NextRec {
					dup = true
				}
			}
			if !dup {
				dids = append(dids, d)
				break
			}
		}
	}
	x.hashFunctions(kp, dids, c.tier)
	x.longForm(dids, c.tier)
	return r.Finish(120)
}
