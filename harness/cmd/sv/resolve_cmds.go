package main

import (
	"fmt"
	"net/http/httptest"
	"net/url"
	"sort"
	"strings"
	"time"

	"github.com/gorilla/mux"
	"github.com/trustbloc/sidetree-core-go/pkg/document"
	restdochandler "github.com/trustbloc/sidetree-core-go/pkg/restapi/dochandler"

	"github.com/trustbloc/sidetree-core-go/pkg/api/operation"

	"verif/harness/internal/out"
	"verif/harness/internal/world"
)

func init() {
	commands["c01"] = runC01
	commands["c02"] = runC02
	commands["c04"] = runC04
	commands["c06"] = runC06
	commands["c12"] = runC12
}

var resolveImports = []string{"Resolve.Op", "Resolve.Process", "Corr.Resolve"}

// stateKey renders every state field except the operation lists.
func stateKey(o world.Outcome) string {
	return fmt.Sprintf("err=%v panic=%v doc=%v/%v upd=%d rec=%d deact=%v last=(%d,%d) created=%d updated=%d vid=%d canon=%d origin=%d",
		o.Err != "", o.Panic != "", o.HasDoc, o.Doc, o.Upd, o.Rec, o.Deact, o.LastT, o.LastN, o.Created, o.Updated, o.VID, o.Canon, o.Origin)
}

func coreKey(o world.Outcome) string {
	return fmt.Sprintf("err=%v panic=%v doc=%v/%v upd=%d rec=%d deact=%v", o.Err != "", o.Panic != "", o.HasDoc, o.Doc, o.Upd, o.Rec, o.Deact)
}

func countLetters(r *out.Run, evs []world.Event) {
	r.Count("length", fmt.Sprint(len(evs)))
	for _, e := range evs {
		parts := strings.SplitN(e.Label, ":", 3)
		l := parts[0]
		if l == "forged" && len(parts) == 3 {
			l = "forged:" + parts[2]
		}
		r.Count("letters", l)
	}
}

func outcomeBucket(oc world.Outcome) string {
	switch {
	case oc.Panic != "":
		return "panic"
	case oc.Err != "":
		return oc.Err
	case oc.Deact:
		return "deactivated"
	}
	return fmt.Sprintf("ok(doc=%d)", len(oc.Doc))
}

// ---------------------------------------------------------------------------------------------
// C01: forged operations and later creates are inert.
func runC01(c *ctx) error {
	r := out.New(c.out)
	g := r.Group("cases_C01", resolveImports, "rcase", "mismatches")
	env := newResolveEnv(c.seed, 40)
	n := 900
	if c.tier == "thorough" {
		n = 25000
	}
	pairs := 0
	for i := 0; i < n; i++ {
		code := uint(world.SHA256)
		if i%4 == 3 {
			code = world.SHA512
		}
		d := world.NewDID(env.kp, env.tb, env.rng, code)
		o := world.GenOpts{MinLen: 2, MaxLen: 10, Forged: true, DupCreates: true, EndDeactivate: 10, TimeDelta: env.dl, SharedTime: i%3 == 0}
		if i%9 == 8 {
			o.MaxLen = 26
		}
		evs := d.GenEvents(o)
		pub, _ := d.Place(evs, o)
		var legit []world.Placed
		extras := 0
		for k, p := range pub {
			if evs[k].Legit {
				legit = append(legit, p)
			} else {
				extras++
			}
		}
		with := &world.History{Level: 1, Pub: pub}
		without := &world.History{Level: 1, Pub: legit}
		if i%3 == 1 {
			// part of the history reaches the processor through WithAdditionalOperations
			r.Count("via_additional_operations_option", fmt.Sprint(with.ViaOption(env.rng) > 0))
		}
		ocW := with.Run(env.pc, env.tb, oidOf)
		ocO := without.Run(env.pc, env.tb, oidOf)
		countLetters(r, evs)
		r.Count("extras", fmt.Sprint(extras))
		r.Count("outcome", outcomeBucket(ocW))
		r.Count("key_type_of_recovery_key", d.Keys[0].Type.Crv())
		desc := descHistory(with, evs, ocW)
		r.Add(g, with.CaseGallina(env.tb, env.md, ocW), desc, labels(evs)+coreKey(ocW), extras > 0)
		pairs++
		if stateKey(ocW) != stateKey(ocO) {
			r.Direct = append(r.Direct, out.Direct{Oracle: "forged_and_later_creates_inert",
				What: "with extras: " + stateKey(ocW) + " ; without: " + stateKey(ocO), Case: desc})
		}
	}
	r.Extra["metamorphic_pairs"] = pairs
	return r.Finish(250)
}

// ---------------------------------------------------------------------------------------------
// C02: store order is irrelevant, earliest anchored wins.
func permutations(n int, f func([]int) bool) {
	p := make([]int, n)
	for i := range p {
		p[i] = i
	}
	var rec func(k int) bool
	rec = func(k int) bool {
		if k == n {
			return f(p)
		}
		for i := k; i < n; i++ {
			p[k], p[i] = p[i], p[k]
			if !rec(k + 1) {
				return false
			}
			p[k], p[i] = p[i], p[k]
		}
		return true
	}
	rec(0)
}

func runC02(c *ctx) error {
	r := out.New(c.out)
	g := r.Group("cases_C02", resolveImports, "rcase", "mismatches")
	gm := r.Group("cases_C02_meta", []string{"Resolve.Op", "Resolve.Process", "Corr.Resolve", "Corr.MetaOps"}, "mcase", "meta_mismatches")
	env := newResolveEnv(c.seed, 40)
	n := 260
	if c.tier == "thorough" {
		n = 6000
	}
	perms, nonmono := 0, 0
	for i := 0; i < n; i++ {
		d := world.NewDID(env.kp, env.tb, env.rng, world.SHA256)
		o := world.GenOpts{MinLen: 1, MaxLen: 4, Forks: true, DupCreates: i%2 == 0, NonMonotone: true, SharedTime: true,
			Unpublished: i % 3, EndDeactivate: 10, TimeDelta: env.dl}
		if i%6 == 5 {
			o.MaxLen = 7
		}
		evs := d.GenEvents(o)
		// more competitors: every legit non-create op gets 0-2 extra competitors right after it
		pub, unpub := d.Place(evs, o)
		all := append(append([]world.Placed{}, pub...), unpub...)
		for a := 1; a < len(all); a++ {
			for b := 0; b < a; b++ {
				if all[b].Time < all[a].Time && all[b].Num > all[a].Num || all[b].Time > all[a].Time && all[b].Num < all[a].Num {
					nonmono++
					a = len(all)
					break
				}
			}
		}
		countLetters(r, evs)
		var ref *world.Outcome
		var refH *world.History
		tryPerm := func(pp, up []world.Placed) {
			h := &world.History{Level: 1, Pub: pp, Unpub: up}
			if perms%3 == 1 {
				// part of the (permuted) history reaches the processor through WithAdditionalOperations
				r.Count("via_additional_operations_option", fmt.Sprint(h.ViaOption(env.rng) > 0))
			}
			oc := h.Run(env.pc, env.tb, oidOf)
			perms++
			desc := descHistory(h, evs, oc)
			r.Add(g, h.CaseGallina(env.tb, env.md, oc), desc, labels(evs)+fmt.Sprint(orderKey(pp), orderKey(up)), len(pp) > 2)
			key := stateKey(oc) + fmt.Sprint(oc.Pub, oc.Unpub)
			if ref == nil {
				ref, refH = &oc, h
				r.Count("outcome", outcomeBucket(oc))
				// metadata operation lists for permuted input
				for _, mp := range [][]world.Placed{pp, world.Shuffle(env.rng, pp)} {
					ids, err := world.MetadataPublished(mp)
					r.Add(gm, world.MetaCaseGallina(env.tb, env.md, mp, ids, err), map[string]interface{}{"kind": "metadata", "order": orderKey(mp), "impl": ids},
						"meta"+fmt.Sprint(orderKey(mp)), len(mp) > 1)
				}
			} else if key != stateKey(*ref)+fmt.Sprint(ref.Pub, ref.Unpub) {
				r.Direct = append(r.Direct, out.Direct{Oracle: "store_order_irrelevant",
					What: fmt.Sprintf("order %v: %s pub=%v unpub=%v ; order %v: %s pub=%v unpub=%v", orderKey(refH.Pub), stateKey(*ref), ref.Pub, ref.Unpub,
						orderKey(pp), stateKey(oc), oc.Pub, oc.Unpub), Case: desc})
			}
		}
		if len(pub) <= 5 {
			permutations(len(pub), func(p []int) bool {
				pp := make([]world.Placed, len(pub))
				for k, idx := range p {
					pp[k] = pub[idx]
				}
				tryPerm(pp, world.Shuffle(env.rng, unpub))
				return true
			})
		} else {
			for k := 0; k < 30; k++ {
				tryPerm(world.Shuffle(env.rng, pub), world.Shuffle(env.rng, unpub))
			}
		}
	}
	r.Extra["store_orders_tried"] = perms
	r.Extra["histories"] = n
	r.Extra["histories_with_non_monotone_pair"] = nonmono
	return r.Finish(400)
}

func orderKey(ps []world.Placed) []int64 {
	var o []int64
	for _, p := range ps {
		o = append(o, p.OID)
	}
	return o
}

// ---------------------------------------------------------------------------------------------
// C04: deactivation terminal, recover supersedes.
func runC04(c *ctx) error {
	r := out.New(c.out)
	g := r.Group("cases_C04", resolveImports, "rcase", "mismatches")
	gd := r.Group("cases_C04_intake", []string{"Resolve.Op", "Resolve.Process", "Corr.Resolve", "Corr.Intake"}, "dcase", "dmismatches")
	env := newResolveEnv(c.seed, 40)
	n := 500
	if c.tier == "thorough" {
		n = 15000
	}
	deactN, recN := 0, 0
	for i := 0; i < n; i++ {
		d := world.NewDID(env.kp, env.tb, env.rng, world.SHA256)
		o := world.GenOpts{MinLen: 1, MaxLen: 7, EndDeactivate: 60, TimeDelta: env.dl, BadDeltas: i%3 == 0, RecoverOldUpd: true, NonMonotone: i%4 == 3}
		evs := d.GenEvents(o)
		base := len(evs)
		// extension: arbitrary later operations, also validly signed with every earlier key
		var ext []world.Event
		k := 1 + env.rng.Intn(6)
		olds := append(append([]*world.Key{}, d.PastUpd...), d.PastRec...)
		// ... including the key that the deactivation itself has spent (a recover signed with it, anchored later)
		for _, e := range evs {
			if e.Legit && e.Op.Spec.Type == operation.TypeDeactivate && e.Op.Spec.RevealKey != nil {
				olds = append(olds, e.Op.Spec.RevealKey, e.Op.Spec.RevealKey)
			}
		}
		for j := 0; j < k; j++ {
			switch env.rng.Intn(4) {
			case 0:
				ty := []operation.Type{operation.TypeUpdate, operation.TypeRecover, operation.TypeDeactivate}[env.rng.Intn(3)]
				ext = append(ext, world.Event{Op: world.Build(d.Forge(ty, world.ForgedKinds[env.rng.Intn(len(world.ForgedKinds))], j)), Label: "ext:forged"})
			case 1:
				if len(olds) > 0 {
					key := olds[env.rng.Intn(len(olds))]
					s := world.Spec{Label: "ext.oldkey", Type: operation.TypeUpdate, Suffix: d.Suffix, RevealKey: key, SignedKey: key, SignWith: key,
						NextUpd: d.Stranger(j).Commitment(d.Code), DeltaID: 800 + int64(j), Code: d.Code}
					if env.rng.Intn(2) == 0 {
						s.Type = operation.TypeRecover
						s.NextRec = d.Stranger(j + 1).Commitment(d.Code)
					}
					ext = append(ext, world.Event{Op: world.Build(s), Label: "ext:oldkey"})
				}
			case 2:
				ext = append(ext, world.Event{Op: d.Create, Label: "ext:create"})
			default:
				if len(evs) > 1 {
					e := evs[1+env.rng.Intn(len(evs)-1)]
					e.Label = "ext:replay"
					e.Legit = false
					ext = append(ext, e)
				}
			}
		}
		full := append(append([]world.Event{}, evs...), ext...)
		pub, _ := d.Place(full, o)
		hBase := &world.History{Level: 1, Pub: pub[:base]}
		hFull := &world.History{Level: 1, Pub: pub}
		if i%3 == 2 && len(pub) > base {
			// the later operations are not anchored yet (unpublished store) and carry transaction times BEFORE everything
			// that is anchored: unpublished operations come after all published ones whatever their time says
			m := 1 + env.rng.Intn(len(pub)-base)
			var un []world.Placed
			for k, p := range pub[len(pub)-m:] {
				p.CRef, p.Time, p.Num = 0, uint64(50+k), uint64(k)
				un = append(un, p)
			}
			hFull = &world.History{Level: 1, Pub: pub[:len(pub)-m], Unpub: un}
			r.Count("extension_unpublished_with_early_times", fmt.Sprint(m))
		}
		if i%3 == 1 {
			r.Count("via_additional_operations_option", fmt.Sprint(hFull.ViaOption(env.rng) > 0))
		}
		ocB := hBase.Run(env.pc, env.tb, oidOf)
		ocF := hFull.Run(env.pc, env.tb, oidOf)
		countLetters(r, full)
		r.Count("outcome", outcomeBucket(ocF))
		desc := descHistory(hFull, full, ocF)
		r.Add(g, hFull.CaseGallina(env.tb, env.md, ocF), desc, labels(full)+coreKey(ocF), len(ext) > 0)
		if ocB.Deact {
			deactN++
			if coreKey(ocB) != coreKey(ocF) || !ocF.Deact || len(ocF.Doc) != 0 || ocF.Upd != 0 || ocF.Rec != 0 {
				r.Direct = append(r.Direct, out.Direct{Oracle: "deactivate_terminal", What: "base: " + coreKey(ocB) + " ; extended: " + coreKey(ocF), Case: desc})
			}
			// intake with the default decorator must refuse any non-create operation
			for j, e := range ext {
				if e.Op.Spec.Type == operation.TypeCreate || e.Op.Request == nil {
					continue
				}
				res := world.IntakeDecorate(env.pc, pub, e.Op)
				r.Add(gd, world.DecorateCaseGallina(env.tb, env.md, pub, res), map[string]interface{}{"kind": "decorate", "events": labels(full), "op": e.Label, "result": res},
					fmt.Sprint(i, j), true)
				r.Count("decorator", res)
				if res == "accepted" || strings.HasPrefix(res, "panic") {
					r.Direct = append(r.Direct, out.Direct{Oracle: "decorator_refuses_after_deactivate", What: "decorator answered " + res, Case: desc})
				}
			}
		}
		// a node with an unpublished-operation store: the deactivate is (a) accepted but not yet anchored, (b) anchored
		// with its unpublished copy still in that store - in both the DID resolves as deactivated and intake refuses
		if ocB.Deact && base >= 2 && pub[base-1].Op.Spec.Type == operation.TypeDeactivate {
			pend := pub[base-1]
			pend.CRef = 0
			for vi, variant := range [][2][]world.Placed{{pub[:base-1], {pend}}, {pub[:base], {pend}}} {
				for _, e := range ext {
					if e.Op.Spec.Type == operation.TypeCreate || e.Op.Request == nil {
						continue
					}
					res := world.IntakeDecorateUnpub(env.pc, variant[0], variant[1], e.Op)
					r.Count("decorator_with_unpublished_store", fmt.Sprint("variant", vi, ":", res))
					if res == "accepted" || strings.HasPrefix(res, "panic") {
						r.Direct = append(r.Direct, out.Direct{Oracle: "decorator_refuses_after_deactivate",
							What: fmt.Sprintf("node with an unpublished-operation store (deactivate %s): %s", []string{"pending only", "anchored, copy still pending"}[vi], res), Case: desc})
					}
				}
			}
		}
		// the same handler before and after the deactivation: nothing it remembers may keep a DID open
		if ocB.Deact && base >= 2 && pub[base-1].Op.Spec.Type == operation.TypeDeactivate {
			before := pub[:base-1]
			sess := world.NewIntakeSession(env.pc, before)
			for phase, store := range [][]world.Placed{before, pub[:base]} {
				sess.SetStore(store)
				for j, e := range ext {
					if e.Op.Spec.Type == operation.TypeCreate || e.Op.Request == nil {
						continue
					}
					res := sess.Submit(e.Op)
					r.Add(gd, world.DecorateCaseGallina(env.tb, env.md, store, res), map[string]interface{}{"kind": "decorate-session", "phase": phase, "events": labels(full), "op": e.Label, "result": res},
						fmt.Sprint("s", i, phase, j), true)
					r.Count("decorator_session", fmt.Sprint("phase", phase, ":", res))
					if phase == 1 && (res == "accepted" || strings.HasPrefix(res, "panic")) {
						r.Direct = append(r.Direct, out.Direct{Oracle: "decorator_refuses_after_deactivate", What: "same handler, after the deactivation was anchored: " + res, Case: desc})
					}
				}
			}
		}
		// recover supersedes: document content must come from the last applied recover onwards
		if last := lastRecoverIndex(pub[:base], evs); last >= 0 && !ocB.Deact {
			recN++
		}
	}
	r.Extra["histories_ending_deactivated"] = deactN
	r.Extra["histories_with_recover"] = recN
	return r.Finish(250)
}

func lastRecoverIndex(pub []world.Placed, evs []world.Event) int {
	last := -1
	for i, p := range pub {
		if p.Op.Spec.Type == operation.TypeRecover && evs[i].Legit {
			last = i
		}
	}
	return last
}

// ---------------------------------------------------------------------------------------------
// C06: versioned resolution equals resolution of the truncated history.
func runC06(c *ctx) error {
	r := out.New(c.out)
	g := r.Group("cases_C06", resolveImports, "rcase", "mismatches")
	env := newResolveEnv(c.seed, 40)
	n := 160
	if c.tier == "thorough" {
		n = 4000
	}
	cuts := 0
	for i := 0; i < n; i++ {
		d := world.NewDID(env.kp, env.tb, env.rng, world.SHA256)
		o := world.GenOpts{MinLen: 2, MaxLen: 8, Forks: true, Forged: i%3 == 0, BadDeltas: i%4 == 0, Unpublished: i % 2, EndDeactivate: 15,
			TimeDelta: env.dl, SharedTime: i%2 == 0}
		evs := d.GenEvents(o)
		pub, unpub := d.Place(evs, o)
		if i%6 == 5 {
			// nothing is anchored yet: the whole history sits in the unpublished-operation store; versions by time still apply
			for _, p := range pub {
				p.CRef = 0
				unpub = append(unpub, p)
			}
			sort.SliceStable(unpub, func(a, b int) bool {
				return unpub[a].Time < unpub[b].Time || (unpub[a].Time == unpub[b].Time && unpub[a].Num < unpub[b].Num)
			})
			pub = nil
			r.Count("history_placement", "everything-unpublished")
		}
		pubS := world.Shuffle(env.rng, pub)
		countLetters(r, evs)
		// cut times: each op time, between, before first, after last
		times := map[int64]bool{}
		for _, p := range append(append([]world.Placed{}, pub...), unpub...) {
			times[int64(p.Time)] = true
			times[int64(p.Time)-1] = true
			times[int64(p.Time)+1] = true
		}
		// instants before the Unix epoch (negative Unix time): one second, one year, and the year 1
		if i%2 == 0 {
			times[[]int64{-1, -31536000, -62135596800}[(i/2)%3]] = true
		}
		var ts []int64
		for t := range times {
			ts = append(ts, t)
		}
		sort.Slice(ts, func(a, b int) bool { return ts[a] < ts[b] })
		for _, t := range ts {
			tt := t
			if t < 0 {
				r.Count("version_time_before_epoch", fmt.Sprint(t))
			}
			hv := &world.History{Level: 1, Pub: pubS, Unpub: unpub, VersionTime: &tt}
			// the same instant written with a zone offset (every third cut)
			if cuts%3 == 1 {
				hv.VersionTimeOffset = []int{7200, -19800, 3600, -3600, 45900}[cuts%5]
			}
			// an instant inside the second (every fourth cut): fractional seconds never move the cut
			if cuts%4 == 2 {
				hv.VersionTimeFrac = []string{".5", ".999999999", ".000000001", ".49", ".501"}[(cuts/4)%5]
			}
			r.Count("version_time_spelling", fmt.Sprint(hv.VersionTimeOffset)+hv.VersionTimeFrac)
			restCheck(r, "", hv.VersionTimeText())
			ocV := hv.Run(env.pc, env.tb, oidOf)
			var tp, tu []world.Placed
			for _, p := range pubS {
				if int64(p.Time) <= t {
					tp = append(tp, p)
				}
			}
			for _, p := range unpub {
				if int64(p.Time) <= t {
					tu = append(tu, p)
				}
			}
			ht := &world.History{Level: 1, Pub: tp, Unpub: tu}
			ocT := ht.Run(env.pc, env.tb, oidOf)
			cuts++
			desc := descHistory(hv, evs, ocV)
			r.Count("cut", "time:"+outcomeBucket(ocV))
			r.Add(g, hv.CaseGallina(env.tb, env.md, ocV), desc, labels(evs)+fmt.Sprint("t", t, orderKey(pubS)), true)
			kv, kt := stateKey(ocV), stateKey(ocT)
			if len(tp)+len(tu) == 0 {
				kt = "err" // empty truncated store: the versioned call must fail too (whatever the wording)
				kv = "ok"
				if ocV.Err != "" {
					kv = "err"
				}
			}
			if kv != kt {
				r.Direct = append(r.Direct, out.Direct{Oracle: "version_time_is_truncation", What: fmt.Sprintf("T=%d filtered: %s ; truncated: %s", t, kv, kt), Case: desc})
			}
		}
		// cut ids: every canonical reference and an unknown one
		sorted := append([]world.Placed{}, pub...)
		sort.SliceStable(sorted, func(a, b int) bool {
			if sorted[a].Time != sorted[b].Time {
				return sorted[a].Time < sorted[b].Time
			}
			return sorted[a].Num < sorted[b].Num
		})
		for k := 0; k <= len(sorted); k++ {
			var vid int64 = 7777
			var tp []world.Placed
			if k < len(sorted) {
				vid = sorted[k].CRef
				tp = sorted[:k+1]
			}
			hv := &world.History{Level: 1, Pub: pubS, Unpub: unpub, VersionID: vid}
			restCheck(r, world.CRefString(vid), "")
			if k == 0 {
				restCheck(r, world.CRefString(vid), "2020-01-01T00:00:00Z")
				restCheck(r, "", "")
			}
			ocV := hv.Run(env.pc, env.tb, oidOf)
			cuts++
			desc := descHistory(hv, evs, ocV)
			r.Count("cut", "id:"+outcomeBucket(ocV))
			r.Add(g, hv.CaseGallina(env.tb, env.md, ocV), desc, labels(evs)+fmt.Sprint("v", vid, orderKey(pubS)), true)
			if k == len(sorted) {
				if ocV.Err == "" {
					r.Direct = append(r.Direct, out.Direct{Oracle: "unknown_version_id_is_error", What: stateKey(ocV), Case: desc})
				}
				continue
			}
			ht := &world.History{Level: 1, Pub: world.Shuffle(env.rng, tp)}
			ocT := ht.Run(env.pc, env.tb, oidOf)
			if stateKey(ocV) != stateKey(ocT) {
				r.Direct = append(r.Direct, out.Direct{Oracle: "version_id_is_prefix", What: fmt.Sprintf("V=%d filtered: %s ; truncated: %s", vid, stateKey(ocV), stateKey(ocT)), Case: desc})
			}
		}
		// near-miss version ids: proper suffixes / prefixes / extensions of existing references are unknown ids
		if len(sorted) > 0 {
			ref := world.CRefString(sorted[env.rng.Intn(len(sorted))].CRef)
			for _, raw := range []string{ref[1:], ref[3:], ref[:len(ref)-1] + "x", ref + "0", "x" + ref, "ref", strings.ToUpper(ref)} {
				if raw == "" {
					continue
				}
				known := false
				for _, p := range sorted {
					if world.CRefString(p.CRef) == raw {
						known = true
					}
				}
				if known {
					continue
				}
				hv := &world.History{Level: 1, Pub: pubS, Unpub: unpub, VersionID: 7777, VersionIDRaw: raw}
				ocV := hv.Run(env.pc, env.tb, oidOf)
				cuts++
				desc := descHistory(hv, evs, ocV)
				desc["version_id_raw"] = raw
				r.Count("cut", "near-miss-id:"+outcomeBucket(ocV))
				r.Add(g, hv.CaseGallina(env.tb, env.md, ocV), desc, labels(evs)+fmt.Sprint("raw", raw, orderKey(pubS)), true)
				if ocV.Err == "" {
					r.Direct = append(r.Direct, out.Direct{Oracle: "unknown_version_id_is_error", What: raw + ": " + stateKey(ocV), Case: desc})
				}
			}
		}
		// additional operations: a random part of the published history is handed in through the resolution
		// option instead of the store; every cut must give what the whole store gives
		if len(pub) >= 2 {
			var store, add []world.Placed
			for k, p := range pubS {
				if p.Op.Spec.Type != operation.TypeCreate && (k+i)%2 == 0 {
					add = append(add, p)
				} else {
					store = append(store, p)
				}
			}
			for k := 0; k < len(sorted) && len(add) > 0; k++ {
				vid := sorted[k].CRef
				tt := int64(sorted[k].Time)
				for variant := 0; variant < 2; variant++ {
					hw := &world.History{Level: 1, Pub: pubS, Unpub: unpub}
					ha := &world.History{Level: 1, Pub: store, Unpub: unpub, Additional: add}
					if variant == 0 {
						hw.VersionID, ha.VersionID = vid, vid
					} else {
						hw.VersionTime, ha.VersionTime = &tt, &tt
					}
					ocW, ocA := hw.Run(env.pc, env.tb, oidOf), ha.Run(env.pc, env.tb, oidOf)
					cuts++
					desc := descHistory(ha, evs, ocA)
					r.Count("cut", "additional:"+outcomeBucket(ocA))
					r.Add(g, ha.CaseGallina(env.tb, env.md, ocA), desc, labels(evs)+fmt.Sprint("add", variant, vid, orderKey(pubS)), true)
					if stateKey(ocW) != stateKey(ocA) {
						r.Direct = append(r.Direct, out.Direct{Oracle: "additional_operations_are_part_of_the_history",
							What: fmt.Sprintf("cut %d/%d: store only: %s ; with additional: %s", vid, tt, stateKey(ocW), stateKey(ocA)), Case: desc})
					}
				}
			}
		}
	}
	r.Extra["cut_points"] = cuts
	return r.Finish(400)
}

// ---------------------------------------------------------------------------------------------
// C12 (history half): chains never revisit a commitment.
func runC12(c *ctx) error {
	r := out.New(c.out)
	g := r.Group("cases_C12", resolveImports, "rcase", "mismatches")
	gi := r.Group("cases_C12_intake", []string{"Resolve.Op", "Corr.Resolve", "Corr.Intake"}, "kcase", "kmismatches")
	env := newResolveEnv(c.seed, 40)
	n := 500
	if c.tier == "thorough" {
		n = 12000
	}
	for i := 0; i < n; i++ {
		d := world.NewDID(env.kp, env.tb, env.rng, world.SHA256)
		evs, note := world.CycleHistory(d, env.rng)
		if i%2 == 1 && len(evs) > 2 {
			// one operation of the chain is anchored twice (a replay right behind the original): the commitment it
			// consumes is consumed all the same
			k := 1 + env.rng.Intn(len(evs)-1)
			dup := evs[k]
			dup.Legit, dup.Label = false, "replay:"+dup.Label
			evs = append(evs[:k+1], append([]world.Event{dup}, evs[k+1:]...)...)
			note += "+replay"
		}
		o := world.GenOpts{TimeDelta: env.dl, Unpublished: (i % 3) * 2}
		pub, unpubC := d.Place(evs, o)
		h := &world.History{Level: 1, Pub: world.Shuffle(env.rng, pub), Unpub: unpubC, Note: note}
		r.Count("cycle_history_unpublished_tail", fmt.Sprint(len(unpubC)))
		if i%3 == 1 {
			r.Count("via_additional_operations_option", fmt.Sprint(h.ViaOption(env.rng) > 0))
		}
		oc := world.RunWithTimeout(h, env.pc, env.tb, oidOf)
		countLetters(r, evs)
		r.Count("cycle_shape", note)
		r.Count("outcome", outcomeBucket(oc))
		desc := descHistory(h, evs, oc)
		r.Add(g, h.CaseGallina(env.tb, env.md, oc), desc, labels(evs)+note+coreKey(oc), true)
		if oc.Panic != "" {
			r.Direct = append(r.Direct, out.Direct{Oracle: "resolution_terminates", What: oc.Panic, Case: desc})
		}
	}
	world.IntakeRecommitCases(r, gi, env.kp, c.tier == "thorough")
	return r.Finish(250)
}

// ---- REST layer: the query parameters of the resolve endpoint must reach the resolver unchanged ----

type recResolver struct {
	id   string
	opts document.ResolutionOptions
	hit  bool
}

func (rr *recResolver) ResolveDocument(id string, opts ...document.ResolutionOption) (*document.ResolutionResult, error) {
	rr.id, rr.hit = id, true
	rr.opts, _ = document.GetResolutionOptions(opts...)
	return &document.ResolutionResult{Document: document.Document{"id": id}}, nil
}

type noHTTPMetrics struct{}

func (noHTTPMetrics) HTTPResolveTime(time.Duration) {}

func restCheck(r *out.Run, versionID, versionTime string) {
	rr := &recResolver{}
	h := restdochandler.NewResolveHandler(rr, noHTTPMetrics{})
	q := url.Values{}
	if versionID != "" {
		q.Set("versionId", versionID)
	}
	if versionTime != "" {
		q.Set("versionTime", versionTime)
	}
	req := httptest.NewRequest("GET", "/identifiers/did:sidetree:abc?"+q.Encode(), nil)
	req = mux.SetURLVars(req, map[string]string{"id": "did:sidetree:abc"})
	rec := httptest.NewRecorder()
	h.Resolve(rec, req)
	r.Count("rest_resolve", fmt.Sprintf("id=%v time=%v status=%d", versionID != "", versionTime != "", rec.Code))
	desc := map[string]interface{}{"kind": "rest", "versionId": versionID, "versionTime": versionTime, "status": rec.Code, "resolver_called": rr.hit,
		"got_versionId": rr.opts.VersionID, "got_versionTime": rr.opts.VersionTime}
	bad := ""
	switch {
	case versionID != "" && versionTime != "":
		if rec.Code != 400 || rr.hit {
			bad = "both parameters must be refused"
		}
	case !rr.hit || rec.Code != 200:
		bad = "resolver not reached"
	case rr.opts.VersionID != versionID || rr.opts.VersionTime != versionTime || rr.id != "did:sidetree:abc":
		bad = "resolver received other options than the request carried"
	}
	if bad != "" {
		r.Direct = append(r.Direct, out.Direct{Oracle: "rest_version_parameters_reach_the_resolver", What: bad, Case: desc})
	}
}
