package main

// C20: the real pipeline end to end.
//
//   dochandler.DocumentHandler (ProcessOperation / ResolveDocument)
//     -> real batch.Writer, driven by VerifStep, real cutter, opqueue.MemQueue (wrapped: tags ids)
//     -> real txnprovider.OperationHandler (wrapped: records the batch split) over a map CAS
//     -> ledger stub: assigns transaction time (harness clock), number, canonical reference, protocol version
//     -> real observer.Observer (one goroutine fed through an unbuffered channel; the harness blocks
//        until a batch of transactions has been processed, so runs are deterministic)
//     -> real txnprocessor.TxnProcessor -> in-memory operation store / unpublished-operation store
//     -> real processor.OperationProcessor + ResolveDocument.
//
// This file: the wiring.  c20_run.go: workloads, observation, oracles, emission.

import (
	"bytes"
	"encoding/json"
	"errors"
	"fmt"
	"net/http/httptest"
	"sort"
	"strings"
	"time"

	"github.com/gorilla/mux"
	restdochandler "github.com/trustbloc/sidetree-core-go/pkg/restapi/dochandler"

	"github.com/trustbloc/sidetree-core-go/pkg/api/operation"
	"github.com/trustbloc/sidetree-core-go/pkg/api/protocol"
	"github.com/trustbloc/sidetree-core-go/pkg/api/txn"
	"github.com/trustbloc/sidetree-core-go/pkg/batch"
	"github.com/trustbloc/sidetree-core-go/pkg/batch/opqueue"
	"github.com/trustbloc/sidetree-core-go/pkg/canonicalizer"
	"github.com/trustbloc/sidetree-core-go/pkg/dochandler"
	"github.com/trustbloc/sidetree-core-go/pkg/document"
	"github.com/trustbloc/sidetree-core-go/pkg/observer"
	"github.com/trustbloc/sidetree-core-go/pkg/processor"
	"github.com/trustbloc/sidetree-core-go/pkg/versions/1_0/operationparser"
	"github.com/trustbloc/sidetree-core-go/pkg/versions/1_0/txnprocessor"

	"verif/harness/internal/world"
)

const c20NS = "did:sidetree"

// ---- clock, protocol client, anchor-time validator --------------------------------------------

type c20Clock struct{ now uint64 }

// c20Client: Current() is the version in force at the ledger clock.
type c20Client struct {
	versions []*world.Version
	clk      *c20Clock
}

func (c *c20Client) Get(t uint64) (protocol.Version, error) {
	for i := len(c.versions) - 1; i >= 0; i-- {
		if t >= c.versions[i].P.GenesisTime {
			return c.versions[i], nil
		}
	}
	return nil, fmt.Errorf("protocol parameters are not defined for anchoring time: %d", t)
}

func (c *c20Client) Current() (protocol.Version, error) { return c.Get(c.clk.now) }

// c20TimeValidator is the anchor-time validator plug-in: the reference time is the ledger clock.
type c20TimeValidator struct{ clk *c20Clock }

func (v c20TimeValidator) Validate(from, until int64) error {
	if from == 0 && until == 0 {
		return nil
	}
	if from > int64(v.clk.now) {
		return operationparser.ErrOperationEarly
	}
	if until < int64(v.clk.now) {
		return operationparser.ErrOperationExpired
	}
	return nil
}

// ---- request bookkeeping ----------------------------------------------------------------------

type c20Req struct {
	ID      int64
	DID     int // index of the DID in the run
	SfxID   int64
	Suffix  string
	Type    operation.Type
	Request []byte
	Key     int64 // identity of the canonical request bytes
	Label   string
	// facts by construction
	IntakeOK                                        bool
	ParseOK, SigOK, SfxOK, DHashOK, DValid, PatchOK bool
	RevealC, UpdC, RecC                             string
	DeltaID                                         int64
	Services                                        bool
	From, Until                                     int64
	OriginID                                        int64
	// filled in at submission
	Wall        int64
	Accepted    bool
	AcceptVer   uint64
	AcceptDelta int64
	AcceptedAt  uint64
	Seq         int // submission order among accepted requests
}

func (q *c20Req) windowed() bool { return q.From != 0 || q.Until != 0 }

func (q *c20Req) effUntil() int64 {
	if q.From != 0 && q.Until == 0 {
		return q.From + q.AcceptDelta
	}
	return q.Until
}

// ---- queue wrapper ----------------------------------------------------------------------------

type c20Queue struct {
	inner *opqueue.MemQueue
	w     *c20World
	// failNext: the queue refuses the next operation a client submits (a storage failure of the queue)
	failNext bool
}

func (q *c20Queue) Add(data *operation.QueuedOperation, pv uint64) (uint, error) {
	if opID(data) < 0 && q.failNext {
		q.failNext = false
		return 0, errors.New("injected operation queue failure")
	}
	if opID(data) < 0 {
		d := *data
		d.Properties = append(append([]operation.Property{}, data.Properties...), operation.Property{Key: "verif-id", Value: q.w.cur.ID})
		q.w.cur.AcceptVer = pv
		return q.inner.Add(&d, pv)
	}
	return q.inner.Add(data, pv)
}

func (q *c20Queue) Remove(num uint) (operation.QueuedOperationsAtTime, func() uint, func(error), error) {
	return q.inner.Remove(num)
}
func (q *c20Queue) Peek(num uint) (operation.QueuedOperationsAtTime, error) { return q.inner.Peek(num) }
func (q *c20Queue) Len() uint                                               { return q.inner.Len() }

func (q *c20Queue) content() []int64 {
	items, _ := q.inner.Peek(q.inner.Len())
	ids := []int64{}
	for _, it := range items {
		ids = append(ids, opID(&it.QueuedOperation))
	}
	return ids
}

// ---- operation handler wrapper ----------------------------------------------------------------

type c20Batch struct {
	Version    uint64  `json:"version"`
	Removed    []int64 `json:"removed"`
	Included   []int64 `json:"included"`
	Additional []int64 `json:"additional"`
	Expired    []int64 `json:"expired"`
	Time       uint64  `json:"time"`
	Num        uint64  `json:"number"`
	Force      bool    `json:"in_forced_step"`
	CurMax     uint    `json:"current_max_operation_count"`
	OwnMax     uint    `json:"own_version_max_operation_count"`
	Err        string  `json:"error,omitempty"`
	// F16: the handler returned no anchor string (every operation of the batch has expired): nothing is anchored, the
	// batch is committed; Time / Num stay 0
	NoAnchor bool `json:"no_anchor_string,omitempty"`
}

type c20Handler struct {
	inner   protocol.OperationHandler
	w       *c20World
	version uint64
	ownMax  uint
}

func (h *c20Handler) PrepareTxnFiles(ops []*operation.QueuedOperation) (*protocol.AnchoringInfo, error) {
	info, err := h.inner.PrepareTxnFiles(ops)
	b := &c20Batch{Version: h.version, OwnMax: h.ownMax, Force: h.w.inForce}
	if cur, e := h.w.client.Current(); e == nil {
		b.CurMax = cur.Protocol().MaxOperationCount
	}
	for _, x := range ops {
		b.Removed = append(b.Removed, opID(x))
	}
	if err != nil {
		b.Err = err.Error()
		h.w.failed = append(h.w.failed, b)
		return info, err
	}
	skip := map[int64]bool{}
	for _, x := range info.AdditionalOperations {
		b.Additional = append(b.Additional, opID(x))
		skip[opID(x)] = true
	}
	for _, x := range info.ExpiredOperations {
		b.Expired = append(b.Expired, opID(x))
		skip[opID(x)] = true
		h.w.expired = append(h.w.expired, opID(x))
	}
	for _, id := range b.Removed {
		if !skip[id] {
			b.Included = append(b.Included, id)
		}
	}
	b.NoAnchor = info.AnchorString == ""
	if b.NoAnchor != (len(b.Included) == 0) {
		h.w.internal = append(h.w.internal, fmt.Sprintf("PrepareTxnFiles: anchor string %q for a batch with %d included operations (removed %v, expired %v, additional %v)",
			info.AnchorString, len(b.Included), b.Removed, b.Expired, b.Additional))
	}
	if b.NoAnchor {
		// no WriteAnchor may follow: the ledger stub reports "anchor without prepared batch" if one does
		h.w.prepared = nil
		h.w.noAnchor = append(h.w.noAnchor, b)
		return info, nil
	}
	h.w.prepared = b
	return info, nil
}

// ---- ledger stub ------------------------------------------------------------------------------

type c20Ledger struct {
	w       *c20World
	next    uint64
	pending []txn.SidetreeTxn
}

func (l *c20Ledger) WriteAnchor(anchor string, _ []*protocol.AnchorDocument, _ []*operation.Reference, pv uint64) error {
	t := txn.SidetreeTxn{TransactionTime: l.w.clk.now, TransactionNumber: l.next, AnchorString: anchor, Namespace: c20NS,
		ProtocolVersion: pv, CanonicalReference: fmt.Sprintf("ref%d", l.next+1)}
	if l.w.cfg.ByTime {
		t.ProtocolVersion = l.w.clk.now
	}
	b := l.w.prepared
	l.w.prepared = nil
	if b == nil {
		l.w.internal = append(l.w.internal, fmt.Sprintf("WriteAnchor(%q) without a prepared batch that has included operations", anchor))
		return errors.New("c20 ledger: anchor without prepared batch")
	}
	var cnt int
	if _, e := fmt.Sscanf(anchor, "%d.", &cnt); e != nil || cnt != len(b.Included) || cnt == 0 {
		l.w.internal = append(l.w.internal, fmt.Sprintf("WriteAnchor(%q): operation count %d, included operations %v", anchor, cnt, b.Included))
	}
	b.Time, b.Num = t.TransactionTime, t.TransactionNumber
	l.w.batches = append(l.w.batches, b)
	l.w.txnPver[t.TransactionNumber] = t.ProtocolVersion
	l.pending = append(l.pending, t)
	l.next++
	return nil
}

func (l *c20Ledger) Read(int) (bool, *txn.SidetreeTxn) { return false, nil }

// ---- stores -----------------------------------------------------------------------------------

type c20Stored struct {
	ID int64
	Op *operation.AnchoredOperation
}

type c20Store struct {
	w *c20World
	m map[string][]c20Stored
}

func (s *c20Store) Put(ops []*operation.AnchoredOperation) error {
	for _, op := range ops {
		id := int64(-1)
		for _, b := range s.w.batches {
			if b.Num == op.TransactionNumber {
				for _, x := range b.Included {
					if s.w.reqs[x].Suffix == op.UniqueSuffix {
						id = x
					}
				}
			}
		}
		s.m[op.UniqueSuffix] = append(s.m[op.UniqueSuffix], c20Stored{ID: id, Op: op})
	}
	return nil
}

func (s *c20Store) Get(suffix string) ([]*operation.AnchoredOperation, error) {
	l := s.m[suffix]
	if len(l) == 0 {
		return nil, errors.New("uniqueSuffix not found in the store")
	}
	out := make([]*operation.AnchoredOperation, len(l))
	for i, e := range l {
		c := *e.Op
		out[i] = &c
	}
	return out, nil
}

func canonKey(b []byte) string {
	var v interface{}
	if err := json.Unmarshal(b, &v); err != nil {
		return "raw:" + string(b)
	}
	c, err := canonicalizer.MarshalCanonical(v)
	if err != nil {
		return "raw:" + string(b)
	}
	return string(c)
}

type c20Unpub struct {
	w *c20World
	m map[string][]c20Stored
}

func (u *c20Unpub) Put(op *operation.AnchoredOperation) error {
	u.w.cur.Wall = int64(op.TransactionTime)
	u.m[op.UniqueSuffix] = append(u.m[op.UniqueSuffix], c20Stored{ID: u.w.cur.ID, Op: op})
	return nil
}

func (u *c20Unpub) Delete(op *operation.AnchoredOperation) error {
	k := canonKey(op.OperationRequest)
	l := u.m[op.UniqueSuffix]
	for i, e := range l {
		if canonKey(e.Op.OperationRequest) == k {
			u.m[op.UniqueSuffix] = append(append([]c20Stored{}, l[:i]...), l[i+1:]...)
			return nil
		}
	}
	return nil
}

func (u *c20Unpub) DeleteAll(ops []*operation.AnchoredOperation) error {
	for _, op := range ops {
		if err := u.Delete(op); err != nil {
			return err
		}
	}
	return nil
}

func (u *c20Unpub) Get(suffix string) ([]*operation.AnchoredOperation, error) {
	l := u.m[suffix]
	if len(l) == 0 {
		return nil, errors.New("not found")
	}
	out := make([]*operation.AnchoredOperation, len(l))
	for i, e := range l {
		c := *e.Op
		out[i] = &c
	}
	return out, nil
}

// ---- the world --------------------------------------------------------------------------------

type c20Version struct {
	Genesis uint64 `json:"genesis"`
	MDelta  uint   `json:"max_operation_time_delta"`
	Max     uint   `json:"max_operation_count"`
}

type c20Config struct {
	ExactHashLimit bool             `json:"hash_length_limit_exactly_the_hash_length,omitempty"`
	Versions       []c20Version     `json:"versions"`
	Unpub          []operation.Type `json:"unpublished_store_types"`
	ByTime         bool             `json:"ledger_protocol_version_is_transaction_time"`
	T0             uint64           `json:"t0"`
}

type c20World struct {
	cfg                 c20Config
	clk                 *c20Clock
	client              *c20Client
	queue               *c20Queue
	obsN, junkDelivered int
	ledger              *c20Ledger
	store               *c20Store
	unpub               *c20Unpub
	writer              *batch.Writer
	dh                  *dochandler.DocumentHandler
	restUpd             *restdochandler.UpdateHandler // one REST handler per node, kept for the whole run
	restRes             *restdochandler.ResolveHandler
	obs                 *observer.Observer
	obsCh               chan []txn.SidetreeTxn
	reqs                map[int64]*c20Req
	cur                 *c20Req
	prepared            *c20Batch
	batches             []*c20Batch
	failed              []*c20Batch
	noAnchor            []*c20Batch // batches committed without an anchor write (every operation expired, F16)
	internal            []string    // violations seen inside the collaborators
	expired             []int64
	txnPver             map[uint64]uint64
	inForce             bool
	tb                  *world.Table
	keys                map[string]int64
}

func newC20World(cfg c20Config, tb *world.Table) *c20World {
	w := &c20World{cfg: cfg, clk: &c20Clock{now: cfg.T0}, reqs: map[int64]*c20Req{}, txnPver: map[uint64]uint64{}, tb: tb, keys: map[string]int64{}}
	w.client = &c20Client{clk: w.clk}
	w.store = &c20Store{w: w, m: map[string][]c20Stored{}}
	w.unpub = &c20Unpub{w: w, m: map[string][]c20Stored{}}
	w.queue = &c20Queue{inner: &opqueue.MemQueue{}, w: w}
	w.ledger = &c20Ledger{w: w}
	cas := world.NewMapCAS()
	for _, cv := range cfg.Versions {
		p := world.DefaultProtocol()
		p.GenesisTime = cv.Genesis
		p.MaxOperationCount = cv.Max
		p.MaxOperationTimeDelta = uint64(cv.MDelta)
		if cfg.ExactHashLimit {
			// the hash-length limit sits exactly at the length of the hashes in use (inclusive on both sides of the pipeline)
			p.MultihashAlgorithms = []uint{world.SHA256}
			p.MaxOperationHashLength = 46
		}
		o := world.VersionOpts{CAS: cas, OpStore: w.store, ParserOpts: []operationparser.Option{operationparser.WithAnchorTimeValidator(c20TimeValidator{clk: w.clk})}}
		if len(cfg.Unpub) > 0 {
			o.TxnProcOpts = []txnprocessor.Option{txnprocessor.WithUnpublishedOperationStore(w.unpub, cfg.Unpub)}
		}
		v := world.NewVersion(fmt.Sprint(cv.Genesis), p, o)
		v.HandlerOverride = &c20Handler{inner: v.Handler, w: w, version: cv.Genesis, ownMax: cv.Max}
		w.client.versions = append(w.client.versions, v)
	}
	var popts []processor.Option
	var dopts []dochandler.Option
	if len(cfg.Unpub) > 0 {
		popts = append(popts, processor.WithUnpublishedOperationStore(w.unpub))
		dopts = append(dopts, dochandler.WithUnpublishedOperationStore(w.unpub, cfg.Unpub))
	}
	proc := processor.New("c20", w.store, w.client, popts...)
	var err error
	w.writer, err = batch.New(c20NS, &wContext{pc: w.client, a: w.ledger, q: w.queue})
	world.Must(err)
	w.dh = dochandler.New(c20NS, nil, w.client, w.writer, proc, world.NoopMetrics{}, dopts...)
	w.obsCh = make(chan []txn.SidetreeTxn)
	w.obs = observer.New(&observer.Providers{Ledger: &c15Ledger{ch: w.obsCh}, ProtocolClientProvider: &c15ClientProvider{pc: w.client}})
	w.obs.Start()
	return w
}

func (w *c20World) close() {
	w.obs.Stop()
	w.writer.Stop()
}

func (w *c20World) keyOf(req []byte) int64 {
	k := canonKey(req)
	if v, ok := w.keys[k]; ok {
		return v
	}
	v := int64(len(w.keys) + 1)
	w.keys[k] = v
	return v
}

// submit hands the request to ProcessOperation the way the REST handler does (under the genesis
// time of Current()).
func (w *c20World) submit(rq *c20Req) (*document.ResolutionResult, error) {
	cur, err := w.client.Current()
	if err != nil {
		return nil, err
	}
	w.reqs[rq.ID] = rq
	rq.AcceptDelta = int64(cur.Protocol().MaxOperationTimeDelta)
	rq.AcceptedAt = w.clk.now
	w.cur = rq
	_ = cur
	res, err := w.restUpdate(rq.Request) // through the REST update handler, as a client would
	w.cur = nil
	rq.Accepted = err == nil
	return res, err
}

func (w *c20World) flush(force bool) {
	w.inForce = force
	w.writer.VerifStep(force)
}

// observe feeds the pending transactions to the real observer and waits until it is done with them.
func (w *c20World) observe() {
	ts := w.ledger.pending
	w.ledger.pending = nil
	if len(ts) == 0 {
		return
	}
	// every third notification starts with a transaction whose batch files cannot be read (another writer's garbage):
	// it contributes nothing and the transactions behind it in the same notification are processed all the same
	w.obsN++
	if w.obsN%3 == 0 {
		junk := txn.SidetreeTxn{Namespace: c20NS, AnchorString: "1.nowhere-to-be-found", TransactionTime: ts[0].TransactionTime,
			TransactionNumber: 1 << 40, ProtocolVersion: ts[0].ProtocolVersion}
		ts = append([]txn.SidetreeTxn{junk}, ts...)
		w.junkDelivered++
	}
	w.obsCh <- ts
	w.obsCh <- nil // accepted by the observer goroutine only after the previous slice has been processed
}

// expiredNow lists the accepted windowed requests whose effective anchorUntil lies before the clock
// (what the anchor-time validator answers ErrOperationExpired for), by construction.
func (w *c20World) expiredNow() []int64 {
	var ids []int64
	for id, q := range w.reqs {
		if q.Accepted && q.windowed() && q.effUntil() < int64(w.clk.now) {
			ids = append(ids, id)
		}
	}
	sort.Slice(ids, func(a, b int) bool { return ids[a] < ids[b] })
	return ids
}

// ---- views ------------------------------------------------------------------------------------

type c20View struct {
	Found bool    `json:"found"`
	Doc   []int64 `json:"keys"`
	Svc   []int64 `json:"services"`
	Upd   int64   `json:"update_commitment"`
	Rec   int64   `json:"recovery_commitment"`
	Deact bool    `json:"deactivated"`
	Pub   bool    `json:"published"`
	Err   string  `json:"error,omitempty"`
	// document with its own id replaced, for the three-views oracle
	Normal string `json:"-"`
}

func (w *c20World) viewOf(res *document.ResolutionResult, err error) c20View {
	if err != nil {
		if strings.Contains(err.Error(), "not found") {
			return c20View{}
		}
		return c20View{Err: err.Error()}
	}
	b, e := json.Marshal(res)
	if e != nil {
		return c20View{Err: "marshal: " + e.Error()}
	}
	var g struct {
		Doc  map[string]interface{} `json:"didDocument"`
		Meta map[string]interface{} `json:"didDocumentMetadata"`
	}
	if e := json.Unmarshal(b, &g); e != nil {
		return c20View{Err: "unmarshal: " + e.Error()}
	}
	v := c20View{Found: true, Doc: []int64{}, Svc: []int64{}}
	idOf := func(e interface{}, prefix string) int64 {
		m, _ := e.(map[string]interface{})
		s, _ := m["id"].(string)
		if i := strings.LastIndex(s, "#"); i >= 0 {
			s = s[i+1:]
		}
		var x int64 = -1
		fmt.Sscanf(s, prefix+"%d", &x)
		return x
	}
	if l, ok := g.Doc["verificationMethod"].([]interface{}); ok {
		for _, e := range l {
			v.Doc = append(v.Doc, idOf(e, "k"))
		}
	}
	if l, ok := g.Doc["service"].([]interface{}); ok {
		for _, e := range l {
			v.Svc = append(v.Svc, idOf(e, "svc"))
		}
	}
	if m, ok := g.Meta["method"].(map[string]interface{}); ok {
		s, _ := m["updateCommitment"].(string)
		v.Upd = w.tb.ID(s)
		s, _ = m["recoveryCommitment"].(string)
		v.Rec = w.tb.ID(s)
		v.Pub, _ = m["published"].(bool)
	}
	v.Deact, _ = g.Meta["deactivated"].(bool)
	db, _ := json.Marshal(g.Doc)
	own, _ := g.Doc["id"].(string)
	v.Normal = string(db)
	if own != "" {
		v.Normal = strings.ReplaceAll(v.Normal, own, "<did>")
	}
	return v
}

func (w *c20World) resolve(did string) c20View {
	var v c20View
	func() {
		defer func() {
			if r := recover(); r != nil {
				v = c20View{Err: "panic: " + fmt.Sprint(r)}
			}
		}()
		res, err := w.restResolve(did) // through the REST resolve handler
		v = w.viewOf(res, err)
	}()
	return v
}

// ---- REST layer (pkg/restapi/dochandler): requests and resolutions go through the HTTP handlers ----

type c20HTTPMetrics struct{}

func (c20HTTPMetrics) HTTPCreateUpdateTime(time.Duration) {}
func (c20HTTPMetrics) HTTPResolveTime(time.Duration)      {}

func restResult(rec *httptest.ResponseRecorder) (*document.ResolutionResult, error) {
	body := strings.TrimSpace(rec.Body.String())
	if rec.Code != 200 {
		return nil, fmt.Errorf("%s", body)
	}
	if body == "" || body == "null" {
		return nil, nil
	}
	var res document.ResolutionResult
	if err := json.Unmarshal([]byte(body), &res); err != nil {
		return nil, fmt.Errorf("REST response is not a resolution result: %v", err)
	}
	return &res, nil
}

func (w *c20World) restUpdate(body []byte) (*document.ResolutionResult, error) {
	if w.restUpd == nil {
		w.restUpd = restdochandler.NewUpdateHandler(w.dh, w.client, c20HTTPMetrics{})
	}
	rec := httptest.NewRecorder()
	w.restUpd.Update(rec, httptest.NewRequest("POST", "/operations", bytes.NewReader(body)))
	return restResult(rec)
}

func (w *c20World) restResolve(did string) (*document.ResolutionResult, error) {
	if w.restRes == nil {
		w.restRes = restdochandler.NewResolveHandler(w.dh, c20HTTPMetrics{})
	}
	req := mux.SetURLVars(httptest.NewRequest("GET", "/identifiers/"+did, nil), map[string]string{"id": did})
	rec := httptest.NewRecorder()
	w.restRes.Resolve(rec, req)
	return restResult(rec)
}
