(* C09: what acceptance by VerifyJWS means, and what it rejects. *)
From Coq Require Import String List ZArith NArith Bool Lia.
From Coq.Strings Require Import Byte.
From SV Require Import Base.Bytes Hash.B64 Hash.MultihashProofs Jws.Compact.
Import ListNotations.
Local Open Scope string_scope.
Local Open Scope list_scope.
Local Open Scope Z_scope.

(* -- acceptance implies: the signature primitive accepted exactly the model's signing input -- *)
Theorem verify_sound s hf k crypto_ok :
  verify_jws s hf k crypto_ok = true ->
  exists payload sig msg,
    parse_compact s hf = Some (payload, sig) /\ signing_input hf payload = Some msg /\
    crypto_ok = true /\ jwk_decodes k = true /\ payload <> [] /\ sig <> [] /\
    h_json_ok hf = true /\ h_has_alg hf = true /\ h_b64 hf <> B64NotBool /\
    ((eqs (k_kty k) "EC" = true /\ exists n, ec_key_size (k_crv k) = Some n /\ Z.of_nat (length sig) = 2 * n)
     \/ (eqs (k_kty k) "EC" = false /\ eqs (k_kty k) "OKP" = true)).
Proof.
  unfold verify_jws. destruct (parse_compact s hf) as [[payload sig]|] eqn:Ep; [|discriminate].
  destruct (signing_input hf payload) as [msg|] eqn:Es; [|discriminate].
  intros Hv. exists payload, sig, msg. split; [reflexivity|]. split; [exact Es|].
  assert (Hparse : payload <> [] /\ sig <> [] /\ h_json_ok hf = true /\ h_has_alg hf = true).
  { unfold parse_compact in Ep. destruct (match s with c :: _ => Byte.eqb c x7b | [] => false end); [discriminate|].
    destruct (split_dots s) as [|h [|p [|g [|? ?]]]]; try discriminate.
    destruct (b64_decode h); [|discriminate].
    destruct (h_json_ok hf); cbn [negb] in Ep; [|discriminate].
    destruct (h_has_alg hf); cbn [negb] in Ep; [|discriminate].
    destruct (b64_decode p) as [[|p0 pr]|]; try discriminate.
    destruct (b64_decode g) as [[|g0 gr]|]; try discriminate.
    inversion Ep; subst. repeat split; discriminate. }
  assert (Hb : h_b64 hf <> B64NotBool) by (unfold signing_input in Es; destruct (h_b64 hf); congruence).
  destruct Hparse as (Hp1 & Hp2 & Hp3 & Hp4).
  unfold verify_signature in Hv.
  destruct (eqs (k_kty k) "EC") eqn:Eec.
  - destruct (ec_key_size (k_crv k)) as [n|] eqn:En; [|discriminate].
    apply andb_true_iff in Hv. destruct Hv as [Hv Hc]. apply andb_true_iff in Hv. destruct Hv as [Hd Hl].
    apply Z.eqb_eq in Hl.
    split; [exact Hc|]. split; [exact Hd|]. split; [exact Hp1|]. split; [exact Hp2|]. split; [exact Hp3|].
    split; [exact Hp4|]. split; [exact Hb|]. left. split; [reflexivity|]. exists n. split; [reflexivity | exact Hl].
  - destruct (eqs (k_kty k) "OKP") eqn:Eok; [|discriminate].
    apply andb_true_iff in Hv. destruct Hv as [Hd Hc].
    split; [exact Hc|]. split; [exact Hd|]. split; [exact Hp1|]. split; [exact Hp2|]. split; [exact Hp3|].
    split; [exact Hp4|]. split; [exact Hb|]. right. split; reflexivity.
Qed.

(* -- the signing input determines the (re-serialised) header and the payload -- *)
Lemma b64_char_not_dot v : (v < 64)%N -> b64_char v <> dot.
Proof.
  intros H Hd. pose proof (in_all64 v H) as Hi.
  assert (Hall : forallb (fun v => negb (Byte.eqb (b64_char v) dot)) all64 = true) by (vm_compute; reflexivity).
  pose proof (proj1 (forallb_forall _ _) Hall v Hi) as Hx. cbn beta in Hx. rewrite Hd in Hx. discriminate.
Qed.

Lemma b64_encode_no_dot : forall n l, (length l <= n)%nat -> ~ In dot (b64_encode l).
Proof.
  induction n as [|n IH]; intros l Hl.
  - destruct l; [intros [] | cbn in Hl; lia].
  - destruct l as [|a [|b [|c r]]]; cbn [b64_encode].
    + intros [].
    + pose proof (to_N_lt a) as Ba. intros [Hd|[Hd|[]]]; (eapply b64_char_not_dot; [|exact Hd]);
        zify; Z.div_mod_to_equations; lia.
    + pose proof (to_N_lt a) as Ba. pose proof (to_N_lt b) as Bb.
      intros [Hd|[Hd|[Hd|[]]]]; (eapply b64_char_not_dot; [|exact Hd]); zify; Z.div_mod_to_equations; lia.
    + pose proof (to_N_lt a) as Ba. pose proof (to_N_lt b) as Bb. pose proof (to_N_lt c) as Bc.
      intros [Hd|[Hd|[Hd|[Hd|Hd]]]]; try ((eapply b64_char_not_dot; [|exact Hd]); zify; Z.div_mod_to_equations; lia).
      revert Hd. apply IH. cbn in Hl. lia.
Qed.

Lemma b64_encode_inj a b : b64_encode a = b64_encode b -> a = b.
Proof. intros H. pose proof (b64_roundtrip a) as Ha. rewrite H, b64_roundtrip in Ha. congruence. Qed.

Lemma split_at_first_dot a a' b b' :
  ~ In dot a -> ~ In dot a' -> a ++ [dot] ++ b = a' ++ [dot] ++ b' -> a = a' /\ b = b'.
Proof.
  revert a'. induction a as [|x r IH]; intros [|y t] Ha Ha' H; cbn [app] in *.
  - inversion H. auto.
  - inversion H; subst. elim Ha'. left. reflexivity.
  - inversion H; subst. elim Ha. left. reflexivity.
  - inversion H; subst. destruct (IH t) as [-> ->]; auto.
    + intros Hi. apply Ha. right. exact Hi.
    + intros Hi. apply Ha'. right. exact Hi.
Qed.

Lemma si_split hm hm' x x' :
  b64_encode hm ++ [dot] ++ x = b64_encode hm' ++ [dot] ++ x' -> hm = hm' /\ x = x'.
Proof.
  intros H. apply split_at_first_dot in H; [|apply (b64_encode_no_dot _ _ (le_n _)) | apply (b64_encode_no_dot _ _ (le_n _))].
  destruct H as [Hh Hx]. split; [apply b64_encode_inj; exact Hh | exact Hx].
Qed.

Theorem signing_input_injective hf hf' p p' m :
  h_b64 hf <> B64False -> h_b64 hf' <> B64False ->
  signing_input hf p = Some m -> signing_input hf' p' = Some m ->
  h_marshal hf = h_marshal hf' /\ p = p'.
Proof.
  intros Hb Hb' H1 H2. unfold signing_input in *.
  destruct (h_b64 hf); try congruence; destruct (h_b64 hf'); try congruence;
    inversion H1 as [E1]; inversion H2 as [E2]; rewrite <- E2 in E1;
    apply si_split in E1; destruct E1 as [Eh Ep]; (split; [exact Eh | apply b64_encode_inj; exact Ep]).
Qed.

(* with the unencoded-payload option the header is still determined *)
Theorem signing_input_header_determined hf hf' p p' m :
  signing_input hf p = Some m -> signing_input hf' p' = Some m -> h_marshal hf = h_marshal hf'.
Proof.
  intros H1 H2. unfold signing_input in *.
  destruct (h_b64 hf); try congruence; destruct (h_b64 hf'); try congruence;
    inversion H1 as [E1]; inversion H2 as [E2]; rewrite <- E2 in E1;
    apply si_split in E1; destruct E1 as [Eh _]; exact Eh.
Qed.

(* -- rejections -- *)
Theorem missing_alg_rejected s hf k c : h_has_alg hf = false -> verify_jws s hf k c = false.
Proof.
  intros H. unfold verify_jws, parse_compact.
  destruct (match s with c0 :: _ => Byte.eqb c0 x7b | [] => false end); [reflexivity|].
  destruct (split_dots s) as [|h [|p [|g [|? ?]]]]; try reflexivity.
  destruct (b64_decode h); [|reflexivity]. destruct (h_json_ok hf); cbn [negb]; [|reflexivity]. rewrite H. reflexivity.
Qed.

Theorem header_not_json_rejected s hf k c : h_json_ok hf = false -> verify_jws s hf k c = false.
Proof.
  intros H. unfold verify_jws, parse_compact.
  destruct (match s with c0 :: _ => Byte.eqb c0 x7b | [] => false end); [reflexivity|].
  destruct (split_dots s) as [|h [|p [|g [|? ?]]]]; try reflexivity.
  destruct (b64_decode h); [|reflexivity]. rewrite H. reflexivity.
Qed.

Theorem non_boolean_b64_rejected s hf k c : h_b64 hf = B64NotBool -> verify_jws s hf k c = false.
Proof.
  intros H. unfold verify_jws. destruct (parse_compact s hf) as [[p g]|]; [|reflexivity].
  unfold signing_input. rewrite H. reflexivity.
Qed.

Theorem wrong_part_count_rejected s hf k c : length (split_dots s) <> 3%nat -> verify_jws s hf k c = false.
Proof.
  intros H. unfold verify_jws, parse_compact.
  destruct (match s with c0 :: _ => Byte.eqb c0 x7b | [] => false end); [reflexivity|].
  destruct (split_dots s) as [|h [|p [|g [|? ?]]]]; try reflexivity. cbn in H. congruence.
Qed.

Theorem unknown_key_type_rejected k sig c :
  eqs (k_kty k) "EC" = false -> eqs (k_kty k) "OKP" = false -> verify_signature k sig c = false.
Proof. intros H1 H2. unfold verify_signature. rewrite H1, H2. reflexivity. Qed.

Theorem unknown_curve_rejected k sig c :
  eqs (k_kty k) "EC" = true -> ec_key_size (k_crv k) = None -> verify_signature k sig c = false.
Proof. intros H1 H2. unfold verify_signature. rewrite H1, H2. reflexivity. Qed.

Theorem wrong_signature_size_rejected k sig c n :
  eqs (k_kty k) "EC" = true -> ec_key_size (k_crv k) = Some n -> Z.of_nat (length sig) <> 2 * n ->
  verify_signature k sig c = false.
Proof.
  intros H1 H2 H3. unfold verify_signature. rewrite H1, H2. apply Z.eqb_neq in H3. rewrite H3.
  rewrite andb_false_r. reflexivity.
Qed.

Theorem bad_jwk_rejected k sig c : jwk_decodes k = false -> verify_signature k sig c = false.
Proof.
  intros H. unfold verify_signature. destruct (eqs (k_kty k) "EC").
  - destruct (ec_key_size (k_crv k)); [rewrite H|]; reflexivity.
  - destruct (eqs (k_kty k) "OKP"); [rewrite H|]; reflexivity.
Qed.

Theorem secp256k1_jwk_checks k :
  eq_fold (k_kty k) "EC" = true -> eq_fold (k_crv k) "secp256k1" = true ->
  (jwk_decodes k = true <-> k_x_len k = 32 /\ k_y_len k = 32 /\ k_on_curve k = true).
Proof.
  intros H1 H2. unfold jwk_decodes. rewrite H1, H2. cbn [andb].
  rewrite !andb_true_iff, !Z.eqb_eq. tauto.
Qed.

Theorem forged_signature_rejected s hf k : verify_jws s hf k false = false.
Proof.
  unfold verify_jws. destruct (parse_compact s hf) as [[p g]|]; [|reflexivity].
  destruct (signing_input hf p); [|reflexivity]. unfold verify_signature.
  destruct (eqs (k_kty k) "EC"); [destruct (ec_key_size (k_crv k)); [apply andb_false_r | reflexivity]|].
  destruct (eqs (k_kty k) "OKP"); [apply andb_false_r | reflexivity].
Qed.

(* -- a compact JWS built from (header, payload, signature) parses back to them -- *)
Lemma split_dots_go_app cur a rest :
  ~ In dot a -> split_dots_go cur (a ++ dot :: rest) = (rev cur ++ a) :: split_dots_go [] rest.
Proof.
  revert cur. induction a as [|x r IH]; intros cur Hn; cbn [app split_dots_go].
  - assert (E : Byte.eqb dot dot = true) by reflexivity. rewrite E, app_nil_r. reflexivity.
  - destruct (Byte.eqb x dot) eqn:E.
    + apply Byte.byte_dec_bl in E. subst. elim Hn. left. reflexivity.
    + rewrite IH by (intros Hi; apply Hn; right; exact Hi). cbn [rev]. rewrite <- app_assoc. reflexivity.
Qed.

Lemma split_dots_go_nodot cur a : ~ In dot a -> split_dots_go cur a = [rev cur ++ a].
Proof.
  revert cur. induction a as [|x r IH]; intros cur Hn; cbn [split_dots_go]; [rewrite app_nil_r; reflexivity|].
  destruct (Byte.eqb x dot) eqn:E.
  - apply Byte.byte_dec_bl in E. subst. elim Hn. left. reflexivity.
  - rewrite IH by (intros Hi; apply Hn; right; exact Hi). cbn [rev]. rewrite <- app_assoc. reflexivity.
Qed.

Theorem compact_parses header payload sig hf :
  header <> [] -> payload <> [] -> sig <> [] -> h_json_ok hf = true -> h_has_alg hf = true ->
  parse_compact (compact header payload sig) hf = Some (payload, sig).
Proof.
  intros Hh Hp Hs Hj Ha. unfold parse_compact, compact.
  assert (Hnd : forall l, ~ In dot (b64_encode l)) by (intros l; apply (b64_encode_no_dot _ _ (le_n _))).
  (* the first character is a base64 character, never '{' *)
  assert (H0 : match b64_encode header ++ [dot] ++ b64_encode payload ++ [dot] ++ b64_encode sig with
               | c :: _ => Byte.eqb c x7b | [] => false end = false).
  { destruct header as [|a [|b [|c r]]]; [congruence| | |]; cbn [b64_encode app];
      match goal with |- Byte.eqb (b64_char ?v) _ = false =>
        assert (Hv : (v < 64)%N) by (pose proof (to_N_lt a); try pose proof (to_N_lt b); try pose proof (to_N_lt c); zify; Z.div_mod_to_equations; lia);
        pose proof (in_all64 v Hv) as Hi;
        assert (Hall : forallb (fun w => negb (Byte.eqb (b64_char w) x7b)) all64 = true) by (vm_compute; reflexivity);
        pose proof (proj1 (forallb_forall _ _) Hall v Hi) as Hx; cbn beta in Hx; apply negb_true_iff in Hx; exact Hx
      end. }
  rewrite H0. unfold split_dots. cbn [app].
  rewrite (split_dots_go_app [] (b64_encode header)) by apply Hnd.
  rewrite (split_dots_go_app [] (b64_encode payload)) by apply Hnd.
  rewrite (split_dots_go_nodot [] (b64_encode sig)) by apply Hnd.
  cbn [rev app]. rewrite !b64_roundtrip, Hj, Ha. cbn [negb].
  destruct payload; [congruence|]. destruct sig; [congruence|]. reflexivity.
Qed.

(* signing with the matching key then verifying succeeds: [crypto_ok] is the primitive's verdict on
   the signature over the signing input (true for a correct signer) *)
Theorem sign_then_verify header payload sig hf k msg :
  header <> [] -> payload <> [] -> sig <> [] ->
  h_json_ok hf = true -> h_has_alg hf = true -> signing_input hf payload = Some msg ->
  jwk_decodes k = true ->
  (eqs (k_kty k) "EC" = true /\ exists n, ec_key_size (k_crv k) = Some n /\ Z.of_nat (length sig) = 2 * n)
  \/ (eqs (k_kty k) "EC" = false /\ eqs (k_kty k) "OKP" = true) ->
  verify_jws (compact header payload sig) hf k true = true.
Proof.
  intros Hh Hp Hs Hj Ha Hm Hd Hk. unfold verify_jws. rewrite compact_parses by assumption. rewrite Hm.
  unfold verify_signature. destruct Hk as [[He (n & Hn & Hl)]|[He Ho]].
  - rewrite He, Hn, Hd. apply Z.eqb_eq in Hl. rewrite Hl. reflexivity.
  - rewrite He, Ho, Hd. reflexivity.
Qed.
