(* internal/jws.VerifyJWS with the option WithJWSDetachedPayload(d): parseCompactedPayload returns d whenever d is
   non-empty, WITHOUT looking at the payload segment (it may be empty, hold another payload, or not be base64url at
   all); an empty d means the option is absent.  The model states this as: verification of the compact form whose
   payload segment is the encoding of d.  The harness calls the real verifier with the option (hook
   verifhooks.VerifyJWSDetached) and asks the model about that equivalent form (C09 cases "detached:*"). *)
From Coq Require Import String List ZArith NArith Bool.
From Coq.Strings Require Import Byte.
From SV Require Import Base.Bytes Hash.B64 Hash.MultihashProofs Jws.Compact Jws.CompactProofs.
Import ListNotations.
Local Open Scope list_scope.

Definition with_payload (s d : bytes) : option bytes :=
  match split_dots s with
  | [h; _; g] => Some (h ++ [dot] ++ b64_encode d ++ [dot] ++ g)
  | _ => None
  end.

Definition verify_jws_detached (s d : bytes) (hf : hdr_facts) (k : jwk) (crypto_ok : bool) : bool :=
  match d with
  | [] => verify_jws s hf k crypto_ok
  | _ :: _ => match with_payload s d with Some s' => verify_jws s' hf k crypto_ok | None => false end
  end.

Lemma split_dots_go_parts_no_dot l : forall cur, ~ In dot cur -> Forall (fun x => ~ In dot x) (split_dots_go cur l).
Proof.
  induction l as [|c r IH]; intros cur Hc; cbn [split_dots_go].
  - constructor; [|constructor]. intros Hi. apply Hc. apply in_rev. exact Hi.
  - destruct (Byte.eqb c dot) eqn:E.
    + constructor; [intros Hi; apply Hc; apply in_rev; exact Hi|]. apply IH. intros [].
    + apply IH. intros [Hi|Hi]; [|exact (Hc Hi)]. subst. assert (Byte.eqb dot dot = true) by reflexivity. congruence.
Qed.

Lemma split_with_payload s d h p g :
  split_dots s = [h; p; g] -> split_dots (h ++ [dot] ++ b64_encode d ++ [dot] ++ g) = [h; b64_encode d; g].
Proof.
  intros Hs. pose proof (split_dots_go_parts_no_dot s [] (fun x => x)) as Hf. fold (split_dots s) in Hf. rewrite Hs in Hf.
  inversion Hf as [|? ? Hh Hf1]; subst. inversion Hf1 as [|? ? _ Hf2]; subst. inversion Hf2 as [|? ? Hg _]; subst.
  unfold split_dots. cbn [app].
  rewrite (split_dots_go_app [] h) by exact Hh.
  rewrite (split_dots_go_app [] (b64_encode d)) by (apply (b64_encode_no_dot _ _ (le_n _))).
  rewrite (split_dots_go_nodot [] g) by exact Hg. reflexivity.
Qed.

Lemma parse_with_payload s d h p g hf payload sig :
  split_dots s = [h; p; g] ->
  parse_compact (h ++ [dot] ++ b64_encode d ++ [dot] ++ g) hf = Some (payload, sig) -> payload = d /\ b64_decode g = Some sig.
Proof.
  intros Hs. unfold parse_compact. rewrite (split_with_payload s d h p g Hs).
  match goal with |- (if ?b then _ else _) = _ -> _ => destruct b end; [discriminate|].
  destruct (b64_decode h); [|discriminate].
  destruct (negb (h_json_ok hf)); [discriminate|]. destruct (negb (h_has_alg hf)); [discriminate|].
  rewrite b64_roundtrip. destruct d as [|d0 dr]; [discriminate|].
  destruct (b64_decode g) as [[|s0 sr]|]; try discriminate.
  intros H. inversion H; subst. split; reflexivity.
Qed.

(* what is verified under the option is the caller's payload: acceptance means that the signature primitive accepted the
   signing input built from the header and d - the payload segment p plays no role *)
Theorem detached_sound s d hf k crypto_ok :
  d <> [] -> verify_jws_detached s d hf k crypto_ok = true ->
  exists h p g sig msg, split_dots s = [h; p; g] /\ b64_decode g = Some sig /\ sig <> [] /\
    signing_input hf d = Some msg /\ crypto_ok = true /\ jwk_decodes k = true.
Proof.
  intros Hd. unfold verify_jws_detached. destruct d as [|d0 dr]; [congruence|].
  unfold with_payload. destruct (split_dots s) as [|h [|p [|g [|x r]]]] eqn:Hs; try discriminate.
  intros Hv. apply verify_sound in Hv. destruct Hv as (payload & sig & msg & Hp & Hm & Hc & Hk & _ & Hsig & _).
  destruct (parse_with_payload s (d0 :: dr) h p g hf payload sig Hs Hp) as [-> Hg].
  exists h, p, g, sig, msg. repeat split; assumption.
Qed.

(* the payload segment is irrelevant under the option *)
Theorem detached_ignores_segment h p p' g d hf k crypto_ok :
  d <> [] -> ~ In dot h -> ~ In dot p -> ~ In dot p' -> ~ In dot g ->
  verify_jws_detached (h ++ [dot] ++ p ++ [dot] ++ g) d hf k crypto_ok =
  verify_jws_detached (h ++ [dot] ++ p' ++ [dot] ++ g) d hf k crypto_ok.
Proof.
  intros Hd Hh Hp Hp' Hg. unfold verify_jws_detached, with_payload. destruct d as [|d0 dr]; [congruence|].
  unfold split_dots. cbn [app].
  rewrite !(split_dots_go_app [] h) by exact Hh.
  rewrite (split_dots_go_app [] p) by exact Hp. rewrite (split_dots_go_app [] p') by exact Hp'.
  rewrite !(split_dots_go_nodot [] g) by exact Hg. reflexivity.
Qed.

(* forged: whatever the segment and the payload supplied, a signature the primitive refuses is refused *)
Theorem detached_forged_rejected s d hf k : verify_jws_detached s d hf k false = false.
Proof.
  unfold verify_jws_detached. destruct d; [apply forged_signature_rejected|].
  destruct (with_payload s _); [apply forged_signature_rejected|reflexivity].
Qed.

(* a payload the key never signed: if the primitive refuses the signing input of d, the JWS is refused although the
   embedded payload's own signature is fine - stated through crypto_ok, which is the primitive's verdict on the
   signing input the model computes (here: that of d) *)
Theorem detached_without_option s hf k crypto_ok : verify_jws_detached s [] hf k crypto_ok = verify_jws s hf k crypto_ok.
Proof. reflexivity. Qed.
