(* C09 from the compact string alone: the protected-header facts are computed inside Coq (go-jose's JSON decoder
   and encoder, Json/GoJson.v) instead of being supplied as facts. *)
From Coq Require Import List ZArith Bool.
From SV Require Import Base.Bytes Hash.B64 Json.Ast Json.GoJson Jws.Compact Jws.CompactProofs Parser.Accept Parser.ViewOfBytes.
Import ListNotations.

(* the header facts go-jose derives from the first part of a compact string *)
Definition hdr_of_compact (s : bytes) : hdr_facts :=
  match split_dots s with
  | [h; _; _] => fst (fst (hdr_of_part h))
  | _ => {| h_json_ok := false; h_has_alg := false; h_b64 := B64Absent; h_marshal := [] |}
  end.

(* VerifyJWS as a function of the compact string, the key and the primitive's verdict only *)
Definition verify_jws_bytes (s : bytes) (k : jwk) (crypto_ok : bool) : bool := verify_jws s (hdr_of_compact s) k crypto_ok.

Theorem verify_bytes_sound s k crypto_ok :
  verify_jws_bytes s k crypto_ok = true ->
  exists payload sig msg,
    parse_compact s (hdr_of_compact s) = Some (payload, sig) /\ signing_input (hdr_of_compact s) payload = Some msg /\
    crypto_ok = true /\ jwk_decodes k = true /\ payload <> [] /\ sig <> [].
Proof.
  intros H. destruct (verify_sound _ _ _ _ H) as (payload & sig & msg & H1 & H2 & H3 & H4 & H5 & H6 & _).
  exists payload, sig, msg. repeat split; assumption.
Qed.

Theorem forged_bytes_rejected s k : verify_jws_bytes s k false = false.
Proof. apply forged_signature_rejected. Qed.
