(* Model of internal/jws: compact JWS parsing, signing input, signature verification dispatch (C09).
   Definitions only.

   Oracles (facts supplied per case by the harness, Section-free because they are record fields):
   - JSON decoding of the protected header into a map and its re-serialisation by json.Marshal
     (go-jose's JSON package: sorted member names, compact) - [hdr_facts]
   - JWK decoding by go-jose (non-secp256k1 keys) incl. its size and on-curve checks - [k_jose_ok]
   - the signature primitive itself: [crypto_ok] = ECDSA / Ed25519 verification of the signature
     over exactly the bytes the model computes as signing input, under the public key of the JWK *)
From Coq Require Import String List ZArith NArith Bool.
From Coq.Strings Require Import Byte.
From SV Require Import Base.Bytes Hash.B64.
Import ListNotations.
Local Open Scope string_scope.
Local Open Scope list_scope.
Local Open Scope Z_scope.

Definition dot : byte := x2e.

(* strings.Split(s, ".") *)
Fixpoint split_dots_go (cur : bytes) (l : bytes) : list bytes :=
  match l with
  | [] => [rev cur]
  | c :: r => if Byte.eqb c dot then rev cur :: split_dots_go [] r else split_dots_go (c :: cur) r
  end.
Definition split_dots (l : bytes) : list bytes := split_dots_go [] l.

Inductive b64kind := B64Absent | B64True | B64False | B64NotBool.

Record hdr_facts := {
  h_json_ok : bool;      (* the decoded header part is a JSON object (no duplicate names) *)
  h_has_alg : bool;      (* it has an "alg" member *)
  h_b64 : b64kind;       (* the "b64" member *)
  h_marshal : bytes }.   (* json.Marshal of the decoded header map *)

(* parseCompacted: returns payload and signature *)
Definition parse_compact (s : bytes) (hf : hdr_facts) : option (bytes * bytes) :=
  if match s with c :: _ => Byte.eqb c x7b | [] => false end then None   (* JSON serialization not supported *)
  else
  match split_dots s with
  | [h; p; g] =>
    match b64_decode h with
    | None => None
    | Some _ =>
      if negb (h_json_ok hf) then None
      else if negb (h_has_alg hf) then None
      else match b64_decode p with
           | None | Some [] => None
           | Some payload =>
             match b64_decode g with
             | None | Some [] => None
             | Some sig => Some (payload, sig)
             end
           end
    end
  | _ => None
  end.

(* signingInput *)
Definition signing_input (hf : hdr_facts) (payload : bytes) : option bytes :=
  match h_b64 hf with
  | B64NotBool => None
  | B64False => Some (b64_encode (h_marshal hf) ++ [dot] ++ payload)
  | _ => Some (b64_encode (h_marshal hf) ++ [dot] ++ b64_encode payload)
  end.

Record jwk := {
  k_kty : bytes; k_crv : bytes;
  k_x_len : Z; k_y_len : Z;      (* decoded coordinate lengths, -1 = member absent or empty *)
  k_on_curve : bool;             (* secp256k1: point on curve *)
  k_jose_ok : bool }.            (* go-jose accepted the JWK and produced a key of the right kind *)

Definition eqs (a : bytes) (s : String.string) : bool := bytes_eqb a (bytes_of_string s).

(* parseEllipticCurve: signature half size; hashes are part of the crypto oracle *)
Definition ec_key_size (crv : bytes) : option Z :=
  if eqs crv "P-256" then Some 32 else if eqs crv "P-384" then Some 48
  else if eqs crv "P-521" then Some 66 else if eqs crv "secp256k1" then Some 32 else None.

Definition ascii_lower (b : byte) : byte :=
  let n := Byte.to_N b in if ((65 <=? n) && (n <=? 90))%N then byte_of_N (n + 32) else b.
Definition eq_fold (a : bytes) (s : String.string) : bool :=
  bytes_eqb (map ascii_lower a) (map ascii_lower (bytes_of_string s)).

(* JWK.UnmarshalJSON as used by verification: secp256k1 is handled locally, the rest by go-jose *)
Definition jwk_decodes (k : jwk) : bool :=
  if eq_fold (k_kty k) "EC" && eq_fold (k_crv k) "secp256k1" then
    (k_x_len k =? 32) && (k_y_len k =? 32) && k_on_curve k
  else k_jose_ok k.

(* VerifySignature *)
Definition verify_signature (k : jwk) (sig : bytes) (crypto_ok : bool) : bool :=
  if eqs (k_kty k) "EC" then
    match ec_key_size (k_crv k) with
    | None => false
    | Some n => jwk_decodes k && (Z.of_nat (length sig) =? 2 * n) && crypto_ok
    end
  else if eqs (k_kty k) "OKP" then jwk_decodes k && crypto_ok
  else false.

(* VerifyJWS *)
Definition verify_jws (s : bytes) (hf : hdr_facts) (k : jwk) (crypto_ok : bool) : bool :=
  match parse_compact s hf with
  | None => false
  | Some (payload, sig) =>
    match signing_input hf payload with
    | None => false
    | Some _ => verify_signature k sig crypto_ok
    end
  end.

(* building a compact JWS the way the library's signing utilities do *)
Definition compact (header_json payload sig : bytes) : bytes :=
  b64_encode header_json ++ [dot] ++ b64_encode payload ++ [dot] ++ b64_encode sig.
