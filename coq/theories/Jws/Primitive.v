(* C09 - "verification accepts exactly what the key signed", with the signature primitive as a FUNCTION.

   Jws/Compact.v's [verify_jws s hf k crypto_ok] takes the primitive's verdict as a boolean fact of the
   case at hand.  That is the right shape for differential testing, but "rejected under any other key /
   after any change of header or payload" cannot be stated with it.  This file adds one layer:

     V : jwk -> bytes (* message *) -> bytes (* signature *) -> bool        (Section variable)

   is the oracle for the code that is not modelled: crypto/ecdsa.Verify (over the SHA-2 digest of the
   message selected by the curve, signature = r || s), btcec's secp256k1 verification and
   crypto/ed25519.Verify, under the public key carried by the JWK.  Nothing is assumed about V; every
   theorem below holds for all V.  What an unforgeable primitive then gives is spelled out in
   [unforgeable_at_most_one_message].

   Definitions: [jws_message], [verify_jws_with] (both reuse parse_compact / signing_input /
   verify_signature unchanged).  Everything else is proved from CompactProofs.v. *)
From Coq Require Import String List ZArith NArith Bool Lia.
From Coq.Strings Require Import Byte.
From SV Require Import Base.Bytes Hash.B64 Hash.MultihashProofs Jws.Compact Jws.CompactProofs.
Import ListNotations.
Local Open Scope string_scope.
Local Open Scope list_scope.
Local Open Scope Z_scope.

(* what the primitive is asked about: (signing input, decoded signature); None = VerifyJWS fails before
   it reaches the primitive (parseCompacted or signingInput return an error) *)
Definition jws_message (s : bytes) (hf : hdr_facts) : option (bytes * bytes) :=
  match parse_compact s hf with
  | None => None
  | Some (payload, sig) =>
    match signing_input hf payload with
    | None => None
    | Some msg => Some (msg, sig)
    end
  end.

(* the payload part of the signing input: header member "b64": false = the payload as it is *)
Definition raw_payload (hf : hdr_facts) : bool := match h_b64 hf with B64False => true | _ => false end.

Definition payload_part (hf : hdr_facts) (payload : bytes) : bytes :=
  if raw_payload hf then payload else b64_encode payload.

Section Primitive.
  (* ORACLE: the signature primitive (see the header of the file) *)
  Variable V : jwk -> bytes -> bytes -> bool.

  (* VerifyJWS with crypto_ok := V k <signing input> <decoded signature> *)
  Definition verify_jws_with (s : bytes) (hf : hdr_facts) (k : jwk) : bool :=
    match parse_compact s hf with
    | None => false
    | Some (payload, sig) =>
      match signing_input hf payload with
      | None => false
      | Some msg => verify_signature k sig (V k msg sig)
      end
    end.

  (* ------------------------------------------------------------------------------------------ *)
  (* agreement with the existing model                                                          *)
  (* ------------------------------------------------------------------------------------------ *)

  Theorem verify_with_agrees s hf k payload sig msg :
    parse_compact s hf = Some (payload, sig) -> signing_input hf payload = Some msg ->
    verify_jws_with s hf k = verify_jws s hf k (V k msg sig).
  Proof. intros Hp Hs. unfold verify_jws_with, verify_jws. rewrite Hp, Hs. reflexivity. Qed.

  (* when there is no signing input or no decoded signature both models reject, whatever the verdict
     handed to the old one *)
  Theorem verify_with_no_message s hf k :
    jws_message s hf = None -> verify_jws_with s hf k = false /\ forall c, verify_jws s hf k c = false.
  Proof.
    unfold jws_message, verify_jws_with, verify_jws.
    destruct (parse_compact s hf) as [[payload sig]|]; [|auto].
    destruct (signing_input hf payload); [discriminate | auto].
  Qed.

  (* both cases in one equation, for all inputs *)
  Theorem verify_with_spec s hf k :
    verify_jws_with s hf k =
    match jws_message s hf with
    | Some (msg, sig) => verify_jws s hf k (V k msg sig)
    | None => false
    end.
  Proof.
    unfold jws_message, verify_jws_with, verify_jws.
    destruct (parse_compact s hf) as [[payload sig]|]; [|reflexivity].
    destruct (signing_input hf payload); reflexivity.
  Qed.

  Lemma jws_message_inv s hf msg sig :
    jws_message s hf = Some (msg, sig) <->
    exists payload, parse_compact s hf = Some (payload, sig) /\ signing_input hf payload = Some msg.
  Proof.
    unfold jws_message. split.
    - destruct (parse_compact s hf) as [[payload g]|]; [|discriminate].
      destruct (signing_input hf payload) as [m|] eqn:Es; [|discriminate].
      intros H; inversion H; subst. exists payload. auto.
    - intros (payload & Hp & Hs). rewrite Hp, Hs. reflexivity.
  Qed.

  Lemma signing_input_shape hf payload msg :
    signing_input hf payload = Some msg ->
    msg = b64_encode (h_marshal hf) ++ [dot] ++ payload_part hf payload.
  Proof.
    unfold signing_input, payload_part, raw_payload. destruct (h_b64 hf); intros H; inversion H; reflexivity.
  Qed.

  (* ------------------------------------------------------------------------------------------ *)
  (* (a) acceptance = the primitive accepted exactly the signing input of this header and payload *)
  (* ------------------------------------------------------------------------------------------ *)

  Theorem accept_means_primitive_accepted s hf k :
    verify_jws_with s hf k = true ->
    exists payload sig msg,
      parse_compact s hf = Some (payload, sig) /\ signing_input hf payload = Some msg /\
      (* the message: base64url(re-serialised header) "." payload part *)
      msg = b64_encode (h_marshal hf) ++ [dot] ++ payload_part hf payload /\
      (* the primitive accepted it with the decoded signature, under this key *)
      V k msg sig = true /\
      jwk_decodes k = true /\ payload <> [] /\ sig <> [] /\
      h_json_ok hf = true /\ h_has_alg hf = true /\ h_b64 hf <> B64NotBool /\
      ((eqs (k_kty k) "EC" = true /\ exists n, ec_key_size (k_crv k) = Some n /\ Z.of_nat (length sig) = 2 * n)
       \/ (eqs (k_kty k) "EC" = false /\ eqs (k_kty k) "OKP" = true)).
  Proof.
    intros Hv.
    destruct (jws_message s hf) as [[msg sig]|] eqn:Em.
    - rewrite verify_with_spec, Em in Hv.
      destruct (verify_sound _ _ _ _ Hv) as (payload & sig' & msg' & Hp & Hs & Hc & Hd & Hp1 & Hp2 & Hj & Ha & Hb & Hk).
      apply jws_message_inv in Em. destruct Em as (payload0 & Hp0 & Hs0).
      rewrite Hp0 in Hp. inversion Hp; subst payload0 sig'. rewrite Hs0 in Hs. inversion Hs; subst msg'.
      exists payload, sig, msg. repeat (split; [assumption|]).
      split; [apply signing_input_shape; exact Hs0|]. repeat (split; [assumption|]). exact Hk.
    - destruct (verify_with_no_message s hf k Em) as [Hf _]. congruence.
  Qed.

  (* ------------------------------------------------------------------------------------------ *)
  (* (b) tamper evidence                                                                        *)
  (* ------------------------------------------------------------------------------------------ *)

  (* signing inputs are injective in (re-serialised header, payload) when both sides use the same
     payload mode.  (CompactProofs.signing_input_injective is the encoded/encoded case.) *)
  Lemma signing_input_injective_same_mode hf hf' p p' m :
    raw_payload hf = raw_payload hf' ->
    signing_input hf p = Some m -> signing_input hf' p' = Some m ->
    h_marshal hf = h_marshal hf' /\ p = p'.
  Proof.
    intros Hm H1 H2. split; [eapply signing_input_header_determined; eassumption|].
    destruct (raw_payload hf) eqn:Er.
    - (* both raw *)
      apply signing_input_shape in H1. apply signing_input_shape in H2.
      unfold payload_part in H1, H2. rewrite Er in H1. rewrite <- Hm in H2. rewrite H2 in H1.
      apply si_split in H1. destruct H1 as [_ Hp]. symmetry. exact Hp.
    - (* both encoded *)
      assert (Hb : h_b64 hf <> B64False) by (unfold raw_payload in Er; destruct (h_b64 hf); congruence).
      assert (Hb' : h_b64 hf' <> B64False)
        by (symmetry in Hm; unfold raw_payload in Hm; destruct (h_b64 hf'); congruence).
      destruct (signing_input_injective _ _ _ _ _ Hb Hb' H1 H2) as [_ Hp]. exact Hp.
  Qed.

  (* The same-mode premise is about the two FACT records only: in the code "b64" is a member of the very
     header map that h_marshal serialises, so headers with different modes have different h_marshal and
     fall under the first disjunct of [tamper_evident].  The model keeps h_b64 and h_marshal as
     independent facts; for such (inconsistent) facts the premise is needed: *)
  Example mixed_mode_refuted :
    let hm := bytes_of_string "{""alg"":""EdDSA""}" in
    let hf  := {| h_json_ok := true; h_has_alg := true; h_b64 := B64False;  h_marshal := hm |} in
    let hf' := {| h_json_ok := true; h_has_alg := true; h_b64 := B64Absent; h_marshal := hm |} in
    let p  := bytes_of_string "QQ" in       (* raw payload "QQ" *)
    let p' := bytes_of_string "A" in        (* payload "A", base64url "QQ" *)
    p <> p' /\ h_marshal hf = h_marshal hf' /\ signing_input hf p = signing_input hf' p'.
  Proof. vm_compute. repeat split; [discriminate]. Qed.

  (* If two compact strings both verify under k and their decoded payloads or re-serialised headers
     differ, the primitive accepted two DIFFERENT messages under k (each with the signature carried by
     its string). *)
  Theorem tamper_evident s s' hf hf' k p g p' g' :
    verify_jws_with s hf k = true -> verify_jws_with s' hf' k = true ->
    parse_compact s hf = Some (p, g) -> parse_compact s' hf' = Some (p', g') ->
    h_marshal hf <> h_marshal hf' \/ (p <> p' /\ raw_payload hf = raw_payload hf') ->
    exists m m', m <> m' /\
      jws_message s hf = Some (m, g) /\ jws_message s' hf' = Some (m', g') /\
      V k m g = true /\ V k m' g' = true.
  Proof.
    intros Hv Hv' Hp Hp' Hdiff.
    destruct (accept_means_primitive_accepted _ _ _ Hv) as (q & sg & m & Hq & Hs & _ & HV & _).
    destruct (accept_means_primitive_accepted _ _ _ Hv') as (q' & sg' & m' & Hq' & Hs' & _ & HV' & _).
    rewrite Hp in Hq. inversion Hq; subst q sg. rewrite Hp' in Hq'. inversion Hq'; subst q' sg'.
    exists m, m'. split.
    - intros <-. destruct Hdiff as [Hh|[Hne Hmode]].
      + apply Hh. eapply signing_input_header_determined; eassumption.
      + apply Hne. eapply signing_input_injective_same_mode; eassumption.
    - split; [apply jws_message_inv; exists p; auto|]. split; [apply jws_message_inv; exists p'; auto|]. auto.
  Qed.

  (* hence, if under k the primitive accepts one message only (the one the holder of the private key
     signed: unforgeability stated as a property of V), everything that verifies under k carries the
     same re-serialised header and, in the same payload mode, the same payload *)
  Theorem unforgeable_at_most_one_message s s' hf hf' k m0 p g p' g' :
    (forall m sig, V k m sig = true -> m = m0) ->
    verify_jws_with s hf k = true -> verify_jws_with s' hf' k = true ->
    parse_compact s hf = Some (p, g) -> parse_compact s' hf' = Some (p', g') ->
    h_marshal hf = h_marshal hf' /\ (raw_payload hf = raw_payload hf' -> p = p').
  Proof.
    intros Hunf Hv Hv' Hp Hp'.
    assert (Hcontra : forall D : Prop,
               (D -> h_marshal hf <> h_marshal hf' \/ (p <> p' /\ raw_payload hf = raw_payload hf')) -> ~ D).
    { intros D HD d. destruct (tamper_evident _ _ _ _ _ _ _ _ _ Hv Hv' Hp Hp' (HD d)) as (m & m' & Hne & _ & _ & H1 & H2).
      apply Hne. rewrite (Hunf _ _ H1), (Hunf _ _ H2). reflexivity. }
    split.
    - destruct (list_eq_dec Byte.byte_eq_dec (h_marshal hf) (h_marshal hf')) as [E|N]; [exact E|].
      exfalso. apply (Hcontra (h_marshal hf <> h_marshal hf')); [intros d; left; exact d | exact N].
    - intros Hmode. destruct (list_eq_dec Byte.byte_eq_dec p p') as [E|N]; [exact E|].
      exfalso. apply (Hcontra (p <> p')); [intros d; right; split; [exact d | exact Hmode] | exact N].
  Qed.

  (* ------------------------------------------------------------------------------------------ *)
  (* (c) key binding                                                                            *)
  (* ------------------------------------------------------------------------------------------ *)

  (* acceptance under another key k' means the primitive accepted that very message and signature
     under k' *)
  Theorem other_key_accepts_same_message s hf k' msg sig :
    jws_message s hf = Some (msg, sig) -> verify_jws_with s hf k' = true -> V k' msg sig = true.
  Proof.
    intros Hm Hv. destruct (accept_means_primitive_accepted _ _ _ Hv) as (q & sg & m & Hq & Hs & _ & HV & _).
    apply jws_message_inv in Hm. destruct Hm as (q0 & Hq0 & Hs0).
    rewrite Hq0 in Hq. inversion Hq; subst q0 sg. rewrite Hs0 in Hs. inversion Hs; subst m. exact HV.
  Qed.

  (* contrapositive: a key under which the primitive rejects (message, signature) rejects the JWS *)
  Theorem rejected_under_key_that_does_not_verify s hf k' msg sig :
    jws_message s hf = Some (msg, sig) -> V k' msg sig = false -> verify_jws_with s hf k' = false.
  Proof. intros Hm HV. rewrite verify_with_spec, Hm, HV. apply forged_signature_rejected. Qed.

  (* the message does not depend on the key *)
  Theorem message_independent_of_key s hf k k' :
    verify_jws_with s hf k = true -> verify_jws_with s hf k' = true ->
    exists msg sig, jws_message s hf = Some (msg, sig) /\ V k msg sig = true /\ V k' msg sig = true.
  Proof.
    intros Hv Hv'. destruct (jws_message s hf) as [[msg sig]|] eqn:Em.
    - exists msg, sig. split; [reflexivity|]. split; eapply other_key_accepts_same_message; eassumption.
    - destruct (verify_with_no_message s hf k Em) as [Hf _]. congruence.
  Qed.

  (* ------------------------------------------------------------------------------------------ *)
  (* (d) sign, then verify                                                                      *)
  (* ------------------------------------------------------------------------------------------ *)

  (* [sign]: the signer for the private key matching k.  The hypothesis is the correctness of the
     primitive for that key pair, needed for this one message only.  The other hypotheses are those of
     CompactProofs.sign_then_verify: [hf] are the facts of [header]; for EC keys the signature has the
     fixed r||s size of the curve. *)
  Theorem sign_then_verify_with (sign : bytes -> bytes) header payload hf k msg :
    V k msg (sign msg) = true ->
    header <> [] -> payload <> [] -> sign msg <> [] ->
    h_json_ok hf = true -> h_has_alg hf = true -> signing_input hf payload = Some msg ->
    jwk_decodes k = true ->
    (eqs (k_kty k) "EC" = true /\ exists n, ec_key_size (k_crv k) = Some n /\ Z.of_nat (length (sign msg)) = 2 * n)
    \/ (eqs (k_kty k) "EC" = false /\ eqs (k_kty k) "OKP" = true) ->
    verify_jws_with (compact header payload (sign msg)) hf k = true.
  Proof.
    intros HV Hh Hp Hs Hj Ha Hm Hd Hk.
    rewrite (verify_with_agrees _ _ _ payload (sign msg) msg); [|apply compact_parses; assumption | exact Hm].
    rewrite HV. apply (sign_then_verify header payload (sign msg) hf k msg); assumption.
  Qed.

  (* and what it carries is what was signed *)
  Theorem built_jws_message header payload sig hf msg :
    header <> [] -> payload <> [] -> sig <> [] -> h_json_ok hf = true -> h_has_alg hf = true ->
    signing_input hf payload = Some msg ->
    jws_message (compact header payload sig) hf = Some (msg, sig).
  Proof.
    intros Hh Hp Hs Hj Ha Hm. apply jws_message_inv. exists payload. split; [apply compact_parses; assumption | exact Hm].
  Qed.
End Primitive.

(* ---------------------------------------------------------------------------------------------- *)
(* non-vacuity: a toy primitive (NOT a signature scheme: sign k m = curve name ++ reversed message) *)
(* ---------------------------------------------------------------------------------------------- *)
Definition toy_sign (k : jwk) (m : bytes) : bytes := k_crv k ++ rev m.
Definition toy_V (k : jwk) (m sig : bytes) : bool := bytes_eqb sig (toy_sign k m).

Definition toy_key (crv : String.string) : jwk :=
  {| k_kty := bytes_of_string "OKP"; k_crv := bytes_of_string crv; k_x_len := 32; k_y_len := -1;
     k_on_curve := false; k_jose_ok := true |}.
Definition toy_hdr : bytes := bytes_of_string "{""alg"":""EdDSA""}".
Definition toy_hf : hdr_facts := {| h_json_ok := true; h_has_alg := true; h_b64 := B64Absent; h_marshal := toy_hdr |}.
Definition toy_payload : bytes := bytes_of_string "{""didSuffix"":""abc""}".
Definition toy_msg : bytes := b64_encode toy_hdr ++ [dot] ++ b64_encode toy_payload.
Definition toy_jws (k : jwk) (payload : bytes) : bytes :=
  compact toy_hdr payload (toy_sign k (b64_encode toy_hdr ++ [dot] ++ b64_encode payload)).

(* the hypotheses of sign_then_verify_with hold, and the conclusion evaluates *)
Example toy_sign_then_verify_hyps :
  let k := toy_key "Ed25519" in
  toy_V k toy_msg (toy_sign k toy_msg) = true /\ toy_hdr <> [] /\ toy_payload <> [] /\ toy_sign k toy_msg <> [] /\
  signing_input toy_hf toy_payload = Some toy_msg /\ jwk_decodes k = true /\
  eqs (k_kty k) "EC" = false /\ eqs (k_kty k) "OKP" = true.
Proof. vm_compute. repeat split; discriminate. Qed.

Example toy_verifies : verify_jws_with toy_V (toy_jws (toy_key "Ed25519") toy_payload) toy_hf (toy_key "Ed25519") = true.
Proof. vm_compute. reflexivity. Qed.

Example toy_message :
  jws_message (toy_jws (toy_key "Ed25519") toy_payload) toy_hf = Some (toy_msg, toy_sign (toy_key "Ed25519") toy_msg).
Proof. vm_compute. reflexivity. Qed.

(* another key: rejected *)
Example toy_other_key_rejected :
  verify_jws_with toy_V (toy_jws (toy_key "Ed25519") toy_payload) toy_hf (toy_key "Ed448") = false.
Proof. vm_compute. reflexivity. Qed.

(* payload replaced under the old signature: rejected *)
Example toy_tampered_payload_rejected :
  let k := toy_key "Ed25519" in
  verify_jws_with toy_V
    (compact toy_hdr (bytes_of_string "{""didSuffix"":""abd""}") (toy_sign k toy_msg)) toy_hf k = false.
Proof. vm_compute. reflexivity. Qed.

(* header replaced (other re-serialisation) under the old signature: rejected *)
Example toy_tampered_header_rejected :
  let k := toy_key "Ed25519" in
  let hdr' := bytes_of_string "{""alg"":""EdDSA"",""kid"":""k1""}" in
  verify_jws_with toy_V (compact hdr' toy_payload (toy_sign k toy_msg))
    {| h_json_ok := true; h_has_alg := true; h_b64 := B64Absent; h_marshal := hdr' |} k = false.
Proof. vm_compute. reflexivity. Qed.

(* tamper_evident's premises are satisfiable: two different payloads, each signed, both verify, and the
   two messages differ *)
Example toy_two_signed_messages :
  let k := toy_key "Ed25519" in
  let p' := bytes_of_string "{""didSuffix"":""abd""}" in
  verify_jws_with toy_V (toy_jws k toy_payload) toy_hf k = true /\
  verify_jws_with toy_V (toy_jws k p') toy_hf k = true /\
  option_map fst (jws_message (toy_jws k toy_payload) toy_hf) <> option_map fst (jws_message (toy_jws k p') toy_hf).
Proof. vm_compute. repeat split; discriminate. Qed.

Print Assumptions verify_with_agrees.
Print Assumptions verify_with_no_message.
Print Assumptions verify_with_spec.
Print Assumptions accept_means_primitive_accepted.
Print Assumptions signing_input_injective_same_mode.
Print Assumptions tamper_evident.
Print Assumptions unforgeable_at_most_one_message.
Print Assumptions other_key_accepts_same_message.
Print Assumptions rejected_under_key_that_does_not_verify.
Print Assumptions message_independent_of_key.
Print Assumptions sign_then_verify_with.
Print Assumptions built_jws_message.
