(* base64url without padding, as encoding/base64.RawURLEncoding implements it (encoder package).
   Definitions only.  The decoder mirrors Go's non-strict decoder: CR and LF are skipped, the
   unused low bits of the last character are ignored, a 1-character tail is an error. *)
From Coq Require Import List NArith Bool.
From Coq.Strings Require Import Byte.
From SV Require Import Base.Bytes.
Import ListNotations.
Local Open Scope N_scope.

Definition b64_char (v : N) : byte :=
  byte_of_N (if v <? 26 then 65 + v                 (* A-Z *)
             else if v <? 52 then 97 + (v - 26)     (* a-z *)
             else if v <? 62 then 48 + (v - 52)     (* 0-9 *)
             else if v =? 62 then 45 else 95).      (* - _ *)

Definition b64_val (c : byte) : option N :=
  let n := Byte.to_N c in
  if (65 <=? n) && (n <=? 90) then Some (n - 65)
  else if (97 <=? n) && (n <=? 122) then Some (n - 97 + 26)
  else if (48 <=? n) && (n <=? 57) then Some (n - 48 + 52)
  else if n =? 45 then Some 62
  else if n =? 95 then Some 63
  else None.

Fixpoint b64_encode (l : bytes) : bytes :=
  match l with
  | [] => []
  | [a] => let x := Byte.to_N a in [b64_char (x / 4); b64_char ((x mod 4) * 16)]
  | [a; b] =>
    let x := Byte.to_N a * 256 + Byte.to_N b in
    [b64_char (x / 1024); b64_char ((x / 16) mod 64); b64_char ((x mod 16) * 4)]
  | a :: b :: c :: r =>
    let x := Byte.to_N a * 65536 + Byte.to_N b * 256 + Byte.to_N c in
    b64_char (x / 262144) :: b64_char ((x / 4096) mod 64) :: b64_char ((x / 64) mod 64) :: b64_char (x mod 64)
    :: b64_encode r
  end.

(* values of the characters, newlines dropped; None on a character outside the alphabet *)
Fixpoint b64_values (l : bytes) : option (list N) :=
  match l with
  | [] => Some []
  | c :: r =>
    let n := Byte.to_N c in
    if (n =? 10) || (n =? 13) then b64_values r
    else match b64_val c, b64_values r with
         | Some v, Some vs => Some (v :: vs)
         | _, _ => None
         end
  end.

Fixpoint b64_decode_values (vs : list N) : option bytes :=
  match vs with
  | [] => Some []
  | [_] => None
  | [a; b] => Some [byte_of_N ((a * 64 + b) / 16)]
  | [a; b; c] => let x := (a * 4096 + b * 64 + c) / 4 in Some [byte_of_N (x / 256); byte_of_N (x mod 256)]
  | a :: b :: c :: d :: r =>
    match b64_decode_values r with
    | Some t => let x := a * 262144 + b * 4096 + c * 64 + d in
                Some (byte_of_N (x / 65536) :: byte_of_N ((x / 256) mod 256) :: byte_of_N (x mod 256) :: t)
    | None => None
    end
  end.

Definition b64_decode (l : bytes) : option bytes :=
  match b64_values l with Some vs => b64_decode_values vs | None => None end.
