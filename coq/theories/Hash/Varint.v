(* Unsigned varints and multihash framing as github.com/multiformats/go-varint v0.0.6 and
   go-multihash v0.0.14 implement them.  Definitions only. *)
From Coq Require Import List NArith Bool.
From Coq.Strings Require Import Byte.
From SV Require Import Base.Bytes.
Import ListNotations.
Local Open Scope N_scope.

(* binary.PutUvarint *)
Fixpoint put_uvarint_fuel (fuel : nat) (x : N) : bytes :=
  match fuel with
  | O => []
  | S f => if x <? 128 then [byte_of_N x] else byte_of_N (128 + x mod 128) :: put_uvarint_fuel f (x / 128)
  end.
Definition put_uvarint (x : N) : bytes := put_uvarint_fuel 10 x.

(* varint.FromUvarint: at most 9 bytes, minimal encoding required; returns value and rest *)
Fixpoint from_uvarint_go (i : nat) (s : N) (acc : N) (l : bytes) : option (N * bytes) :=
  match l with
  | [] => None                                             (* ErrUnderflow *)
  | b :: r =>
    let n := Byte.to_N b in
    if (Nat.eqb i 8 && (128 <=? n)) || Nat.leb 9 i then None     (* ErrOverflow *)
    else if n <? 128 then
      if (n =? 0) && (0 <? s) then None                     (* ErrNotMinimal *)
      else Some (acc + n * 2 ^ s, r)
    else from_uvarint_go (S i) (s + 7) (acc + (n - 128) * 2 ^ s) r
  end.
Definition from_uvarint (l : bytes) : option (N * bytes) := from_uvarint_go 0 0 0 l.

(* multihash.Encode (code validity is checked by the callers' algorithm tables) *)
Definition mh_encode (code : N) (digest : bytes) : bytes :=
  put_uvarint code ++ put_uvarint (N.of_nat (length digest)) ++ digest.

(* multihash.Decode *)
Definition mh_decode (buf : bytes) : option (N * bytes) :=
  if Nat.ltb (length buf) 2 then None else
  match from_uvarint buf with
  | None => None
  | Some (code, r1) =>
    match from_uvarint r1 with
    | None => None
    | Some (len, r2) =>
      if 2147483647 <? len then None
      else if N.of_nat (length r2) =? len then Some (code, r2) else None
    end
  end.
