(* SHA-256 and SHA-512 (FIPS 180-4) on byte strings, for evaluating hashes inside the model so
   that the correspondence needs no hash oracle.  Definitions only.  Theorems never rely on
   properties of these functions beyond being functions (collisions are stated explicitly). *)
From Coq Require Import String List NArith Bool.
From Coq.Strings Require Import Byte.
From SV Require Import Base.Bytes.
Import ListNotations.
Local Open Scope string_scope.
Local Open Scope list_scope.
Local Open Scope N_scope.

Record sha_params := {
  sp_w : N;                      (* word size in bits *)
  sp_mask : N;                   (* 2^w - 1, as a literal (evaluation speed) *)
  sp_block : nat;                (* block size in bytes *)
  sp_lenbytes : nat;             (* size of the length field in bytes *)
  sp_k : list N; sp_h0 : list N;
  sp_S0 : N * N * N; sp_S1 : N * N * N;   (* big sigma rotations *)
  sp_s0 : N * N * N; sp_s1 : N * N * N;   (* small sigma: rotr, rotr, shr *)
  sp_out : nat }.                (* digest length in bytes *)

Section Sha.
  Variable P : sha_params.
  Let w := sp_w P.
  Let mask := sp_mask P.
  (* reduction modulo 2^w is masking with 2^w - 1 *)
  Definition rotr (n x : N) : N := N.lor (N.shiftr x n) (N.land (N.shiftl x (w - n)) mask).
  Definition add (a b : N) : N := N.land (a + b) mask.
  Definition bigS (c : N * N * N) (x : N) : N :=
    let '(a, b, d) := c in N.lxor (N.lxor (rotr a x) (rotr b x)) (rotr d x).
  Definition smallS (c : N * N * N) (x : N) : N :=
    let '(a, b, d) := c in N.lxor (N.lxor (rotr a x) (rotr b x)) (N.shiftr x d).
  Definition ch (x y z : N) : N := N.lxor (N.land x y) (N.land (N.lxor x mask) z).
  Definition maj (x y z : N) : N := N.lxor (N.lxor (N.land x y) (N.land x z)) (N.land y z).

  Fixpoint be_word (l : bytes) (acc : N) : N :=
    match l with [] => acc | b :: r => be_word r (acc * 256 + Byte.to_N b) end.

  Fixpoint words (fuel : nat) (wb : nat) (l : bytes) : list N :=
    match fuel with
    | O => []
    | S f => match l with [] => [] | _ => be_word (firstn wb l) 0 :: words f wb (skipn wb l) end
    end.

  (* one round: state (a..h), window of the last 16 schedule words *)
  Definition round (st : list N) (k wt : N) : list N :=
    match st with
    | [a; b; c; d; e; f; g; h] =>
      let t1 := add (add (add (add h (bigS (sp_S1 P) e)) (ch e f g)) k) wt in
      let t2 := add (bigS (sp_S0 P) a) (maj a b c) in
      [add t1 t2; a; b; c; add d t1; e; f; g]
    | _ => st
    end.

  Definition next_w (win : list N) : N :=
    add (add (add (smallS (sp_s1 P) (nth 14 win 0)) (nth 9 win 0)) (smallS (sp_s0 P) (nth 1 win 0))) (nth 0 win 0).

  Fixpoint rounds (ks : list N) (i : nat) (win : list N) (st : list N) : list N :=
    match ks with
    | [] => st
    | k :: kr =>
      if Nat.ltb i 16 then rounds kr (S i) win (round st k (nth i win 0))
      else let wn := next_w win in rounds kr (S i) (tl win ++ [wn]) (round st k wn)
    end.

  Definition compress (h : list N) (block : bytes) : list N :=
    let ws := words 16 (N.to_nat (w / 8)) block in
    let st := rounds (sp_k P) 0 ws h in
    map (fun p => add (fst p) (snd p)) (combine h st).

  Fixpoint be_bytes (n : nat) (x : N) : bytes :=
    match n with O => [] | S k => be_bytes k (x / 256) ++ [byte_of_N (x mod 256)] end.

  Definition pad (msg : bytes) : bytes :=
    let l := length msg in
    let blk := sp_block P in
    let used := Nat.modulo (Nat.add (Nat.add l 1) (sp_lenbytes P)) blk in
    let zeros := if Nat.eqb used 0 then O else Nat.sub blk used in
    msg ++ [x80] ++ repeat x00 zeros ++ be_bytes (sp_lenbytes P) (N.of_nat l * 8).

  Fixpoint blocks (fuel : nat) (h : list N) (l : bytes) : list N :=
    match fuel with
    | O => h
    | S f => match l with [] => h | _ => blocks f (compress h (firstn (sp_block P) l)) (skipn (sp_block P) l) end
    end.

  Definition sha (msg : bytes) : bytes :=
    let p := pad msg in
    let h := blocks (S (Nat.div (length p) (sp_block P))) (sp_h0 P) p in
    firstn (sp_out P) (flat_map (be_bytes (N.to_nat (w / 8))) h).
End Sha.

Definition sha256_params : sha_params :=
  {| sp_w := 32; sp_mask := 4294967295; sp_block := 64; sp_lenbytes := 8;
     sp_k := [1116352408; 1899447441; 3049323471; 3921009573; 961987163; 1508970993; 2453635748; 2870763221; 3624381080; 310598401; 607225278; 1426881987; 1925078388; 2162078206; 2614888103; 3248222580; 3835390401; 4022224774; 264347078; 604807628; 770255983; 1249150122; 1555081692; 1996064986; 2554220882; 2821834349; 2952996808; 3210313671; 3336571891; 3584528711; 113926993; 338241895; 666307205; 773529912; 1294757372; 1396182291; 1695183700; 1986661051; 2177026350; 2456956037; 2730485921; 2820302411; 3259730800; 3345764771; 3516065817; 3600352804; 4094571909; 275423344; 430227734; 506948616; 659060556; 883997877; 958139571; 1322822218; 1537002063; 1747873779; 1955562222; 2024104815; 2227730452; 2361852424; 2428436474; 2756734187; 3204031479; 3329325298];
     sp_h0 := [1779033703; 3144134277; 1013904242; 2773480762; 1359893119; 2600822924; 528734635; 1541459225];
     sp_S0 := (2, 13, 22); sp_S1 := (6, 11, 25); sp_s0 := (7, 18, 3); sp_s1 := (17, 19, 10); sp_out := 32 |}.

Definition sha512_params : sha_params :=
  {| sp_w := 64; sp_mask := 18446744073709551615; sp_block := 128; sp_lenbytes := 16;
     sp_k := [4794697086780616226; 8158064640168781261; 13096744586834688815; 16840607885511220156; 4131703408338449720; 6480981068601479193; 10538285296894168987; 12329834152419229976; 15566598209576043074; 1334009975649890238; 2608012711638119052; 6128411473006802146; 8268148722764581231; 9286055187155687089; 11230858885718282805; 13951009754708518548; 16472876342353939154; 17275323862435702243; 1135362057144423861; 2597628984639134821; 3308224258029322869; 5365058923640841347; 6679025012923562964; 8573033837759648693; 10970295158949994411; 12119686244451234320; 12683024718118986047; 13788192230050041572; 14330467153632333762; 15395433587784984357; 489312712824947311; 1452737877330783856; 2861767655752347644; 3322285676063803686; 5560940570517711597; 5996557281743188959; 7280758554555802590; 8532644243296465576; 9350256976987008742; 10552545826968843579; 11727347734174303076; 12113106623233404929; 14000437183269869457; 14369950271660146224; 15101387698204529176; 15463397548674623760; 17586052441742319658; 1182934255886127544; 1847814050463011016; 2177327727835720531; 2830643537854262169; 3796741975233480872; 4115178125766777443; 5681478168544905931; 6601373596472566643; 7507060721942968483; 8399075790359081724; 8693463985226723168; 9568029438360202098; 10144078919501101548; 10430055236837252648; 11840083180663258601; 13761210420658862357; 14299343276471374635; 14566680578165727644; 15097957966210449927; 16922976911328602910; 17689382322260857208; 500013540394364858; 748580250866718886; 1242879168328830382; 1977374033974150939; 2944078676154940804; 3659926193048069267; 4368137639120453308; 4836135668995329356; 5532061633213252278; 6448918945643986474; 6902733635092675308; 7801388544844847127];
     sp_h0 := [7640891576956012808; 13503953896175478587; 4354685564936845355; 11912009170470909681; 5840696475078001361; 11170449401992604703; 2270897969802886507; 6620516959819538809];
     sp_S0 := (28, 34, 39); sp_S1 := (14, 18, 41); sp_s0 := (1, 8, 7); sp_s1 := (19, 61, 6); sp_out := 64 |}.

Definition sha256 : bytes -> bytes := sha sha256_params.
Definition sha512 : bytes -> bytes := sha sha512_params.

Example masks_ok : sp_mask sha256_params = 2 ^ 32 - 1 /\ sp_mask sha512_params = 2 ^ 64 - 1.
Proof. split; reflexivity. Qed.

(* FIPS 180-4 test vectors: "abc" *)
Example sha256_abc :
  sha256 (unhex "616263") = unhex "ba7816bf8f01cfea414140de5dae2223b00361a396177a9cb410ff61f20015ad".
Proof. vm_compute. reflexivity. Qed.
Example sha512_abc :
  sha512 (unhex "616263") = unhex "ddaf35a193617abacc417349ae20413112e6fa4e89a97ea20a9eeee64b55d39a2192992a274fc1a836ba3c23a3feebbd454d4423643ce80e2a9ac94fa54ca49f".
Proof. vm_compute. reflexivity. Qed.
Example sha256_empty :
  sha256 [] = unhex "e3b0c44298fc1c149afbf4c8996fb92427ae41e4649b934ca495991b7852b855".
Proof. vm_compute. reflexivity. Qed.
