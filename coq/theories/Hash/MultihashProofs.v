(* Round trips of base64url, varint and multihash framing; commitment = hash of decoded reveal;
   validity <-> being the hash (C08). *)
From Coq Require Import List NArith ZArith Bool Lia Arith ZifyN ZifyNat ZifyBool.
From Coq.Strings Require Import Byte.
From SV Require Import Base.Bytes Hash.B64 Hash.Varint Hash.Sha2 Hash.Multihash.
Import ListNotations.
Local Open Scope N_scope.
Ltac Zify.zify_post_hook ::= Z.div_mod_to_equations.

(* -- bytes -- *)
Lemma to_N_lt b : Byte.to_N b < 256.
Proof. pose proof (Byte.to_N_bounded b). lia. Qed.

Lemma byte_of_to_N b : byte_of_N (Byte.to_N b) = b.
Proof. unfold byte_of_N. rewrite Byte.of_to_N. reflexivity. Qed.

Lemma to_of_N n : n < 256 -> Byte.to_N (byte_of_N n) = n.
Proof.
  intros H. unfold byte_of_N. destruct (Byte.of_N n) eqn:E.
  - apply Byte.to_of_N in E. exact E.
  - apply Byte.of_N_None_iff in E. lia.
Qed.

Lemma bytes_eqb_refl a : bytes_eqb a a = true.
Proof. induction a as [|x r IH]; cbn; [reflexivity|]. rewrite IH, andb_true_r. destruct x; reflexivity. Qed.

Lemma bytes_eqb_eq a b : bytes_eqb a b = true <-> a = b.
Proof.
  split; [|intros ->; apply bytes_eqb_refl].
  revert b. induction a as [|x r IH]; intros [|y t]; cbn; try discriminate; [reflexivity|].
  intros H. apply andb_true_iff in H. destruct H as [H1 H2]. apply Byte.byte_dec_bl in H1. subst. f_equal. auto.
Qed.

(* -- base64url -- *)
Definition all64 : list N := map N.of_nat (seq 0 64).

Lemma in_all64 v : v < 64 -> In v all64.
Proof.
  intros H. unfold all64. replace v with (N.of_nat (N.to_nat v)) by apply N2Nat.id.
  apply in_map. apply in_seq. lia.
Qed.

Lemma b64_alphabet_ok :
  forallb (fun v => match b64_val (b64_char v) with Some v' => v' =? v | None => false end
                    && negb (Byte.to_N (b64_char v) =? 10) && negb (Byte.to_N (b64_char v) =? 13)) all64 = true.
Proof. vm_compute. reflexivity. Qed.

Lemma b64_val_char v : v < 64 ->
  b64_val (b64_char v) = Some v /\ Byte.to_N (b64_char v) <> 10 /\ Byte.to_N (b64_char v) <> 13.
Proof.
  intros H. pose proof (proj1 (forallb_forall _ _) b64_alphabet_ok v (in_all64 v H)) as Hv. cbn beta in Hv.
  apply andb_true_iff in Hv. destruct Hv as [Hv H13]. apply andb_true_iff in Hv. destruct Hv as [Hv H10].
  destruct (b64_val (b64_char v)) as [v'|]; [|discriminate]. apply N.eqb_eq in Hv. subst.
  apply negb_true_iff, N.eqb_neq in H10, H13. auto.
Qed.

Lemma b64_values_cons v r : v < 64 ->
  b64_values (b64_char v :: r) = match b64_values r with Some vs => Some (v :: vs) | None => None end.
Proof.
  intros H. destruct (b64_val_char v H) as (Hv & H10 & H13). cbn [b64_values].
  apply N.eqb_neq in H10, H13. rewrite H10, H13, Hv. cbn [orb]. reflexivity.
Qed.

Lemma b64_values_encode : forall n l, (length l <= n)%nat ->
  exists vs, b64_values (b64_encode l) = Some vs /\ b64_decode_values vs = Some l.
Proof.
  induction n as [|n IH]; intros l Hl.
  - destruct l; [exists []; split; reflexivity | cbn in Hl; lia].
  - destruct l as [|a [|b [|c r]]].
    + exists []. split; reflexivity.
    + pose proof (to_N_lt a). cbn [b64_encode].
      rewrite b64_values_cons by lia. rewrite b64_values_cons by lia. cbn [b64_values].
      eexists. split; [reflexivity|]. cbn [b64_decode_values]. f_equal. f_equal.
      transitivity (byte_of_N (to_N a)); [f_equal; lia | apply byte_of_to_N].
    + pose proof (to_N_lt a). pose proof (to_N_lt b). cbn [b64_encode].
      rewrite b64_values_cons by lia. rewrite b64_values_cons by lia. rewrite b64_values_cons by lia. cbn [b64_values].
      eexists. split; [reflexivity|]. cbn [b64_decode_values]. f_equal.
      f_equal; [transitivity (byte_of_N (to_N a)); [f_equal; lia | apply byte_of_to_N]|].
      f_equal. transitivity (byte_of_N (to_N b)); [f_equal; lia | apply byte_of_to_N].
    + pose proof (to_N_lt a). pose proof (to_N_lt b). pose proof (to_N_lt c).
      destruct (IH r) as (vs & Hvs & Hdec); [cbn in Hl; lia|].
      cbn [b64_encode].
      rewrite b64_values_cons by lia. rewrite b64_values_cons by lia. rewrite b64_values_cons by lia. rewrite b64_values_cons by lia.
      rewrite Hvs. eexists. split; [reflexivity|]. cbn [b64_decode_values]. rewrite Hdec. f_equal.
      f_equal; [transitivity (byte_of_N (to_N a)); [f_equal; lia | apply byte_of_to_N]|].
      f_equal; [transitivity (byte_of_N (to_N b)); [f_equal; lia | apply byte_of_to_N]|].
      f_equal. transitivity (byte_of_N (to_N c)); [f_equal; lia | apply byte_of_to_N].
Qed.

Theorem b64_roundtrip l : b64_decode (b64_encode l) = Some l.
Proof.
  unfold b64_decode. destruct (b64_values_encode (length l) l (le_n _)) as (vs & Hvs & Hd). rewrite Hvs. exact Hd.
Qed.

(* -- varint -- *)
Lemma from_uvarint_put_go : forall f x i s acc rest,
  x < 2 ^ (7 * N.of_nat (S f)) -> (i + S f <= 9)%nat -> s = 7 * N.of_nat i ->
  (i = O \/ x <> 0) ->
  from_uvarint_go i s acc (put_uvarint_fuel (S f) x ++ rest) = Some (acc + x * 2 ^ s, rest).
Proof.
  induction f as [|f IH]; intros x i s acc rest Hx Hi Hs Hmin.
  - (* one byte *)
    change (7 * N.of_nat 1) with 7 in Hx. change (2 ^ 7) with 128 in Hx.
    cbn [put_uvarint_fuel]. assert (E : x <? 128 = true) by (apply N.ltb_lt; exact Hx). rewrite E.
    cbn [app from_uvarint_go]. rewrite to_of_N by lia.
    assert (Hov : (Nat.eqb i 8 && (128 <=? x)) || Nat.leb 9 i = false).
    { apply orb_false_iff. split; [|apply Nat.leb_gt; lia]. apply andb_false_iff. right. apply N.leb_gt. exact Hx. }
    rewrite Hov, E.
    destruct ((x =? 0) && (0 <? s)) eqn:Em; [|reflexivity].
    apply andb_true_iff in Em. destruct Em as [E0 Es]. apply N.eqb_eq in E0. apply N.ltb_lt in Es.
    destruct Hmin as [->|Hn]; [lia | congruence].
  - remember (S f) as g. cbn [put_uvarint_fuel]. destruct (x <? 128) eqn:E.
    + apply N.ltb_lt in E. cbn [app from_uvarint_go]. rewrite to_of_N by lia.
      assert (Hov : (Nat.eqb i 8 && (128 <=? x)) || Nat.leb 9 i = false).
      { apply orb_false_iff. split; [|apply Nat.leb_gt; lia]. apply andb_false_iff. right. apply N.leb_gt. exact E. }
      rewrite Hov. apply N.ltb_lt in E. rewrite E.
      destruct ((x =? 0) && (0 <? s)) eqn:Em; [|reflexivity].
      apply andb_true_iff in Em. destruct Em as [E0 Es]. apply N.eqb_eq in E0. apply N.ltb_lt in Es.
      destruct Hmin as [->|Hn]; [lia | congruence].
    + apply N.ltb_ge in E. cbn [app from_uvarint_go].
      assert (Hb : 128 + x mod 128 < 256) by (pose proof (N.mod_upper_bound x 128); lia).
      rewrite to_of_N by exact Hb.
      assert (Hov : (Nat.eqb i 8 && (128 <=? 128 + x mod 128)) || Nat.leb 9 i = false).
      { apply orb_false_iff. split; [|apply Nat.leb_gt; lia]. apply andb_false_iff. left. apply Nat.eqb_neq. lia. }
      rewrite Hov. assert (Hlt : 128 + x mod 128 <? 128 = false) by (apply N.ltb_ge; lia). rewrite Hlt.
      replace (128 + x mod 128 - 128) with (x mod 128) by lia. subst g.
      rewrite (IH (x / 128) (S i) (s + 7) (acc + x mod 128 * 2 ^ s) rest).
      * f_equal. f_equal. rewrite N.pow_add_r. change (2 ^ 7) with 128.
        pose proof (N.div_mod x 128 ltac:(lia)). nia.
      * replace (7 * N.of_nat (S (S f))) with (7 + 7 * N.of_nat (S f)) in Hx by lia. rewrite N.pow_add_r in Hx. change (2 ^ 7) with 128 in Hx.
        apply N.div_lt_upper_bound; lia.
      * lia.
      * lia.
      * right. intros H0. assert (x < 128) by (pose proof (N.div_mod x 128 ltac:(lia)); pose proof (N.mod_upper_bound x 128); lia). lia.
Qed.

Theorem varint_roundtrip x rest : x < 2 ^ 63 -> from_uvarint (put_uvarint x ++ rest) = Some (x, rest).
Proof.
  intros H. unfold from_uvarint, put_uvarint.
  (* 9 bytes suffice below 2^63; the 10th unit of fuel is never used *)
  assert (Hfuel : put_uvarint_fuel 10 x = put_uvarint_fuel 9 x).
  { assert (Hgen : forall f y, y < 2 ^ (7 * N.of_nat (S f)) -> put_uvarint_fuel (S (S f)) y = put_uvarint_fuel (S f) y).
    { induction f as [|f IHf]; intros y Hy.
      - change (7 * N.of_nat 1) with 7 in Hy. change (2 ^ 7) with 128 in Hy. cbn [put_uvarint_fuel].
        assert (E : y <? 128 = true) by (apply N.ltb_lt; exact Hy). rewrite E. reflexivity.
      - remember (S f) as g. cbn [put_uvarint_fuel]. destruct (y <? 128); [reflexivity|]. f_equal. subst g. apply IHf.
        replace (7 * N.of_nat (S (S f))) with (7 + 7 * N.of_nat (S f)) in Hy by lia. rewrite N.pow_add_r in Hy. change (2 ^ 7) with 128 in Hy.
        apply N.div_lt_upper_bound; lia. }
    apply (Hgen 8%nat). exact H. }
  rewrite Hfuel. rewrite (from_uvarint_put_go 8 x 0 0 0 rest); [f_equal; f_equal; lia | exact H | lia | reflexivity | left; reflexivity].
Qed.

(* -- multihash framing -- *)
Theorem mh_roundtrip code digest :
  code < 2 ^ 63 -> N.of_nat (length digest) <= 2147483647 ->
  mh_decode (mh_encode code digest) = Some (code, digest).
Proof.
  intros Hc Hl. unfold mh_decode, mh_encode.
  assert (Hlen : Nat.ltb (length (put_uvarint code ++ put_uvarint (N.of_nat (length digest)) ++ digest)) 2 = false).
  { apply Nat.ltb_ge. rewrite !app_length. unfold put_uvarint. cbn [put_uvarint_fuel].
    destruct (code <? 128); destruct (N.of_nat (length digest) <? 128); cbn [length]; lia. }
  rewrite Hlen. rewrite varint_roundtrip by exact Hc. rewrite varint_roundtrip by lia.
  assert (H1 : 2147483647 <? N.of_nat (length digest) = false) by (apply N.ltb_ge; exact Hl). rewrite H1.
  rewrite N.eqb_refl. reflexivity.
Qed.

(* digests of the supported algorithms are short *)
Lemma sha_length_le P msg : (length (sha P msg) <= sp_out P)%nat.
Proof. unfold sha. apply firstn_le_length. Qed.

Lemma hash_of_code_some code h : hash_of_code code = Some h ->
  (code = SHA2_256 /\ h = sha256) \/ (code = SHA2_512 /\ h = sha512).
Proof.
  unfold hash_of_code. destruct (code =? SHA2_256) eqn:E1; [intros H; inversion H; apply N.eqb_eq in E1; auto|].
  destruct (code =? SHA2_512) eqn:E2; [intros H; inversion H; apply N.eqb_eq in E2; auto | discriminate].
Qed.

Lemma get_multihash_compute code data m :
  compute_multihash code data = Some m ->
  exists h, hash_of_code code = Some h /\ get_multihash (b64_encode m) = Some (code, h data).
Proof.
  unfold compute_multihash. destruct (hash_of_code code) as [h|] eqn:E; [|discriminate]. intros H; inversion H; subst.
  exists h. split; [reflexivity|]. unfold get_multihash. rewrite b64_roundtrip. apply mh_roundtrip.
  - destruct (hash_of_code_some _ _ E) as [[-> _]|[-> _]]; vm_compute; reflexivity.
  - destruct (hash_of_code_some _ _ E) as [[_ ->]|[_ ->]].
    + pose proof (sha_length_le sha256_params data). unfold sha256. cbn [sp_out sha256_params] in H0. lia.
    + pose proof (sha_length_le sha512_params data). unfold sha512. cbn [sp_out sha512_params] in H0. lia.
Qed.

(* the commitment of a key is the hash of the decoded reveal value of that key *)
Theorem commitment_is_hash_of_reveal jwk code rv :
  get_reveal_value jwk code = Some rv -> commitment_from_reveal rv = get_commitment jwk code.
Proof.
  unfold get_reveal_value, calculate_model_multihash. destruct (compute_multihash code jwk) as [m|] eqn:E; [|discriminate].
  intros H; inversion H; subst. destruct (get_multihash_compute _ _ _ E) as (h & Hh & Hg).
  unfold commitment_from_reveal, get_commitment. rewrite Hg. unfold compute_multihash. rewrite Hh. reflexivity.
Qed.

(* a model is accepted against a multihash exactly when the multihash is the hash of its canonical
   form under the (supported) algorithm the multihash itself names *)
Theorem valid_iff_is_hash canonical mh :
  is_valid_model_multihash canonical mh = true <->
  exists code, get_multihash_code mh = Some code /\ calculate_model_multihash canonical code = Some mh.
Proof.
  unfold is_valid_model_multihash. split.
  - destruct (get_multihash_code mh) as [code|]; [|discriminate].
    destruct (calculate_model_multihash canonical code) as [s|] eqn:E; [|discriminate].
    intros H. apply bytes_eqb_eq in H. subst. exists code. auto.
  - intros (code & Hc & Hm). rewrite Hc, Hm. apply bytes_eqb_refl.
Qed.

Theorem calculated_multihash_is_valid canonical code mh :
  calculate_model_multihash canonical code = Some mh -> is_valid_model_multihash canonical mh = true.
Proof.
  intros H. apply valid_iff_is_hash. exists code. split; [|exact H].
  unfold calculate_model_multihash in H. destruct (compute_multihash code canonical) as [m|] eqn:E; [|discriminate].
  inversion H; subst. destruct (get_multihash_compute _ _ _ E) as (h & _ & Hg). unfold get_multihash_code. rewrite Hg. reflexivity.
Qed.

(* two different canonical forms accepted by the same multihash give a hash collision *)
Theorem valid_binds_content c1 c2 mh :
  is_valid_model_multihash c1 mh = true -> is_valid_model_multihash c2 mh = true ->
  exists h, (h = sha256 \/ h = sha512) /\ h c1 = h c2.
Proof.
  intros H1 H2. apply valid_iff_is_hash in H1, H2. destruct H1 as (code & Hc & Hm1). destruct H2 as (code' & Hc' & Hm2).
  rewrite Hc in Hc'. inversion Hc'; subst code'.
  unfold calculate_model_multihash in Hm1, Hm2.
  destruct (compute_multihash code c1) as [m1|] eqn:E1; [|discriminate].
  destruct (compute_multihash code c2) as [m2|] eqn:E2; [|discriminate].
  inversion Hm1; inversion Hm2; subst.
  destruct (get_multihash_compute _ _ _ E1) as (h & Hh & Hg1). destruct (get_multihash_compute _ _ _ E2) as (h' & Hh' & Hg2).
  rewrite Hh in Hh'. inversion Hh'; subst h'. rewrite H1 in Hg2. rewrite Hg1 in Hg2. inversion Hg2.
  exists h. split; [|assumption]. destruct (hash_of_code_some _ _ Hh) as [[_ ->]|[_ ->]]; auto.
Qed.
