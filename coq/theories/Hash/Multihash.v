(* Model of pkg/hashing, pkg/commitment and pkg/encoder over canonical JSON bytes (C08).
   Definitions only.  Callers canonicalise first (Json.Jcs); everything here works on the
   canonical bytes of a model. *)
From Coq Require Import List NArith Bool.
From Coq.Strings Require Import Byte.
From SV Require Import Base.Bytes Hash.B64 Hash.Varint Hash.Sha2.
Import ListNotations.
Local Open Scope N_scope.

Definition SHA2_256 : N := 18.
Definition SHA2_512 : N := 19.

(* hashing.GetHashFromMultihash *)
Definition hash_of_code (code : N) : option (bytes -> bytes) :=
  if code =? SHA2_256 then Some sha256 else if code =? SHA2_512 then Some sha512 else None.

(* hashing.ComputeMultihash *)
Definition compute_multihash (code : N) (data : bytes) : option bytes :=
  match hash_of_code code with Some h => Some (mh_encode code (h data)) | None => None end.

(* hashing.GetMultihash: base64url decode, then multihash.Decode *)
Definition get_multihash (s : bytes) : option (N * bytes) :=
  match b64_decode s with Some b => mh_decode b | None => None end.

Definition get_multihash_code (s : bytes) : option N :=
  match get_multihash s with Some (c, _) => Some c | None => None end.

(* hashing.IsComputedUsingMultihashAlgorithms *)
Definition is_computed_using (s : bytes) (codes : list N) : bool :=
  match get_multihash_code s with Some c => existsb (N.eqb c) codes | None => false end.

(* hashing.CalculateModelMultihash on the canonical form of the model *)
Definition calculate_model_multihash (canonical : bytes) (code : N) : option bytes :=
  match compute_multihash code canonical with Some m => Some (b64_encode m) | None => None end.

(* hashing.IsValidModelMultihash: true = nil error *)
Definition is_valid_model_multihash (canonical : bytes) (mh : bytes) : bool :=
  match get_multihash_code mh with
  | Some code => match calculate_model_multihash canonical code with
                 | Some s => bytes_eqb s mh
                 | None => false
                 end
  | None => false
  end.

(* commitment.GetCommitment / GetRevealValue / GetCommitmentFromRevealValue; [jwk] = canonical JWK *)
Definition get_commitment (jwk : bytes) (code : N) : option bytes :=
  match hash_of_code code with
  | Some h => Some (b64_encode (mh_encode code (h (h jwk))))
  | None => None
  end.

Definition get_reveal_value (jwk : bytes) (code : N) : option bytes := calculate_model_multihash jwk code.

Definition commitment_from_reveal (rv : bytes) : option bytes :=
  match get_multihash rv with
  | Some (code, digest) =>
    match compute_multihash code digest with Some m => Some (b64_encode m) | None => None end
  | None => None
  end.

(* model.GetUniqueSuffix: multihash of the suffix data under the first configured algorithm *)
Definition unique_suffix (suffix_data_canonical : bytes) (algs : list N) : option bytes :=
  match algs with a :: _ => calculate_model_multihash suffix_data_canonical a | [] => None end.
