(* C08: hashes and identifiers computed from JSON text depend only on the JSON value.
   Composition of the canonicalizer model (Json/Jcs.v, C07) with the multihash model. *)
From Coq Require Import List NArith Bool.
From SV Require Import Base.Bytes Json.Ast Json.Jcs Json.JcsProofs Hash.Sha2 Hash.Multihash Hash.MultihashProofs.
Import ListNotations.

(* hashing.CalculateModelMultihash on raw JSON text ([]byte goes straight to the canonicalizer) *)
Definition text_multihash (text : bytes) (code : N) : option bytes :=
  match transform text with
  | Some c => calculate_model_multihash c code
  | None => None
  end.

(* every serialisation of the same value (member order, white space, escapes, number spelling)
   hashes to the same multihash *)
Theorem hash_depends_only_on_value b1 b2 v1 v2 code :
  parse_value b1 = Some v1 -> parse_value b2 = Some v2 -> json_equiv_jcs v1 v2 ->
  text_multihash b1 code = text_multihash b2 code.
Proof.
  intros H1 H2 He. unfold text_multihash. rewrite (transform_value_only _ _ _ _ H1 H2 He). reflexivity.
Qed.

(* and binds it: equal multihashes mean equal canonical forms, or a SHA-2 collision is exhibited *)
Theorem equal_hash_binds_canonical_form b1 b2 code h :
  text_multihash b1 code = Some h -> text_multihash b2 code = Some h ->
  exists c1 c2, transform b1 = Some c1 /\ transform b2 = Some c2 /\
    (c1 = c2 \/ (c1 <> c2 /\ exists hf, (hf = sha256 \/ hf = sha512) /\ hf c1 = hf c2)).
Proof.
  unfold text_multihash. destruct (transform b1) as [c1|]; [|discriminate]. destruct (transform b2) as [c2|]; [|discriminate].
  intros H1 H2. exists c1, c2. split; [reflexivity|]. split; [reflexivity|].
  destruct (bytes_eqb c1 c2) eqn:E; [left; apply MultihashProofs.bytes_eqb_eq; exact E|].
  right. split.
  - intros Heq. subst. rewrite MultihashProofs.bytes_eqb_refl in E. discriminate.
  - eapply valid_binds_content; eapply calculated_multihash_is_valid; eassumption.
Qed.
