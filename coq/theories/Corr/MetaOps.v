From Coq Require Import List ZArith Bool.
From SV Require Import Resolve.Op Resolve.Process Resolve.MetaOps Corr.Resolve.
Import ListNotations.
Local Open Scope Z_scope.

Record mcase := { m_ops : list aop; m_ok : bool; m_expected : list Z }.

Definition check_mcase (c : mcase) : bool := m_ok c && listZ_eqb (published_ops_view (m_ops c)) (m_expected c).

Definition meta_mismatches (base : nat) (l : list mcase) : list nat := mismatches_from check_mcase base l.
