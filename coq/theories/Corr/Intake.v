From Coq Require Import List ZArith Bool.
From SV Require Import Resolve.Op Resolve.Apply Resolve.Process Resolve.Intake Parser.Recommit Corr.Resolve.
Import ListNotations.
Local Open Scope Z_scope.

(* default operation decorator: a non-create operation for a deactivated DID is refused *)
Record dcase := { d_pub : list aop; d_refused : bool }.

Definition decorator_must_refuse (pub : list aop) : bool :=
  match decorate pub [] with Refused => true | Accepted => false end.

Definition check_dcase (c : dcase) : bool := implb (decorator_must_refuse (d_pub c)) (d_refused c).
Definition dmismatches (base : nat) (l : list dcase) : list nat := mismatches_from check_dcase base l.

(* re-commit rules at intake *)
Record kcase := { k_ty : optype; k_reveal : Z; k_next : Z; k_next_code : Z; k_other : Z; k_other_code : Z;
                  k_accepted : bool; k_panic : bool }.

Definition check_kcase (c : kcase) : bool :=
  negb (k_panic c) &&
  Bool.eqb (k_accepted c)
    (intake_accepts (k_ty c) (k_reveal c) {| ck := k_next c; ccode := k_next_code c |}
                    {| ck := k_other c; ccode := k_other_code c |}).
Definition kmismatches (base : nat) (l : list kcase) : list nat := mismatches_from check_kcase base l.
