(* Correspondence glue for the batch writer: the event trace recorded from the real
   Writer/BatchCutter/MemQueue/OperationHandler and what was observed at the end. *)
From Coq Require Import List ZArith Bool.
From SV Require Import Writer.Machine Corr.Resolve.
Import ListNotations.
Local Open Scope Z_scope.

Definition mkq (id sfx ty ver : Z) : qop := {| q_id := id; q_sfx := sfx; q_ty := ty; q_ver := ver |}.

Fixpoint zinsert (x : Z) (l : list Z) : list Z :=
  match l with [] => [x] | y :: r => if x <=? y then x :: l else y :: zinsert x r end.
Definition zsort (l : list Z) : list Z := fold_right zinsert [] l.

Definition code (o : qop) : Z := q_sfx o * 10 + q_ty o.

(* [w_discarded]: ids of the operations the handler reported expired in batches that were committed (anchored, or -
   when every operation of the batch had expired, F16 - acknowledged without an anchor write), in that order *)
Record wrcase := { w_max : nat; w_events : list event; w_queue : list Z; w_log : list (Z * list Z); w_discarded : list Z;
                   w_panic : bool }.

Fixpoint log_eqb (a : list anchored_batch) (b : list (Z * list Z)) : bool :=
  match a, b with
  | [], [] => true
  | x :: a', (v, cs) :: b' => (ab_ver x =? v) && listZ_eqb (zsort (map code (ab_included x))) cs && log_eqb a' b'
  | _, _ => false
  end.

Definition is_idle (p : pc) : bool := match p with Idle => true | _ => false end.

Definition check_wrcase (c : wrcase) : bool :=
  let s := run (w_max c) (init []) (w_events c) in
  negb (w_panic c) && negb (stuck s) && is_idle (wpc s) &&
  listZ_eqb (ids (queue s)) (w_queue c) && log_eqb (anchored s) (w_log c) &&
  listZ_eqb (ids (discarded s)) (w_discarded c).

Definition wr_mismatches (base : nat) (l : list wrcase) : list nat := mismatches_from check_wrcase base l.
