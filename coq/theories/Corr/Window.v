(* Correspondence glue for the intake side of C05: the arguments a recording TimeValidator
   received from the real parser (batch=false).  Definitions only. *)
From Coq Require Import List ZArith Bool.
From SV Require Import Parser.Window Corr.Resolve.
Import ListNotations.
Local Open Scope Z_scope.

Record wcase := {
  w_delta : Z; w_from : Z; w_until : Z;
  w_called : bool; w_obs_from : Z; w_obs_until : Z }.

Definition check_wcase (c : wcase) : bool :=
  w_called c && (w_obs_from c =? w_from c) && (w_obs_until c =? eff_until (w_delta c) (w_from c) (w_until c)).

Definition wmismatches (base : nat) (l : list wcase) : list nat := mismatches_from check_wcase base l.
