(* Correspondence glue for the JSON canonicalizer (C07): cases observed on the real implementation
   (canonicalizer.MarshalCanonical([]byte) = jsoncanonicalizer.Transform) are replayed on the model. *)
From Coq Require Import List NArith Bool.
From SV Require Import Base.Bytes Json.Ast Json.Num Json.Jcs Corr.Resolve.
Import ListNotations.

Definition obytes_eqb (a b : option bytes) : bool :=
  match a, b with
  | None, None => true
  | Some x, Some y => bytes_eqb x y
  | _, _ => false
  end.

Definition oN_eqb (a b : option N) : bool :=
  match a, b with
  | None, None => true
  | Some x, Some y => N.eqb x y
  | _, _ => false
  end.

(* whole documents: input bytes, observed output (None = an error was returned) *)
Record jcase := { jc_input : bytes; jc_expected : option bytes }.

Definition check_jcase (c : jcase) : bool := obytes_eqb (transform (jc_input c)) (jc_expected c).

Definition j_mismatches (base : nat) (l : list jcase) : list nat := mismatches_from check_jcase base l.

(* numbers: nc_text = what the implementation printed for the double with bit pattern nc_bits (None = error);
   nc_parsed = bits of the double the implementation read from the token nc_token (None = error) *)
Record ncase := { nc_bits : N; nc_text : option bytes; nc_token : bytes; nc_parsed : option N }.

Definition check_ncase (c : ncase) : bool :=
  obytes_eqb (number_to_json (nc_bits c)) (nc_text c) && oN_eqb (parse_number (nc_token c)) (nc_parsed c).

Definition n_mismatches (base : nat) (l : list ncase) : list nat := mismatches_from check_ncase base l.

(* round trip on the model, evaluated on the same number cases: every double that the implementation read from a
   token (nc_parsed) and every finite nc_bits, printed by number_to_json and parsed again, is the same double
   (zero loses its sign).  This is JcsProofs.num_roundtrip (now a theorem, number_to_json checks the parse-back
   itself); the evaluation is kept as an independent check that the self-check never rejects a double. *)
Definition zero_unsigned (b : N) : N := if N.eqb b 0x8000000000000000 then 0%N else b.

Definition rt_ok (b : N) : bool :=
  match number_to_json b with
  | None => true
  | Some s => oN_eqb (parse_number s) (Some (zero_unsigned b))
  end.

Definition check_nrt (c : ncase) : bool :=
  rt_ok (nc_bits c) && match nc_parsed c with Some p => rt_ok p | None => true end.

Definition n_rt_mismatches (base : nat) (l : list ncase) : list nat := mismatches_from check_nrt base l.
