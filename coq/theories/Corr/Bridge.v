(* Correspondence glue for the bridge from operation BYTES to the abstract anchored operation (Resolve/FromBytes.v).

   harness/cmd/gen_bridge builds the operations of the resolution correspondences (C01-C06, C12: same builders, same
   protocol, same commitment table) and records per placed operation
     - the request bytes and the facts that remain facts, each obtained from the real code run on the bytes;
     - [b_stated]: the operation exactly as world.Placed.Gallina renders it for the resolution cases (the builder's
                   by-construction statement);
     - [b_real]  : the same record filled from the real code (real parser in batch mode, VerifyJWS, hashing,
                   ValidateDelta, commitment functions, the decoded signed data).
   The model computes the operation from the bytes ([aop_of_bytes]).  It must agree with [b_real] on every field and
   with [b_stated] on every field that resolution can observe ([aop_norm]; FromBytesProofs.resolve_norm shows that
   resolution cannot tell an operation from its normal form).

   A second kind of case is a whole history given as stored operation bytes with the outcome of the real
   processor.Resolve: the model side is [resolve_bytes].  Definitions only. *)
From Coq Require Import List ZArith NArith Bool String.
From Coq.Strings Require Import Byte.
From SV Require Import Base.Bytes Resolve.Op Resolve.Apply Resolve.Process Parser.Accept Parser.ViewOfBytes Resolve.FromView
  Resolve.FromBytes Corr.Resolve Corr.ViewOfBytes.
Import ListNotations.
Local Open Scope string_scope.
Local Open Scope list_scope.
Local Open Scope Z_scope.

Record bcase := {
  b_proto : pproto;               (* the parser's view of the protocol the operation is applied under *)
  b_bytes : bytes;                (* AnchoredOperation.OperationRequest *)
  b_valid : list bool;            (* patchvalidator.Validate(p) == nil per decoded patch *)
  b_origin : bool;                (* verdict of the anchor-origin plug-in; arbitrary: batch mode does not consult it *)
  b_kf : key_facts;               (* the JWK inside the signed data: on secp256k1 / accepted by the internal decoder *)
  b_crypto_ok : bool;             (* ECDSA / Ed25519 verdict on the model's signing input under that key *)
  b_patch_applies : bool;         (* DocumentComposer.ApplyPatches on the decoded patches *)
  b_coords : coords;
  b_table : list (bytes * Z);     (* world.Table at the end of the run *)
  b_stated : aop;                 (* world.Placed.Gallina *)
  b_real : aop }.                 (* from the real code on the bytes *)

Definition b_computed (c : bcase) : aop :=
  aop_of_bytes (b_proto c) (b_bytes c) (b_valid c) (b_origin c) (b_kf c) (b_crypto_ok c) (b_patch_applies c) (b_coords c)
               (intern_tbl (b_table c)).

(* every commitment string the operation carries is named faithfully by the table (0 then means "empty" only) *)
Definition b_covered (c : bcase) : bool :=
  forallb (tbl_covers (b_table c)) (commitments_of_view (view_of_request (b_bytes c) (b_valid c) (b_origin c))).

(* [check_bcase c = tbl_ok .. && b_covered c && aop_eqb (b_computed c) (b_real c) && aop_eqb (aop_norm ..) (aop_norm ..)],
   written so that the request is decoded once *)
Definition check_bcase (c : bcase) : bool :=
  let v := view_of_request (b_bytes c) (b_valid c) (b_origin c) in
  let o := aop_of_view (b_proto c) v (b_kf c) (b_crypto_ok c) (b_patch_applies c) (b_coords c) (intern_tbl (b_table c)) in
  tbl_ok (b_table c) && forallb (tbl_covers (b_table c)) (commitments_of_view v)
  && aop_eqb o (b_real c)
  && aop_eqb (aop_norm o) (aop_norm (b_stated c)).

Example check_bcase_unfolded c :
  check_bcase c = tbl_ok (b_table c) && b_covered c && aop_eqb (b_computed c) (b_real c)
                  && aop_eqb (aop_norm (b_computed c)) (aop_norm (b_stated c)).
Proof. reflexivity. Qed.

(* a literal for request bytes that are printable ASCII: the characters themselves (half the size of the hex form) *)
Definition rb (b : bytes_lit) : bytes := bl_print b.
Arguments rb _%bl.

Definition b_mismatches (base : nat) (l : list bcase) : list nat := mismatches_from check_bcase base l.

(* diagnosis: what differs.  "real:<field>" = the model computes another value than the real code; "stated:<field>" = the
   model (normal form) differs from the builder's statement (normal form); "raw:<field>" = the builder's statement differs
   from the computed operation before normalisation (informative, not a mismatch by itself) *)
Definition b_diff (c : bcase) : list string :=
  let o := b_computed c in
  (if tbl_ok (b_table c) then [] else ["table not injective"])
  ++ (if b_covered c then [] else ["commitment string missing in table"])
  ++ map (append "real:") (aop_diff o (b_real c))
  ++ map (append "stated:") (aop_diff (aop_norm o) (aop_norm (b_stated c))).

Definition b_raw_diff (c : bcase) : list string := map (append "raw:") (aop_diff (b_computed c) (b_stated c)).

Fixpoint b_diffs_from (i : nat) (l : list bcase) : list (nat * list string) :=
  match l with
  | [] => []
  | c :: r => match b_diff c with [] => b_diffs_from (S i) r | d => (i, d) :: b_diffs_from (S i) r end
  end.

(* ---- histories as stored bytes against processor.Resolve ---- *)
Record hcase := {
  h_level : nat;
  h_proto : pproto;
  h_table : list (bytes * Z);
  h_pub : list stored_op; h_unpub : list stored_op; h_opts : bopts;
  h_expected : outcome }.

Definition check_hcase (c : hcase) : bool :=
  tbl_ok (h_table c)
  && outcome_eqb (h_level c) (resolve_bytes (h_proto c) (intern_tbl (h_table c)) (h_pub c) (h_unpub c) (h_opts c)) (h_expected c).

Definition h_mismatches (base : nat) (l : list hcase) : list nat := mismatches_from check_hcase base l.
