(* Correspondence glue for the operation parser (C10, C12 intake). *)
From Coq Require Import List ZArith Bool.
From SV Require Import Base.Bytes Resolve.Op Jws.Compact Parser.Accept Corr.Resolve.
Import ListNotations.

Inductive qmode := MIntake | MIntakeRefused | MBatch | MReveal | MCommitment.
Inductive qres := ROp (t : optype) (suffix : bytes) | RStr (s : bytes).

Record qcase := { qc_proto : pproto; qc_mode : qmode; qc_view : req_view; qc_expected : option qres; qc_panic : bool }.

Definition qres_eqb (a b : qres) : bool :=
  match a, b with
  | ROp t s, ROp t' s' => optype_eqb t t' && bytes_eqb s s'
  | RStr s, RStr s' => bytes_eqb s s'
  | _, _ => false
  end.

Definition model_answer (c : qcase) : option qres :=
  let p := qc_proto c in let v := qc_view c in
  match qc_mode c with
  | MIntake => match parse_operation p false true v with Some o => Some (ROp (po_ty o) (po_suffix o)) | None => None end
  | MIntakeRefused => match parse_operation p false false v with Some o => Some (ROp (po_ty o) (po_suffix o)) | None => None end
  | MBatch => match parse_operation p true true v with Some o => Some (ROp (po_ty o) (po_suffix o)) | None => None end
  | MReveal => match get_reveal_value_of p v with Some s => Some (RStr s) | None => None end
  | MCommitment => match get_commitment_of p v with Some s => Some (RStr s) | None => None end
  end.

Definition check_qcase (c : qcase) : bool :=
  negb (qc_panic c) &&
  match model_answer c, qc_expected c with
  | None, None => true
  | Some a, Some b => qres_eqb a b
  | _, _ => false
  end.

Definition q_mismatches (base : nat) (l : list qcase) : list nat := mismatches_from check_qcase base l.
