(* Correspondence glue for C08: hashing / commitment functions and long-form DID resolution. *)
From Coq Require Import List ZArith NArith Bool.
From SV Require Import Base.Bytes Hash.B64 Hash.Varint Hash.Multihash Hash.ValueOnly Resolve.Op Jws.Compact Parser.Accept Parser.LongForm Corr.Resolve.
Import ListNotations.

Inductive hquery :=
  | HValid (canonical mh : bytes)
  | HCalc (canonical : bytes) (code : N)
  | HCommit (jwk : bytes) (code : N)
  | HReveal (jwk : bytes) (code : N)
  | HFromReveal (rv : bytes)
  | HComputedUsing (mh : bytes) (codes : list N)
  | HCode (mh : bytes)
  | HSuffix (canonical : bytes) (algs : list N)
  | HText (text : bytes) (code : N)        (* CalculateModelMultihash on raw JSON text: canonicalizer + hash *)
  | HB64Decode (s : bytes)
  | HB64Encode (b : bytes).

Inductive hres := HBool (b : bool) | HStr (o : option bytes) | HNum (o : option N).

Record hcase := { hc_query : hquery; hc_observed : hres; hc_panic : bool }.

Definition hmodel (q : hquery) : hres :=
  match q with
  | HValid c mh => HBool (is_valid_model_multihash c mh)
  | HCalc c code => HStr (calculate_model_multihash c code)
  | HCommit j code => HStr (get_commitment j code)
  | HReveal j code => HStr (get_reveal_value j code)
  | HFromReveal rv => HStr (commitment_from_reveal rv)
  | HComputedUsing mh codes => HBool (is_computed_using mh codes)
  | HCode mh => HNum (get_multihash_code mh)
  | HSuffix c algs => HStr (unique_suffix c algs)
  | HText t code => HStr (text_multihash t code)
  | HB64Decode s => HStr (b64_decode s)
  | HB64Encode b => HStr (Some (b64_encode b))
  end.

Definition obytes_eqb (a b : option bytes) : bool :=
  match a, b with Some x, Some y => bytes_eqb x y | None, None => true | _, _ => false end.

Definition hres_eqb (a b : hres) : bool :=
  match a, b with
  | HBool x, HBool y => Bool.eqb x y
  | HStr x, HStr y => obytes_eqb x y
  | HNum (Some x), HNum (Some y) => N.eqb x y
  | HNum None, HNum None => true
  | _, _ => false
  end.

Definition check_hcase (c : hcase) : bool := negb (hc_panic c) && hres_eqb (hmodel (hc_query c)) (hc_observed c).
Definition h_mismatches (base : nat) (l : list hcase) : list nat := mismatches_from check_hcase base l.

(* long-form resolution *)
Record lcase := { lc_proto : pproto; lc_view : longform_view; lc_observed : lf_outcome; lc_panic : bool }.

Definition lf_outcome_eqb (a b : lf_outcome) : bool :=
  match a, b with
  | LShort, LShort => true | LReject, LReject => true
  | LAccept s, LAccept s' => bytes_eqb s s'
  | _, _ => false
  end.

Definition check_lcase (c : lcase) : bool :=
  negb (lc_panic c) && lf_outcome_eqb (resolve_long_form (lc_proto c) (lc_view c)) (lc_observed c).
Definition l_mismatches (base : nat) (l : list lcase) : list nat := mismatches_from check_lcase base l.
