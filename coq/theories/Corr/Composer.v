(* Correspondence glue for patch application (C17).
   The real doccomposer.New().ApplyPatches / patch.PatchesFromDocument are run by the generator in
   notes/agents/composer/main.go; the case files evaluate the model on the same inputs.

   JSON-patch engine used by [check_ccase]: [jp_stub], a minimal stand-in for github.com/evanphx/json-patch that
   handles exactly what the generator emits for the ietf-json-patch action: a list (possibly empty) of
   {"op":"add","path":"/<name>","value":v} with <name> free of '/' and '~', applied to an object document:
   each sets the top-level member <name>.  On the nil document the empty list gives the nil document back and a
   non-empty list fails (the library panics there; since commit 9f6d729 applyJSON turns that into an error).
   Everything else makes the stub fail; the generator never emits it. *)
From Coq Require Import List NArith Bool String.
From Coq.Strings Require Import Byte.
From Coq Require Import Permutation.
From SV Require Import Base.Bytes Json.Ast Doc.Composer Doc.ComposerProofs Corr.Resolve.
Import ListNotations.

Definition pointer_plain (k : bytes) : bool :=
  forallb (fun b => negb (Byte.eqb b "/"%byte) && negb (Byte.eqb b "~"%byte)) k.

Definition stub_name (path : bytes) : option bytes :=
  match path with
  | b :: k => if Byte.eqb b "/"%byte && pointer_plain k then Some k else None
  | [] => None
  end.

Fixpoint jp_stub_go (ops : list json) (m : list (bytes * json)) : option (list (bytes * json)) :=
  match ops with
  | [] => Some m
  | JObj o :: r =>
    match jget (bs "op") o, jget (bs "path") o, jget (bs "value") o with
    | Some (JStr a), Some (JStr p), Some v =>
      if bytes_eqb a (bs "add") then
        match stub_name p with
        | Some k => jp_stub_go r (jset k v m)
        | None => None
        end
      else None
    | _, _, _ => None
    end
  | _ => None
  end.

Definition jp_stub (p d : json) : option json :=
  match d with
  | JObj m =>
    match p with
    | JArr ops => match jp_stub_go ops m with Some m' => Some (JObj m') | None => None end
    | _ => None
    end
  | JNull =>
    match p with
    | JArr [] => Some JNull   (* nil document, no operation: the text "null" comes back *)
    | _ => None               (* nil document + add: the library panics, applyJSON recovers -> error *)
    end
  | _ => None
  end.

Definition ojson_equiv (a b : option json) : bool :=
  match a, b with
  | None, None => true
  | Some x, Some y => json_equiv x y
  | _, _ => false
  end.

(* ApplyPatches(cc_doc, cc_patches): cc_expected = Some d for (d, nil), None for (nil, err); cc_panic = the call
   panicked (then cc_expected = None) *)
Record ccase := { cc_doc : json; cc_patches : list json; cc_expected : option json; cc_panic : bool }.

Definition check_ccase (c : ccase) : bool :=
  match apply_patches_r jp_stub (cc_doc c) (cc_patches c) with
  | RPanic => cc_panic c
  | r => negb (cc_panic c) && ojson_equiv (res_opt r) (cc_expected c)
  end
  (* the option-valued public function agrees with the three-valued one *)
  && ojson_equiv (apply_patches jp_stub (cc_doc c) (cc_patches c))
                 (if cc_panic c then None else cc_expected c).

Definition c_mismatches (base : nat) (l : list ccase) : list nat := mismatches_from check_ccase base l.

(* patch.PatchesFromDocument(text) where text decodes to fc_doc *)
Record fcase := { fc_doc : json; fc_expected : option (list json); fc_panic : bool }.

Fixpoint jsons_equiv (a b : list json) : bool :=
  match a, b with
  | [], [] => true
  | x :: a', y :: b' => json_equiv x y && jsons_equiv a' b'
  | _, _ => false
  end.

Definition check_fcase (c : fcase) : bool :=
  negb (fc_panic c) &&
  match patches_from_document (fc_doc c), fc_expected c with
  | None, None => true
  | Some x, Some y => jsons_equiv x y
  | _, _ => false
  end.

Definition f_mismatches (base : nat) (l : list fcase) : list nat := mismatches_from check_fcase base l.

(* round trip, executable form: PatchesFromDocument then ApplyPatches on the empty document (rt_expected is what the
   real code produced for the composition) *)
Record rtcase := { rt_doc : json; rt_expected : option json }.

Definition check_rtcase (c : rtcase) : bool :=
  match patches_from_document (rt_doc c) with
  | None => match rt_expected c with None => true | Some _ => false end
  | Some ps => ojson_equiv (apply_patches jp_stub (JObj []) ps) (rt_expected c)
  end.

Definition rt_mismatches (base : nat) (l : list rtcase) : list nat := mismatches_from check_rtcase base l.

(* ---- the stub satisfies the assumption made on the JSON-patch engine by [from_document_roundtrip], so that
   assumption is satisfiable and the round-trip theorem holds outright for [jp_stub] ---- *)

Lemma pointer_plain_name_plain : forall k, pointer_plain k = name_plain k.
Proof. reflexivity. Qed.

Lemma jp_stub_step : forall k v r m,
  jp_stub_go (jp_add_op k v :: r) m = if pointer_plain k then jp_stub_go r (jset k v m) else None.
Proof.
  intros k v r m.
  change (jp_stub_go (jp_add_op k v :: r) m)
    with (match stub_name (bs "/" ++ k) with Some k' => jp_stub_go r (jset k' v m) | None => None end).
  change (stub_name (bs "/" ++ k)) with (if pointer_plain k then Some k else None).
  destruct (pointer_plain k); reflexivity.
Qed.

Lemma jp_stub_go_fresh : forall kvs m,
  Forall (fun kv => name_plain (fst kv) = true) kvs -> NoDup (map fst kvs) ->
  (forall k, In k (map fst kvs) -> jget k m = None) ->
  jp_stub_go (map jp_op kvs) m = Some (m ++ kvs).
Proof.
  induction kvs as [|[k v] r IH]; intros m Hp Hnd Hnone.
  - cbn [map jp_stub_go]. rewrite app_nil_r. reflexivity.
  - inversion Hp as [|? ? Hp1 Hpr]; subst. cbn [map fst] in Hnd. inversion Hnd as [|? ? Hk Hndr]; subst.
    cbn [map]. unfold jp_op at 1. cbn [fst snd]. rewrite jp_stub_step. rewrite pointer_plain_name_plain.
    cbn [fst] in Hp1. rewrite Hp1.
    rewrite (jset_absent k v m (Hnone k (or_introl eq_refl))).
    rewrite (IH (m ++ [(k, v)]) Hpr Hndr).
    + rewrite <- app_assoc. reflexivity.
    + intros k' Hk'. apply jget_none_app.
      * apply Hnone. right. exact Hk'.
      * intro E. subst k'. contradiction.
Qed.

Lemma jp_stub_add_fresh_members : forall kvs m,
  Forall (fun kv => name_plain (fst kv) = true) kvs -> NoDup (map fst kvs) ->
  (forall k, In k (map fst kvs) -> jget k m = None) ->
  exists m', jp_stub (JArr (map jp_op kvs)) (JObj m) = Some (JObj m') /\ Permutation m' (m ++ kvs).
Proof.
  intros kvs m H1 H2 H3. exists (m ++ kvs). split; [|apply Permutation_refl].
  unfold jp_stub. rewrite (jp_stub_go_fresh kvs m H1 H2 H3). reflexivity.
Qed.

Theorem from_document_roundtrip_stub : forall m,
  wf_document m ->
  exists ps m', patches_from_document (JObj m) = Some ps
                /\ apply_patches jp_stub (JObj []) ps = Some (JObj m') /\ Permutation m' m.
Proof. exact (from_document_roundtrip jp_stub jp_stub_add_fresh_members). Qed.

Theorem from_document_roundtrip_equiv_stub : forall m,
  wf_document m ->
  exists ps d', patches_from_document (JObj m) = Some ps
                /\ apply_patches jp_stub (JObj []) ps = Some d' /\ json_equiv d' (JObj m) = true.
Proof. exact (from_document_roundtrip_equiv jp_stub jp_stub_add_fresh_members). Qed.

(* [wf_document] is inhabited by a non-trivial document *)
Definition wf_example : list (bytes * json) :=
  [(bs "x", JObj [(bs "a", JNum 0%N)]);
   (d_service, JArr [ex_key "s1" "t"]);
   (d_publicKey, JArr [ex_key "k1" "a"; ex_key "k2" "b"]);
   (bs "@context", JArr [JStr (bs "https://www.w3.org/ns/did/v1")]);
   (d_alsoKnownAs, JArr (map JStr [bs "did:a:1"; bs "did:a:2"]))].

Example wf_example_ok : wf_document wf_example.
Proof.
  unfold wf_document. split; [|split].
  - vm_compute. repeat constructor; cbn [In]; intuition discriminate.
  - reflexivity.
  - unfold wf_example. repeat apply Forall_cons; try apply Forall_nil.
    + lazy. split; reflexivity.
    + exists [ex_key "s1" "t"]. split; [reflexivity|]. split; [discriminate|]. split; [repeat constructor|].
      vm_compute. repeat constructor; cbn [In]; intuition discriminate.
    + exists [ex_key "k1" "a"; ex_key "k2" "b"]. split; [reflexivity|]. split; [discriminate|].
      split; [repeat constructor|]. vm_compute. repeat constructor; cbn [In]; intuition discriminate.
    + lazy. split; reflexivity.
    + exists [bs "did:a:1"; bs "did:a:2"]. split; [reflexivity|]. split; [discriminate|].
      vm_compute. repeat constructor; cbn [In]; intuition discriminate.
Qed.

Example wf_example_roundtrip :
  match patches_from_document (JObj wf_example) with
  | Some ps => ojson_equiv (apply_patches jp_stub (JObj []) ps) (Some (JObj wf_example))
  | None => false
  end = true.
Proof. vm_compute. reflexivity. Qed.
