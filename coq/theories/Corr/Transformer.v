(* Correspondence glue for the document transformer and the document metadata (C19).
   A case holds the inputs given to the real code and the JSON it produced (parsed back from json.Marshal(result));
   the check evaluates the model and compares up to member order.  Definitions only.

   Oracle instantiation in the checks: base64url decoding by [b64url_decode_impl]; base58 by the facts recorded
   in the case (key bytes -> base58.Encode of them, observed); multibase by "z" ++ base58 (checked against
   multibase.Encode by the generator, which records a case as a panic/deviation otherwise). *)
From Coq Require Import List ZArith NArith Bool String.
From Coq.Strings Require Import Byte.
From SV Require Import Base.Bytes Json.Ast Doc.Transformer Corr.Resolve.
Import ListNotations.

Definition optjson_equiv (a b : option json) : bool :=
  match a, b with
  | None, None => true
  | Some x, Some y => json_equiv x y
  | _, _ => false
  end.

Fixpoint fact_lookup (facts : list (bytes * bytes)) (k : bytes) : bytes :=
  match facts with
  | [] => []
  | (k', v) :: r => if bytes_eqb k k' then v else fact_lookup r k
  end.

(* ---- didtransformer.New(opts...).TransformDocument(rm, info) ---- *)
Record trcase := {
  tr_opts : topts; tr_rm : rmodel; tr_info : tinfo;
  tr_b58_facts : list (bytes * bytes);
  tr_expected : option json;      (* None = an error was returned *)
  tr_panic : bool                 (* the call panicked (never expected) *) }.

Definition run_trcase (c : trcase) : option json :=
  transform_did (fact_lookup (tr_b58_facts c)) (fun k => x7a :: fact_lookup (tr_b58_facts c) k) b64url_decode_impl
    (tr_opts c) (tr_rm c) (tr_info c).

Definition check_trcase (c : trcase) : bool :=
  negb (tr_panic c) && optjson_equiv (run_trcase c) (tr_expected c).

Definition tr_mismatches (base : nat) (l : list trcase) : list nat := mismatches_from check_trcase base l.

(* ---- doctransformer.New(opts...).TransformDocument(rm, info)  (generic documents) ---- *)
Record gcase := { g_opts : topts; g_rm : rmodel; g_info : tinfo; g_expected : option json; g_panic : bool }.
Definition check_gcase (c : gcase) : bool :=
  negb (g_panic c) && optjson_equiv (transform_generic (g_opts c) (g_rm c) (g_info c)) (g_expected c).
Definition g_mismatches (base : nat) (l : list gcase) : list nat := mismatches_from check_gcase base l.

(* ---- metadata.New(opts...).CreateDocumentMetadata(rm, info) ---- *)
Record mdcase := { md_opts : topts; md_rm : rmodel; md_info : tinfo; md_expected : option json; md_panic : bool }.
Definition check_mdcase (c : mdcase) : bool :=
  negb (md_panic c) && optjson_equiv (document_metadata (md_opts c) (md_rm c) (md_info c)) (md_expected c).
Definition md_mismatches (base : nat) (l : list mdcase) : list nat := mismatches_from check_mdcase base l.

(* ---- time.Unix(t,0).UTC().Format(time.RFC3339) ---- *)
Record tcase3339 := { t_unix : Z; t_text : bytes }.
Definition check_tcase3339 (c : tcase3339) : bool := bytes_eqb (rfc3339 (t_unix c)) (t_text c).
Definition t3339_mismatches (base : nat) (l : list tcase3339) : list nat := mismatches_from check_tcase3339 base l.

(* ---- dochandler.GetTransformationInfoForPublished / ForUnpublished / GetHint ---- *)
Definition optbytes_eqb (a b : option bytes) : bool :=
  match a, b with None, None => true | Some x, Some y => bytes_eqb x y | _, _ => false end.
Fixpoint lbytes_eqb (a b : list bytes) : bool :=
  match a, b with
  | [], [] => true
  | x :: a', y :: b' => bytes_eqb x y && lbytes_eqb a' b'
  | _, _ => false
  end.
Definition tinfo_eqb (a b : tinfo) : bool :=
  optbytes_eqb (ti_id a) (ti_id b)
  && match ti_published a, ti_published b with
     | None, None => true | Some x, Some y => Bool.eqb x y | _, _ => false end
  && optbytes_eqb (ti_canonical a) (ti_canonical b)
  && match ti_equivalent a, ti_equivalent b with
     | None, None => true | Some x, Some y => lbytes_eqb x y | _, _ => false end.

(* published: namespace, id, suffix, model -> observed info *)
Record tipcase := { tip_ns : bytes; tip_id : bytes; tip_suffix : bytes; tip_rm : rmodel; tip_expected : tinfo }.
Definition check_tipcase (c : tipcase) : bool :=
  tinfo_eqb (tinfo_published (tip_ns c) (tip_id c) (tip_suffix c) (tip_rm c)) (tip_expected c).
Definition tip_mismatches (base : nat) (l : list tipcase) : list nat := mismatches_from check_tipcase base l.

Record tiucase := { tiu_ns : bytes; tiu_domain : bytes; tiu_label : bytes; tiu_suffix : bytes; tiu_jcs : bytes;
                    tiu_expected : tinfo }.
Definition check_tiucase (c : tiucase) : bool :=
  tinfo_eqb (tinfo_unpublished (tiu_ns c) (tiu_domain c) (tiu_label c) (tiu_suffix c) (tiu_jcs c)) (tiu_expected c).
Definition tiu_mismatches (base : nat) (l : list tiucase) : list nat := mismatches_from check_tiucase base l.

Record hintcase := { h_id : bytes; h_ns : bytes; h_suffix : bytes; h_expected : option bytes; h_panic : bool }.
Definition check_hintcase (c : hintcase) : bool :=
  negb (h_panic c) && optbytes_eqb (get_hint (h_id c) (h_ns c) (h_suffix c)) (h_expected c).
Definition hint_mismatches (base : nat) (l : list hintcase) : list nat := mismatches_from check_hintcase base l.

(* ---- base64.RawURLEncoding.DecodeString ---- *)
Record b64case := { b64_in : bytes; b64_out : option bytes }.
Definition check_b64case (c : b64case) : bool := optbytes_eqb (b64url_decode_impl (b64_in c)) (b64_out c).
Definition b64_mismatches (base : nat) (l : list b64case) : list nat := mismatches_from check_b64case base l.

(* short constructors for generated case files *)
Definition mk_opts base mctx kctx ip iu : topts := Build_topts base mctx kctx ip iu.
Definition mk_info id pub can eq : tinfo := Build_tinfo id pub can eq.
Definition mk_rm doc created updated uc rc deact ao eqrefs cref vid pops uops : rmodel :=
  Build_rmodel doc created updated uc rc deact ao eqrefs cref vid pops uops.
