(* Correspondence glue for batch files (C13, C14). *)
From Coq Require Import List ZArith Bool.
From SV Require Import Resolve.Op Batch.Files Batch.Handler Corr.Resolve.
Import ListNotations.
Local Open Scope Z_scope.

Definition rop_eqb (a b : rop) : bool :=
  optype_eqb (ro_ty a) (ro_ty b) && (ro_sfx a =? ro_sfx b) && (ro_reveal a =? ro_reveal b)
  && (ro_signed a =? ro_signed b) && (ro_delta a =? ro_delta b) && (ro_sdata a =? ro_sdata b)
  && (ro_origin a =? ro_origin b).

Fixpoint rops_eqb (a b : list rop) : bool :=
  match a, b with
  | [], [] => true
  | x :: a', y :: b' => rop_eqb x y && rops_eqb a' b'
  | _, _ => false
  end.

Definition orops_eqb (a b : option (list rop)) : bool :=
  match a, b with
  | None, None => true
  | Some x, Some y => rops_eqb x y
  | _, _ => false
  end.

(* C13: the real handler wrote files for [bc_ops]; the real provider read [bc_readback] back *)
Record bcase := {
  bc_limits : limits; bc_uri_len : Z; bc_ops : list qbop;
  bc_readback : option (list rop); bc_additional : list Z; bc_expired : list Z; bc_count : Z }.

Definition check_bcase (c : bcase) : bool :=
  let '(a, p) := prepare (bc_uri_len c) (bc_ops c) in
  orops_eqb (get_txn_operations (bc_limits c) a) (bc_readback c)
  && listZ_eqb (map bq_id (p_additional p)) (bc_additional c)
  && listZ_eqb (map bq_id (p_expired p)) (bc_expired c)
  && (a_count a =? bc_count c).

Definition b_mismatches (base : nat) (l : list bcase) : list nat := mismatches_from check_bcase base l.

(* C14: arbitrary anchor string / CAS content, as decoded by the layers below the provider *)
Record pcase := { pc_limits : limits; pc_view : anchor; pc_readback : option (list rop); pc_panic : bool }.

Definition check_pcase (c : pcase) : bool :=
  negb (pc_panic c) && orops_eqb (get_txn_operations (pc_limits c) (pc_view c)) (pc_readback c).

Definition p_mismatches (base : nat) (l : list pcase) : list nat := mismatches_from check_pcase base l.
