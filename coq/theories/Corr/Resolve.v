(* Correspondence glue for the resolution engine: a case is the store content handed to the real
   processor.Resolve plus the projected outcome it returned; [mismatches] lists the indices at
   which the model disagrees.  Definitions only. *)
From Coq Require Import List ZArith Bool.
From SV Require Import Resolve.Op Resolve.Apply Resolve.Process.
Import ListNotations.
Local Open Scope Z_scope.

Fixpoint listZ_eqb (a b : list Z) : bool :=
  match a, b with
  | [], [] => true
  | x :: a', y :: b' => (x =? y) && listZ_eqb a' b'
  | _, _ => false
  end.

Definition optdoc_eqb (a b : option (list Z)) : bool :=
  match a, b with
  | None, None => true
  | Some x, Some y => listZ_eqb x y
  | _, _ => false
  end.

(* core projection: what every resolution property observes *)
Definition state_core_eqb (a b : state) : bool :=
  optdoc_eqb (doc a) (doc b) && (upd a =? upd b) && (rec a =? rec b) && Bool.eqb (deact a) (deact b).

Definition state_full_eqb (a b : state) : bool :=
  state_core_eqb a b && (last_t a =? last_t b) && (last_n a =? last_n b)
  && (created a =? created b) && (updated a =? updated b) && (vid a =? vid b)
  && (canon a =? canon b) && (aorigin a =? aorigin b).

Definition rerr_eqb (a b : rerr) : bool :=
  match a, b with
  | ENoCreate, ENoCreate | ENoValidCreate, ENoValidCreate
  | EBadVersionId, EBadVersionId | ENoOpsForTime, ENoOpsForTime => true
  | _, _ => false
  end.

(* level 0: core state; level 1: every field and the returned operation lists *)
Definition outcome_eqb (level : nat) (a b : outcome) : bool :=
  match a, b with
  | OErr _, OErr _ => true   (* the properties say "is an error"; WHICH error is only known from the wording of a
                                 message (fmt.Errorf, no sentinel values), and a reworded message must not raise an alarm *)
  | OOk x, OOk y =>
    match level with
    | O => state_core_eqb (r_state x) (r_state y)
    | _ => state_full_eqb (r_state x) (r_state y)
           && listZ_eqb (r_pub x) (r_pub y) && listZ_eqb (r_unpub x) (r_unpub y)
    end
  | _, _ => false
  end.

Record rcase := {
  c_level : nat;
  c_pub : list aop; c_unpub : list aop; c_opts : ropts;
  c_expected : outcome   (* what the implementation returned, projected by the harness *) }.

Definition check_case (c : rcase) : bool :=
  outcome_eqb (c_level c) (resolve (c_pub c) (c_unpub c) (c_opts c)) (c_expected c).

Fixpoint mismatches_from {A} (chk : A -> bool) (i : nat) (l : list A) : list nat :=
  match l with
  | [] => []
  | c :: r => if chk c then mismatches_from chk (S i) r else i :: mismatches_from chk (S i) r
  end.

Definition mismatches (base : nat) (l : list rcase) : list nat := mismatches_from check_case base l.

(* short constructor used by generated case files *)
Definition mk_aop oid ty time num cref mdelta parse_ok reveal_c sig_ok sfx_ok dhash_ok dvalid
  patch_ok a_from a_until delta upd_c rec_c origin : aop :=
  Build_aop oid ty time num cref mdelta parse_ok reveal_c sig_ok sfx_ok dhash_ok dvalid
    patch_ok a_from a_until delta upd_c rec_c origin.

Definition mk_state doc upd rec deact last_t last_n created updated vid canon aorigin : state :=
  Build_state doc upd rec deact last_t last_n created updated vid canon aorigin.

Definition ok (s : state) (pub unpub : list Z) : outcome :=
  OOk {| r_state := s; r_pub := pub; r_unpub := unpub; r_applied := [] |}.
