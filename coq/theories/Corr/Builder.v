(* Correspondence glue for C11: builder model vs. the client library, then parser model vs. parser. *)
From Coq Require Import List ZArith NArith Bool.
From SV Require Import Base.Bytes Hash.Multihash Resolve.Op Jws.Compact Parser.Accept Parser.Builder Parser.ViewOfBytes Corr.Resolve Corr.Parser.
Import ListNotations.
Local Open Scope Z_scope.

Definition obytes_eqb (a b : option bytes) : bool :=
  match a, b with Some x, Some y => bytes_eqb x y | None, None => true | _, _ => false end.

Fixpoint lbytes_eqb (a b : list bytes) : bool :=
  match a, b with
  | [], [] => true
  | x :: r, y :: s => bytes_eqb x y && lbytes_eqb r s
  | _, _ => false
  end.

Fixpoint lobytes_eqb (a b : list (option bytes)) : bool :=
  match a, b with
  | [], [] => true
  | x :: r, y :: s => obytes_eqb x y && lobytes_eqb r s
  | _, _ => false
  end.

Fixpoint lbool_eqb (a b : list bool) : bool :=
  match a, b with
  | [], [] => true
  | x :: r, y :: s => Bool.eqb x y && lbool_eqb r s
  | _, _ => false
  end.

Definition b64kind_eqb (a b : b64kind) : bool :=
  match a, b with
  | B64Absent, B64Absent | B64True, B64True | B64False, B64False | B64NotBool, B64NotBool => true
  | _, _ => false
  end.

Definition hdr_eqb (a b : hdr_facts) : bool :=
  Bool.eqb (h_json_ok a) (h_json_ok b) && Bool.eqb (h_has_alg a) (h_has_alg b) && b64kind_eqb (h_b64 a) (h_b64 b)
  && bytes_eqb (h_marshal a) (h_marshal b).

Definition jwk_view_eqb (a b : jwk_view) : bool :=
  Bool.eqb (jv_present a) (jv_present b) && bytes_eqb (jv_kty a) (jv_kty b) && bytes_eqb (jv_crv a) (jv_crv b)
  && bytes_eqb (jv_x a) (jv_x b) && bytes_eqb (jv_y a) (jv_y b) && bytes_eqb (jv_nonce a) (jv_nonce b)
  && bytes_eqb (jv_canonical a) (jv_canonical b).

Definition signed_view_eqb (a b : signed_view) : bool :=
  bytes_eqb (sv_compact a) (sv_compact b) && hdr_eqb (sv_hdr a) (sv_hdr b) && lbytes_eqb (sv_hdr_names a) (sv_hdr_names b)
  && obytes_eqb (sv_alg a) (sv_alg b) && Bool.eqb (sv_model_ok a) (sv_model_ok b) && jwk_view_eqb (sv_key a) (sv_key b)
  && bytes_eqb (sv_delta_hash a) (sv_delta_hash b) && bytes_eqb (sv_recovery_commitment a) (sv_recovery_commitment b)
  && bytes_eqb (sv_did_suffix a) (sv_did_suffix b) && (sv_from a =? sv_from b) && (sv_until a =? sv_until b)
  && Bool.eqb (sv_origin_ok a) (sv_origin_ok b).

Definition delta_view_eqb (a b : delta_view) : bool :=
  Bool.eqb (dv_present a) (dv_present b) && lobytes_eqb (dv_actions a) (dv_actions b)
  && lbool_eqb (dv_patch_valid a) (dv_patch_valid b) && bytes_eqb (dv_update_commitment a) (dv_update_commitment b)
  && bytes_eqb (dv_canonical a) (dv_canonical b).

Definition suffix_view_eqb (a b : suffix_view) : bool :=
  Bool.eqb (sf_present a) (sf_present b) && bytes_eqb (sf_delta_hash a) (sf_delta_hash b)
  && bytes_eqb (sf_recovery_commitment a) (sf_recovery_commitment b) && bytes_eqb (sf_canonical a) (sf_canonical b)
  && Bool.eqb (sf_origin_ok a) (sf_origin_ok b).

Definition req_view_eqb (a b : req_view) : bool :=
  (rv_len a =? rv_len b) && Bool.eqb (rv_schema_ok a) (rv_schema_ok b) && bytes_eqb (rv_type a) (rv_type b)
  && Bool.eqb (rv_struct_ok a) (rv_struct_ok b) && bytes_eqb (rv_did_suffix a) (rv_did_suffix b)
  && bytes_eqb (rv_reveal a) (rv_reveal b) && bytes_eqb (rv_signed_data a) (rv_signed_data b)
  && signed_view_eqb (rv_signed a) (rv_signed b) && delta_view_eqb (rv_delta a) (rv_delta b)
  && suffix_view_eqb (rv_suffix a) (rv_suffix b).

Inductive binfo := BUpdate (i : update_info) | BRecover (i : recover_info) | BDeactivate (i : deactivate_info) | BCreate (i : create_info).

Definition build (b : binfo) : option req_view :=
  match b with
  | BUpdate i => build_update i | BRecover i => build_recover i | BDeactivate i => build_deactivate i | BCreate i => build_create i
  end.

(* bc_view: view of the request the real builder returned (None = it returned an error);
   bc_parsed: what the real parser made of that request at intake *)
Record bcase := { bc_proto : pproto; bc_info : binfo; bc_view : option req_view; bc_parsed : option qres; bc_panic : bool;
  (* the request BYTES the real builder returned and the validator's verdict per decoded patch: the view above is also
     computed inside Coq from them (decoder model), so the harness's decoding of the request is checked, not trusted *)
  bc_bytes : option bytes; bc_valid : list bool }.

Definition bytes_view_ok (c : bcase) : bool :=
  match bc_bytes c, bc_view c with
  | None, None => true
  | Some b, Some w => req_view_eqb (view_of_request b (bc_valid c) true) w
  | _, _ => false
  end.

Definition check_bcase (c : bcase) : bool :=
  negb (bc_panic c) && bytes_view_ok c &&
  match build (bc_info c), bc_view c with
  | None, None => true
  | Some v, Some w =>
    req_view_eqb v w &&
    match parse_operation (bc_proto c) false true v, bc_parsed c with
    | None, None => true
    | Some o, Some r => qres_eqb (ROp (po_ty o) (po_suffix o)) r
    | _, _ => false
    end
  | _, _ => false
  end.

Definition b_mismatches (base : nat) (l : list bcase) : list nat := mismatches_from check_bcase base l.
