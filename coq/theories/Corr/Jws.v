(* Correspondence glue for C09. *)
From Coq Require Import List ZArith Bool.
From SV Require Import Base.Bytes Jws.Compact Jws.FromBytes Corr.Resolve.
Import ListNotations.

Record wcase9 := { w9_compact : bytes; w9_hdr : hdr_facts; w9_jwk : jwk; w9_crypto_ok : bool; w9_accepted : bool; w9_panic : bool }.

Definition b64kind_eqb9 (a b : b64kind) : bool :=
  match a, b with
  | B64Absent, B64Absent | B64True, B64True | B64False, B64False | B64NotBool, B64NotBool => true
  | _, _ => false
  end.

Definition hdr_facts_eqb (a b : hdr_facts) : bool :=
  Bool.eqb (h_json_ok a) (h_json_ok b) && Bool.eqb (h_has_alg a) (h_has_alg b) && b64kind_eqb9 (h_b64 a) (h_b64 b)
  && bytes_eqb (h_marshal a) (h_marshal b).

(* the verdict with the header facts go-jose produced (harness), the header facts computed in Coq from the compact
   string, and the verdict computed from the bytes alone *)
Definition check_wcase9 (c : wcase9) : bool :=
  negb (w9_panic c)
  && Bool.eqb (verify_jws (w9_compact c) (w9_hdr c) (w9_jwk c) (w9_crypto_ok c)) (w9_accepted c)
  && hdr_facts_eqb (hdr_of_compact (w9_compact c)) (w9_hdr c)
  && Bool.eqb (verify_jws_bytes (w9_compact c) (w9_jwk c) (w9_crypto_ok c)) (w9_accepted c).

Definition w9_mismatches (base : nat) (l : list wcase9) : list nat := mismatches_from check_wcase9 base l.
