(* Correspondence glue for C09. *)
From Coq Require Import List ZArith Bool.
From SV Require Import Base.Bytes Jws.Compact Corr.Resolve.
Import ListNotations.

Record wcase9 := { w9_compact : bytes; w9_hdr : hdr_facts; w9_jwk : jwk; w9_crypto_ok : bool; w9_accepted : bool; w9_panic : bool }.

Definition check_wcase9 (c : wcase9) : bool :=
  negb (w9_panic c) && Bool.eqb (verify_jws (w9_compact c) (w9_hdr c) (w9_jwk c) (w9_crypto_ok c)) (w9_accepted c).

Definition w9_mismatches (base : nat) (l : list wcase9) : list nat := mismatches_from check_wcase9 base l.
