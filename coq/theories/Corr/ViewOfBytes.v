(* Correspondence glue for the view computed from bytes: the harness records, for a request buffer, the view that
   world.ReqView computed with the real decoders (encoding/json, go-jose, canonicalizer) together with the
   remaining facts (validator verdict per decoded patch, anchor-origin verdict); the model recomputes the view from
   the bytes. *)
From Coq Require Import List ZArith NArith Bool String.
From Coq.Strings Require Import Byte.
From SV Require Import Base.Bytes Json.Ast Json.GoJson Jws.Compact Parser.Accept Parser.ViewOfBytes Corr.Resolve Corr.Parser Corr.Builder.
Import ListNotations.
Local Open Scope Z_scope.

(* Byte strings of the case files.  [uh "6869"] is [unhex "6869"]; the literal is read as a list of bytes (the hex
   digits) instead of a [string], which coqc elaborates more than twice as fast (the case files are several
   hundred KB of literals); decoding happens under vm_compute. *)
Inductive bytes_lit := BL (l : list byte).
Definition bl_parse (l : list byte) : bytes_lit := BL l.
Definition bl_print (b : bytes_lit) : list byte := match b with BL l => l end.
Declare Scope bl_scope.
Delimit Scope bl_scope with bl.
String Notation bytes_lit bl_parse bl_print : bl_scope.

Definition hexval_b (c : byte) : N :=
  let n := Byte.to_N c in
  if (48 <=? n)%N && (n <=? 57)%N then n - 48
  else if (97 <=? n)%N && (n <=? 102)%N then n - 87
  else if (65 <=? n)%N && (n <=? 70)%N then n - 55
  else 0%N.

Fixpoint unhex_b (l : list byte) : bytes :=
  match l with
  | a :: b :: r => byte_of_N (hexval_b a * 16 + hexval_b b) :: unhex_b r
  | _ => []
  end.

Definition uh (b : bytes_lit) : bytes := unhex_b (bl_print b).
Arguments uh _%bl.

Example uh_is_unhex : uh "00ff7B2261" = unhex "00ff7B2261". Proof. reflexivity. Qed.

Record vbcase := {
  vb_bytes : bytes;          (* the request buffer *)
  vb_valid : list bool;      (* patchvalidator.Validate(p) == nil, per decoded patch *)
  vb_origin : bool;          (* verdict of the origin plug-in used in this case *)
  vb_view : req_view;        (* world.ReqView(bytes, plug-in) *)
  vb_proto : pproto;         (* end to end: the real parser under this protocol, origin plug-in = vb_origin, time plug-in = ok *)
  vb_intake : option qres;   (*   Parser.Parse (intake mode); None = error *)
  vb_batch : option qres }.  (*   Parser.ParseOperation(batch = true) *)

Definition oqres_eqb (a b : option qres) : bool :=
  match a, b with
  | None, None => true
  | Some x, Some y => qres_eqb x y
  | _, _ => false
  end.

(* the parser model run on the bytes *)
Definition parse_bytes (c : vbcase) (batch : bool) : option qres :=
  match parse_operation_bytes (vb_proto c) batch true (vb_bytes c) (vb_valid c) (vb_origin c) with
  | Some o => Some (ROp (po_ty o) (po_suffix o))
  | None => None
  end.

Definition check_vbcase (c : vbcase) : bool :=
  req_view_eqb (view_of_request (vb_bytes c) (vb_valid c) (vb_origin c)) (vb_view c)
  && oqres_eqb (parse_bytes c false) (vb_intake c) && oqres_eqb (parse_bytes c true) (vb_batch c).

Definition vb_mismatches (base : nat) (l : list vbcase) : list nat := mismatches_from check_vbcase base l.

(* diagnosis: which components differ (1 len, 2 schema_ok, 3 type, 4 struct_ok, 5 didSuffix, 6 reveal, 7 signedData,
   8 signed view, 9 delta view, 10 suffix view; for 8: 81 hdr, 82 names, 83 alg, 84 model_ok, 85 key, 86 strings,
   87 window, 88 origin; for 9: 91 actions, 92 valid, 93 commitment, 94 canonical; 100 intake outcome, 101 batch outcome) *)
Definition vb_diff (c : vbcase) : list Z :=
  let a := view_of_request (vb_bytes c) (vb_valid c) (vb_origin c) in
  let b := vb_view c in
  let t (n : Z) (ok : bool) : list Z := if ok then [] else [n] in
  t 1 (rv_len a =? rv_len b) ++ t 2 (Bool.eqb (rv_schema_ok a) (rv_schema_ok b)) ++ t 3 (bytes_eqb (rv_type a) (rv_type b))
  ++ t 4 (Bool.eqb (rv_struct_ok a) (rv_struct_ok b)) ++ t 5 (bytes_eqb (rv_did_suffix a) (rv_did_suffix b))
  ++ t 6 (bytes_eqb (rv_reveal a) (rv_reveal b)) ++ t 7 (bytes_eqb (rv_signed_data a) (rv_signed_data b))
  ++ t 8 (signed_view_eqb (rv_signed a) (rv_signed b)) ++ t 9 (delta_view_eqb (rv_delta a) (rv_delta b))
  ++ t 10 (suffix_view_eqb (rv_suffix a) (rv_suffix b))
  ++ (let x := rv_signed a in let y := rv_signed b in
      t 81 (hdr_eqb (sv_hdr x) (sv_hdr y)) ++ t 82 (lbytes_eqb (sv_hdr_names x) (sv_hdr_names y))
      ++ t 83 (obytes_eqb (sv_alg x) (sv_alg y)) ++ t 84 (Bool.eqb (sv_model_ok x) (sv_model_ok y))
      ++ t 85 (jwk_view_eqb (sv_key x) (sv_key y))
      ++ t 86 (bytes_eqb (sv_delta_hash x) (sv_delta_hash y) && bytes_eqb (sv_recovery_commitment x) (sv_recovery_commitment y)
               && bytes_eqb (sv_did_suffix x) (sv_did_suffix y))
      ++ t 87 ((sv_from x =? sv_from y) && (sv_until x =? sv_until y)) ++ t 88 (Bool.eqb (sv_origin_ok x) (sv_origin_ok y)))
  ++ (let x := rv_delta a in let y := rv_delta b in
      t 91 (lobytes_eqb (dv_actions x) (dv_actions y)) ++ t 92 (lbool_eqb (dv_patch_valid x) (dv_patch_valid y))
      ++ t 93 (bytes_eqb (dv_update_commitment x) (dv_update_commitment y)) ++ t 94 (bytes_eqb (dv_canonical x) (dv_canonical y)))
  ++ t 100 (oqres_eqb (parse_bytes c false) (vb_intake c)) ++ t 101 (oqres_eqb (parse_bytes c true) (vb_batch c)).

Fixpoint vb_diffs_from (i : nat) (l : list vbcase) : list (nat * list Z) :=
  match l with
  | [] => []
  | c :: r => match vb_diff c with [] => vb_diffs_from (S i) r | d => (i, d) :: vb_diffs_from (S i) r end
  end.
