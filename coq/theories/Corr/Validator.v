(* Correspondence glue for C18: patch validation and the JSON-patch engine.  Definitions only. *)
From Coq Require Import List ZArith NArith Bool.
From SV Require Import Base.Bytes Json.Ast Doc.JsonPatch Corr.Resolve.
Import ListNotations.

(* JSON patch: the real library (child process) applied [pj_ops] to [pj_doc]; when the document is an
   object the same operations were also applied through doccomposer.ApplyPatches (patch
   {"action":"ietf-json-patch","patches":ops}), which recovers from panics. *)
Record pcase18 := {
  pj_ops : json; pj_doc : json;
  pj_outcome : nat;            (* library: 0 ok, 1 error, 2 panic (recoverable), 3 fatal error / killed *)
  pj_result : option json;
  pj_composer : nat;           (* composer: 0 ok, 1 error, 3 fatal, 9 not run *)
  pj_cresult : option json }.

Definition outcome_agrees (o : outcome) (code : nat) (r : option json) : bool :=
  match o, code, r with
  | Ok d, O, Some d' => json_equiv d d'
  | Err, S O, _ => true
  | Crash, S (S O), _ => true
  | Fatal, S (S (S O)), _ => true
  | _, _, _ => false
  end.

Definition check_pcase18 (c : pcase18) : bool :=
  outcome_agrees (jp_apply (pj_ops c) (pj_doc c)) (pj_outcome c) (pj_result c)
  && (Nat.eqb (pj_composer c) 9
      || outcome_agrees (apply_json_outcome (pj_ops c) (pj_doc c)) (pj_composer c) (pj_cresult c)).

Definition jp_mismatches (base : nat) (l : list pcase18) : list nat := mismatches_from check_pcase18 base l.

(* ---------- validators ---------- *)
From SV Require Import Doc.Validator.

(* oracles from recorded facts: the real net/url verdict for every string occurring in the case *)
Fixpoint fact {A} (d : A) (u : bytes) (l : list (bytes * A)) : A :=
  match l with
  | [] => d
  | (k, v) :: r => if bytes_eqb u k then v else fact d u r
  end.

Definition out_agrees (o : vout) (accepted panicked : bool) : bool :=
  match o with
  | VAccept => accepted && negb panicked
  | VReject => negb accepted && negb panicked
  | VPanic => panicked
  end.

(* patchvalidator.Validate(vc_patch): vc_accepted = (err == nil), vc_panic = it panicked *)
Record vcase := {
  vc_patch : json;
  vc_uri_facts : list (bytes * bool);              (* url.ParseRequestURI(s) succeeded *)
  vc_parse_facts : list (bytes * option bytes);    (* url.Parse(s).String() *)
  vc_accepted : bool;
  vc_panic : bool }.

Definition check_vcase (c : vcase) : bool :=
  out_agrees (validate_patch_out (fun u => fact false u (vc_uri_facts c)) (fun u => fact None u (vc_parse_facts c)) (vc_patch c))
             (vc_accepted c) (vc_panic c)
  && Bool.eqb (validate_patch (fun u => fact false u (vc_uri_facts c)) (fun u => fact None u (vc_parse_facts c)) (vc_patch c))
              (vc_accepted c).

Definition v_mismatches (base : nat) (l : list vcase) : list nat := mismatches_from check_vcase base l.

(* operationparser.ValidateDelta with a valid update commitment and a huge size limit *)
Record dcase := {
  dc_enabled : list bytes; dc_patches : list json;
  dc_uri_facts : list (bytes * bool); dc_parse_facts : list (bytes * option bytes);
  dc_accepted : bool; dc_panic : bool }.

Definition check_dcase (c : dcase) : bool :=
  out_agrees (validate_delta_patches_out (fun u => fact false u (dc_uri_facts c)) (fun u => fact None u (dc_parse_facts c))
                (dc_enabled c) (dc_patches c))
             (dc_accepted c) (dc_panic c)
  && Bool.eqb (validate_delta_patches (fun u => fact false u (dc_uri_facts c)) (fun u => fact None u (dc_parse_facts c))
                (dc_enabled c) (dc_patches c))
              (dc_accepted c).

Definition d_mismatches (base : nat) (l : list dcase) : list nat := mismatches_from check_dcase base l.
