(* Correspondence glue for the batch-file view computed from bytes (C13, C14): the harness records, for an anchor string
   and the content of a CAS, the facts of the layers below the provider (per address: read verdict, size as served,
   decompression verdict, decompressed bytes), the parser verdicts on what is embedded in the files, the view that
   world.ViewBuilder computed with the real decoders and what the real OperationProvider.GetTxnOperations returned;
   the model recomputes the view from the bytes (Batch/FilesOfBytes.v) and runs GetTxnOperations on it. *)
From Coq Require Import List ZArith NArith Bool String.
From Coq.Strings Require Import Byte.
From SV Require Import Base.Bytes Json.Ast Json.Num Json.Jcs Json.GoJson Resolve.Op Batch.Files Batch.FilesOfBytes Corr.Resolve Corr.Batch.
Import ListNotations.
Local Open Scope Z_scope.

(* Byte strings of the case files.  [fh "6869"] is [unhex "6869"]; the literal is read as a list of bytes (the hex
   digits) instead of a [string], which coqc elaborates much faster; decoding happens under vm_compute. *)
Inductive hex_lit := HL (l : list byte).
Definition hl_parse (l : list byte) : hex_lit := HL l.
Definition hl_print (b : hex_lit) : list byte := match b with HL l => l end.
Declare Scope hl_scope.
Delimit Scope hl_scope with hl.
String Notation hex_lit hl_parse hl_print : hl_scope.

Definition hexval_b (c : byte) : N :=
  let n := Byte.to_N c in
  if (48 <=? n)%N && (n <=? 57)%N then n - 48
  else if (97 <=? n)%N && (n <=? 102)%N then n - 87
  else if (65 <=? n)%N && (n <=? 70)%N then n - 55
  else 0%N.

Fixpoint unhex_b (l : list byte) : bytes :=
  match l with
  | a :: b :: r => byte_of_N (hexval_b a * 16 + hexval_b b) :: unhex_b r
  | _ => []
  end.

Definition fh (b : hex_lit) : bytes := unhex_b (hl_print b).
Arguments fh _%hl.

(* a run of one byte: [rp "20" 5000] is 5000 spaces (padding used by the size-limit cases) *)
Definition rp (b : hex_lit) (n : N) : bytes :=
  match fh b with c :: _ => repeat c (N.to_nat n) | [] => [] end.
Arguments rp _%hl _%N.

Example fh_is_unhex : fh "00ff7B2261" = unhex "00ff7B2261". Proof. reflexivity. Qed.

(* -- interning through fingerprints: (length, polynomial hash) -> id; "" is 0; an unknown string is -1 -- *)
Definition fp_mod : Z := 2305843009213693951.    (* 2^61 - 1 *)
Definition fp (s : bytes) : Z := fold_left (fun h b => (h * 131 + bZ b + 1) mod fp_mod) s 0.

Fixpoint fp_lookup (t : list (Z * Z * Z)) (n h : Z) : Z :=
  match t with
  | [] => -1
  | (n', h', id) :: r => if (n =? n') && (h =? h') then id else fp_lookup r n h
  end.

Definition fp_intern (t : list (Z * Z * Z)) (s : bytes) : Z :=
  match s with [] => 0 | _ => fp_lookup t (blen s) (fp s) end.

(* -- equality of views -- *)
Definition create_ref_eqb (a b : create_ref) : bool :=
  Bool.eqb (cc_sd_present a) (cc_sd_present b) && Bool.eqb (cc_sd_valid a) (cc_sd_valid b) && (cc_sfx a =? cc_sfx b)
  && (cc_sdata a =? cc_sdata b) && (cc_origin a =? cc_origin b).
Definition op_ref_eqb (a b : op_ref) : bool :=
  (or_sfx a =? or_sfx b) && (or_sfx_len a =? or_sfx_len b) && (or_reveal a =? or_reveal b) && (or_reveal_len a =? or_reveal_len b).
Definition proof_entry_eqb (a b : proof_entry) : bool :=
  (pe_signed a =? pe_signed b) && Bool.eqb (pe_parse_ok a) (pe_parse_ok b) && (pe_origin a =? pe_origin b).
Definition delta_entry_eqb (a b : delta_entry) : bool := (de_delta a =? de_delta b) && Bool.eqb (de_valid a) (de_valid b).

Fixpoint list_eqb {A} (e : A -> A -> bool) (a b : list A) : bool :=
  match a, b with
  | [], [] => true
  | x :: a', y :: b' => e x y && list_eqb e a' b'
  | _, _ => false
  end.

Definition opt_eqb {A} (e : A -> A -> bool) (a b : option A) : bool :=
  match a, b with
  | None, None => true
  | Some x, Some y => e x y
  | _, _ => false
  end.

Definition raw_facts_eqb {A} (a b : raw A) : bool :=
  Bool.eqb (f_read_ok a) (f_read_ok b) && (f_raw_size a =? f_raw_size b) && Bool.eqb (f_decomp_ok a) (f_decomp_ok b)
  && (f_size a =? f_size b).
Definition raw_eqb {A} (e : A -> A -> bool) (a b : raw A) : bool := raw_facts_eqb a b && opt_eqb e (f_parsed a) (f_parsed b).
Definition ref_eqb {A} (e : A -> A -> bool) (a b : ref A) : bool :=
  (uri_len a =? uri_len b) && opt_eqb (raw_eqb e) (target a) (target b).

Definition chunk_file_eqb (a b : chunk_file) : bool := list_eqb delta_entry_eqb (ch_deltas a) (ch_deltas b).
Definition prov_proof_file_eqb (a b : prov_proof_file) : bool := list_eqb proof_entry_eqb (pp_updates a) (pp_updates b).
Definition core_proof_file_eqb (a b : core_proof_file) : bool :=
  list_eqb proof_entry_eqb (cp_recovers a) (cp_recovers b) && list_eqb proof_entry_eqb (cp_deactivates a) (cp_deactivates b).
Definition prov_index_file_eqb (a b : prov_index_file) : bool :=
  ref_eqb prov_proof_file_eqb (pi_proof a) (pi_proof b) && list_eqb (ref_eqb chunk_file_eqb) (pi_chunks a) (pi_chunks b)
  && list_eqb op_ref_eqb (pi_updates a) (pi_updates b).
Definition core_index_file_eqb (a b : core_index_file) : bool :=
  ref_eqb core_proof_file_eqb (ci_proof a) (ci_proof b) && ref_eqb prov_index_file_eqb (ci_prov a) (ci_prov b)
  && list_eqb create_ref_eqb (ci_creates a) (ci_creates b) && list_eqb op_ref_eqb (ci_recovers a) (ci_recovers b)
  && list_eqb op_ref_eqb (ci_deactivates a) (ci_deactivates b).
Definition anchor_eqb (a b : anchor) : bool :=
  Bool.eqb (a_syntax_ok a) (a_syntax_ok b) && (a_count a =? a_count b) && raw_eqb core_index_file_eqb (a_core a) (a_core b).

(* -- cases -- *)
Record fbcase := {
  fb_limits : limits;
  fb_anchor : bytes;                        (* the anchor string *)
  fb_cas : cas;                             (* facts per CAS address *)
  fb_ids : list (Z * Z * Z);                (* interning table of the harness, by fingerprint *)
  fb_creates : list create_fact;            (* parser verdicts and identities, in file order *)
  fb_cp_recover : list proof_fact;
  fb_cp_deactivate : list proof_fact;
  fb_pp_update : list proof_fact;
  fb_deltas : list bool;
  fb_view : anchor;                         (* world.ViewBuilder.Anchor: the real decoders *)
  fb_readback : option (list rop);          (* the real provider: operations (world.ReadBack), None = error *)
  fb_panic : bool;
  fb_written : bool }.                      (* the files are as the real OperationHandler wrote them (no mutation) *)

Definition fb_facts (c : fbcase) : facts :=
  {| fx_id := fp_intern (fb_ids c); fx_creates := fb_creates c; fx_cp_recover := fb_cp_recover c;
     fx_cp_deactivate := fb_cp_deactivate c; fx_pp_update := fb_pp_update c; fx_deltas := fb_deltas c |}.

Definition fb_model_view (c : fbcase) : anchor := anchor_view_of_bytes (fb_facts c) (fb_cas c) (fb_anchor c).

(* the premise of the round trip theorems (Batch/FilesOfBytesProofs.v, theorems rt_core_index ... rt_chunk): what the real handler wrote is, byte for
   byte, the canonical text of the struct it decodes to ([core_index_json] ... are json.Marshal as values) *)
Definition canon_ok {T} (dec : bytes -> option T) (js : T -> json) (content : bytes) : bool :=
  match dec content with Some m => bytes_eqb (print_canonical (js m)) content | None => false end.

Definition canon_at {T} (C : cas) (uri : bytes) (dec : bytes -> option T) (js : T -> json) : bool :=
  match uri with
  | [] => true
  | _ => match cas_get C uri with Some e => canon_ok dec js (ce_content e) | None => false end
  end.

Definition written_ok (C : cas) (a : bytes) : bool :=
  let '(ok, _, uri) := parse_anchor a in
  ok && canon_at C uri decode_core_index core_index_json &&
  match option_map (fun e => decode_core_index (ce_content e)) (cas_get C uri) with
  | Some (Some m) =>
    canon_at C (cim_proof_uri m) decode_core_proof core_proof_json
    && canon_at C (cim_prov_uri m) decode_prov_index prov_index_json
    && match cim_prov_uri m, option_map (fun e => decode_prov_index (ce_content e)) (cas_get C (cim_prov_uri m)) with
       | [], _ => true
       | _, Some (Some pi) =>
         canon_at C (pim_proof_uri pi) decode_prov_proof prov_proof_json
         && match sl_elems (pim_chunks pi) with
            | c0 :: _ => canon_at C (chm_uri c0) decode_chunk chunk_json
            | [] => false
            end
       | _, _ => false
       end
  | _ => false
  end.

Definition check_fbcase (c : fbcase) : bool :=
  let v := fb_model_view c in
  negb (fb_panic c) && anchor_eqb v (fb_view c) && orops_eqb (get_txn_operations (fb_limits c) v) (fb_readback c)
  && (negb (fb_written c) || written_ok (fb_cas c) (fb_anchor c)).

Definition fb_mismatches (base : nat) (l : list fbcase) : list nat := mismatches_from check_fbcase base l.

(* diagnosis: which components differ.  1 anchor syntax, 2 count, 3 core index facts, 4 core index decoded or not,
   5 creates, 6 recovers, 7 deactivates, 8 core proof reference (81 facts, 82 decoded or not, 83 recover entries, 84 deactivate
   entries), 9 provisional index reference (91 facts, 92 decoded or not, 93 provisional proof reference, 94 chunk references,
   95 updates), 20 outcome of GetTxnOperations, 21 panic, 30 a file of the real handler is not the canonical text of its struct *)
Definition t_ (n : Z) (ok : bool) : list Z := if ok then [] else [n].

Definition diff_ref {A} (base : Z) (a b : ref A) (inner : A -> A -> list Z) : list Z :=
  t_ base ((uri_len a =? uri_len b) && match target a, target b with None, None | Some _, Some _ => true | _, _ => false end)
  ++ match target a, target b with
     | Some x, Some y =>
       t_ (base * 10 + 1) (raw_facts_eqb x y)
       ++ match f_parsed x, f_parsed y with
          | Some p, Some q => inner p q
          | None, None => []
          | _, _ => [base * 10 + 2]
          end
     | _, _ => []
     end.

Definition fb_diff (c : fbcase) : list Z :=
  let a := fb_model_view c in
  let b := fb_view c in
  t_ 1 (Bool.eqb (a_syntax_ok a) (a_syntax_ok b)) ++ t_ 2 (a_count a =? a_count b) ++ t_ 3 (raw_facts_eqb (a_core a) (a_core b))
  ++ match f_parsed (a_core a), f_parsed (a_core b) with
     | Some x, Some y =>
       t_ 5 (list_eqb create_ref_eqb (ci_creates x) (ci_creates y)) ++ t_ 6 (list_eqb op_ref_eqb (ci_recovers x) (ci_recovers y))
       ++ t_ 7 (list_eqb op_ref_eqb (ci_deactivates x) (ci_deactivates y))
       ++ diff_ref 8 (ci_proof x) (ci_proof y)
            (fun p q => t_ 83 (list_eqb proof_entry_eqb (cp_recovers p) (cp_recovers q))
                        ++ t_ 84 (list_eqb proof_entry_eqb (cp_deactivates p) (cp_deactivates q)))
       ++ diff_ref 9 (ci_prov x) (ci_prov y)
            (fun p q => t_ 93 (ref_eqb prov_proof_file_eqb (pi_proof p) (pi_proof q))
                        ++ t_ 94 (list_eqb (ref_eqb chunk_file_eqb) (pi_chunks p) (pi_chunks q))
                        ++ t_ 95 (list_eqb op_ref_eqb (pi_updates p) (pi_updates q)))
     | None, None => []
     | _, _ => [4]
     end
  ++ t_ 20 (orops_eqb (get_txn_operations (fb_limits c) a) (fb_readback c)) ++ t_ 21 (negb (fb_panic c))
  ++ t_ 30 (negb (fb_written c) || written_ok (fb_cas c) (fb_anchor c)).

Fixpoint fb_diffs_from (i : nat) (l : list fbcase) : list (nat * list Z) :=
  match l with
  | [] => []
  | c :: r => match fb_diff c with [] => fb_diffs_from (S i) r | d => (i, d) :: fb_diffs_from (S i) r end
  end.
