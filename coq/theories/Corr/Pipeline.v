(* Correspondence glue for C20: one case = one run of the real pipeline (document handler, batch
   writer, operation handler, ledger stub, observer, transaction processor, stores, processor):
   the events in order, each with what was observed on the implementation after it. *)
From Coq Require Import List ZArith Bool.
From SV Require Import Resolve.Op Resolve.Apply Resolve.Process Corr.Resolve Pipeline.Model.
Import ListNotations.
Local Open Scope Z_scope.

Inductive ob :=
| OAccept (b : bool)                          (* ESubmit: ProcessOperation returned no error *)
| OResp (v : rview)                           (* accepted create: the immediate response *)
| OQueue (ids : list Z)                       (* queue content, head first *)
| OLedger (pending : list (Z * Z * Z * list Z))  (* unobserved transactions: time, number, protocol version, ids *)
| OStore (s : Z) (l : list (Z * Z * Z * Z * Z))  (* operation store for suffix s: id, time, number, canonical ref, protocol version *)
| OUnpub (s : Z) (ids : list Z)               (* unpublished-operation store for suffix s *)
| OExpired (ids : list Z)                     (* every operation the handler discarded so far *)
| OShort (s : Z) (v : rview)                  (* ResolveDocument(short form) *)
| OLong (r : request) (v : rview).            (* ResolveDocument(long form of the create r) *)

Definition rview_eqb (a b : rview) : bool :=
  match a, b with
  | RNotFound, RNotFound => true
  | RView d u r de p, RView d' u' r' de' p' =>
    listZ_eqb d d' && (u =? u') && (r =? r') && Bool.eqb de de' && Bool.eqb p p'
  | _, _ => false
  end.

Fixpoint rows_eqb (a b : list (Z * Z * Z * Z * Z)) : bool :=
  match a, b with
  | [], [] => true
  | (i, t, n, c, p) :: a', (i', t', n', c', p') :: b' =>
    (i =? i') && (t =? t') && (n =? n') && (c =? c') && (p =? p') && rows_eqb a' b'
  | _, _ => false
  end.

Fixpoint txns_eqb (a b : list (Z * Z * Z * list Z)) : bool :=
  match a, b with
  | [], [] => true
  | (t, n, p, ids) :: a', (t', n', p', ids') :: b' =>
    (t =? t') && (n =? n') && (p =? p') && listZ_eqb ids ids' && txns_eqb a' b'
  | _, _ => false
  end.

Definition store_rows (st : pstate) (s : Z) : list (Z * Z * Z * Z * Z) :=
  map (fun e => (qe_id (s_q e), s_time e, s_num e, s_cref e, s_pver e)) (filter (fun e => s_sfx e =? s) (store st)).

Definition ledger_rows (st : pstate) : list (Z * Z * Z * list Z) :=
  map (fun t => (t_time t, t_num t, t_pver t, map qe_id (t_ops t))) (ledger st).

(* [before]: the state the event was applied to *)
Definition check_ob (cfg : config) (before after : pstate) (e : event) (o : ob) : bool :=
  match o with
  | OAccept b =>
    match e with
    | ESubmit r _ => Bool.eqb b (match intake cfg before r with Some _ => true | None => false end)
    | _ => false
    end
  | OResp v =>
    match e with
    | ESubmit r w => match intake cfg before r with
                     | Some pv => rview_eqb v (create_response pv r w)
                     | None => false
                     end
    | _ => false
    end
  | OQueue ids => listZ_eqb (map qe_id (queue after)) ids
  | OLedger l => txns_eqb (ledger_rows after) l
  | OStore s l => rows_eqb (store_rows after s) l
  | OUnpub s ids => listZ_eqb (map (fun u => qe_id (u_q u)) (filter (fun u => u_sfx u =? s) (unpub after))) ids
  | OExpired ids => listZ_eqb (map qe_id (expired after)) ids
  | OShort s v => rview_eqb (short_view cfg after s) v
  | OLong r v => rview_eqb (long_view cfg after r 0) v
  end.

Record pcase := { pc_cfg : config; pc_t0 : Z; pc_steps : list (event * list ob); pc_panic : bool }.

(* index of the first step at which some observation disagrees *)
Fixpoint first_bad (cfg : config) (st : pstate) (i : nat) (steps : list (event * list ob)) : option nat :=
  match steps with
  | [] => None
  | (e, obs) :: r =>
    let st' := step cfg st e in
    if forallb (check_ob cfg st st' e) obs then first_bad cfg st' (S i) r else Some i
  end.

Definition check_pcase (c : pcase) : bool :=
  negb (pc_panic c) &&
  match first_bad (pc_cfg c) (init (pc_t0 c)) 0 (pc_steps c) with None => true | Some _ => false end.

Definition pl_mismatches (base : nat) (l : list pcase) : list nat := mismatches_from check_pcase base l.

(* for diagnosis: (case index, step index) of every disagreement *)
Fixpoint pl_where (i : nat) (l : list pcase) : list (nat * nat) :=
  match l with
  | [] => []
  | c :: r => match first_bad (pc_cfg c) (init (pc_t0 c)) 0 (pc_steps c) with
              | Some k => (i, k) :: pl_where (S i) r
              | None => pl_where (S i) r
              end
  end.

(* short constructors used by generated case files *)
Definition mk_pver (g d : Z) (m : nat) : pver := {| pv_genesis := g; pv_mdelta := d; pv_max := m |}.
Definition mk_cfg (vs : list pver) (un : list optype) (by_time : bool) : config :=
  {| c_versions := vs; c_unpub := un; c_by_time := by_time |}.
Definition mk_req (sfx key : Z) (intake_ok : bool) (o : aop) : request :=
  {| rq_sfx := sfx; rq_key := key; rq_intake_ok := intake_ok; rq_op := o |}.
