(* Correspondence glue for Parser/ViewValidated.v (C10 <-> C18): the harness (harness/cmd/gen_vlink) records, for a
   request buffer,
     - the verdict of the REAL patchvalidator.Validate on every REAL decoded patch (encoding/json into the request
       struct of the request's type, as operationparser does), in order;
     - the net/url verdicts for every string that occurs in the buffer (the two oracles of Doc/Validator.v);
     - the verdict of the real Parser.ValidateDelta on the real decoded delta, and the outcome of the real
       Parser.Parse / Parser.ParseOperation(batch) on the buffer, under the case's protocol (enabled patch actions
       vary), origin plug-in = constant [vl_origin], time plug-in = ok.
   The model recomputes all of it from the bytes: decoding (ViewOfBytes), validator model (Doc/Validator.v) on the
   decoded patches, parser model (Accept).  No verdict list is handed to the model. *)
From Coq Require Import List ZArith NArith Bool String.
From Coq.Strings Require Import Byte.
From SV Require Import Base.Bytes Json.Ast Json.GoJson Doc.Validator Parser.Accept Parser.ViewOfBytes Parser.ViewValidated
  Corr.Resolve Corr.Parser Corr.Builder Corr.Validator Corr.ViewOfBytes.
Import ListNotations.
Local Open Scope Z_scope.

Record vlcase := {
  vl_bytes : bytes;                                (* the request buffer *)
  vl_uri_facts : list (bytes * bool);              (* url.ParseRequestURI(s) succeeded *)
  vl_parse_facts : list (bytes * option bytes);    (* url.Parse(s).String() *)
  vl_valid : list bool;                            (* patchvalidator.Validate(p) == nil per decoded patch *)
  vl_origin : bool;                                (* verdict of the origin plug-in used in this case *)
  vl_proto : pproto;
  vl_delta_ok : bool;                              (* Parser.ValidateDelta(decoded delta) == nil (nil delta: false) *)
  vl_intake : option qres;                         (* Parser.Parse; None = error *)
  vl_batch : option (option qres) }.               (* Parser.ParseOperation(batch = true); outer None = not recorded (the
                                                      validator does not run in batch mode; recorded for a sample) *)

Definition vl_uri_ok (c : vlcase) : bytes -> bool := fun u => fact false u (vl_uri_facts c).
Definition vl_uri_parse (c : vlcase) : bytes -> option bytes := fun u => fact None u (vl_parse_facts c).

(* the verdicts computed by the validator model on the patches decoded in Coq *)
Definition vl_model_valid (c : vlcase) : list bool := valid_of_bytes (vl_uri_ok c) (vl_uri_parse c) (vl_bytes c).

Definition vl_model_view (c : vlcase) : req_view :=
  validated_view (vl_uri_ok c) (vl_uri_parse c) (fun _ => vl_origin c) (vl_bytes c).

Definition vl_model_parse (c : vlcase) (batch : bool) : option qres :=
  match parse_operation_validated (vl_uri_ok c) (vl_uri_parse c) (vl_proto c) batch true (fun _ => vl_origin c) (vl_bytes c) with
  | Some o => Some (ROp (po_ty o) (po_suffix o))
  | None => None
  end.

Definition batch_agrees (c : vlcase) : bool :=
  match vl_batch c with
  | Some r => oqres_eqb (vl_model_parse c true) r
  | None => true
  end.

Definition check_vlcase (c : vlcase) : bool :=
  lbool_eqb (vl_model_valid c) (vl_valid c)
  && Bool.eqb (validate_delta (vl_proto c) (rv_delta (vl_model_view c))) (vl_delta_ok c)
  && oqres_eqb (vl_model_parse c false) (vl_intake c)
  && batch_agrees c.

Definition vl_mismatches (base : nat) (l : list vlcase) : list nat := mismatches_from check_vlcase base l.

(* diagnosis: 1 verdict list, 2 ValidateDelta, 3 intake outcome, 4 batch outcome,
   5 the verdict list of the view differs from valid_of_bytes (cannot happen: ViewValidatedProofs.validated_view_valid),
   6 the C18 delta loop (validate_delta_patches on the decoded patches) disagrees with the parser model's patches_ok *)
Definition vl_diff (c : vlcase) : list Z :=
  let t (n : Z) (ok : bool) : list Z := if ok then [] else [n] in
  let d := rv_delta (vl_model_view c) in
  t 1 (lbool_eqb (vl_model_valid c) (vl_valid c))
  ++ t 2 (Bool.eqb (validate_delta (vl_proto c) d) (vl_delta_ok c))
  ++ t 3 (oqres_eqb (vl_model_parse c false) (vl_intake c))
  ++ t 4 (batch_agrees c)
  ++ t 5 (lbool_eqb (dv_patch_valid d) (vl_model_valid c))
  ++ t 6 (Bool.eqb (delta_patches_validated (vl_uri_ok c) (vl_uri_parse c) (vl_proto c) (vl_bytes c))
                   (match dv_actions d with [] => false | _ => patches_ok (vl_proto c) (dv_actions d) (dv_patch_valid d) end)).

Fixpoint vl_diffs_from (i : nat) (l : list vlcase) : list (nat * list Z) :=
  match l with
  | [] => []
  | c :: r => match vl_diff c with [] => vl_diffs_from (S i) r | d => (i, d) :: vl_diffs_from (S i) r end
  end.

(* the consistency checks 5 and 6 on their own (they need no observation of the real code) *)
Definition check_vl_internal (c : vlcase) : bool :=
  let d := rv_delta (vl_model_view c) in
  lbool_eqb (dv_patch_valid d) (vl_model_valid c)
  && Bool.eqb (delta_patches_validated (vl_uri_ok c) (vl_uri_parse c) (vl_proto c) (vl_bytes c))
              (match dv_actions d with [] => false | _ => patches_ok (vl_proto c) (dv_actions d) (dv_patch_valid d) end).

Definition vl_internal_mismatches (base : nat) (l : list vlcase) : list nat := mismatches_from check_vl_internal base l.
