(* Correspondence glue for C15. *)
From Coq Require Import List ZArith Bool.
From SV Require Import Resolve.Op Batch.Files Batch.TxnProc Corr.Resolve Corr.Batch.
Import ListNotations.
Local Open Scope Z_scope.

Inductive tres := RSkip | RErr | ROk (n : nat).

Definition sop_eqb (a b : sop) : bool :=
  optype_eqb (so_ty a) (so_ty b) && (so_sfx a =? so_sfx b) && rop_eqb (so_req a) (so_req b)
  && (so_time a =? so_time b) && (so_num a =? so_num b) && (so_pver a =? so_pver b)
  && (so_cref a =? so_cref b) && (so_eqv a =? so_eqv b).

Fixpoint sops_eqb (a b : list sop) : bool :=
  match a, b with
  | [], [] => true
  | x :: a', y :: b' => sop_eqb x y && sops_eqb a' b'
  | _, _ => false
  end.

Definition tres_eqb (a b : tres) : bool :=
  match a, b with
  | RSkip, RSkip | RErr, RErr => true
  | ROk n, ROk m => Nat.eqb n m
  | _, _ => false
  end.

Fixpoint tres_list_eqb (a b : list tres) : bool :=
  match a, b with
  | [], [] => true
  | x :: a', y :: b' => tres_eqb x y && tres_list_eqb a' b'
  | _, _ => false
  end.

(* direct TxnProcessor.Process calls for the transactions that have a processor *)
Fixpoint direct (store : list sop) (txns : list (stxn * bool * bool)) : list sop * list tres :=
  match txns with
  | [] => (store, [])
  | (t, put_ok, del_ok) :: r =>
    if tx_ns_ok t && tx_version_ok t then
      let '(st, res) := process_txn store put_ok del_ok t in
      let '(st', rs) := direct st r in
      (st', match res with PErr => RErr | POk n => ROk n end :: rs)
    else let '(st', rs) := direct store r in (st', RSkip :: rs)
  end.

Record tcase := { tc_observer : bool; tc_txns : list (stxn * bool * bool); tc_store : list sop; tc_results : list tres }.

Definition check_tcase (c : tcase) : bool :=
  if tc_observer c then sops_eqb (observe [] (tc_txns c)) (tc_store c)
  else let '(st, rs) := direct [] (tc_txns c) in sops_eqb st (tc_store c) && tres_list_eqb rs (tc_results c).

Definition t_mismatches (base : nat) (l : list tcase) : list nat := mismatches_from check_tcase base l.

(* intake *)
Record icase := { ic_reqs : list (intake_req * bool); ic_queue : list Z; ic_unpub : list Z }.

Fixpoint run_intake (s : intake_state) (l : list (intake_req * bool)) : intake_state * bool :=
  match l with
  | [] => (s, true)
  | (r, ok) :: rest =>
    let '(s', ok') := process_operation s r in
    let '(s'', agree) := run_intake s' rest in
    (s'', Bool.eqb ok ok' && agree)
  end.

Definition check_icase (c : icase) : bool :=
  let '(s, agree) := run_intake {| i_queue := []; i_unpub := [] |} (ic_reqs c) in
  agree && listZ_eqb (i_queue s) (ic_queue c) && listZ_eqb (i_unpub s) (ic_unpub c).

Definition i_mismatches (base : nat) (l : list icase) : list nat := mismatches_from check_icase base l.
