(* Tie between the window kernels translated from the Go source (Gen/Kernels.v, regenerated on
   every run) and the hand-written model. *)
From Coq Require Import ZArith Bool Lia List String.
From SV Require Import Parser.Protocol Parser.Window Resolve.Op Gen.Kernels GenTie.Table.
From SV Require Export GenTie.Tactics.
Import ListNotations.
Local Open Scope Z_scope.

(* operationapplier.getAnchorUntil is the model's effective upper bound, and reads
   MaxOperationTimeDelta *)
Theorem applier_getAnchorUntil_tie p f u :
  small (MaxOperationTimeDelta p) ->
  gen_applier_getAnchorUntil p f u = eff_until (MaxOperationTimeDelta p) f u.
Proof.
  intros Hs. unfold gen_applier_getAnchorUntil, eff_until. tie.
Qed.

(* operationparser.getAnchorUntil (intake) computes the same bound *)
Theorem parser_getAnchorUntil_tie p f u :
  small (MaxOperationTimeDelta p) ->
  gen_parser_getAnchorUntil p f u = eff_until (MaxOperationTimeDelta p) f u.
Proof.
  intros Hs. unfold gen_parser_getAnchorUntil, eff_until. tie.
Qed.

(* operationapplier.verifyAnchoringTimeRange is the model's window test (true = no error) *)
Theorem applier_verify_tie p f u a :
  small (MaxOperationTimeDelta p) -> small a ->
  gen_applier_verifyAnchoringTimeRange p f u a = in_window (MaxOperationTimeDelta p) f u a.
Proof.
  intros Hs Ha. unfold gen_applier_verifyAnchoringTimeRange, in_window.
  rewrite ?applier_getAnchorUntil_tie by assumption. unfold eff_until. tie.
Qed.

(* the only protocol parameter the window kernels read *)
Theorem window_param_table :
  map (fun k => (k, assoc_params k)) ["applier_getAnchorUntil"; "applier_verifyAnchoringTimeRange"; "parser_getAnchorUntil"]%string
  = [("applier_getAnchorUntil", ["MaxOperationTimeDelta"]); ("applier_verifyAnchoringTimeRange", []);
     ("parser_getAnchorUntil", ["MaxOperationTimeDelta"])]%string.
Proof. reflexivity. Qed.
