(* Tie between the patch validators' length guards (translated from the Go source on every run, with the
   package constants resolved to their literal values) and the validator model (C18). *)
From Coq Require Import ZArith Bool Lia Arith List ZifyBool ZifyNat.
From SV Require Import Base.Bytes Parser.Protocol Resolve.Op Gen.Kernels GenTie.Tactics Json.Ast Doc.Validator.
Local Open Scope Z_scope.

(* validateID rejects exactly the ids longer than the model's max_id_length *)
Theorem validator_idLenGuard_tie p (id : bytes) :
  gen_validator_idLenGuard p (Z.of_nat (length id)) = negb (length id <=? max_id_length)%nat.
Proof.
  unfold gen_validator_idLenGuard, max_id_length. tie.
Qed.

(* an id the model accepts passes the translated guard *)
Corollary id_ok_passes_guard p id : id_ok id = true -> gen_validator_idLenGuard p (Z.of_nat (length id)) = false.
Proof.
  intros H. rewrite validator_idLenGuard_tie. unfold id_ok in H.
  apply andb_true_iff in H. destruct H as [H _]. apply andb_true_iff in H. destruct H as [H _]. rewrite H. reflexivity.
Qed.

Theorem validator_serviceTypeLenGuard_tie p (ty : bytes) :
  gen_validator_serviceTypeLenGuard p (Z.of_nat (length ty)) = negb (length ty <=? max_service_type_length)%nat.
Proof.
  unfold gen_validator_serviceTypeLenGuard, max_service_type_length. tie.
Qed.
