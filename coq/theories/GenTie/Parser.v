(* Tie between the parser's limit guards (translated on every run) and the model. *)
From Coq Require Import ZArith Bool Lia List String ZifyBool.
From SV Require Import Base.Bytes Parser.Protocol Resolve.Op Parser.Accept Gen.Kernels GenTie.Window GenTie.Table.
Import ListNotations.
Local Open Scope Z_scope.

Definition pproto_of (p : proto) (algs : list N) (sigs keys patches : list bytes) : pproto :=
  {| pp_max_op_size := MaxOperationSize p; pp_max_hash_len := MaxOperationHashLength p;
     pp_max_delta_size := MaxDeltaSize p; pp_nonce_size := NonceSize p; pp_time_delta := MaxOperationTimeDelta p;
     pp_hash_algs := algs; pp_sig_algs := sigs; pp_key_algs := keys; pp_patches := patches |}.

Theorem parser_opSizeGuard_tie p len : small (MaxOperationSize p) ->
  gen_parser_opSizeGuard p len = (len >? MaxOperationSize p).
Proof. intros H. unfold gen_parser_opSizeGuard. tie. Qed.

Theorem parser_hashLenGuard_tie p len : small (MaxOperationHashLength p) ->
  gen_parser_hashLenGuard p len = (len >? MaxOperationHashLength p).
Proof. intros H. unfold gen_parser_hashLenGuard. tie. Qed.

Theorem parser_deltaSizeGuard_tie p len : small (MaxDeltaSize p) ->
  gen_parser_deltaSizeGuard p len = (len >? MaxDeltaSize p).
Proof. intros H. unfold gen_parser_deltaSizeGuard. tie. Qed.

Theorem parser_nonceGuard_tie p len : small (NonceSize p) ->
  gen_parser_nonceGuard p len = negb (len =? NonceSize p).
Proof. intros H. unfold gen_parser_nonceGuard. tie. Qed.

(* each limit is governed by its own protocol parameter and no other *)
Theorem parser_param_table :
  map (fun k => (k, assoc_params k)) ["parser_opSizeGuard"; "parser_hashLenGuard"; "parser_deltaSizeGuard"; "parser_nonceGuard"]%string
  = [("parser_opSizeGuard", ["MaxOperationSize"]); ("parser_hashLenGuard", ["MaxOperationHashLength"]);
     ("parser_deltaSizeGuard", ["MaxDeltaSize"]); ("parser_nonceGuard", ["NonceSize"])]%string.
Proof. reflexivity. Qed.
