(* Tie between cutter.Cut's arithmetic (translated on every run) and the writer model. *)
From Coq Require Import ZArith Bool Lia Arith ZifyBool ZifyNat.
From SV Require Import Parser.Protocol Resolve.Op Gen.Kernels GenTie.Tactics.
Local Open Scope Z_scope.

Theorem cutter_cutGuard_tie p force (pending max : nat) :
  gen_cutter_cutGuard p force (Z.of_nat max) (Z.of_nat pending) = negb force && (pending <? max)%nat.
Proof.
  unfold gen_cutter_cutGuard. tie.
Qed.

Theorem cutter_min_tie p (i j : nat) : gen_cutter_min p (Z.of_nat i) (Z.of_nat j) = Z.of_nat (Nat.min i j).
Proof.
  unfold gen_cutter_min. tie.
Qed.

Theorem cutter_batchSize_tie p (pending max : nat) :
  gen_cutter_batchSize p (Z.of_nat max) (Z.of_nat pending) = Z.of_nat (Nat.min pending max).
Proof. unfold gen_cutter_batchSize. unfold gen_cutter_min. tie. Qed.

Theorem cutter_maxOps_tie p : gen_cutter_maxOps p = MaxOperationCount p.
Proof. unfold gen_cutter_maxOps. tie. Qed.
