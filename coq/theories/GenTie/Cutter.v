(* Tie between cutter.Cut's arithmetic (translated on every run) and the writer model. *)
From Coq Require Import ZArith Bool Lia Arith.
From SV Require Import Parser.Protocol Resolve.Op Gen.Kernels.
Local Open Scope Z_scope.

Theorem cutter_cutGuard_tie p force (pending max : nat) :
  gen_cutter_cutGuard p force (Z.of_nat pending) (Z.of_nat max) = negb force && (pending <? max)%nat.
Proof.
  unfold gen_cutter_cutGuard. f_equal.
  destruct (pending <? max)%nat eqn:E.
  - apply Nat.ltb_lt in E. apply Z.ltb_lt. lia.
  - apply Nat.ltb_ge in E. apply Z.ltb_ge. lia.
Qed.

Theorem cutter_min_tie p (i j : nat) : gen_cutter_min p (Z.of_nat i) (Z.of_nat j) = Z.of_nat (Nat.min i j).
Proof.
  unfold gen_cutter_min. destruct (Z.of_nat i <? Z.of_nat j) eqn:E.
  - apply Z.ltb_lt in E. rewrite Nat.min_l by lia. reflexivity.
  - apply Z.ltb_ge in E. rewrite Nat.min_r by lia. reflexivity.
Qed.

Theorem cutter_batchSize_tie p (pending max : nat) :
  gen_cutter_batchSize p (Z.of_nat pending) (Z.of_nat max) = Z.of_nat (Nat.min pending max).
Proof. unfold gen_cutter_batchSize. apply cutter_min_tie. Qed.

Theorem cutter_maxOps_tie p : gen_cutter_maxOps p = MaxOperationCount p.
Proof. reflexivity. Qed.
