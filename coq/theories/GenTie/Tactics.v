(* Conversion lemmas and the tactic used by the tie proofs.  The tie theorems state that a kernel translated from
   the Go source equals the model function; they are proved SEMANTICALLY (case analysis on every condition, then
   linear arithmetic over Z and bool), not by syntactic identity, so that a rewrite of the Go code that computes the
   same function (conditions reordered or negated, operands swapped, branches merged, local names introduced)
   keeps the proof, while a rewrite that computes something else breaks it.  Nothing here depends on Gen/Kernels.v. *)
From Coq Require Import ZArith Bool Lia ZifyBool ZifyNat.
From SV Require Import Parser.Protocol.
Local Open Scope Z_scope.

Lemma to_int64_id z : - 2^63 <= z < 2^63 -> to_int64 z = z.
Proof.
  intros H. unfold to_int64. rewrite Z.mod_small by lia. lia.
Qed.

Lemma to_uint64_id z : 0 <= z < 2^64 -> to_uint64 z = z.
Proof. intros H. unfold to_uint64. apply Z.mod_small. lia. Qed.

Lemma small_int64 z : small z -> to_int64 z = z.
Proof. unfold small. intros H. apply to_int64_id. lia. Qed.

Lemma small_uint64 z : small z -> to_uint64 z = z.
Proof. unfold small. intros H. apply to_uint64_id. lia. Qed.

(* integer conversions of values known to be in range are the identity *)
Ltac conv_small :=
  unfold to_int, to_uint in *;
  repeat match goal with
  | H : small ?z |- context[to_int64 ?z] => rewrite (small_int64 z H)
  | H : small ?z |- context[to_uint64 ?z] => rewrite (small_uint64 z H)
  | |- context[to_int64 ?z] => rewrite (to_int64_id z) by (unfold small in *; lia)
  | |- context[to_uint64 ?z] => rewrite (to_uint64_id z) by (unfold small in *; lia)
  end.

Ltac split_ifs :=
  repeat match goal with
  | |- context[if ?b then _ else _] => let E := fresh "E" in destruct b eqn:E
  end.

(* after the caller has unfolded the kernel and the model function *)
Ltac tie := cbv zeta; conv_small; split_ifs; try reflexivity; try (unfold small in *; lia).
