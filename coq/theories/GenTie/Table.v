(* Lookup in the generated parameter table. *)
From Coq Require Import List String.
From SV Require Import Gen.Kernels.
Import ListNotations.

Fixpoint lookup_params (k : string) (t : list (string * list string)) : list string :=
  match t with
  | [] => ["<kernel missing>"%string]
  | (k', ps) :: r => if String.eqb k k' then ps else lookup_params k r
  end.

Definition assoc_params (k : string) : list string := lookup_params k param_table.
