(* Tie between the provider's size / length guards (translated on every run) and the model. *)
From Coq Require Import ZArith Bool Lia List String ZifyBool.
From SV Require Import Parser.Protocol Resolve.Op Batch.Files Gen.Kernels GenTie.Window GenTie.Table.
Import ListNotations.
Local Open Scope Z_scope.

Definition limits_of (p : proto) : limits :=
  {| l_hash_len := MaxOperationHashLength p; l_uri_len := MaxCasURILength p; l_core_index := MaxCoreIndexFileSize p;
     l_proof := MaxProofFileSize p; l_prov_index := MaxProvisionalIndexFileSize p; l_chunk := MaxChunkFileSize p;
     l_factor := MaxMemoryDecompressionFactor p |}.

(* a URI is rejected exactly when the model's uri_ok fails *)
Theorem provider_uriGuard_tie p {A} (r : ref A) :
  small (MaxCasURILength p) -> gen_provider_uriGuard p (uri_len r) = negb (uri_ok (limits_of p) r).
Proof.
  intros Hs. unfold gen_provider_uriGuard, uri_ok, limits_of. cbn [l_uri_len]. tie.
Qed.

Theorem provider_mhLenGuard_tie p len :
  small (MaxOperationHashLength p) ->
  mh_ok (limits_of p) len = negb (len =? 0) && negb (gen_provider_mhLenGuard p len).
Proof.
  intros Hs. unfold gen_provider_mhLenGuard, mh_ok, limits_of. cbn [l_hash_len]. tie.
Qed.

(* readFromCAS: size before and after decompression *)
Theorem provider_size_guards_tie p {A} (max : Z) (r : raw A) :
  small max -> small (max * MaxMemoryDecompressionFactor p) ->
  read_file (limits_of p) max r =
  if negb (f_read_ok r) then None
  else if gen_provider_sizeGuard p (f_raw_size r) max then None
  else if negb (f_decomp_ok r) then None
  else if gen_provider_decompGuard p (f_size r) (gen_provider_decompMax p max) then None
  else f_parsed r.
Proof.
  intros H1 H2. unfold read_file, gen_provider_sizeGuard, gen_provider_decompGuard, gen_provider_decompMax, limits_of, to_int.
  cbn [l_factor]. tie.
Qed.

Theorem provider_param_table :
  map (fun k => (k, assoc_params k)) ["provider_mhLenGuard"; "provider_uriGuard"; "provider_sizeGuard"; "provider_decompGuard"; "provider_decompMax"]%string
  = [("provider_mhLenGuard", ["MaxOperationHashLength"]); ("provider_uriGuard", ["MaxCasURILength"]); ("provider_sizeGuard", []);
     ("provider_decompGuard", []); ("provider_decompMax", ["MaxMemoryDecompressionFactor"])]%string.
Proof. reflexivity. Qed.
