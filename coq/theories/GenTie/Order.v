(* Tie between the comparators / filters translated from processor.go and metadata.go (regenerated
   on every run) and the model. *)
From Coq Require Import ZArith Bool Lia List ZifyBool.
From SV Require Import Parser.Protocol Resolve.Op Resolve.Apply Resolve.Process Gen.Kernels GenTie.Window.
Import ListNotations.
Local Open Scope Z_scope.

Theorem processor_sortLess_tie a b : gen_processor_sortLess a b = op_lt a b.
Proof.
  unfold gen_processor_sortLess, op_lt. tie.
Qed.

Theorem metadata_sortLess_tie a b : gen_metadata_sortLess a b = op_lt a b.
Proof.
  unfold gen_metadata_sortLess, op_lt. tie.
Qed.

Theorem processor_createLess_tie a b : gen_processor_createLess a b = published a && negb (published b).
Proof. unfold gen_processor_createLess, published. tie. Qed.

Theorem processor_isOpAfter_tie p o t n : gen_processor_isOpAfter p o t n = op_after t n o.
Proof.
  unfold gen_processor_isOpAfter, op_after, published. tie.
Qed.

(* vt is time.Time.Unix(), an int64 (negative before 1970); transaction times are unsigned *)
Theorem processor_versionTimeGuard_tie p vt o :
  - 2^63 <= vt < 2^63 -> 0 <= time o -> gen_processor_versionTimeGuard p vt o = (time o <=? vt).
Proof.
  intros H Ht. unfold gen_processor_versionTimeGuard.
  destruct (Z_lt_le_dec vt 0) as [Hn|Hp].
  - (* before the epoch: no operation is selected *)
    replace (time o <=? vt) with false by lia. tie.
  - rewrite (to_uint64_id vt) by lia. tie.
Qed.

(* sort.SliceStable with the create comparator is the stable partition the model uses *)
Lemma insert_partitioned x : forall pl ul,
  Forall (fun o => published o = true) pl -> Forall (fun o => published o = false) ul ->
  insert gen_processor_createLess x (pl ++ ul) = if published x then x :: pl ++ ul else pl ++ x :: ul.
Proof.
  induction pl as [|a pl IHp]; intros ul Hp Hu; cbn [app].
  - destruct ul as [|z t]; [destruct (published x); reflexivity|]. cbn [insert]. rewrite processor_createLess_tie.
    inversion Hu; subst. rewrite H1. cbn [andb]. destruct (published x); reflexivity.
  - cbn [insert]. rewrite processor_createLess_tie. inversion Hp; subst. rewrite H1. cbn [andb].
    destruct (published x) eqn:Ex; cbn [negb]; [reflexivity|]. f_equal.
    rewrite (IHp ul H2 Hu). reflexivity.
Qed.

Theorem stable_sort_creates_is_partition l :
  isort gen_processor_createLess l = creates_published_first l.
Proof.
  unfold creates_published_first. induction l as [|x r IH]; [reflexivity|].
  cbn [isort]. rewrite IH. rewrite insert_partitioned.
  - cbn [filter]. destruct (published x); reflexivity.
  - apply Forall_forall. intros z Hz. apply filter_In in Hz. apply Hz.
  - apply Forall_forall. intros z Hz. apply filter_In in Hz. destruct Hz as [_ Hz].
    destruct (published z); [discriminate | reflexivity].
Qed.
