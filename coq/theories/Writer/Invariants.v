(* C16: invariants of the batch writer over all interleavings and fault placements. *)
From Coq Require Import List ZArith Bool Arith Lia Permutation.
From SV Require Import Writer.Machine.
Import ListNotations.
Local Open Scope Z_scope.

(* -- the handler's split accounts for every operation of the batch exactly once -- *)
Lemma split_batch_perm f : forall l seen,
  let sp := split_batch f seen l in
  Permutation l (included sp ++ additional sp ++ expired_ops sp).
Proof.
  induction l as [|o r IH]; intros seen; cbn [split_batch]; [reflexivity|].
  destruct (f (q_id o)); cbn [included additional expired_ops].
  - rewrite app_assoc. apply Permutation_cons_app. rewrite <- app_assoc. apply IH.
  - destruct (memZ (q_sfx o) seen); cbn [included additional expired_ops].
    + cbn [app]. apply Permutation_cons_app. apply IH.
    + cbn [app]. constructor. apply IH.
Qed.

Lemma split_batch_included_incl f : forall l seen, incl (included (split_batch f seen l)) l.
Proof.
  induction l as [|o r IH]; intros seen; cbn [split_batch]; [intros ? []|].
  destruct (f (q_id o)); cbn [included]; [intros x Hx; right; apply (IH seen); exact Hx|].
  destruct (memZ (q_sfx o) seen); cbn [included]; [intros x Hx; right; apply (IH seen); exact Hx|].
  intros x [<-|Hx]; [left; reflexivity | right; apply (IH (q_sfx o :: seen)); exact Hx].
Qed.

Lemma memZ_In x l : memZ x l = true <-> In x l.
Proof.
  induction l as [|y r IH]; cbn [memZ In]; [split; [discriminate | tauto]|].
  rewrite orb_true_iff, Z.eqb_eq, IH. split; intros [H|H]; auto.
Qed.

(* one operation per suffix in a batch *)
Lemma split_batch_suffixes_distinct f : forall l seen,
  NoDup (map q_sfx (included (split_batch f seen l))) /\
  (forall o, In o (included (split_batch f seen l)) -> ~ In (q_sfx o) seen).
Proof.
  induction l as [|o r IH]; intros seen; cbn [split_batch]; [split; [constructor | intros ? []]|].
  destruct (f (q_id o)); cbn [included]; [apply IH|].
  destruct (memZ (q_sfx o) seen) eqn:Em; cbn [included]; [apply IH|].
  destruct (IH (q_sfx o :: seen)) as [Hnd Hns]. split.
  - cbn [map]. constructor; [|exact Hnd]. intros Hin. apply in_map_iff in Hin. destruct Hin as (x & Hx & Hin).
    apply (Hns x Hin). left. symmetry. exact Hx.
  - intros x [<-|Hx].
    + intros Hin. apply memZ_In in Hin. congruence.
    + intros Hin. apply (Hns x Hx). right. exact Hin.
Qed.

(* an operation is deferred only behind an operation with the same suffix that is either already seen or included *)
Lemma split_batch_additional_behind f : forall l seen o,
  In o (additional (split_batch f seen l)) ->
  In (q_sfx o) seen \/ exists i, In i (included (split_batch f seen l)) /\ q_sfx i = q_sfx o.
Proof.
  induction l as [|h r IH]; intros seen o; cbn [split_batch]; [intros []|].
  destruct (f (q_id h)); cbn [included additional]; [apply IH|].
  destruct (memZ (q_sfx h) seen) eqn:Em; cbn [included additional].
  - intros [<-|Hin]; [left; apply memZ_In; exact Em | apply IH; exact Hin].
  - intros Hin. destruct (IH _ _ Hin) as [[Hs|Hs]|(i & Hi & Hs)].
    + right. exists h. split; [left; reflexivity | exact Hs].
    + left. exact Hs.
    + right. exists i. split; [right; exact Hi | exact Hs].
Qed.

(* F16: when nothing is included (every operation of the batch expired), nothing is deferred either *)
Lemma split_batch_included_nil_additional_nil f l :
  included (split_batch f [] l) = [] -> additional (split_batch f [] l) = [].
Proof.
  intros Hi. destruct (additional (split_batch f [] l)) as [|o r] eqn:Ea; [reflexivity|].
  destruct (split_batch_additional_behind f l [] o) as [[]|(i & Hin & _)]; [rewrite Ea; left; reflexivity|].
  rewrite Hi in Hin. destruct Hin.
Qed.

Lemma split_batch_all_expired_perm f l :
  included (split_batch f [] l) = [] -> Permutation l (expired_ops (split_batch f [] l)).
Proof.
  intros Hi. pose proof (split_batch_perm f l []) as Hp. cbn zeta in Hp.
  rewrite Hi, (split_batch_included_nil_additional_nil f l Hi) in Hp. exact Hp.
Qed.

(* -- conservation -- *)
Definition anchored_ops (s : wstate) : list qop := concat (map ab_included (anchored s)).

(* everything accepted is in exactly one place *)
Definition all_ops (s : wstate) : list qop :=
  queue s ++ inflight (wpc s) ++ anchored_ops s ++ discarded s.

Definition conserved (s : wstate) : Prop := Permutation (ids (accepted s)) (ids (all_ops s)).

Lemma ids_app a b : ids (a ++ b) = ids a ++ ids b.
Proof. apply map_app. Qed.

Lemma firstn_skipn_perm {A} n (l : list A) : Permutation l (firstn n l ++ skipn n l).
Proof. rewrite firstn_skipn. reflexivity. Qed.

Lemma anchored_ops_snoc l b : concat (map ab_included (l ++ [b])) = concat (map ab_included l) ++ ab_included b.
Proof. rewrite map_app, concat_app. cbn. rewrite app_nil_r. reflexivity. Qed.

(* permutations of id lists are decided by counting *)
Ltac count_norm x :=
  repeat rewrite ?ids_app, ?count_occ_app in *; cbn [ids map count_occ app] in *.

Ltac perm_by_count Hc :=
  unfold conserved, all_ops, anchored_ops in *;
  cbn [queue wpc accepted anchored discarded inflight set_pc set_queue mark_stuck] in *;
  rewrite ?anchored_ops_snoc in *;
  apply (Permutation_count_occ Z.eq_dec); intros x;
  pose proof (proj1 (Permutation_count_occ Z.eq_dec _ _) Hc x) as Hx;
  repeat first [rewrite ids_app | rewrite count_occ_app | rewrite ids_app in Hx | rewrite count_occ_app in Hx];
  cbn [ids map count_occ app ab_included q_id] in Hx |- *; unfold ids in *.

(* -- well-formedness of the writer's program counter (what the thread knows is true) -- *)
Definition homogeneous (ver : Z) (l : list qop) : Prop := Forall (fun o => q_ver o = ver) l.

Definition shape_ok (max : nat) (cf boundary : bool) (ver : Z) (batch : list qop) : Prop :=
  (length batch <= max)%nat /\ homogeneous ver batch /\
  ((length batch < max)%nat -> cf = true \/ boundary = true).

Definition pc_wf (max : nat) (s : wstate) : Prop :=
  match wpc s with
  | AtPeek tf cf pending => (pending <= length (queue s))%nat /\ (cf = false -> (max <= pending)%nat)
  | AtRemove tf cf n ver =>
      (n <= length (queue s))%nat /\ shape_ok max cf (boundary_seen s) ver (firstn n (queue s))
  | AtPrepare tf cf batch ver => shape_ok max cf (boundary_seen s) ver batch
  | AtAnchor tf cf batch ver sp =>
      shape_ok max cf (boundary_seen s) ver batch /\
      Permutation batch (included sp ++ additional sp ++ expired_ops sp) /\ incl (included sp) batch /\
      NoDup (map q_sfx (included sp)) /\ included sp <> []
  | AtReAdd tf cf batch ver rest => homogeneous ver rest
  | _ => True
  end.

Definition batch_ok (max : nat) (b : anchored_batch) : Prop :=
  shape_ok max (ab_forced b) (ab_boundary b) (ab_ver b) (ab_removed b) /\
  incl (ab_included b) (ab_removed b) /\ NoDup (map q_sfx (ab_included b)) /\ ab_included b <> [].

Definition Inv (max : nat) (s : wstate) : Prop :=
  conserved s /\ pc_wf max s /\ Forall (batch_ok max) (anchored s).

Lemma after_empty_cut_inv max s tf cf p :
  inflight (wpc s) = [] -> conserved s -> Forall (batch_ok max) (anchored s) -> Inv max (after_empty_cut s tf cf p).
Proof.
  intros Hi Hc Hb. unfold after_empty_cut, Inv, pc_wf.
  destruct cf; [|destruct (Nat.eqb p 0 || negb tf)];
    unfold conserved, all_ops, anchored_ops in *; cbn [queue wpc accepted anchored discarded inflight set_pc];
    rewrite Hi in Hc; auto.
Qed.

Lemma same_version_prefix_spec v l :
  homogeneous v (same_version_prefix v l) /\ (length (same_version_prefix v l) <= length l)%nat /\
  exists rest, l = same_version_prefix v l ++ rest.
Proof.
  induction l as [|o r IH]; cbn [same_version_prefix]; [repeat split; [constructor | lia | exists []; reflexivity]|].
  destruct (q_ver o =? v) eqn:E.
  - destruct IH as (Hh & Hl & rest & Hr). apply Z.eqb_eq in E. repeat split.
    + constructor; assumption.
    + cbn [length]. lia.
    + exists rest. cbn [app]. f_equal. exact Hr.
  - repeat split; [constructor | cbn; lia | exists (o :: r); reflexivity].
Qed.

Lemma firstn_app_exact {A} (l1 l2 : list A) : firstn (length l1) (l1 ++ l2) = l1.
Proof. induction l1; cbn; [destruct l2; reflexivity | f_equal; assumption]. Qed.

Lemma firstn_firstn_prefix {A} (b rest : list A) n (q : list A) :
  firstn n q = b ++ rest -> firstn (length b) q = b.
Proof.
  intros H. rewrite <- (firstn_skipn n q). rewrite H, <- app_assoc. apply firstn_app_exact.
Qed.

Lemma Forall_app_tail_unchanged {A} n (q : list A) x : (n <= length q)%nat -> firstn n (q ++ [x]) = firstn n q.
Proof. intros H. rewrite firstn_app. replace (n - length q)%nat with 0%nat by lia. cbn. apply app_nil_r. Qed.

Lemma mark_stuck_inv max s : Inv max s -> Inv max (mark_stuck s).
Proof. intros (Hc & Hw & Hb). unfold Inv, pc_wf, conserved, all_ops, anchored_ops, mark_stuck in *. cbn. auto. Qed.

Theorem wstep_inv max s e : Inv max s -> Inv max (wstep max s e).
Proof.
  intros (Hc & Hw & Hb). unfold wstep.
  destruct e as [o|f| | | |ok ex|ok| | |].
  - (* client Add: appended at the tail, nothing the writer relies on changes *)
    split; [|split].
    + perm_by_count Hc. destruct (Z.eq_dec (q_id o) x); lia.
    + unfold pc_wf in *. cbn [queue wpc boundary_seen]. destruct (wpc s); auto.
      * rewrite app_length. cbn. destruct Hw. split; [lia | assumption].
      * destruct Hw as [Hn Hs]. rewrite app_length. cbn. split; [lia|]. rewrite Forall_app_tail_unchanged by assumption. exact Hs.
    + exact Hb.
  - (* Tick *)
    destruct (wpc s) eqn:Epc; try (apply mark_stuck_inv; repeat split; assumption).
    unfold Inv, pc_wf, conserved, all_ops, anchored_ops in *; cbn. unfold conserved, all_ops, anchored_ops in Hc; rewrite Epc in Hc. auto.
  - (* Len *)
    destruct (wpc s) eqn:Epc; try (apply mark_stuck_inv; repeat split; assumption).
    destruct (negb cf && (length (queue s) <? max)%nat) eqn:Eg.
    + apply after_empty_cut_inv; [rewrite Epc; reflexivity | exact Hc | exact Hb].
    + split; [|split; [|exact Hb]].
      * unfold conserved, all_ops, anchored_ops in *; cbn. unfold conserved, all_ops, anchored_ops in Hc; rewrite Epc in Hc. exact Hc.
      * unfold pc_wf. cbn. split; [lia|]. intros ->. cbn in Eg. apply Nat.ltb_ge in Eg. exact Eg.
  - (* Peek *)
    destruct (wpc s) eqn:Epc; try (apply mark_stuck_inv; repeat split; assumption).
    unfold pc_wf in Hw. rewrite Epc in Hw. destruct Hw as [Hp Hcf].
    unfold version_prefix.
    destruct (firstn (Nat.min pending max) (queue s)) as [|o w] eqn:Ew.
    + apply after_empty_cut_inv; [rewrite Epc; reflexivity | exact Hc | exact Hb].
    + destruct (same_version_prefix_spec (q_ver o) (o :: w)) as (Hh & Hl & rest & Hr).
      destruct (same_version_prefix (q_ver o) (o :: w)) as [|b0 bt] eqn:Eb.
      { apply after_empty_cut_inv; [rewrite Epc; reflexivity | exact Hc | exact Hb]. }
      split; [|split; [|exact Hb]].
      * unfold conserved, all_ops, anchored_ops in *; cbn. unfold conserved, all_ops, anchored_ops in Hc; rewrite Epc in Hc. exact Hc.
      * unfold pc_wf. cbn [wpc queue boundary_seen].
        assert (Hwl : (length (o :: w) <= Nat.min pending max)%nat) by (rewrite <- Ew; apply firstn_le_length).
        assert (Hwq : (length (o :: w) <= length (queue s))%nat).
        { rewrite <- Ew. rewrite firstn_length. lia. }
        assert (Hfn : firstn (length (b0 :: bt)) (queue s) = b0 :: bt).
        { eapply firstn_firstn_prefix. rewrite Ew. exact Hr. }
        split; [lia|]. rewrite Hfn. unfold shape_ok. repeat split.
        -- lia.
        -- exact Hh.
        -- intros Hlt. destruct cf; [left; reflexivity|]. right.
           specialize (Hcf eq_refl). apply Nat.ltb_lt.
           assert (length (o :: w) = max) by (rewrite <- Ew, firstn_length; lia). lia.
  - (* Remove *)
    destruct (wpc s) eqn:Epc; try (apply mark_stuck_inv; repeat split; assumption).
    unfold pc_wf in Hw. rewrite Epc in Hw. destruct Hw as [Hn Hs].
    split; [|split; [|exact Hb]].
    + assert (Hq : Permutation (ids (queue s)) (ids (firstn n (queue s)) ++ ids (skipn n (queue s))))
        by (rewrite <- ids_app, firstn_skipn; reflexivity).
      unfold conserved, all_ops, anchored_ops in Hc; rewrite Epc in Hc. cbn [inflight] in Hc. perm_by_count Hc.
      pose proof (proj1 (Permutation_count_occ Z.eq_dec _ _) Hq x) as Hy. unfold ids in Hy. rewrite count_occ_app in Hy. lia.
    + unfold pc_wf. cbn. exact Hs.
  - (* Prepare *)
    destruct (wpc s) eqn:Epc; try (apply mark_stuck_inv; repeat split; assumption).
    unfold pc_wf in Hw. rewrite Epc in Hw.
    destruct ok; [destruct (included (split_batch (fun i => memZ i ex) [] batch)) as [|i0 ir] eqn:Einc|];
      (split; [|split; [|exact Hb]]).
    + (* F16: every operation expired - the whole batch moves to [discarded], no anchor *)
      assert (Hids : Permutation (ids batch) (ids (expired_ops (split_batch (fun i => memZ i ex) [] batch))))
        by (apply Permutation_map, split_batch_all_expired_perm; exact Einc).
      unfold conserved, all_ops, anchored_ops in Hc; rewrite Epc in Hc. cbn [inflight] in Hc.
      perm_by_count Hc.
      pose proof (proj1 (Permutation_count_occ Z.eq_dec _ _) Hids x) as Hz. unfold ids in Hz. lia.
    + unfold pc_wf. cbn. constructor.
    + unfold conserved, all_ops, anchored_ops in *; cbn; unfold conserved, all_ops, anchored_ops in Hc; rewrite Epc in Hc; exact Hc.
    + unfold pc_wf. cbn [wpc set_pc boundary_seen]. repeat split; try apply Hw.
      * apply split_batch_perm.
      * apply split_batch_included_incl.
      * apply split_batch_suffixes_distinct.
      * rewrite Einc. discriminate.
    + unfold conserved, all_ops, anchored_ops in *; cbn; unfold conserved, all_ops, anchored_ops in Hc; rewrite Epc in Hc; exact Hc.
    + unfold pc_wf. cbn. exact I.
  - (* Anchor *)
    destruct (wpc s) eqn:Epc; try (apply mark_stuck_inv; repeat split; assumption).
    unfold pc_wf in Hw. rewrite Epc in Hw. destruct Hw as (Hs & Hperm & Hincl & Hnd & Hne).
    destruct ok; (split; [|split]).
    + unfold conserved, all_ops, anchored_ops in Hc; rewrite Epc in Hc. cbn [inflight] in Hc.
      assert (Hids : Permutation (ids batch) (ids (included sp ++ additional sp ++ expired_ops sp))) by (apply Permutation_map; exact Hperm).
      perm_by_count Hc.
      pose proof (proj1 (Permutation_count_occ Z.eq_dec _ _) Hids x) as Hz.
      unfold ids in Hz. repeat first [rewrite map_app in Hz | rewrite count_occ_app in Hz]. lia.
    + unfold pc_wf. cbn. destruct Hs as (_ & Hh & _).
      unfold homogeneous in *. rewrite Forall_forall in *. intros y Hy. apply Hh.
      eapply Permutation_in; [apply Permutation_sym; exact Hperm|]. apply in_or_app. right. apply in_or_app. left. exact Hy.
    + cbn [anchored]. apply Forall_app. split; [exact Hb|]. constructor; [|constructor].
      unfold batch_ok. cbn. auto.
    + unfold conserved, all_ops, anchored_ops in *; cbn; unfold conserved, all_ops, anchored_ops in Hc; rewrite Epc in Hc; exact Hc.
    + unfold pc_wf. cbn. exact I.
    + exact Hb.
  - (* ReAdd *)
    destruct (wpc s) eqn:Epc; try (apply mark_stuck_inv; repeat split; assumption).
    destruct rest as [|a rest]; [apply mark_stuck_inv; repeat split; assumption|].
    unfold pc_wf in Hw. rewrite Epc in Hw.
    split; [|split; [|exact Hb]].
    + unfold conserved, all_ops, anchored_ops in Hc; rewrite Epc in Hc. cbn [inflight] in Hc. perm_by_count Hc. destruct (Z.eq_dec (q_id a) x); lia.
    + unfold pc_wf. cbn. inversion Hw; assumption.
  - (* Ack *)
    destruct (wpc s) eqn:Epc; try (apply mark_stuck_inv; repeat split; assumption).
    destruct rest; [|apply mark_stuck_inv; repeat split; assumption].
    destruct cf; unfold Inv, pc_wf, conserved, all_ops, anchored_ops in *; cbn; unfold conserved, all_ops, anchored_ops in Hc; rewrite Epc in Hc; cbn in Hc; auto.
  - (* Nack: the batch returns to the head of the queue *)
    destruct (wpc s) eqn:Epc; try (apply mark_stuck_inv; repeat split; assumption).
    split; [|split; [|exact Hb]].
    + unfold conserved, all_ops, anchored_ops in Hc; rewrite Epc in Hc. cbn [inflight] in Hc. perm_by_count Hc. lia.
    + unfold pc_wf. cbn. exact I.
Qed.

Lemma init_inv max q : Inv max (init q).
Proof.
  unfold Inv, init, conserved, all_ops, anchored_ops, pc_wf. cbn. rewrite !app_nil_r. repeat split; [reflexivity | constructor].
Qed.

Theorem run_inv max es : forall s, Inv max s -> Inv max (run max s es).
Proof.
  unfold run. induction es as [|e r IH]; intros s H; cbn [fold_left]; [exact H|]. apply IH. apply wstep_inv. exact H.
Qed.

(* ---------------------------------------------------------------------------------------- *)
(* every reachable state, for every interleaving of client Adds with the writer's actions and
   every placement of Prepare / WriteAnchor failures *)

Theorem conservation max q es :
  let s := run max (init q) es in
  Permutation (ids (accepted s)) (ids (queue s ++ inflight (wpc s) ++ anchored_ops s ++ discarded s)).
Proof. intros s. apply (run_inv max es (init q) (init_inv max q)). Qed.

Lemma NoDup_app_inv {A} (a b : list A) :
  NoDup (a ++ b) -> NoDup a /\ NoDup b /\ (forall x, In x a -> ~ In x b).
Proof.
  induction a as [|y r IH]; cbn [app]; intros H.
  - repeat split; [constructor | exact H | intros ? []].
  - inversion H; subst. destruct (IH H3) as (Ha & Hb & Hd). repeat split.
    + constructor; [|exact Ha]. intros Hi. apply H2. apply in_or_app. left. exact Hi.
    + exact Hb.
    + intros x [<-|Hx]; [intros Hi; apply H2; apply in_or_app; right; exact Hi | apply Hd; exact Hx].
Qed.

Theorem exactly_once max q es :
  let s := run max (init q) es in
  NoDup (ids (accepted s)) ->
  NoDup (ids (anchored_ops s)) /\ incl (ids (anchored_ops s)) (ids (accepted s)) /\
  (forall i, In i (ids (anchored_ops s)) -> ~ In i (ids (queue s)) /\ ~ In i (ids (inflight (wpc s))) /\ ~ In i (ids (discarded s))).
Proof.
  intros s Hnd. pose proof (conservation max q es) as Hc. fold s in Hc. cbn zeta in Hc.
  pose proof (Permutation_NoDup Hc Hnd) as Hall. rewrite !ids_app in Hall, Hc.
  destruct (NoDup_app_inv _ _ Hall) as (_ & H1 & D1).
  destruct (NoDup_app_inv _ _ H1) as (_ & H2 & D2).
  destruct (NoDup_app_inv _ _ H2) as (H3 & _ & D3).
  split; [exact H3|]. split.
  - intros i Hi. eapply Permutation_in; [apply Permutation_sym; exact Hc|].
    apply in_or_app. right. apply in_or_app. right. apply in_or_app. left. exact Hi.
  - intros i Hi. repeat split.
    + intros Hq. apply (D1 i Hq). apply in_or_app. right. apply in_or_app. left. exact Hi.
    + intros Hq. apply (D2 i Hq). apply in_or_app. left. exact Hi.
    + apply D3. exact Hi.
Qed.

(* every anchored batch: at most max operations, one protocol version, one operation per suffix,
   and a batch smaller than max was cut on batch timeout (forced) or at a version boundary *)
Theorem batch_shape max q es :
  let s := run max (init q) es in
  Forall (fun b => (length (ab_removed b) <= max)%nat /\
                   Forall (fun o => q_ver o = ab_ver b) (ab_removed b) /\
                   incl (ab_included b) (ab_removed b) /\ NoDup (map q_sfx (ab_included b)) /\
                   ((length (ab_removed b) < max)%nat -> ab_forced b = true \/ ab_boundary b = true))
         (anchored s).
Proof.
  intros s. destruct (run_inv max es (init q) (init_inv max q)) as (_ & _ & Hb). fold s in Hb.
  eapply Forall_impl; [|exact Hb]. intros b ((Hl & Hh & Hf) & Hi & Hn & _). auto.
Qed.

(* F16: an anchor is written only for a batch with at least one included operation (a batch whose operations have all
   expired is committed without an anchor; its operations are in [discarded]) *)
Theorem anchored_nonempty max q es :
  let s := run max (init q) es in Forall (fun b => ab_included b <> []) (anchored s).
Proof.
  intros s. destruct (run_inv max es (init q) (init_inv max q)) as (_ & _ & Hb). fold s in Hb.
  eapply Forall_impl; [|exact Hb]. intros b (_ & _ & _ & Hne). exact Hne.
Qed.

(* FIFO: removal takes the head of the queue; a failed batch returns to the head in its order *)
Theorem remove_takes_head max s tf cf n ver :
  wpc s = AtRemove tf cf n ver ->
  let s' := wstep max s ERemove in
  exists batch, wpc s' = AtPrepare tf cf batch ver /\ queue s = batch ++ queue s'.
Proof.
  intros Hpc. unfold wstep. rewrite Hpc. cbn. exists (firstn n (queue s)). split; [reflexivity|].
  symmetry. apply firstn_skipn.
Qed.

Theorem nack_restores_head max s tf cf batch :
  wpc s = AtNack tf cf batch ->
  let s' := wstep max s ENack in queue s' = batch ++ queue s /\ wpc s' = Idle.
Proof. intros Hpc. unfold wstep. rewrite Hpc. cbn. auto. Qed.

(* client submissions never disturb the part of the queue the writer has looked at *)
Theorem add_appends max s o :
  let s' := wstep max s (EAdd o) in
  queue s' = queue s ++ [o] /\ wpc s' = wpc s /\ anchored s' = anchored s.
Proof. cbn. auto. Qed.
