(* Model of batch.Writer + cutter.BatchCutter + opqueue.MemQueue at the granularity of one
   OperationQueue / handler / anchor-writer call per atomic action (C16).  Definitions only.

   The writer thread runs processAvailable(force); every call it makes on the queue, the operation
   handler or the anchor writer is one event.  Client Add events may occur between any two of them:
   all interleavings = all event lists. *)
From Coq Require Import List ZArith Bool Arith.
Import ListNotations.
Local Open Scope Z_scope.

Record qop := { q_id : Z; q_sfx : Z; q_ty : Z; q_ver : Z }.

(* -- cutter.getOperationsAtProtocolVersion: longest prefix queued under the version of the first
      operation -- *)
Fixpoint same_version_prefix (v : Z) (l : list qop) : list qop :=
  match l with
  | [] => []
  | o :: r => if q_ver o =? v then o :: same_version_prefix v r else []
  end.

Definition version_prefix (l : list qop) : list qop * Z :=
  match l with
  | [] => ([], 0)
  | o :: _ => (same_version_prefix (q_ver o) l, q_ver o)
  end.

(* -- OperationHandler.parseOperations: expired operations are discarded, the first remaining
      operation per suffix is included, further ones are deferred ("additional") -- *)
Fixpoint memZ (x : Z) (l : list Z) : bool :=
  match l with [] => false | y :: r => (x =? y) || memZ x r end.

Record split := { included : list qop; additional : list qop; expired_ops : list qop }.

Fixpoint split_batch (is_expired : Z -> bool) (seen : list Z) (l : list qop) : split :=
  match l with
  | [] => {| included := []; additional := []; expired_ops := [] |}
  | o :: r =>
    if is_expired (q_id o) then
      let s := split_batch is_expired seen r in
      {| included := included s; additional := additional s; expired_ops := o :: expired_ops s |}
    else if memZ (q_sfx o) seen then
      let s := split_batch is_expired seen r in
      {| included := included s; additional := o :: additional s; expired_ops := expired_ops s |}
    else
      let s := split_batch is_expired (q_sfx o :: seen) r in
      {| included := o :: included s; additional := additional s; expired_ops := expired_ops s |}
  end.

(* -- program counter of the writer thread -- *)
(* [tf]: force flag of processAvailable; [cf]: force flag of the current cutAndProcess *)
Inductive pc :=
| Idle
| AtLen (tf cf : bool)
| AtPeek (tf cf : bool) (pending : nat)
| AtRemove (tf cf : bool) (n : nat) (ver : Z)
| AtPrepare (tf cf : bool) (batch : list qop) (ver : Z)
| AtAnchor (tf cf : bool) (batch : list qop) (ver : Z) (sp : split)
| AtReAdd (tf cf : bool) (batch : list qop) (ver : Z) (rest : list qop)
| AtNack (tf cf : bool) (batch : list qop).

Record anchored_batch := { ab_ver : Z; ab_removed : list qop; ab_included : list qop; ab_forced : bool;
                           ab_boundary : bool }.

Record wstate := {
  queue : list qop;
  wpc : pc;
  anchored : list anchored_batch;   (* oldest first *)
  discarded : list qop;             (* expired operations *)
  accepted : list qop;              (* client submissions, oldest first *)
  boundary_seen : bool;             (* scratch: the peeked window ended at a version boundary *)
  stuck : bool                      (* an event did not match the program counter *) }.

Definition init (q : list qop) : wstate :=
  {| queue := q; wpc := Idle; anchored := []; discarded := []; accepted := q; boundary_seen := false; stuck := false |}.

Inductive event :=
| EAdd (o : qop)                       (* client: Writer.Add *)
| ETick (force : bool)                 (* monitor tick (false) / batch timeout (true) *)
| ELen | EPeek | ERemove
| EPrepare (ok : bool) (expired : list Z)   (* PrepareTxnFiles outcome; ids the handler found expired *)
| EAnchor (ok : bool)                  (* WriteAnchor outcome *)
| EReAdd                               (* Writer.Add of one deferred operation *)
| EAck | ENack.

Definition set_pc (s : wstate) (p : pc) : wstate :=
  {| queue := queue s; wpc := p; anchored := anchored s; discarded := discarded s; accepted := accepted s;
     boundary_seen := boundary_seen s; stuck := stuck s |}.
Definition set_queue (s : wstate) (q : list qop) (p : pc) : wstate :=
  {| queue := q; wpc := p; anchored := anchored s; discarded := discarded s; accepted := accepted s;
     boundary_seen := boundary_seen s; stuck := stuck s |}.
Definition mark_stuck (s : wstate) : wstate :=
  {| queue := queue s; wpc := wpc s; anchored := anchored s; discarded := discarded s; accepted := accepted s;
     boundary_seen := boundary_seen s; stuck := true |}.

(* cutAndProcess returned (0, pending) *)
Definition after_empty_cut (s : wstate) (tf cf : bool) (pending : nat) : wstate :=
  if cf then set_pc s Idle                         (* forced cut done *)
  else if (Nat.eqb pending 0) || negb tf then set_pc s Idle    (* drain done, no forced cut *)
  else set_pc s (AtLen tf true).                    (* forced cut *)

Definition wstep (max : nat) (s : wstate) (e : event) : wstate :=
  match e, wpc s with
  | EAdd o, _ =>
    {| queue := queue s ++ [o]; wpc := wpc s; anchored := anchored s; discarded := discarded s;
       accepted := accepted s ++ [o]; boundary_seen := boundary_seen s; stuck := stuck s |}
  | ETick f, Idle => set_pc s (AtLen f false)
  | ELen, AtLen tf cf =>
    let pending := length (queue s) in
    if negb cf && (pending <? max)%nat then after_empty_cut s tf cf pending
    else set_pc s (AtPeek tf cf pending)
  | EPeek, AtPeek tf cf pending =>
    let window := firstn (Nat.min pending max) (queue s) in
    let '(batch, ver) := version_prefix window in
    match batch with
    | [] => after_empty_cut s tf cf pending
    | _ => {| queue := queue s; wpc := AtRemove tf cf (length batch) ver; anchored := anchored s;
              discarded := discarded s; accepted := accepted s;
              boundary_seen := (length batch <? length window)%nat; stuck := stuck s |}
    end
  | ERemove, AtRemove tf cf n ver =>
    set_queue s (skipn n (queue s)) (AtPrepare tf cf (firstn n (queue s)) ver)
  | EPrepare ok ex, AtPrepare tf cf batch ver =>
    if ok then
      let sp := split_batch (fun i => memZ i ex) [] batch in
      match included sp with
      | [] =>
        (* every operation of the batch has expired: the handler prepares nothing (no files, no anchor string), the
           writer writes no anchor and commits the batch (F16) *)
        {| queue := queue s; wpc := AtReAdd tf cf batch ver []; anchored := anchored s;
           discarded := discarded s ++ expired_ops sp; accepted := accepted s;
           boundary_seen := boundary_seen s; stuck := stuck s |}
      | _ :: _ => set_pc s (AtAnchor tf cf batch ver sp)
      end
    else set_pc s (AtNack tf cf batch)
  | EAnchor ok, AtAnchor tf cf batch ver sp =>
    if ok then
      {| queue := queue s; wpc := AtReAdd tf cf batch ver (additional sp);
         anchored := anchored s ++ [{| ab_ver := ver; ab_removed := batch; ab_included := included sp;
                                       ab_forced := cf; ab_boundary := boundary_seen s |}];
         discarded := discarded s ++ expired_ops sp; accepted := accepted s;
         boundary_seen := boundary_seen s; stuck := stuck s |}
    else set_pc s (AtNack tf cf batch)
  | EReAdd, AtReAdd tf cf batch ver (a :: rest) =>
    set_queue s (queue s ++ [{| q_id := q_id a; q_sfx := q_sfx a; q_ty := q_ty a; q_ver := ver |}]) (AtReAdd tf cf batch ver rest)
  | EAck, AtReAdd tf cf batch ver [] =>
    if cf then set_pc s Idle else set_pc s (AtLen tf false)   (* drain loops; forced cut ends *)
  | ENack, AtNack tf cf batch => set_queue s (batch ++ queue s) Idle
  | _, _ => mark_stuck s
  end.

Definition run (max : nat) (s : wstate) (es : list event) : wstate := fold_left (wstep max) es s.

(* -- observations -- *)
Definition ids (l : list qop) : list Z := map q_id l.

Definition inflight (p : pc) : list qop :=
  match p with
  | AtPrepare _ _ b _ | AtAnchor _ _ b _ _ | AtNack _ _ b => b
  | AtReAdd _ _ _ _ rest => rest
  | _ => []
  end.
