(* C16, progress half: the writer thread's own continuation and the lemmas about it.

   PART A (definitions): what the writer thread does next in every program-counter state
   ([next_ev]), its continuation until it is Idle again ([thread], fuel = the termination measure
   [mu]), one timer tick ([tick_events]) and sequences of ticks.
   PART B (lemmas): every thread step preserves the invariants of Invariants.v, never marks the
   state stuck, never increases the outstanding work and strictly decreases [mu]; path invariants
   for a forced failure-free tick (progress) and for a tick whose cut fails (transparency).

   The main theorems are in Writer/Liveness.v. *)
From Coq Require Import List ZArith Bool Arith Lia Permutation.
From SV Require Import Writer.Machine Writer.Invariants.
Import ListNotations.
Local Open Scope nat_scope.

(* ======================================================================================== *)
(* PART A: definitions                                                                       *)

(* What is NOT modelled (the operation handler over the CAS, the anchor writer) is an oracle: the
   ids the handler finds expired and whether the call succeeds may depend on the whole model
   state (queue, history of anchored batches, ...), i.e. on everything observable. *)
Record oracle := { o_expired : wstate -> list Z; o_ok : wstate -> bool }.

(* handler and anchor writer succeed *)
Definition failure_free (o : oracle) : Prop := forall s, o_ok o s = true.
(* no cut of the tick succeeds: every WriteAnchor fails (PrepareTxnFiles may succeed or fail), AND the handler does not
   find a whole batch expired.  The second clause is needed since F16: a batch whose operations have all expired is
   committed without any anchor write (its operations are discarded), so a failing anchor writer alone no longer
   keeps the queue as it is ([Liveness.anchor_failure_alone_is_not_enough]). *)
Definition cut_fails (o : oracle) : Prop :=
  forall s, match wpc s with
            | AtPrepare _ _ b _ =>
                o_ok o s = true -> b <> [] -> included (split_batch (fun i => memZ i (o_expired o s)) [] b) <> []
            | AtAnchor _ _ _ _ _ => o_ok o s = false
            | _ => True
            end.

(* the single event the writer thread can perform in each program-counter state *)
Definition next_ev (o : oracle) (s : wstate) : option event :=
  match wpc s with
  | Idle => None                               (* waits for a timer *)
  | AtLen _ _ => Some ELen
  | AtPeek _ _ _ => Some EPeek
  | AtRemove _ _ _ _ => Some ERemove
  | AtPrepare _ _ _ _ => Some (EPrepare (o_ok o s) (o_expired o s))
  | AtAnchor _ _ _ _ _ => Some (EAnchor (o_ok o s))
  | AtReAdd _ _ _ _ (_ :: _) => Some EReAdd
  | AtReAdd _ _ _ _ [] => Some EAck
  | AtNack _ _ _ => Some ENack
  end.

(* the thread's continuation (no client Add interleaves) until Idle or out of fuel *)
Fixpoint thread (max : nat) (o : oracle) (fuel : nat) (s : wstate) : list event :=
  match fuel with
  | O => []
  | S k => match next_ev o s with
           | None => []
           | Some e => e :: thread max o k (wstep max s e)
           end
  end.

(* operations accepted and neither anchored nor discarded yet / already settled *)
Definition work (s : wstate) : nat := length (queue s) + length (inflight (wpc s)).
Definition settled (s : wstate) : nat := length (anchored_ops s) + length (discarded s).

(* termination measure of the thread: every thread step strictly decreases it *)
Definition rank (p : pc) : nat :=
  match p with
  | Idle => 0
  | AtNack _ _ _ => 1
  | AtAnchor _ _ _ _ _ => 2
  | AtPrepare _ _ _ _ => 3
  | AtRemove _ _ _ _ => 4
  | AtPeek _ true _ => 5
  | AtLen _ true => 6
  | AtPeek _ false _ => 7
  | AtLen _ false => 8
  | AtReAdd _ _ _ _ rest => 9 + length rest
  end.
Definition mu (s : wstate) : nat := work s * (work s + 10) + rank (wpc s).

(* run the thread until it is Idle *)
Definition finish_events (max : nat) (o : oracle) (s : wstate) : list event := thread max o (mu s) s.

(* one timer tick (monitor: force = false, batch timeout: force = true) and what the thread does *)
Definition tick_events (max : nat) (o : oracle) (force : bool) (s : wstate) : list event :=
  ETick force :: finish_events max o (wstep max s (ETick force)).

(* a sequence of ticks, each with its own oracle and force flag *)
Fixpoint ticks_events (max : nat) (l : list (oracle * bool)) (s : wstate) : list event :=
  match l with
  | [] => []
  | (o, f) :: r => let ev := tick_events max o f s in ev ++ ticks_events max r (run max s ev)
  end.

Definition forced (os : list oracle) : list (oracle * bool) := map (fun o => (o, true)) os.
Definition unforced (os : list oracle) : list (oracle * bool) := map (fun o => (o, false)) os.

(* batch-timeout ticks only *)
Definition drain_events (max : nat) (os : list oracle) (s : wstate) : list event :=
  ticks_events max (forced os) s.

Definition adds (l : list qop) : list event := map EAdd l.

(* what the thread additionally knows in the middle of a cut (on top of Invariants.pc_wf) *)
Definition linv (s : wstate) : Prop :=
  match wpc s with
  | AtRemove _ _ n _ => 1 <= n
  | AtPrepare _ _ b _ => b <> []
  | AtAnchor _ _ b _ sp => length (additional sp) < length b
  | _ => True
  end.

Definition RInv (max : nat) (s : wstate) : Prop := Inv max s /\ linv s.

(* a state of a tick from which a cut is certain (no failure, max > 0): the tick is forced, or the
   cut is the forced cut, or a full batch is queued *)
Definition will_cut (max : nat) (s : wstate) : Prop :=
  match wpc s with
  | AtLen tf cf => queue s <> [] /\ (tf = true \/ cf = true \/ max <= length (queue s))
  | AtPeek _ _ pending => 1 <= pending
  | AtRemove _ _ _ _ | AtPrepare _ _ _ _ | AtAnchor _ _ _ _ _ => True
  | _ => False
  end.

Definition not_readd (p : pc) : Prop := match p with AtReAdd _ _ _ _ _ => False | _ => True end.

(* ======================================================================================== *)
(* PART B: lemmas                                                                            *)

Lemma run_app max s a b : run max s (a ++ b) = run max (run max s a) b.
Proof. unfold run. apply fold_left_app. Qed.

Lemma run_cons max s e l : run max s (e :: l) = run max (wstep max s e) l.
Proof. reflexivity. Qed.

(* -- the handler's split: at least the first operation of a batch is included or expired -- *)
Lemma split_additional_le f : forall l seen, length (additional (split_batch f seen l)) <= length l.
Proof.
  induction l as [|o r IH]; intros seen; cbn [split_batch]; [cbn; lia|].
  destruct (f (q_id o)); cbn [additional length]; [specialize (IH seen); lia|].
  destruct (memZ (q_sfx o) seen); cbn [additional length].
  - specialize (IH seen). lia.
  - specialize (IH (q_sfx o :: seen)). lia.
Qed.

Lemma split_additional_lt f l : l <> [] -> length (additional (split_batch f [] l)) < length l.
Proof.
  destruct l as [|o r]; [congruence|]. intros _. cbn [split_batch memZ].
  destruct (f (q_id o)); cbn [additional length].
  - pose proof (split_additional_le f r []). lia.
  - pose proof (split_additional_le f r [q_sfx o]). lia.
Qed.

(* -- wstep per program counter -- *)
Lemma step_tick max s f : wpc s = Idle -> wstep max s (ETick f) = set_pc s (AtLen f false).
Proof. intros H. unfold wstep. rewrite H. reflexivity. Qed.

Lemma step_len max s tf cf : wpc s = AtLen tf cf ->
  wstep max s ELen =
  if negb cf && (length (queue s) <? max) then after_empty_cut s tf cf (length (queue s))
  else set_pc s (AtPeek tf cf (length (queue s))).
Proof. intros H. unfold wstep. rewrite H. reflexivity. Qed.

Lemma step_peek max s tf cf p : wpc s = AtPeek tf cf p ->
  wstep max s EPeek =
  let window := firstn (Nat.min p max) (queue s) in
  let '(batch, ver) := version_prefix window in
  match batch with
  | [] => after_empty_cut s tf cf p
  | _ => {| queue := queue s; wpc := AtRemove tf cf (length batch) ver; anchored := anchored s;
            discarded := discarded s; accepted := accepted s;
            boundary_seen := (length batch <? length window); stuck := stuck s |}
  end.
Proof. intros H. unfold wstep. rewrite H. reflexivity. Qed.

Lemma step_remove max s tf cf n ver : wpc s = AtRemove tf cf n ver ->
  wstep max s ERemove = set_queue s (skipn n (queue s)) (AtPrepare tf cf (firstn n (queue s)) ver).
Proof. intros H. unfold wstep. rewrite H. reflexivity. Qed.

Lemma step_prepare max s tf cf b ver ok ex : wpc s = AtPrepare tf cf b ver ->
  wstep max s (EPrepare ok ex) =
  if ok then
    let sp := split_batch (fun i => memZ i ex) [] b in
    match included sp with
    | [] => {| queue := queue s; wpc := AtReAdd tf cf b ver []; anchored := anchored s;
               discarded := discarded s ++ expired_ops sp; accepted := accepted s;
               boundary_seen := boundary_seen s; stuck := stuck s |}
    | _ :: _ => set_pc s (AtAnchor tf cf b ver sp)
    end
  else set_pc s (AtNack tf cf b).
Proof. intros H. unfold wstep. rewrite H. reflexivity. Qed.

Lemma step_anchor max s tf cf b ver sp ok : wpc s = AtAnchor tf cf b ver sp ->
  wstep max s (EAnchor ok) =
  if ok then
    {| queue := queue s; wpc := AtReAdd tf cf b ver (additional sp);
       anchored := anchored s ++ [{| ab_ver := ver; ab_removed := b; ab_included := included sp;
                                     ab_forced := cf; ab_boundary := boundary_seen s |}];
       discarded := discarded s ++ expired_ops sp; accepted := accepted s;
       boundary_seen := boundary_seen s; stuck := stuck s |}
  else set_pc s (AtNack tf cf b).
Proof. intros H. unfold wstep. rewrite H. reflexivity. Qed.

Lemma step_readd max s tf cf b ver a rest : wpc s = AtReAdd tf cf b ver (a :: rest) ->
  wstep max s EReAdd =
  set_queue s (queue s ++ [{| q_id := q_id a; q_sfx := q_sfx a; q_ty := q_ty a; q_ver := ver |}])
            (AtReAdd tf cf b ver rest).
Proof. intros H. unfold wstep. rewrite H. reflexivity. Qed.

Lemma step_ack max s tf cf b ver : wpc s = AtReAdd tf cf b ver [] ->
  wstep max s EAck = if cf then set_pc s Idle else set_pc s (AtLen tf false).
Proof. intros H. unfold wstep. rewrite H. reflexivity. Qed.

Lemma step_nack max s tf cf b : wpc s = AtNack tf cf b ->
  wstep max s ENack = set_queue s (b ++ queue s) Idle.
Proof. intros H. unfold wstep. rewrite H. reflexivity. Qed.

Lemma after_empty_cut_cases s tf cf p :
  after_empty_cut s tf cf p = set_pc s Idle \/
  (cf = false /\ after_empty_cut s tf cf p = set_pc s (AtLen tf true)).
Proof.
  unfold after_empty_cut. destruct cf; [left; reflexivity|].
  destruct (Nat.eqb p 0 || negb tf); [left | right]; auto.
Qed.

(* -- linv is preserved by every event (client Adds, failures, mismatching events included) -- *)
Lemma linv_same_pc s s' : wpc s' = wpc s -> linv s -> linv s'.
Proof. unfold linv. intros ->. auto. Qed.

Lemma linv_after_empty_cut s tf cf p : linv (after_empty_cut s tf cf p).
Proof. destruct (after_empty_cut_cases s tf cf p) as [-> | [_ ->]]; exact I. Qed.

Lemma firstn_nonempty {A} n (l : list A) : 1 <= n -> n <= length l -> firstn n l <> [].
Proof. destruct n; [lia|]. destruct l; cbn; [lia | congruence]. Qed.

Lemma wstep_linv max s e : Inv max s -> linv s -> linv (wstep max s e).
Proof.
  intros (_ & Hw & _) Hl.
  destruct e as [o|f| | | |ok ex|ok| | |].
  - (* Add *) eapply linv_same_pc; [|exact Hl]. reflexivity.
  - destruct (wpc s) eqn:Epc; try (unfold wstep; rewrite Epc; eapply linv_same_pc; [|exact Hl]; reflexivity).
    rewrite step_tick by exact Epc. exact I.
  - destruct (wpc s) eqn:Epc; try (unfold wstep; rewrite Epc; eapply linv_same_pc; [|exact Hl]; reflexivity).
    rewrite (step_len max s tf cf Epc).
    destruct (negb cf && (length (queue s) <? max)); [apply linv_after_empty_cut | exact I].
  - destruct (wpc s) eqn:Epc; try (unfold wstep; rewrite Epc; eapply linv_same_pc; [|exact Hl]; reflexivity).
    rewrite (step_peek max s tf cf pending Epc). cbv zeta.
    destruct (version_prefix (firstn (Nat.min pending max) (queue s))) as [batch ver].
    destruct batch as [|b0 bt]; [apply linv_after_empty_cut|].
    unfold linv. cbn [wpc length]. lia.
  - destruct (wpc s) eqn:Epc; try (unfold wstep; rewrite Epc; eapply linv_same_pc; [|exact Hl]; reflexivity).
    rewrite (step_remove max s tf cf n ver Epc). unfold linv, set_queue. cbn [wpc].
    unfold linv in Hl. rewrite Epc in Hl. unfold pc_wf in Hw. rewrite Epc in Hw. destruct Hw as [Hn _].
    apply firstn_nonempty; assumption.
  - destruct (wpc s) eqn:Epc; try (unfold wstep; rewrite Epc; eapply linv_same_pc; [|exact Hl]; reflexivity).
    rewrite (step_prepare max s tf cf batch ver ok ex Epc).
    unfold linv in Hl. rewrite Epc in Hl.
    destruct ok; [cbv zeta; destruct (included (split_batch (fun i => memZ i ex) [] batch)) as [|i0 ir]|];
      unfold linv, set_pc; cbn [wpc]; try exact I.
    apply split_additional_lt. exact Hl.
  - destruct (wpc s) eqn:Epc; try (unfold wstep; rewrite Epc; eapply linv_same_pc; [|exact Hl]; reflexivity).
    rewrite (step_anchor max s tf cf batch ver sp ok Epc).
    destruct ok; unfold linv, set_pc; cbn [wpc]; exact I.
  - destruct (wpc s) eqn:Epc; try (unfold wstep; rewrite Epc; eapply linv_same_pc; [|exact Hl]; reflexivity).
    destruct rest as [|a rest]; [unfold wstep; rewrite Epc; eapply linv_same_pc; [|exact Hl]; reflexivity|].
    rewrite (step_readd max s tf cf batch ver a rest Epc). exact I.
  - destruct (wpc s) eqn:Epc; try (unfold wstep; rewrite Epc; eapply linv_same_pc; [|exact Hl]; reflexivity).
    destruct rest as [|a rest]; [|unfold wstep; rewrite Epc; eapply linv_same_pc; [|exact Hl]; reflexivity].
    rewrite (step_ack max s tf cf batch ver Epc). destruct cf; exact I.
  - destruct (wpc s) eqn:Epc; try (unfold wstep; rewrite Epc; eapply linv_same_pc; [|exact Hl]; reflexivity).
    rewrite (step_nack max s tf cf batch Epc). exact I.
Qed.

Lemma wstep_rinv max s e : RInv max s -> RInv max (wstep max s e).
Proof. intros [Hi Hl]. split; [apply wstep_inv; exact Hi | apply wstep_linv; assumption]. Qed.

Lemma run_rinv max es : forall s, RInv max s -> RInv max (run max s es).
Proof.
  induction es as [|e r IH]; intros s H; [exact H|]. rewrite run_cons. apply IH. apply wstep_rinv. exact H.
Qed.

Lemma init_rinv max q : RInv max (init q).
Proof. split; [apply init_inv | exact I]. Qed.

Lemma reach_rinv max q es : RInv max (run max (init q) es).
Proof. apply run_rinv. apply init_rinv. Qed.

(* -- one thread step -- *)
Lemma rank_zero p : rank p = 0 -> p = Idle.
Proof. destruct p as [|tf cf|tf cf p|? ? ? ?|? ? ? ?|? ? ? ? ?|? ? ? ? ?|? ? ?]; cbn; try discriminate; try reflexivity;
  destruct cf; discriminate. Qed.

Lemma next_ev_none o s : next_ev o s = None -> wpc s = Idle.
Proof. unfold next_ev. destruct (wpc s) as [| | | | | |? ? ? ? rest|]; try discriminate; [reflexivity|]. destruct rest; discriminate. Qed.

Lemma next_ev_idle o s : wpc s = Idle -> next_ev o s = None.
Proof. unfold next_ev. intros ->. reflexivity. Qed.

Lemma mu_lt s s' : work s' = work s -> rank (wpc s') < rank (wpc s) -> mu s' < mu s.
Proof. unfold mu. intros -> H. lia. Qed.

Lemma mu_lt_work s s' : work s' < work s -> rank (wpc s') <= 9 + work s' -> mu s' < mu s.
Proof.
  unfold mu. intros Hw Hr.
  assert (H : (work s' + 1) * (work s' + 11) <= work s * (work s + 10)) by (apply Nat.mul_le_mono; lia).
  lia.
Qed.

Lemma firstn_skipn_length {A} n (l : list A) : length (skipn n l) + length (firstn n l) = length l.
Proof. rewrite <- (firstn_skipn n l) at 3. rewrite app_length. lia. Qed.

Definition step_ok (s s' : wstate) : Prop :=
  stuck s' = stuck s /\ accepted s' = accepted s /\ work s' <= work s /\ mu s' < mu s.

Lemma step_ok_set_pc s P :
  length (inflight P) = length (inflight (wpc s)) -> rank P < rank (wpc s) -> step_ok s (set_pc s P).
Proof.
  intros Hi Hr. assert (Hw : work (set_pc s P) = work s) by (unfold work, set_pc; cbn [queue wpc]; lia).
  repeat split; try reflexivity; [lia|]. apply mu_lt; [exact Hw | exact Hr].
Qed.

Lemma step_ok_after_empty_cut s tf (cf : bool) p :
  inflight (wpc s) = [] -> (if cf then 1 else 7) <= rank (wpc s) ->
  step_ok s (after_empty_cut s tf cf p).
Proof.
  intros Hi Hr. destruct (after_empty_cut_cases s tf cf p) as [-> | [Hcf ->]].
  - apply step_ok_set_pc; rewrite ?Hi; cbn [inflight rank length]; [reflexivity|]. destruct cf; lia.
  - subst cf. apply step_ok_set_pc; rewrite ?Hi; cbn [inflight rank length]; [reflexivity | lia].
Qed.

Lemma thread_step max o s e :
  RInv max s -> next_ev o s = Some e -> step_ok s (wstep max s e).
Proof.
  intros [(_ & Hw & _) Hl] He. unfold next_ev in He.
  destruct (wpc s) as [|tf cf|tf cf p|tf cf n ver|tf cf b ver|tf cf b ver sp|tf cf b ver rest|tf cf b] eqn:Epc.
  - discriminate.
  - injection He as <-. rewrite (step_len max s tf cf Epc).
    destruct (negb cf && (length (queue s) <? max)) eqn:Eg.
    + apply step_ok_after_empty_cut; rewrite Epc; [reflexivity|]. destruct cf; cbn in *; [discriminate | lia].
    + apply step_ok_set_pc; rewrite Epc; [reflexivity|]. destruct cf; cbn; lia.
  - injection He as <-. rewrite (step_peek max s tf cf p Epc). cbv zeta.
    destruct (version_prefix (firstn (Nat.min p max) (queue s))) as [batch ver].
    destruct batch as [|b0 bt].
    + apply step_ok_after_empty_cut; rewrite Epc; [reflexivity|]. destruct cf; cbn; lia.
    + assert (Hwk : work {| queue := queue s; wpc := AtRemove tf cf (length (b0 :: bt)) ver; anchored := anchored s;
                            discarded := discarded s; accepted := accepted s;
                            boundary_seen := (length (b0 :: bt) <? length (firstn (Nat.min p max) (queue s))); stuck := stuck s |} = work s)
        by (unfold work; cbn [queue wpc inflight]; rewrite Epc; reflexivity).
      repeat split; try reflexivity; [lia|]. apply mu_lt; [exact Hwk|]. cbn [wpc]. rewrite Epc. destruct cf; cbn; lia.
  - injection He as <-. rewrite (step_remove max s tf cf n ver Epc).
    assert (Hwk : work (set_queue s (skipn n (queue s)) (AtPrepare tf cf (firstn n (queue s)) ver)) = work s).
    { unfold work, set_queue. cbn [queue wpc inflight]. rewrite Epc. cbn [inflight length]. rewrite firstn_skipn_length. lia. }
    repeat split; try reflexivity; [lia|]. apply mu_lt; [exact Hwk|]. cbn [wpc set_queue]. rewrite Epc. cbn. lia.
  - injection He as <-. rewrite (step_prepare max s tf cf b ver _ _ Epc).
    destruct (o_ok o s); [cbv zeta; destruct (included (split_batch (fun i => memZ i (o_expired o s)) [] b)) as [|i0 ir]|].
    + (* F16: the whole batch expired - it is settled (discarded) without an anchor write *)
      unfold linv in Hl. rewrite Epc in Hl.
      assert (Hb : 1 <= length b) by (destruct b; [congruence | cbn; lia]).
      set (s' := {| queue := queue s; wpc := AtReAdd tf cf b ver []; anchored := anchored s;
                    discarded := discarded s ++ expired_ops (split_batch (fun i => memZ i (o_expired o s)) [] b);
                    accepted := accepted s; boundary_seen := boundary_seen s; stuck := stuck s |}).
      assert (Hwk : work s' < work s).
      { unfold work, s'. cbn [queue wpc inflight]. rewrite Epc. cbn [inflight length]. lia. }
      repeat split; try reflexivity; [lia|]. apply mu_lt_work; [exact Hwk|].
      unfold work, s'. cbn [queue wpc inflight rank length]. lia.
    + apply step_ok_set_pc; rewrite Epc; cbn; try reflexivity; lia.
    + apply step_ok_set_pc; rewrite Epc; cbn; try reflexivity; lia.
  - injection He as <-. rewrite (step_anchor max s tf cf b ver sp _ Epc).
    destruct (o_ok o s).
    + unfold linv in Hl. rewrite Epc in Hl.
      assert (Hwk : work {| queue := queue s; wpc := AtReAdd tf cf b ver (additional sp);
                            anchored := anchored s ++ [{| ab_ver := ver; ab_removed := b; ab_included := included sp;
                                                          ab_forced := cf; ab_boundary := boundary_seen s |}];
                            discarded := discarded s ++ expired_ops sp; accepted := accepted s;
                            boundary_seen := boundary_seen s; stuck := stuck s |} < work s).
      { unfold work. cbn [queue wpc inflight]. rewrite Epc. cbn [inflight]. lia. }
      repeat split; try reflexivity; [lia|]. apply mu_lt_work; [exact Hwk|].
      unfold work. cbn [queue wpc inflight rank]. lia.
    + apply step_ok_set_pc; rewrite Epc; cbn; try reflexivity; lia.
  - destruct rest as [|a rest]; injection He as <-.
    + rewrite (step_ack max s tf cf b ver Epc).
      destruct cf; apply step_ok_set_pc; rewrite Epc; cbn; try reflexivity; lia.
    + rewrite (step_readd max s tf cf b ver a rest Epc).
      assert (Hwk : work (set_queue s (queue s ++ [{| q_id := q_id a; q_sfx := q_sfx a; q_ty := q_ty a; q_ver := ver |}])
                                    (AtReAdd tf cf b ver rest)) = work s).
      { unfold work, set_queue. cbn [queue wpc inflight]. rewrite Epc. cbn [inflight length]. rewrite app_length. cbn [length]. lia. }
      repeat split; try reflexivity; [lia|]. apply mu_lt; [exact Hwk|]. cbn [wpc set_queue]. rewrite Epc. cbn. lia.
  - injection He as <-. rewrite (step_nack max s tf cf b Epc).
    assert (Hwk : work (set_queue s (b ++ queue s) Idle) = work s).
    { unfold work, set_queue. cbn [queue wpc inflight]. rewrite Epc. cbn [inflight length]. rewrite app_length. lia. }
    repeat split; try reflexivity; [lia|]. apply mu_lt; [exact Hwk|]. cbn [wpc set_queue]. rewrite Epc. cbn. lia.
Qed.

(* -- the thread's continuation terminates in Idle; path invariants carry over -- *)
Lemma thread_run max o (P : wstate -> Prop) :
  (forall s e, RInv max s -> P s -> next_ev o s = Some e -> P (wstep max s e)) ->
  forall fuel s, RInv max s -> P s -> mu s <= fuel ->
  let s' := run max s (thread max o fuel s) in
  P s' /\ wpc s' = Idle /\ RInv max s' /\ stuck s' = stuck s /\ accepted s' = accepted s /\ work s' <= work s.
Proof.
  intros Hstep. induction fuel as [|k IH]; intros s Hi Hp Hmu.
  - cbn. assert (Hr : rank (wpc s) = 0) by (unfold mu in Hmu; lia).
    apply rank_zero in Hr. repeat split; auto; apply Hi.
  - cbn [thread]. destruct (next_ev o s) as [e|] eqn:Ee.
    + rewrite run_cons.
      destruct (thread_step max o s e Hi Ee) as (Hs & Ha & Hw & Hm).
      destruct (IH (wstep max s e)) as (Hp' & Hpc' & Hi' & Hs' & Ha' & Hw').
      * apply wstep_rinv. exact Hi.
      * apply (Hstep s e); assumption.
      * lia.
      * cbv zeta. repeat split; try assumption; try apply Hi'; try congruence. lia.
    + cbn. apply next_ev_none in Ee. repeat split; auto; apply Hi.
Qed.

Lemma finish_run max o (P : wstate -> Prop) :
  (forall s e, RInv max s -> P s -> next_ev o s = Some e -> P (wstep max s e)) ->
  forall s, RInv max s -> P s ->
  let s' := run max s (finish_events max o s) in
  P s' /\ wpc s' = Idle /\ RInv max s' /\ stuck s' = stuck s /\ accepted s' = accepted s /\ work s' <= work s.
Proof. intros Hstep s Hi Hp. apply (thread_run max o P Hstep (mu s) s Hi Hp). lia. Qed.

(* -- path invariant of a forced failure-free tick: a cut is certain, then work has decreased -- *)
Lemma firstn_min_cons {A} p max (x : A) l : 1 <= p -> 1 <= max ->
  firstn (Nat.min p max) (x :: l) = x :: firstn (Nat.min p max - 1) l.
Proof. intros Hp Hm. destruct (Nat.min p max) eqn:E; [lia|]. cbn. rewrite Nat.sub_0_r. reflexivity. Qed.

Lemma version_prefix_cons o w : version_prefix (o :: w) = (o :: same_version_prefix (q_ver o) w, q_ver o).
Proof. unfold version_prefix. cbn [same_version_prefix]. rewrite Z.eqb_refl. reflexivity. Qed.

Definition progress_inv (max w0 : nat) (s : wstate) : Prop := work s < w0 \/ (work s = w0 /\ will_cut max s).

Lemma progress_step max o w0 s e :
  0 < max -> failure_free o -> RInv max s -> progress_inv max w0 s -> next_ev o s = Some e ->
  progress_inv max w0 (wstep max s e).
Proof.
  intros Hmax Hff Hi [Hlt | [Heq Hc]] He.
  - left. destruct (thread_step max o s e Hi He) as (_ & _ & Hw & _). lia.
  - destruct Hi as [(_ & Hwf & _) Hl]. unfold next_ev in He. unfold will_cut in Hc.
    destruct (wpc s) as [|tf cf|tf cf p|tf cf n ver|tf cf b ver|tf cf b ver sp|tf cf b ver rest|tf cf b] eqn:Epc;
      try contradiction.
    + (* AtLen: queue not empty, and forced or a full batch *)
      destruct Hc as [Hne Hwhy]. injection He as <-. rewrite (step_len max s tf cf Epc).
      assert (Hq : 1 <= length (queue s)) by (destruct (queue s); [congruence | cbn; lia]).
      right. destruct (negb cf && (length (queue s) <? max)) eqn:Eg.
      * apply andb_true_iff in Eg. destruct Eg as [Ecf Elt]. apply Nat.ltb_lt in Elt.
        destruct cf; [discriminate|]. destruct Hwhy as [-> | [Hx | Hx]]; [|discriminate | lia].
        unfold after_empty_cut.
        replace (Nat.eqb (length (queue s)) 0) with false by (symmetry; apply Nat.eqb_neq; lia).
        cbn [orb negb]. split.
        -- unfold work, set_pc in *. cbn [queue wpc inflight]. rewrite Epc in Heq. cbn [inflight] in Heq. exact Heq.
        -- unfold will_cut, set_pc. cbn [wpc queue]. split; [exact Hne | right; left; reflexivity].
      * split.
        -- unfold work, set_pc in *. cbn [queue wpc inflight]. rewrite Epc in Heq. cbn [inflight] in Heq. exact Heq.
        -- unfold will_cut, set_pc. cbn [wpc]. exact Hq.
    + (* AtPeek, 1 <= p *)
      injection He as <-. rewrite (step_peek max s tf cf p Epc). cbv zeta.
      unfold pc_wf in Hwf. rewrite Epc in Hwf. destruct Hwf as [Hp _].
      destruct (queue s) as [|x q'] eqn:Eq; [cbn in Hp; lia|].
      rewrite firstn_min_cons by lia. rewrite version_prefix_cons.
      right. split.
      * unfold work in *. cbn [queue wpc inflight]. rewrite Epc, Eq in Heq. cbn [inflight] in Heq. exact Heq.
      * unfold will_cut. cbn [wpc]. exact I.
    + injection He as <-. rewrite (step_remove max s tf cf n ver Epc). right. split.
      * unfold work, set_queue in *. cbn [queue wpc inflight]. rewrite Epc in Heq. cbn [inflight length] in Heq.
        rewrite firstn_skipn_length. lia.
      * exact I.
    + injection He as <-. rewrite (step_prepare max s tf cf b ver _ _ Epc). rewrite Hff. cbv zeta.
      destruct (included (split_batch (fun i => memZ i (o_expired o s)) [] b)) as [|i0 ir].
      * (* F16: the whole batch expired: it is settled right here *)
        left. unfold linv in Hl. rewrite Epc in Hl.
        assert (Hb : 1 <= length b) by (destruct b; [congruence | cbn; lia]).
        unfold work in *. cbn [queue wpc inflight]. rewrite Epc in Heq. cbn [inflight length] in *. lia.
      * right. split.
        -- unfold work, set_pc in *. cbn [queue wpc inflight]. rewrite Epc in Heq. exact Heq.
        -- exact I.
    + injection He as <-. rewrite (step_anchor max s tf cf b ver sp _ Epc). rewrite Hff. left.
      unfold linv in Hl. rewrite Epc in Hl. unfold work in *. cbn [queue wpc inflight]. rewrite Epc in Heq.
      cbn [inflight] in Heq. lia.
Qed.

(* -- path invariant of a tick in which every cut fails: the handler fails, or it prepares a batch (not all
      expired) and the anchor write fails -- *)
Definition transparent_inv (q0 : list qop) (a0 : list anchored_batch) (d0 : list qop) (s : wstate) : Prop :=
  inflight (wpc s) ++ queue s = q0 /\ anchored s = a0 /\ discarded s = d0 /\ not_readd (wpc s).

Lemma transparent_after_empty_cut q0 a0 d0 s tf cf p :
  inflight (wpc s) = [] -> transparent_inv q0 a0 d0 s -> transparent_inv q0 a0 d0 (after_empty_cut s tf cf p).
Proof.
  intros Hi (Hq & Ha & Hd & _). rewrite Hi in Hq.
  destruct (after_empty_cut_cases s tf cf p) as [-> | [_ ->]]; repeat split; assumption.
Qed.

Lemma transparent_step max o q0 a0 d0 s e :
  cut_fails o -> RInv max s -> transparent_inv q0 a0 d0 s -> next_ev o s = Some e ->
  transparent_inv q0 a0 d0 (wstep max s e).
Proof.
  intros Hfail [_ Hl] Ht He. pose proof Ht as (Hq & Ha & Hd & Hn). unfold next_ev in He.
  destruct (wpc s) as [|tf cf|tf cf p|tf cf n ver|tf cf b ver|tf cf b ver sp|tf cf b ver rest|tf cf b] eqn:Epc.
  - discriminate.
  - injection He as <-. rewrite (step_len max s tf cf Epc).
    destruct (negb cf && (length (queue s) <? max)).
    + apply transparent_after_empty_cut; [rewrite Epc; reflexivity | exact Ht].
    + repeat split; assumption.
  - injection He as <-. rewrite (step_peek max s tf cf p Epc). cbv zeta.
    destruct (version_prefix (firstn (Nat.min p max) (queue s))) as [batch ver].
    destruct batch as [|b0 bt].
    + apply transparent_after_empty_cut; [rewrite Epc; reflexivity | exact Ht].
    + repeat split; assumption.
  - injection He as <-. rewrite (step_remove max s tf cf n ver Epc). cbn [inflight app] in Hq.
    unfold transparent_inv, set_queue. cbn [queue wpc inflight anchored discarded]. rewrite firstn_skipn.
    repeat split; assumption.
  - injection He as <-. rewrite (step_prepare max s tf cf b ver _ _ Epc).
    specialize (Hfail s). rewrite Epc in Hfail. unfold linv in Hl. rewrite Epc in Hl.
    destruct (o_ok o s); [|repeat split; assumption]. cbv zeta.
    destruct (included (split_batch (fun i => memZ i (o_expired o s)) [] b)) as [|i0 ir];
      [destruct (Hfail eq_refl Hl eq_refl)|].
    repeat split; assumption.
  - injection He as <-. rewrite (step_anchor max s tf cf b ver sp _ Epc).
    specialize (Hfail s). rewrite Epc in Hfail. rewrite Hfail. repeat split; assumption.
  - contradiction.
  - injection He as <-. rewrite (step_nack max s tf cf b Epc). cbn [inflight] in Hq.
    unfold transparent_inv, set_queue. cbn [queue wpc inflight anchored discarded app].
    repeat split; assumption.
Qed.

(* -- a tick that finds fewer than max operations and is not forced does nothing -- *)
Definition small_inv (max : nat) (q0 : list qop) (a0 : list anchored_batch) (d0 : list qop) (s : wstate) : Prop :=
  queue s = q0 /\ anchored s = a0 /\ discarded s = d0 /\ (wpc s = Idle \/ wpc s = AtLen false false).

Lemma small_step max o q0 a0 d0 s e :
  length q0 < max -> small_inv max q0 a0 d0 s -> next_ev o s = Some e -> small_inv max q0 a0 d0 (wstep max s e).
Proof.
  intros Hlt (Hq & Ha & Hd & [Hpc | Hpc]) He; unfold next_ev in He; rewrite Hpc in He; [discriminate|].
  injection He as <-. rewrite (step_len max s false false Hpc). rewrite Hq.
  replace (length q0 <? max) with true by (symmetry; apply Nat.ltb_lt; exact Hlt).
  cbn [negb andb]. unfold after_empty_cut. rewrite orb_true_r.
  repeat split; try assumption. left. reflexivity.
Qed.

(* -- with a maximum operation count of 0 nothing is ever cut -- *)
Definition max0_inv (q0 : list qop) (a0 : list anchored_batch) (d0 : list qop) (s : wstate) : Prop :=
  queue s = q0 /\ anchored s = a0 /\ discarded s = d0 /\
  match wpc s with Idle | AtLen _ _ | AtPeek _ _ _ => True | _ => False end.

Lemma max0_after_empty_cut q0 a0 d0 s tf cf p :
  max0_inv q0 a0 d0 s -> max0_inv q0 a0 d0 (after_empty_cut s tf cf p).
Proof.
  intros (Hq & Ha & Hd & _). destruct (after_empty_cut_cases s tf cf p) as [-> | [_ ->]]; repeat split; assumption.
Qed.

Lemma max0_step o q0 a0 d0 s e :
  max0_inv q0 a0 d0 s -> next_ev o s = Some e -> max0_inv q0 a0 d0 (wstep 0 s e).
Proof.
  intros Hm He. pose proof Hm as (Hq & Ha & Hd & Hpc). unfold next_ev in He.
  destruct (wpc s) as [|tf cf|tf cf p| | | | |] eqn:Epc; try contradiction.
  - discriminate.
  - injection He as <-. rewrite (step_len 0 s tf cf Epc). rewrite andb_false_r. repeat split; assumption.
  - injection He as <-. rewrite (step_peek 0 s tf cf p Epc). rewrite Nat.min_0_r. cbn [firstn version_prefix].
    apply max0_after_empty_cut. exact Hm.
Qed.

(* -- client Adds -- *)
Lemma run_adds max l : forall s,
  run max s (adds l) =
  {| queue := queue s ++ l; wpc := wpc s; anchored := anchored s; discarded := discarded s;
     accepted := accepted s ++ l; boundary_seen := boundary_seen s; stuck := stuck s |}.
Proof.
  induction l as [|o r IH]; intros s.
  - cbn. rewrite !app_nil_r. destruct s; reflexivity.
  - cbn [adds map]. rewrite run_cons. fold (adds r). rewrite IH. cbn [wstep queue wpc anchored discarded accepted boundary_seen stuck].
    rewrite <- !app_assoc. reflexivity.
Qed.

(* -- lengths from conservation -- *)
Lemma conserved_length s : conserved s -> length (accepted s) = work s + settled s.
Proof.
  unfold conserved, all_ops, work, settled. intros H. apply Permutation_length in H.
  unfold ids in H. rewrite !map_length, !app_length in H. lia.
Qed.
